"""Minimal SpiDev-style fake radio for the BLE checks (C18/C19).

Only what `FakeBLE` needs: every register read returns what was last written (instance state, no
class-level sharing), STATUS reads as 0x0E (RX FIFO empty).  The payload traffic itself is scripted
by the checks (they patch `send` on the instance and `RF24.available` / `RF24.read` for reception),
so no FIFO is simulated here.
"""
from __future__ import annotations


class BasicSpiDev:  # the class name must end in "SpiDev" (rf24.py picks SPIDevCtx by that)
    def __init__(self):
        self.no_cs = True
        self.regs = {
            0x00: bytearray([0x08]), 0x01: bytearray([0x3F]), 0x02: bytearray([0x03]),
            0x03: bytearray([0x03]), 0x04: bytearray([0x03]), 0x05: bytearray([0x02]),
            0x06: bytearray([0x0E]), 0x07: bytearray([0x0E]), 0x08: bytearray([0]),
            0x09: bytearray([0]),
            0x0A: bytearray(b"\xe7" * 5), 0x0B: bytearray(b"\xc2" * 5), 0x0C: bytearray([0xC3]),
            0x0D: bytearray([0xC4]), 0x0E: bytearray([0xC5]), 0x0F: bytearray([0xC6]),
            0x10: bytearray(b"\xe7" * 5),
            0x11: bytearray([0]), 0x12: bytearray([0]), 0x13: bytearray([0]), 0x14: bytearray([0]),
            0x15: bytearray([0]), 0x16: bytearray([0]), 0x17: bytearray([0x11]),
            0x1C: bytearray([0]), 0x1D: bytearray([0]),
        }
        self.tx = []  # payloads written with W_TX_PAYLOAD (not used by the checks' comparison)

    def open(self, bus, device):
        return (bus, device)

    def close(self):
        return

    def xfer2(self, out_buf, baud_rate=0):
        cmd = out_buf[0]
        n = len(out_buf)
        status = bytes([self.regs[7][0]])
        if cmd < 0x20:  # R_REGISTER
            val = bytes(self.regs.get(cmd, bytearray([0])))
            return bytearray((status + val + b"\0" * n)[:n])
        if cmd < 0x40:  # W_REGISTER
            reg = cmd & 0x1F
            if reg == 7:
                pass  # flags are write-1-to-clear; nothing is ever latched here
            elif reg in (0x0A, 0x0B, 0x10):
                cur = self.regs[reg]
                cur[: n - 1] = out_buf[1:n]
                self.regs[reg] = cur[:5]
            elif n > 1:
                self.regs[reg] = bytearray(out_buf[1:2])
            return bytearray(status + b"\0" * (n - 1))
        if cmd in (0xA0, 0xB0):
            self.tx.append(bytes(out_buf[1:]))
        return bytearray(status + b"\0" * (n - 1))


class BasicPin:
    def __init__(self):
        self.value = False

    def switch_to_output(self, value=False):
        self.value = value


def rf_ch(spi: BasicSpiDev) -> int:
    return spi.regs[5][0]
