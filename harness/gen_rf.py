"""Generators of `rf …` session lines for the RF24 driver (all randomness from the given rng)."""
from __future__ import annotations

import random

ADDRS = ["3132333435", "3132333436", "e7e7e7e7e7", "c2c2c2c2c2", "aabbccddee", "31323334", "313233", "31", "aabb",
         "0000000000", "ffffffffff", "3232333435"]


def hx(b: bytes) -> str:
    return b.hex() if b else "-"


def rbytes(rng: random.Random, n: int) -> str:
    return hx(bytes(rng.randrange(256) for _ in range(n)))


def r_int(rng, lo, hi, wide=True):
    """mostly inside [lo, hi], sometimes boundary ±1, sometimes far outside / negative"""
    x = rng.random()
    if x < 0.65:
        return rng.randint(lo, hi)
    if x < 0.85:
        return rng.choice([lo - 1, lo, lo + 1, hi - 1, hi, hi + 1])
    if not wide:
        return rng.randint(lo, hi)
    return rng.choice([-300, -256, -129, -128, -33, -7, -2, -1, 0, 1, 127, 128, 255, 256, 257, 300, 1000, 4001, 70000])


def r_bool(rng):
    return rng.choice("TF")


def r_arg_bits(rng):
    x = rng.random()
    if x < 0.3:
        return r_bool(rng)
    if x < 0.6:
        return str(r_int(rng, 0, 63))
    if x < 0.95:
        n = rng.choice([0, 1, 2, 3, 5, 6, 6, 6, 7, 8])
        return "[" + ",".join(str(rng.choice([0, 1, 1, -1, 2, 0])) for _ in range(n)) + "]"
    return "X"


def r_pipe(rng, none_ok=False):
    x = rng.random()
    if none_ok and x < 0.15:
        return "N"
    if x < 0.8:
        return str(rng.randint(0, 5))
    return str(rng.choice([-7, -6, -2, -1, 6, 7, 10, 250]))


def r_addr(rng):
    if rng.random() < 0.7:
        return rng.choice(ADDRS)
    return rbytes(rng, rng.choice([1, 2, 3, 4, 5, 5, 5]))


def config_op(rng: random.Random, o="a", lite=False) -> str:
    """one call of the C03 alphabet"""
    k = rng.randrange(46)
    if k == 0:
        return f"{o} set channel {r_int(rng, 0, 125)}"
    if k == 1:
        return f"{o} get channel"
    if k == 2:
        return f"{o} set data_rate {rng.choice([1, 2, 250, 250, 1, 2, 0, 3, -1, 1000])}"
    if k == 3:
        return f"{o} get data_rate"
    if k == 4:
        v = rng.choice([-18, -12, -6, 0, -18, -12, -6, 0, -5, 6, 1, -24, "T", "F", "X", "[-6]"])
        if rng.random() < 0.3 and isinstance(v, int):
            return f"{o} set pa_level {v} {r_bool(rng)}"
        return f"{o} set pa_level {v}"
    if k == 5:
        return f"{o} get pa_level"
    if k == 6:
        return f"{o} get is_lna_enabled"
    if k == 7:
        return f"{o} set crc {rng.choice([0, 1, 2, 0, 1, 2, 3, -1, -2, 5, 255])}"
    if k == 8:
        return f"{o} get crc"
    if k == 9:
        return f"{o} set address_length {rng.choice([3, 4, 5, 3, 4, 5, 2, 6, 0, -1, 100])}"
    if k == 10:
        return f"{o} get address_length"
    if k == 11:
        return f"{o} set ard {r_int(rng, 250, 4000)}"
    if k == 12:
        return f"{o} get ard"
    if k == 13:
        return f"{o} set arc {r_int(rng, 0, 15)}"
    if k == 14:
        return f"{o} get arc"
    if k == 15:
        return f"{o} set_auto_retries {r_int(rng, 250, 4000)} {r_int(rng, 0, 15)}"
    if k == 16:
        return f"{o} get_auto_retries"
    if k == 17:
        return f"{o} set auto_ack {r_arg_bits(rng)}"
    if k == 18:
        return f"{o} get auto_ack"
    if k == 19:
        return f"{o} set_auto_ack {r_bool(rng)} {r_pipe(rng, True)}"
    if k == 20:
        return f"{o} get_auto_ack {r_pipe(rng)}"
    if k == 21:
        return f"{o} set dynamic_payloads {r_arg_bits(rng)}"
    if k == 22:
        return f"{o} get dynamic_payloads"
    if k == 23:
        return f"{o} set_dynamic_payloads {r_bool(rng)} {r_pipe(rng, True)}"
    if k == 24:
        return f"{o} get_dynamic_payloads {r_pipe(rng)}"
    if k == 25:
        x = rng.random()
        if x < 0.6:
            return f"{o} set payload_length {r_int(rng, 1, 32)}"
        if x < 0.95:
            n = rng.choice([0, 1, 3, 6, 6, 7])
            return f"{o} set payload_length [" + ",".join(str(r_int(rng, 1, 32)) for _ in range(n)) + "]"
        return f"{o} set payload_length X"
    if k == 26:
        return f"{o} get payload_length"
    if k == 27:
        return f"{o} set_payload_length {r_int(rng, 1, 32)} {r_pipe(rng, True)}"
    if k == 28:
        return f"{o} get_payload_length {r_pipe(rng)}"
    if k == 29:
        return f"{o} set ack {r_bool(rng)}"
    if k == 30:
        return f"{o} get ack"
    if k == 31:
        return f"{o} set allow_ask_no_ack {r_bool(rng)}"
    if k == 32:
        return f"{o} get allow_ask_no_ack"
    if k == 33:
        return f"{o} interrupt_config {r_bool(rng)} {r_bool(rng)} {r_bool(rng)}"
    if k == 34:
        return f"{o} set power {r_bool(rng)}"
    if k == 35:
        return f"{o} get power"
    if k == 36:
        return f"{o} open_rx_pipe {r_pipe(rng)} {r_addr(rng) if rng.random() < 0.95 else '-'}"
    if k == 37:
        return f"{o} close_rx_pipe {r_pipe(rng)}"
    if k == 38:
        return f"{o} open_tx_pipe {r_addr(rng)}"
    if k == 39:
        return f"{o} address {rng.choice([-1, 0, 1, 2, 3, 4, 5, 6, -2])}"
    if k == 40:
        return f"{o} set listen {r_bool(rng)}"
    if k == 41:
        return f"{o} get listen"
    if k == 42:
        return f"{o} start_carrier_wave ; {o} stop_carrier_wave"
    if k == 43:
        return f"{o} load_ack {rbytes(rng, rng.choice([0, 1, 5, 32, 33]))} {r_pipe(rng)}"
    if k == 44:
        return f"{o} get is_plus_variant"
    return f"{o} get listen"


def traffic_op(rng: random.Random, o="a", rid=0) -> str:
    k = rng.randrange(25)
    if k == 24:
        # the CE pin "for advanced usage": read back, or driven by the application (starts / stops transmitting
        # whatever write(write_only=True) queued; stops / resumes listening)
        return rng.choice([f"{o} get ce_pin", f"{o} set ce_pin 1", f"{o} set ce_pin 0"])
    if k == 0:
        return f"{o} available"
    if k == 1:
        return f"{o} any"
    if k == 2:
        return f"{o} read N"
    if k == 3:
        return f"{o} get pipe"
    if k == 4:
        return f"{o} update"
    if k == 5:
        return f"{o} fifo {r_bool(rng)} {rng.choice('NTF')}"
    if k == 6:
        return f"{o} get tx_full"
    if k == 7:
        return f"{o} get irq_{rng.choice(['dr', 'ds', 'df'])}"
    if k == 8:
        return f"{o} clear_status_flags {r_bool(rng)} {r_bool(rng)} {r_bool(rng)}"
    if k == 9:
        return f"{o} flush_rx"
    if k == 10:
        return f"{o} flush_tx"
    if k == 11:
        return f"{o} get last_tx_arc"
    if k in (12, 13, 14):
        n = rng.choice([1, 1, 2, 5, 8, 31, 32, 32, 0, 33, 40])
        return f"{o} send {rng.choice('mi')}:{rbytes(rng, n)} {rng.choice('FFFT')} {rng.choice([0, 0, 0, 1, 2, 3])} {rng.choice('FFT')}"
    if k == 15:
        n = rng.choice([1, 4, 32, 0, 33])
        return f"{o} write {rng.choice('mi')}:{rbytes(rng, n)} {rng.choice('FFT')} {rng.choice('FFT')}"
    if k == 16:
        return f"{o} resend {rng.choice('FFT')}"
    if k in (17, 18, 19):
        n = rng.choice([1, 2, 5, 32, 32, 8])
        return f"env inject {rid} {rng.randint(0, 5)} {rbytes(rng, n)}"
    if k == 20:
        return "env faults " + ("".join(rng.choice("DDDLLA") for _ in range(rng.randint(0, 24))) or "-")
    if k == 21:
        return f"{o} get rpd"
    if k == 22:
        return f"{o} read {rng.choice([1, 5, 32])}"
    return f"{o} set listen {r_bool(rng)}"


def session_config(rng: random.Random, depth: int, plus=None) -> str:
    plus = rng.random() < 0.8 if plus is None else plus
    ops = ["new a rf24 0", "a enter"]
    for _ in range(depth):
        ops.append(config_op(rng))
    return f"rf 1 {1 if plus else 0} " + " ; ".join(ops)


def session_mixed(rng: random.Random, depth: int) -> str:
    plus = rng.random() < 0.8
    ops = ["new a rf24 0", "a enter"]
    for _ in range(depth):
        ops.append(config_op(rng) if rng.random() < 0.4 else traffic_op(rng))
    return f"rf 1 {1 if plus else 0} " + " ; ".join(ops)


DFLT_FORMS_LITE = ["send {buf}", "write {buf}", "resend", "read", "fifo", "clear_status_flags", "interrupt_config"]
DFLT_FORMS = DFLT_FORMS_LITE + ["set_dynamic_payloads {b}", "get_dynamic_payloads", "set_payload_length {n}", "get_payload_length",
                                "address"]


def defaults_session(rng: random.Random, cls="rf24", cfg_op=None) -> str:
    """calls that leave every optional parameter at its default (`dflt …`), between ordinary configuration calls,
    with payloads injected so that read()/fifo() have something to report"""
    lite = cls == "lite"
    ops = [f"new a {cls} 0"] + ([] if lite else ["a enter"])
    for _ in range(rng.randint(6, 18)):
        x = rng.random()
        if x < 0.25:
            op = cfg_op(rng, "a") if cfg_op else config_op(rng, "a", lite=lite)
            if "carrier_wave" not in op:
                ops.append(op)
        elif x < 0.37:
            ops.append(f"env inject 0 {rng.randint(0, 5)} {rbytes(rng, rng.randint(1, 32))}")
        elif x < 0.45:
            ops.append(f"a set listen {rng.choice('TF')}")
        else:
            f = rng.choice(DFLT_FORMS_LITE if lite else DFLT_FORMS)
            ops.append("a dflt " + f.format(buf=rng.choice("im") + ":" + rbytes(rng, rng.randint(1, 32)), b=rng.choice("TF"),
                                            n=rng.randint(1, 32)))
    return "rf 1 1 " + " ; ".join(ops)
