"""Implementation adapter shared by C06 / C11 / C12: runs the driver's line protocol
(`NrfModel/Drv/Structs.lean`) on the real `network/structs.py`, `network/mixins.py`,
`rf24_network.py` and prints the same canonical strings."""
from types import SimpleNamespace

from harness.framework import Infra, exc_name


def _mods():
    from circuitpython_nrf24l01.network import structs, mixins
    return structs, mixins


def hexs(b) -> str:
    b = bytes(b)
    return b.hex() if b else "-"


def unhex(s: str) -> bytes:
    return b"" if s == "-" else bytes.fromhex(s)


def parse_type(s: str):
    if s[0] == "i":
        return int(s[1:])
    if s[0] == "s":
        return "" if len(s) == 1 else "".join(chr(int(c)) for c in s[1:].split("_"))
    raise Infra("bad type " + s)


def show_type(t) -> str:
    if isinstance(t, str):
        return "s" + "_".join(str(ord(c)) for c in t)
    return f"i{t}"


class CounterKept:
    """construct library objects without disturbing the class-level header id counter"""

    def __enter__(self):
        st, _ = _mods()
        self.h = st.RF24NetworkHeader
        self.v = self.h._RF24NetworkHeader__next_id
        return self

    def __exit__(self, *a):
        self.h._RF24NetworkHeader__next_id = self.v
        return False


def get_counter() -> int:
    st, _ = _mods()
    return st.RF24NetworkHeader._RF24NetworkHeader__next_id


def set_counter(n: int):
    st, _ = _mods()
    st.RF24NetworkHeader._RF24NetworkHeader__next_id = n


def set_header(h, fields):
    f, t, i, ty, r = fields
    h.from_node, h.to_node, h.frame_id = int(f), int(t), int(i)
    h.message_type, h.reserved = parse_type(ty), int(r)


def make_header(fields):
    st, _ = _mods()
    with CounterKept():
        h = st.RF24NetworkHeader()
    set_header(h, fields)
    return h


def make_frame(s: str):
    st, _ = _mods()
    *hf, m = s.split("/")
    with CounterKept():
        fr = st.RF24NetworkFrame()
    set_header(fr.header, hf)
    fr.message = unhex(m)
    return fr


def show_header(h) -> str:
    return f"{h.from_node}/{h.to_node}/{h.frame_id}/{show_type(h.message_type)}/{h.reserved}"


def show_frame(fr) -> str:
    return show_header(fr.header) + "/" + hexs(fr.message)


def guarded(fn):
    try:
        return fn()
    except Exception as e:  # noqa: BLE001 - the exception class is the observation
        return "exc=" + exc_name(e)


# ------------------------------------------------------------------------------------------
def op_hpack(a):
    h = make_header(a)
    return guarded(lambda: hexs(h.pack()))


def op_hunpack(a):
    h = make_header(a[:5])
    ok = h.unpack(unhex(a[5]))
    return f"{int(bool(ok))} {show_header(h)}"


def op_hinit(a):
    st, _ = _mods()
    n, to, ty = a
    saved = get_counter()
    try:
        set_counter(int(n))
        to = None if to == "none" else int(to)
        mt = None if ty == "none" else parse_type(ty)

        def go():
            h = st.RF24NetworkHeader(to, mt)
            return f"{show_header(h)} next={get_counter()} len={len(h)}"
        return guarded(go)
    finally:
        set_counter(saved)


def op_fpack(a):
    fr = make_frame(a[0])
    return guarded(lambda: hexs(fr.pack()))


def op_funpack(a):
    fr = make_frame(a[0])
    ok = fr.unpack(unhex(a[1]))
    return f"{int(bool(ok))} {show_frame(fr)} len={len(fr)}"


def op_isack(a):
    fr = make_frame(f"0/0/0/{a[0]}/0/-")
    return guarded(lambda: str(int(bool(fr.is_ack_type()))))


_NETS = {}


def op_write(a):
    """`write <node_addr> <max_len> <frag_enabled> <frame>` on a real RF24Network"""
    from harness.shim_net import make_network
    addr, ml, fe, f = a
    key = int(addr)
    if key not in _NETS:
        saved = get_counter()
        _NETS[key] = make_network(key)
        set_counter(saved)
    net, sent = _NETS[key]
    saved = get_counter()
    try:
        # put the node into the requested configuration through its public attributes
        net.fragmentation = bool(int(fe))
        net.max_message_length = int(ml)
        while net.queue.dequeue() is not None:
            pass
        del sent[:]
        fr = make_frame(f)

        def go():
            net.write(fr)
            frames = ",".join(hexs(p) for p in sent) if sent else "none"
            lb = int(not sent)  # nothing handed to send(): _write_to_pipe() enqueued locally
            return f"{frames} lb={lb} hdr={show_header(fr.header)} msg={hexs(fr.message)}"
        return guarded(go)
    finally:
        set_counter(saved)


def op_fragmaxlen(a):
    _, mx = _mods()
    st, _ = _mods()
    cur, ml, en = (int(x) for x in a)
    with CounterKept():
        node = SimpleNamespace(_frag_enabled=bool(cur), max_message_length=ml,
                               queue=st.FrameQueueFrag() if cur else st.FrameQueue())
        mx.NetworkMixin.fragmentation.fset(node, bool(en))
    return str(node.max_message_length)


# ------------------------------------------------------------------------------------------
def show_qstate(node, vars_) -> str:
    st, _ = _mods()
    q = node.queue
    items = ";".join(show_frame(x) for x in q._queue)
    is_frag = isinstance(q, st.FrameQueueFrag)
    if is_frag:
        c = q._frags
        if c.header.from_node is None:
            cache = f"N/0/{c.header.to_node}/{c.header.frame_id}/{show_type(c.header.message_type)}" \
                    f"/{c.header.reserved}/{hexs(c.message)}"
        else:
            cache = show_frame(c)
    else:
        cache = "-"
    vs = ",".join(f"{k}=" + ("None" if v is None else show_frame(v)) for k, v in sorted(vars_.items()))
    return (f"q=[{items}] len={len(q)} max={q.max_queue_size} frag={int(is_frag)} cache={cache} "
            f"nid={get_counter()} vars={vs}")


def op_q(a):
    """`q <fixed|orig> <next_id> <op>…` — the variant token only selects the model's variant"""
    st, mx = _mods()
    saved = get_counter()
    try:
        set_counter(int(a[1]))
        node = SimpleNamespace(_frag_enabled=True, max_message_length=144, queue=st.FrameQueueFrag())
        vars_ = {}
        out = []
        toks = a[2:]
        for k, tok in enumerate(toks):
            p = tok.split(":")
            op = p[0]
            # the full state is printed after ops that involve the queue object, and at the end
            with_state = op not in ("new", "newb", "mut", "mutb", "unp", "sent") or k == len(toks) - 1
            if op in ("mut", "mutb", "unp", "enq") and vars_[int(p[1])] is None:
                out.append(f"{tok} -> skip" + (" " + show_qstate(node, vars_) if with_state else ""))
                continue
            if op == "new":
                vars_[int(p[1])] = make_frame(p[2])
                r = "ok"
            elif op == "mut":
                fr = vars_[int(p[1])]
                *hf, m = p[2].split("/")
                set_header(fr.header, hf)
                fr.message = unhex(m)
                r = "ok"
            elif op == "newb":       # a frame whose message is a mutable buffer
                fr = make_frame(p[2])
                fr.message = bytearray(fr.message)
                vars_[int(p[1])] = fr
                r = "ok"
            elif op == "mutb":       # the caller rewrites its own message buffer in place
                fr = vars_[int(p[1])]
                *hf, m = p[2].split("/")
                set_header(fr.header, hf)
                if isinstance(fr.message, bytearray):
                    fr.message[:] = unhex(m)
                else:
                    fr.message = bytearray(unhex(m))
                r = "ok"
            elif op == "unp":
                fr = vars_[int(p[1])]
                r = str(int(bool(fr.unpack(unhex(p[2])))))
            elif op == "enq":
                fr = vars_[int(p[1])]
                r = guarded(lambda: str(int(bool(node.queue.enqueue(fr)))))
            elif op == "deq":
                x = node.queue.dequeue()
                vars_[int(p[1])] = x
                r = "none" if x is None else show_frame(x)
            elif op == "peek":
                x = node.queue.peek()
                vars_[int(p[1])] = x
                r = "none" if x is None else show_frame(x)
            elif op == "sent":
                r = "ok"
            elif op == "len":
                r = str(len(node.queue))
            elif op == "max":
                node.queue.max_queue_size = int(p[1])
                r = "ok"
            elif op == "frag":
                mx.NetworkMixin.fragmentation.fset(node, bool(int(p[1])))
                r = "ok"
            else:
                raise Infra("unknown queue op " + tok)
            out.append(f"{tok} -> {r}" + (" " + show_qstate(node, vars_) if with_state else ""))
        return " | ".join(out)
    finally:
        set_counter(saved)


OPS = {"hpack": op_hpack, "hunpack": op_hunpack, "hinit": op_hinit, "fpack": op_fpack,
       "funpack": op_funpack, "isack": op_isack, "write": op_write, "fragmaxlen": op_fragmaxlen,
       "q": op_q}


def run_line(line: str) -> str:
    op, *args = line.split()
    if op not in OPS:
        raise Infra("unknown op " + op)
    return OPS[op](args)
