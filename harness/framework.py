"""Shared machinery of the /verif checks (see DESIGN.md §5, §6).

A *case* is one self-contained line of the `nrfdrv` protocol together with the way to run the same
thing on the real code.  The correspondence compares, per case, the canonical string produced by
the implementation with the line printed by the Lean model.
"""
from __future__ import annotations

import hashlib
import json
import os
import random
import re
import subprocess
import sys
import time
from dataclasses import dataclass, field
from pathlib import Path
from typing import Callable, Iterable, List, Optional, Tuple

VERIF = Path(__file__).resolve().parent.parent
LEAN = VERIF / "lean"
REPO = Path(os.environ.get("VERIF_REPO", "/repo"))
# replay/ and evidence/ go under VERIF unless a mutation sweep redirects them (tools/mutation_sweep.py)
OUT = Path(os.environ.get("VERIF_OUT", str(VERIF)))
DRV = LEAN / ".lake" / "build" / "bin" / "nrfdrv"
ALLOWED_AXIOMS = {"propext", "Classical.choice", "Quot.sound"}
FORBIDDEN = re.compile(
    r"\bsorry\b|\badmit\b|\bnative_decide\b|\bbv_decide\b|\bimplemented_by\b|\bunsafe\b|^\s*axiom\b"
    r"|maxHeartbeats\s+0\b|\bextern\b",
    re.M,
)

if str(REPO) not in sys.path:
    sys.path.insert(0, str(REPO))


class Infra(Exception):
    """infrastructure trouble: exit 2, never a VIOLATION"""


# --------------------------------------------------------------------------------------------
# Lean side
# --------------------------------------------------------------------------------------------
def strip_lean_comments(src: str) -> str:
    out, i, depth, n = [], 0, 0, len(src)
    while i < n:
        if src.startswith("/-", i):
            depth += 1
            i += 2
        elif depth and src.startswith("-/", i):
            depth -= 1
            i += 2
        elif depth:
            if src[i] == "\n":
                out.append("\n")
            i += 1
        elif src.startswith("--", i):
            while i < n and src[i] != "\n":
                i += 1
        elif src[i] == '"':
            j = i + 1
            while j < n and src[j] != '"':
                j += 2 if src[j] == "\\" else 1
            out.append('""')
            i = j + 1
        else:
            out.append(src[i])
            i += 1
    return "".join(out)


def lake_build(targets: List[str], timeout=3000) -> Tuple[bool, str]:
    try:
        p = subprocess.run(
            ["lake", "build", *targets], cwd=LEAN, capture_output=True, text=True, timeout=timeout
        )
    except subprocess.TimeoutExpired as e:  # pragma: no cover
        raise Infra(f"lake build timed out: {e}")
    return p.returncode == 0, p.stdout + p.stderr


def lean_sources_closure(prop: str) -> List[Path]:
    """Lean files the property's theorems can depend on (the whole project; it is small)."""
    files = []
    for sub in ("NrfModel", "NrfProofs", "NrfProps"):
        files += sorted((LEAN / sub).rglob("*.lean"))
    return files


def imports_closure(root: Path) -> List[Path]:
    seen, todo = {}, [root]
    while todo:
        f = todo.pop()
        if f in seen or not f.exists():
            continue
        seen[f] = True
        for m in re.finditer(r"^import\s+(Nrf\S+)", f.read_text(), re.M):
            todo.append(LEAN / (m.group(1).replace(".", "/") + ".lean"))
    return sorted(seen)


@dataclass
class Audit:
    theorems: List[str] = field(default_factory=list)
    clean: List[str] = field(default_factory=list)
    problems: List[str] = field(default_factory=list)
    axioms: dict = field(default_factory=dict)
    build_ok: bool = True
    log: str = ""


def audit(prop: str, thorough: bool = False) -> Audit:
    """Build the property's theorems and the driver; check sorry/axioms."""
    a = Audit()
    pfile = LEAN / "NrfProps" / f"{prop}.lean"
    if not pfile.exists():
        a.build_ok = False
        a.problems.append(f"{pfile} missing")
        return a
    # second tie (DESIGN §0.7): when the property's theorems import generated definitions (lean/NrfGen), these
    # are rewritten from the CURRENT source ($VERIF_REPO) before the build, so that a change of a translated
    # function breaks the build of its tie proof (-> `broken` -> failing-input search).  The lock serialises
    # regenerate+build between checks that run at the same time with different $VERIF_REPO.
    # NrfProps/<Cxx>Source.lean (optional): this property's theorems about the translated source; audited with the others
    sfile = LEAN / "NrfProps" / f"{prop}Source.lean"
    pfiles = [pfile] + ([sfile] if sfile.exists() else [])
    closure = sorted({f for pf in pfiles for f in imports_closure(pf)})
    gen_lock = None
    refused = ""
    if os.environ.get("VERIF_GEN_TIE", "1") != "0" and any(
            f.parent.name == "NrfGen" for f in closure):
        import fcntl
        (LEAN / ".lake").mkdir(exist_ok=True)
        gen_lock = open(LEAN / ".lake" / "gen_tie.lock", "w")
        fcntl.flock(gen_lock, fcntl.LOCK_EX)
        g = subprocess.run([sys.executable, str(VERIF / "tools" / "py2lean.py")], capture_output=True,
                           text=True, env={**os.environ, "VERIF_REPO": str(REPO)})
        if g.returncode != 0 and "REFUSED" not in g.stdout + g.stderr:
            gen_lock.close()
            raise Infra("py2lean: " + (g.stdout + g.stderr)[-1500:])
        if g.returncode != 0:
            # the source of a translated function left the translator's subset: the theorems about the generated
            # definitions no longer speak about the current source.  That is a broken proof obligation (not
            # infrastructure trouble): the check goes on to the correspondence and the failing-input search.
            refused = "py2lean refused the current source (tie by translation broken): " + (g.stdout + g.stderr)[-800:]
    try:
        ok, log = lake_build([f"NrfProps.{pf.stem}" for pf in pfiles] + ["nrfdrv"])
    finally:
        if gen_lock is not None:
            gen_lock.close()
    a.log = log[-4000:]
    if refused:
        a.build_ok = False
        a.problems.append(refused)
    if not ok:
        a.build_ok = False
        a.problems.append("lake build failed:\n" + log[-3000:])
    full_name = {}
    for pf in pfiles:
        src = strip_lean_comments(pf.read_text())
        ns = re.search(r"^namespace\s+(\S+)", src, re.M)
        for t in re.findall(r"^theorem\s+([A-Za-z0-9_.']+)", src, re.M):
            full_name[t] = ((ns.group(1) + ".") if ns else "") + t
    a.theorems = list(full_name)
    if not a.theorems:
        a.problems.append("no property theorem found")
    for f in closure:
        s = strip_lean_comments(f.read_text())
        for m in FORBIDDEN.finditer(s):
            a.problems.append(f"forbidden token {m.group(0).strip()!r} in {f.relative_to(LEAN)}")
    if not a.build_ok:
        return a
    adir = LEAN / ".lake" / "audit"
    adir.mkdir(parents=True, exist_ok=True)
    afile = adir / f"{prop}_audit.lean"
    afile.write_text(
        "".join(f"import NrfProps.{pf.stem}\n" for pf in pfiles) + "".join(f"#print axioms {full_name[t]}\n" for t in a.theorems)
    )
    p = subprocess.run(
        ["lake", "env", "lean", str(afile)], cwd=LEAN, capture_output=True, text=True, timeout=1800
    )
    out = p.stdout + p.stderr
    if p.returncode != 0:
        a.problems.append("axiom audit failed to run:\n" + out[-2000:])
        return a
    out1 = re.sub(r"\s+", " ", out)
    for t in a.theorems:
        full = full_name[t]
        m = re.search(re.escape(f"'{full}'") + r" depends on axioms: \[([^\]]*)\]", out1)
        if m:
            axs = {x.strip() for x in m.group(1).split(",") if x.strip()}
        elif re.search(re.escape(f"'{full}'") + r" does not depend on any axioms", out1):
            axs = set()
        else:
            a.problems.append(f"no axiom report for {full}")
            continue
        a.axioms[t] = sorted(axs)
        bad = axs - ALLOWED_AXIOMS
        if bad:
            a.problems.append(f"{full} depends on non-standard axioms {sorted(bad)}")
        else:
            a.clean.append(t)
    if thorough:
        mods = [
            str(f.relative_to(LEAN))[:-5].replace("/", ".") for f in closure
        ]
        # in batches: one process for the whole closure of a node-layer property needs 20 GB; eight modules at a time
        # stay below 6 GB.  A checker process that is killed (memory, time) is infrastructure trouble, not a rejected proof.
        B = int(os.environ.get("VERIF_LEANCHECKER_BATCH", "8"))
        for i in range(0, len(mods), B):
            try:
                p = subprocess.run(["lake", "env", "leanchecker", *mods[i:i + B]], cwd=LEAN, capture_output=True, text=True,
                                   timeout=3000)
            except subprocess.TimeoutExpired:
                raise Infra("leanchecker timed out on " + " ".join(mods[i:i + B]))
            if p.returncode < 0 or p.returncode in (137, 139):
                raise Infra(f"leanchecker was killed (status {p.returncode}) on " + " ".join(mods[i:i + B]))
            if p.returncode != 0:
                a.problems.append("leanchecker rejected: " + (p.stdout + p.stderr)[-2000:])
                break
    return a


def run_driver(lines: List[str]) -> List[str]:
    if not DRV.exists():
        raise Infra("nrfdrv not built")
    for l in lines:
        if "\n" in l:
            raise Infra("newline inside a protocol line")
    p = subprocess.run(
        [str(DRV)], input="\n".join(lines) + "\n", capture_output=True, text=True, timeout=3000
    )
    if p.returncode != 0:
        raise Infra("nrfdrv crashed: " + p.stderr[-2000:])
    out = p.stdout.split("\n")
    if out and out[-1] == "":
        out.pop()
    if len(out) != len(lines):
        raise Infra(f"nrfdrv answered {len(out)} lines for {len(lines)}")
    return out


# --------------------------------------------------------------------------------------------
# cases, correspondence, verdict
# --------------------------------------------------------------------------------------------
def exc_name(e: BaseException) -> str:
    n = type(e).__name__
    return {"error": "struct.error"}.get(n, n)


@dataclass
class Finding:
    case: str
    what: str
    detail: dict


@dataclass
class Result:
    prop: str
    tier: str
    seed: int
    evaluations: int = 0
    distinct: set = field(default_factory=set)
    groups: dict = field(default_factory=dict)
    samples: list = field(default_factory=list)
    disagreements: list = field(default_factory=list)
    violations: List[Finding] = field(default_factory=list)
    known: List[str] = field(default_factory=list)
    exhaustive_blocks: list = field(default_factory=list)
    extra: dict = field(default_factory=dict)
    t0: float = field(default_factory=time.time)


def seed_of() -> int:
    try:
        return int(os.environ.get("VERIF_SEED", "0"))
    except ValueError:
        return 0


class PropCheck:
    """One property's check.  Subclass and fill in; `run_check` drives it (DESIGN §6)."""

    prop = "C00"
    rule = ""
    assumptions: List[str] = []
    exhaustive = False
    extra_trusted: List[str] = []
    #: run the spec judge on every compared case (True) or only on model/implementation disagreements, the open
    #: known findings and the search inputs (False: for properties whose theorems are complete and whose judge is costly)
    judge_all = True

    def impl(self, line: str) -> str:
        """run one protocol line on the real code, return the canonical result string"""
        raise NotImplementedError

    def impl_only(self, line: str) -> bool:
        """True for lines that have no model twin (an environment choice the Lean model does not have): run on the
        implementation and judged by the spec judge only, never compared; counted under their own block name"""
        return False

    def cases(self, res: "Result", tier: str, rng: random.Random) -> List[Tuple[str, str]]:
        """(line, generator-block) pairs; corpus lines are prepended by run_check"""
        raise NotImplementedError

    def judge(self, triples: List[Tuple[str, str, Optional[str]]]) -> List["Finding"]:
        """Evaluate the property's *spec* against the implementation's observed output on these
        (line, impl_out, model_out-or-None) triples; return concrete violations only.
        Must not report a case on which the implementation satisfies the property."""
        raise NotImplementedError

    def search_lines(self, res: "Result", tier: str, rng: random.Random) -> List[str]:
        """wider input set for the failing-input search (default: the thorough generator)"""
        return [l for l, _ in self.cases(res, "thorough", rng)]

    def nontrivial(self, line: str, impl_out: str) -> bool:
        return not impl_out.startswith("exc=")

    def known_check(self) -> List["Finding"]:
        """Replay the inputs of this property's *open* known findings on the implementation and
        judge them (DESIGN §6 step 3); the findings returned here are matched against
        known_findings.json by `finish` (KNOWN-FINDING line, never a VIOLATION of their own)."""
        open_known, _ = load_known(self.prop)
        lines = [c for k in open_known for c in k.get("inputs", [])]
        return self.judge([(l, impl_safe(self, l), None) for l in lines]) if lines else []


class CaseTimeout(BaseException):
    """the implementation side of one case used up its CPU budget (BaseException: the library's and the
    adapters' `except Exception` clauses must not swallow it)"""


# CPU seconds (ITIMER_PROF: process time, immune to a loaded machine) the implementation may spend on ONE case.
# Ordinary cases take milliseconds; a node-level session that runs into a DIVERGE legitimately burns a whole
# transaction budget (about 30 s), hence the larger allowance for `net` lines.  What this catches is a loop that
# spins without touching the SPI bus, which the transaction budget of harness/simradio.py cannot see.
CASE_CPU_BUDGET = 60.0
CASE_CPU_BUDGET_NET = 150.0


def _on_sigprof(*_):
    raise CaseTimeout()


def impl_safe(pc: PropCheck, line: str) -> str:
    import signal
    signal.signal(signal.SIGPROF, _on_sigprof)
    signal.setitimer(signal.ITIMER_PROF, CASE_CPU_BUDGET_NET if line.startswith("net ") else CASE_CPU_BUDGET)
    try:
        return pc.impl(line)
    except CaseTimeout:
        return "exc=SimTimeout"
    except Exception as e:  # an exception escaping the adapter is an observation, too
        return "exc=" + exc_name(e)
    finally:
        signal.setitimer(signal.ITIMER_PROF, 0)


HANG_MARKS = ("exc=DIVERGE", "exc=SimTimeout")
HANG_STOP = 3


def hangs(io: str, mo: Optional[str]) -> bool:
    """a public call of the implementation did not return within its transaction budget where the
    model's (every loop fuel-bounded) returns"""
    n_i = sum(io.count(m) for m in HANG_MARKS)
    n_m = 0 if mo is None else sum(mo.count(m) for m in HANG_MARKS)
    return n_i > n_m


def impl_until_hangs(pc: PropCheck, res: Result, lines: List[str], model_out: List[str]) -> List[str]:
    """implementation outputs for a prefix of `lines`: evaluation stops once HANG_STOP cases hang where
    the model returns (each such case costs a whole transaction budget; three are evidence enough)"""
    out, n = [], res.extra.get("impl_hangs", 0)
    for l, mo in zip(lines, model_out):
        if n >= HANG_STOP:
            res.extra["stopped_after_hangs"] = True
            break
        io = impl_safe(pc, l)
        out.append(io)
        if hangs(io, mo):
            n += 1
            res.extra["impl_hangs"] = n
    return out


def hang_findings(triples, judged) -> List["Finding"]:
    return [Finding(l, "a public call of the implementation does not return within the per-call transaction budget "
                       "on this input, while the model's call (fuel-bounded, agreeing with the code everywhere else) "
                       "returns: the property's outcome for this history is never produced",
                    {"class": "hang", "impl": io[-300:]})
            for l, io, mo in triples if hangs(io, mo) and l not in judged]


def correspond(pc: PropCheck, res: Result, cases: List[Tuple[str, str]], chunk=20000):
    """Run cases on implementation and model.  Returns (disagreeing triples, spec findings): the
    property's spec judge runs on *every* case, not only on disagreements."""
    bad, viol = [], []
    for i in range(0, len(cases), chunk):
        part = cases[i : i + chunk]
        twin = [l for l, _ in part if not pc.impl_only(l)]
        mo_of = dict(zip(twin, run_driver(twin))) if twin else {}
        model_out = [mo_of.get(l) for l, _ in part]
        impl_out = impl_until_hangs(pc, res, [l for l, _ in part], [mo if mo is not None else "" for mo in model_out])
        model_out = [io if mo is None else mo for io, mo in zip(impl_out, model_out)]   # no twin: nothing to compare
        triples = []
        for (l, g), io, mo in zip(part, impl_out, model_out):
            res.evaluations += 1
            res.groups[g] = res.groups.get(g, 0) + 1
            if pc.nontrivial(l, io):
                res.distinct.add(hashlib.blake2b(l.encode(), digest_size=8).digest())
            if len(res.samples) < 12 and (res.evaluations % 97 == 1 or len(res.samples) < 3):
                res.samples.append({"case": l[:600], "impl": io[:600], "model": mo[:600]})
            if mo == "bad-op":
                raise Infra(f"model driver rejected the line: {l[:200]}")
            triples.append((l, io, mo))
            if io != mo:
                bad.append((l, io, mo))
        found = pc.judge(triples if pc.judge_all else [t for t in triples if t[1] != t[2]])
        viol += found + hang_findings(triples, {v.case for v in found})
        if res.extra.get("stopped_after_hangs"):
            break
    res.disagreements += [{"case": l[:2000], "impl": io[:2000], "model": mo[:2000]} for l, io, mo in bad[:50]]
    return bad, viol


def judge_defaults(triples, impl):
    """a call that omits its optional parameters behaves exactly like the call with the documented default values
    written out (the implementation against itself, op by op)"""
    from harness.rfsession import expand_defaults, NET_DEFAULTS
    out = []
    for l, io, mo in triples:
        if " dflt " not in l:
            continue
        head, rest = l.split(" ", 3)[:3], l.split(" ", 3)[3]
        ops = []
        for op in rest.split(" ; "):
            t = op.split()
            ops.append(" ".join(t[:1] + expand_defaults(t[1:], NET_DEFAULTS if l.startswith("net ") else None))
                       if len(t) > 1 and t[1] == "dflt" else op)
        explicit = " ".join(head) + " " + " ; ".join(ops)
        io2 = impl(explicit)
        if io2 != io:
            a, b = io.split(" ; "), io2.split(" ; ")
            k = next((i for i, (x, y) in enumerate(zip(a, b)) if x != y), min(len(a), len(b)))
            out.append(Finding(l, f"op {k} `{rest.split(' ; ')[k] if k < len(ops) else '?'}`: with its optional parameters omitted the call "
                                  f"behaves differently from `{ops[k] if k < len(ops) else '?'}` (documented defaults): "
                                  f"{a[k].split(' ~ ')[0] if k < len(a) else '-'} vs {b[k].split(' ~ ')[0] if k < len(b) else '-'}", {"op_index": k}))
    return out


def first_diff(io: str, mo: str) -> str:
    a, b = io.split(" ; "), mo.split(" ; ")
    for k, (x, y) in enumerate(zip(a, b)):
        if x != y:
            xs, ys = x.split(" "), y.split(" ")
            if len(xs) == len(ys):
                d = [(p, q) for p, q in zip(xs, ys) if p != q][:6]
                return f"op {k}: impl/model differ in {d}"
            return f"op {k}: impl={x[:200]} model={y[:200]}"
    return f"impl={io[:200]} model={mo[:200]}"


def corpus_lines(prop: str) -> List[Tuple[str, str]]:
    d = VERIF / "corpus" / prop
    out = []
    if d.is_dir():
        for f in sorted(d.glob("*.txt")):
            for l in f.read_text().splitlines():
                l = l.strip()
                if l and not l.startswith("#"):
                    out.append((l, "corpus:" + f.stem))
    return out


def run_check(pc: PropCheck, tier: str) -> int:
    res = Result(pc.prop, tier, seed_of())
    rng = random.Random(res.seed * 1000003 + 17)
    a = audit(pc.prop, thorough=(tier == "thorough"))
    broken = list(a.problems)
    cases = corpus_lines(pc.prop) + pc.cases(res, tier, rng)
    bad, viol = correspond(pc, res, cases) if (a.build_ok or DRV.exists()) else ([], [])
    kviol = pc.known_check()
    viol = viol + [v for v in kviol if v.case not in {x.case for x in viol}]
    if bad:
        judged = {v.case for v in viol}
        broken += [f"correspondence: {l[:300]} :: impl={first_diff(io, mo)}"
                   for l, io, mo in bad if l not in judged][:20]
    if broken and not viol:
        # failing-input search: the spec against the implementation alone
        lines = pc.search_lines(res, tier, random.Random(res.seed * 7919 + 3))
        seen = {l for l, _, _ in bad}
        lines = [l for l in lines if l not in seen]
        tw = [l for l in lines if not pc.impl_only(l)]
        mo_of = dict(zip(tw, run_driver(tw))) if DRV.exists() and tw else {}
        mos = [mo_of.get(l) or "" for l in lines]
        ios = impl_until_hangs(pc, res, lines, mos)
        triples = [(l, io, None) for l, io in zip(lines, ios)]
        res.extra["search_inputs"] = len(triples)
        viol = pc.judge(triples)
        viol += hang_findings([(l, io, mo) for l, io, mo in zip(lines, ios, mos)], {v.case for v in viol})
    return finish(res, a, viol, broken, pc.rule, pc.assumptions, pc.exhaustive, pc.extra_trusted)


def replay_generic(pc: PropCheck, path: str) -> int:
    d = json.loads((VERIF / path).read_text() if not os.path.isabs(path) else Path(path).read_text())
    lines = [d["case"]] if "case" in d else []
    for l in lines:
        io = impl_safe(pc, l)
        mo = io if pc.impl_only(l) else run_driver([l])[0]
        v = pc.judge([(l, io, mo)])
        print("case :", l)
        print("impl :", io)
        print("model:", mo)
        print("spec :", v[0].what if v else "satisfied")
    if not lines:
        print(json.dumps(d, indent=1))
    return 0


def load_known(prop: str) -> Tuple[List[dict], List[str]]:
    f = VERIF / "known_findings.json"
    if not f.exists():
        return [], []
    d = json.loads(f.read_text())
    return [k for k in d.get("open", []) if k["property"] == prop], d.get("fixed", [])


def write_replay(prop: str, payload: dict) -> str:
    d = OUT / "replay"
    d.mkdir(parents=True, exist_ok=True)
    n = 0
    while (d / f"{prop}-{n}.json").exists():
        n += 1
    p = d / f"{prop}-{n}.json"
    p.write_text(json.dumps(payload, indent=1, sort_keys=True))
    return str(p.relative_to(OUT))


def write_evidence(res: Result, a: Audit, checker_cmd: str, rule: str, trusted: List[str],
                   assumptions: List[str], exhaustive: bool, nviol: int):
    ev = {
        "property_id": res.prop,
        "tier": res.tier,
        "seed": res.seed,
        "level": "proof",
        "coverage": {
            "obligations": max(1, len(a.theorems)),
            "discharged": len(a.clean),
            "checker_cmd": checker_cmd,
            "trusted_base": trusted,
            "theorems": a.theorems,
            "axioms": a.axioms,
            "evaluations": res.evaluations,
            "distinct_nontrivial": len(res.distinct),
            "rule": rule,
            "samples": res.samples[:12],
            "exhaustive": exhaustive,
            "exhaustive_blocks": res.exhaustive_blocks,
            "generator_blocks": res.groups,
            "correspondence_disagreements": len(res.disagreements),
            "known_findings_reproduced": res.known,
            **res.extra,
        },
        "assumptions": assumptions,
        "wall_s": round(time.time() - res.t0, 2),
        "violations": nviol,
    }
    d = OUT / "evidence"
    d.mkdir(parents=True, exist_ok=True)
    (d / f"{res.prop}.json").write_text(json.dumps(ev, indent=1, sort_keys=True, default=str))


TRUSTED_COMMON = [
    "Lean 4.33.0 kernel (leanchecker re-check in the thorough tier)",
    "axioms: subset of {propext, Classical.choice, Quot.sound}, audited by #print axioms on every run",
    "that NrfProps/<id>.lean states the property (statements kept apart from lemmas)",
    "hand-written Lean model of the anchored Python code; tied to /repo only by the correspondence run",
    "correspondence harness (Python adapters, generators, canonicaliser), CPython 3.12, nrfdrv compiled by Lean's code generator",
]


def finish(res: Result, a: Audit, judge_violations: List[Finding], broken: List[str], rule: str,
           assumptions: List[str], exhaustive: bool, extra_trusted: List[str] = ()) -> int:
    """Common verdict (DESIGN §6).  `judge_violations` are concrete failing inputs found on the
    implementation; `broken` names theorems / correspondence cases that no longer check."""
    open_known, _fixed = load_known(res.prop)
    known_cases = {}
    for k in open_known:
        for c in k.get("inputs", []):
            known_cases[c] = k
    new = []
    reproduced = set()
    for v in judge_violations:
        k = known_cases.get(v.case)
        if k is None:
            for kk in open_known:
                if kk.get("class") and kk["class"] == v.detail.get("class"):
                    k = kk
        if k is not None:
            reproduced.add(k["id"])
        else:
            new.append(v)
    code = 0
    for k in open_known:
        if k["id"] in reproduced or k.get("always_report"):
            print(f"KNOWN-FINDING: property={res.prop} {k['what']}")
            res.known.append(k["id"])
    if new:
        v = new[0]
        path = write_replay(res.prop, {
            "property": res.prop, "kind": "failing-input", "case": v.case, "what": v.what,
            "detail": v.detail, "seed": res.seed, "tier": res.tier,
            "others": [{"case": x.case, "what": x.what} for x in new[1:20]],
        })
        print(f"VIOLATION property={res.prop} replay={path}")
        code = 1
    elif broken:
        path = write_replay(res.prop, {
            "property": res.prop, "kind": "no-failing-input-found",
            "no_longer_checks": broken[:40], "seed": res.seed, "tier": res.tier,
            "note": "the property is no longer shown to hold: a proof obligation or the "
                    "model/implementation correspondence is broken and the search found no input "
                    "on which the implementation violates the property's spec",
        })
        print(f"VIOLATION property={res.prop} replay={path} no-failing-input-found")
        code = 1
    checker = f"cd lean && lake build NrfProps.{res.prop} nrfdrv && lake env lean .lake/audit/{res.prop}_audit.lean"
    write_evidence(res, a, checker, rule, TRUSTED_COMMON + list(extra_trusted), assumptions,
                   exhaustive, len(new) + (1 if (broken and not new) else 0))
    status = "ok" if code == 0 else "FAIL"
    print(f"[{res.prop}] {status}: theorems {len(a.clean)}/{len(a.theorems)} clean, "
          f"{res.evaluations} cases compared, {len(res.disagreements)} disagreements, "
          f"{len(new)} new violations, {len(res.known)} known findings, "
          f"{time.time() - res.t0:.1f}s")
    return code
