"""A minimal fake SPI bus + pins for building network objects without hardware (C04).

Register-dict based: a register read answers what was last written (reset values otherwise), the
first byte of every answer is STATUS.  STATUS always reports "TX_DS set, RX FIFO empty, TX FIFO
not full" so that a blocking `send()` returns at once and `read()` finds nothing.  One register file
per object (the repo's own test shim shares one between all objects).
"""

RESET = {
    0x00: [0x08], 0x01: [0x3F], 0x02: [0x03], 0x03: [0x03], 0x04: [0x03], 0x05: [0x02],
    0x06: [0x0E], 0x07: [0x0E], 0x08: [0x00], 0x09: [0x00],
    0x0A: [0xE7] * 5, 0x0B: [0xC2] * 5, 0x0C: [0xC3], 0x0D: [0xC4], 0x0E: [0xC5], 0x0F: [0xC6],
    0x10: [0xE7] * 5,
    0x11: [0], 0x12: [0], 0x13: [0], 0x14: [0], 0x15: [0], 0x16: [0],
    0x17: [0x11], 0x1C: [0], 0x1D: [0],
}
STATUS = 0x2E  # TX_DS | RX_P_NO = 7 (RX FIFO empty)


class BasicSpiDev:
    """stands in for `spidev.SpiDev` (the class name must end in `SpiDev`, see RF24.__init__)"""

    def __init__(self):
        self.no_cs = True
        self.regs = {k: list(v) for k, v in RESET.items()}
        self.tx_payloads = []

    def open(self, bus, device):
        return None

    def close(self):
        return None

    def xfer2(self, out_buf, baud_rate=0):
        cmd, data = out_buf[0], list(out_buf[1:])
        n = len(data)
        if cmd < 0x20:  # R_REGISTER
            r = self.regs.get(cmd, [0])
            return bytearray([STATUS] + (r + [0] * n)[:n])
        if cmd < 0x40:  # W_REGISTER
            reg = cmd & 0x1F
            if reg not in (0x07, 0x08, 0x09, 0x17):
                self.regs[reg] = data
            return bytearray([STATUS] + [0] * n)
        if cmd in (0xA0, 0xB0):  # W_TX_PAYLOAD(_NOACK)
            self.tx_payloads.append((bytes(self.regs[0x10]), bytes(data), cmd == 0xB0))
        return bytearray([STATUS] + [0] * n)  # every other command: STATUS, zeros


class BasicPin:
    def __init__(self):
        self.value = False

    def switch_to_output(self, value=False, **_):
        self.value = value


class NoSleep:
    """replacement for the `time` module inside the library: a clock that advances by itself"""

    def __init__(self):
        self.now = 0

    def monotonic_ns(self):
        self.now += 1000
        return self.now

    def monotonic(self):
        return self.monotonic_ns() / 1e9

    def sleep(self, dt):
        self.now += int(dt * 1e9)


def patch_time():
    import circuitpython_nrf24l01.rf24 as rf24
    import circuitpython_nrf24l01.network.mixins as mixins
    t = NoSleep()
    rf24.time = t
    mixins.time = t
    return t


def listen_addresses(spi):
    """what the (fake) radio matches on, pipe 0..5: RX_ADDR_P2..5 hold one byte and share bytes 1..4
    with RX_ADDR_P1; a pipe closed in EN_RXADDR is reported as None"""
    r = spi.regs
    out = []
    for i in range(6):
        if not (r[0x02][0] >> i) & 1:
            out.append(None)
        elif i < 2:
            out.append(bytes(r[0x0A + i]))
        else:
            out.append(bytes(r[0x0A + i][:1]) + bytes(r[0x0B][1:]))
    return out
