"""Generators of `net …` session lines (all randomness from the given rng)."""
from __future__ import annotations
import random

from harness.gen_rf import rbytes


def rand_tree(rng: random.Random, n: int, maxdepth: int = 4):
    """a parent-closed set of n logical addresses containing 0 (as octal-digit tuples, root first)"""
    nodes = {()}
    while len(nodes) < n:
        p = rng.choice(sorted(nodes))
        if len(p) >= maxdepth:
            continue
        c = p + (rng.randint(1, 5),)
        nodes.add(c)
    return sorted(nodes, key=lambda t: (len(t), t))


def addr_of(t) -> int:
    v = 0
    for i, d in enumerate(t):
        v |= d << (3 * i)
    return v


def frame_bytes(frm: int, to: int, fid: int, typ: int, reserved: int, msg: bytes) -> str:
    import struct
    return (struct.pack("<HHHBB", frm & 0xFFFF, to & 0xFFFF, fid & 0xFFFF, typ & 0xFF, reserved & 0xFF) + msg).hex()


# calls that only observe: RadioMixin pass-through getters and the nodes' read-only attributes
OBSERVERS = ["rf get channel", "rf get power", "rf get listen", "rf get pa_level", "rf get is_lna_enabled", "rf get data_rate",
             "rf get crc", "rf get_auto_retries", "rf get last_tx_arc", "rf address 0", "rf address 1", "rf address 5",
             "rf address -1", "rf fifo T N", "rf fifo F N", "rf fifo F T", "rf get_dynamic_payloads 0", "rf get_dynamic_payloads 3",
             "available", "peek", "get node_address", "get parent", "get fragmentation", "get multicast_level",
             "get multicast_relay"]


def session_tree(rng: random.Random, nnodes: int, nops: int, closed: bool = True, kinds=("network", "network", "routing")):
    tree = rand_tree(rng, nnodes)
    names = [f"n{i}" for i in range(len(tree))]
    ops = []
    kind_of = {}
    for i, t in enumerate(tree):
        k = rng.choice(kinds)
        kind_of[names[i]] = k
        ops.append(f"new {names[i]} {k} {i} {addr_of(t)}")
    writers = [n for n in names if kind_of[n] == "network"]
    for _ in range(nops):
        x = rng.random()
        if x < 0.45 and writers:
            src = rng.choice(writers)
            dst = rng.choice(tree)
            typ = rng.choice([0, 1, 5, 64, 65, 70, 127, 127, 100, 190, 192, 200])
            n = rng.choice([0, 1, 5, 24, 24, 25, 48, 49, 100, 144])
            if rng.random() < 0.15:
                ops.append(f"{src} dflt write {addr_of(dst)} {typ} {rbytes(rng, n)}")
            elif rng.random() < 0.15:
                # traffic_direct: the frame is handed to the given node first (physically to the destination itself,
                # "logically" to another node, or to the multicast address)
                direct = rng.choice([addr_of(dst), addr_of(rng.choice(tree)), 0o100, 0, 1, 0o5, 0o15])
                ops.append(f"{src} write {addr_of(dst)} {typ} {rbytes(rng, min(n, 24))} {direct}")
            else:
                ops.append(f"{src} write {addr_of(dst)} {typ} {rbytes(rng, n)} 56")
        elif x < 0.72:
            ops.append(f"{rng.choice(names)} update")
        elif x < 0.77:
            ops.append(f"{rng.choice(names)} {rng.choice(OBSERVERS)}")
        elif x < 0.9:
            ops.append(f"{rng.choice(names)} read")
        elif x < 0.95:
            if rng.random() < 0.2:
                ops.append(f"{rng.choice(names)} dflt multicast {rbytes(rng, rng.choice([0, 3, 24, 30]))} {rng.randint(0, 127)}")
            else:
                ops.append(f"{rng.choice(names)} multicast {rbytes(rng, rng.choice([0, 3, 24, 30]))} {rng.randint(0, 127)} {rng.choice(['N', 0, 1, 2, 3, 4])}")
        else:
            ops.append("env faults " + ("".join(rng.choice("DDDDLA") for _ in range(rng.randint(1, 12)))))
    return f"net {len(tree)} {1 if closed else 0} " + " ; ".join(ops)


def session_mesh(rng: random.Random, njoin: int, nops: int):
    ops = ["new m master 0 0"]
    ids = rng.sample(range(1, 255), njoin)
    names = []
    for i, nid in enumerate(ids):
        nm = f"x{i}"
        names.append(nm)
        ops.append(f"new {nm} {rng.choice(['mesh', 'mesh', 'master'])} {i + 1} {nid}")
    joined = []
    for _ in range(nops):
        x = rng.random()
        n = rng.choice(names)
        if x < 0.35:
            ops.append(f"{n} renew {rng.choice([300, 600, 1000])}")
        elif x < 0.45:
            ops.append(f"{n} lookup_address {rng.choice(ids + [0, 77])}")
        elif x < 0.55:
            ops.append(f"{n} lookup_node_id {rng.choice(['N', 0, 1, 2, 9, 10, 3, 4, 5, 2340])}")
        elif x < 0.65:
            ops.append(f"{n} send {rng.choice(ids + [0])} {rng.choice([1, 70, 127])} {rbytes(rng, rng.choice([0, 4, 30]))}")
        elif x < 0.7:
            ops.append(f"{n} release")
        elif x < 0.73:
            ops.append(f"{n} check_connection {rng.randint(1, 3)} {rng.choice('TF')}")
        elif x < 0.75:
            ops.append(rng.choice([f"{n} dflt check_connection", f"{n} dflt lookup_node_id", f"{n} dflt lookup_address",
                                   "m dflt release_address", "m dflt lookup_node_id"]))
        elif x < 0.85:
            ops.append(f"m update")
        elif x < 0.9:
            ops.append(f"m lookup_address {rng.choice(ids + [0, 77])}")
        elif x < 0.93:
            ops.append(f"{rng.choice(names + ['m'])} read")
        elif x < 0.96:
            ops.append(f"{rng.choice(names + ['m'])} {rng.choice(OBSERVERS + ['get node_id', 'get allow_children'])}")
        elif x < 0.975:
            # a message by address; longer than max_message_length it is cut to one frame's worth
            ops.append(f"{n} mwrite {rng.choice([0, 1, 2, 0o11, 0o5, 0o4444, 0o6])} {rng.choice([1, 70, 127])} "
                       f"{rbytes(rng, rng.choice([0, 4, 24, 30, 144, 150]))}")
        elif x < 0.985:
            ops.append(f"{n} set node_id {rng.choice([rng.randint(1, 255), 256 + rng.randint(1, 255), -3])}")
        else:
            ops.append(f"{n} update")
    return f"net {njoin + 1} 1 " + " ; ".join(ops)
