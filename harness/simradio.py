"""Python simulator of the nRF24L01(+), the air and virtual time (DESIGN.md §4, Appendix A).

Written separately from lean/NrfModel/Radio.lean + Air.lean, from the same rules; the two are
compared on every correspondence line (registers, FIFOs, flags, air log are part of each line).
This is *environment*: what the chip and the medium are assumed to do.
"""
from __future__ import annotations

from typing import List, Optional

SPI_COST_NS = 10_000
T_TX_NS = 300_000
T_ACK_NS = 200_000
MAX_SPI_PER_CALL = 400  # watchdog: no driver-level public call needs more transactions (jump semantics)


class SimTimeout(Exception):
    """a public call exceeded the transaction budget (a loop that does not terminate)"""


class SimRadio:
    def __init__(self, world: "SimWorld", idx: int, plus: bool = True):
        self.world, self.idx, self.plus = world, idx, plus
        self.activated = False
        self.config, self.en_aa, self.en_rxaddr, self.setup_aw = 0x08, 0x3F, 0x03, 0x03
        self.setup_retr, self.rf_ch, self.rf_setup = 0x03, 0x02, 0x0E
        self.flags = 0
        self.rx_addr = [bytearray(b"\xe7" * 5), bytearray(b"\xc2" * 5)]
        self.rx_addr_n = [0xC3, 0xC4, 0xC5, 0xC6]
        self.tx_addr = bytearray(b"\xe7" * 5)
        self.rx_pw = [0] * 6
        self.dynpd = self.feature = 0
        self.tx_fifo: list = []  # [kind, data(bytes), pid|None]; kind: "P", "N", ("A", pipe)
        self.rx_fifo: list = []  # (pipe, bytes)
        self.arc_cnt = self.plos_cnt = 0
        self.rpd = False
        self.ce = False
        self.next_pid = 0
        self.last_rx = None  # (pid, addr, data)
        self.last_ack: Optional[bytes] = None
        self.last_byte = 0
        self.violations: List[str] = []
        self.busy_until = 0
        self.view = None  # (STATUS, FIFO_STATUS, OBSERVE_TX) as they were when the running transmit chain began
        self.altered = set()  # registers whose value changed at some write (reset by the harness)

    # ----- derived ---------------------------------------------------------------------------
    @property
    def feature_visible(self):
        return self.plus or self.activated

    def status(self) -> int:
        pno = self.rx_fifo[0][0] if self.rx_fifo else 7
        return (self.flags & 0x70) | (pno << 1) | (1 if len(self.tx_fifo) >= 3 else 0)

    def fifo_status(self) -> int:
        v = 0
        if len(self.tx_fifo) >= 3:
            v |= 0x20
        if not self.tx_fifo:
            v |= 0x10
        if len(self.rx_fifo) >= 3:
            v |= 0x02
        if not self.rx_fifo:
            v |= 0x01
        return v

    def aw(self) -> int:
        return (self.setup_aw & 3) + 2

    def addr_of(self, p: int) -> bytes:
        if p < 2:
            return bytes(self.rx_addr[p])
        return bytes([self.rx_addr_n[p - 2]]) + bytes(self.rx_addr[1][1:])

    def crc_len(self) -> int:
        if self.en_aa & 0x3F:
            return 2 if self.config & 4 else 1
        if self.config & 8:
            return 2 if self.config & 4 else 1
        return 0

    def esb(self) -> bool:
        return bool(self.en_aa & 0x3F)

    def rate(self) -> int:
        return 2 if self.rf_setup & 0x20 else (1 if self.rf_setup & 0x08 else 0)

    def rx_mode(self):
        return bool(self.config & 2) and bool(self.config & 1) and self.ce

    def tx_mode(self):
        return bool(self.config & 2) and not (self.config & 1) and self.ce

    def dpl_on(self, p):
        return bool(self.feature & 4) and bool(self.dynpd & (1 << p))

    def irq_line(self) -> bool:
        return bool((self.flags & 0x70) & ((self.config & 0x70) ^ 0x70))

    # ----- register file ---------------------------------------------------------------------
    def _masked(self, name, mask, v):
        if v & mask != v:
            self.violations.append(f"{name}:reserved:{v}")
        return v & mask

    def _set(self, reg, attr, v):
        if getattr(self, attr) != v:
            self.altered.add(reg)
        setattr(self, attr, v)

    def write_reg(self, reg: int, d: bytes):
        v = d[0]
        if reg == 0x00:
            v = self._masked("CONFIG", 0x7F, v)
            if self.ce and (v & 1) != (self.config & 1):
                self.violations.append("CE:role-change-with-CE-high")
            self._set(reg, "config", v)
        elif reg == 0x01:
            self._set(reg, "en_aa", self._masked("EN_AA", 0x3F, v))
        elif reg == 0x02:
            self._set(reg, "en_rxaddr", self._masked("EN_RXADDR", 0x3F, v))
        elif reg == 0x03:
            v = self._masked("SETUP_AW", 0x03, v)
            if v == 0:
                self.violations.append("SETUP_AW:illegal:0")
            self._set(reg, "setup_aw", v)
        elif reg == 0x04:
            self._set(reg, "setup_retr", v & 0xFF)
        elif reg == 0x05:
            v = self._masked("RF_CH", 0x7F, v)
            if v > 125:
                self.violations.append(f"RF_CH:range:{v}")
            self._set(reg, "rf_ch", v)
            self.plos_cnt = 0
        elif reg == 0x06:
            self._set(reg, "rf_setup", self._masked("RF_SETUP", 0xBF, v))
        elif reg == 0x07:
            self.flags &= 0x70 ^ (v & 0x70)
        elif reg in (0x0A, 0x0B, 0x10):
            tgt = self.tx_addr if reg == 0x10 else self.rx_addr[reg - 0x0A]
            new = bytes(d[:5])
            if bytes(tgt[: len(new)]) != new:
                self.altered.add(reg)
            tgt[: len(new)] = new
        elif 0x0C <= reg <= 0x0F:
            if self.rx_addr_n[reg - 0x0C] != v:
                self.altered.add(reg)
            self.rx_addr_n[reg - 0x0C] = v
        elif 0x11 <= reg <= 0x16:
            p = reg - 0x11
            v = self._masked(f"RX_PW_P{p}", 0x3F, v)
            if v > 32:
                self.violations.append(f"RX_PW_P{p}:range:{v}")
            if self.rx_pw[p] != v:
                self.altered.add(reg)
            self.rx_pw[p] = v
        elif reg == 0x1C:
            if self.feature_visible:
                self._set(reg, "dynpd", self._masked("DYNPD", 0x3F, v))
        elif reg == 0x1D:
            if self.feature_visible:
                self._set(reg, "feature", self._masked("FEATURE", 0x07, v))
        # 0x08, 0x09, 0x17 and unmapped addresses: read-only / ignored

    def read_reg(self, reg: int) -> bytes:
        one = {
            0x00: self.config, 0x01: self.en_aa, 0x02: self.en_rxaddr, 0x03: self.setup_aw,
            0x04: self.setup_retr, 0x05: self.rf_ch, 0x06: self.rf_setup,
            0x08: (min(self.plos_cnt, 15) << 4) | (self.arc_cnt & 0x0F), 0x09: int(self.rpd),
            0x0C: self.rx_addr_n[0], 0x0D: self.rx_addr_n[1], 0x0E: self.rx_addr_n[2],
            0x0F: self.rx_addr_n[3],
            0x1C: self.dynpd if self.feature_visible else 0,
            0x1D: self.feature if self.feature_visible else 0,
        }
        if reg == 0x07:
            return bytes([self.status()])
        if reg == 0x17:
            return bytes([self.fifo_status()])
        if reg in one:
            return bytes([one[reg]])
        if reg in (0x0A, 0x0B):
            return bytes(self.rx_addr[reg - 0x0A])
        if reg == 0x10:
            return bytes(self.tx_addr)
        if 0x11 <= reg <= 0x16:
            return bytes([self.rx_pw[reg - 0x11]])
        return b"\0"

    # ----- SPI -------------------------------------------------------------------------------
    @staticmethod
    def _clock_out(src: bytes, n: int) -> bytes:
        return (bytes(src) + bytes(n))[:n]

    def xfer(self, out: bytes) -> bytes:
        if not out:
            return b""
        cmd, d = out[0], bytes(out[1:])
        st, n = self.status(), len(out) - 1
        z = bytes(n)
        if cmd < 0x20:
            return bytes([st]) + self._clock_out(self.read_reg(cmd), n)
        if cmd < 0x40:
            if n:
                self.write_reg(cmd - 0x20, d)
            return bytes([st]) + z
        if cmd == 0x50:
            if not self.plus and n and d[0] == 0x73:
                self.activated = not self.activated
            return bytes([st]) + z
        if cmd == 0x60:
            wid = len(self.rx_fifo[0][1]) if self.rx_fifo else 0
            return bytes([st]) + self._clock_out(bytes([wid]), n)
        if cmd == 0x61:
            if not self.rx_fifo:
                return bytes([st]) + bytes([self.last_byte]) * n
            _, data = self.rx_fifo.pop(0)
            last = data[-1] if data else self.last_byte
            o = (data + bytes([last]) * n)[:n]
            if n:
                self.last_byte = o[-1]
            return bytes([st]) + o
        if cmd in (0xA0, 0xB0) or 0xA8 <= cmd <= 0xAD:
            if len(self.tx_fifo) < 3 and n:
                kind = "P" if cmd == 0xA0 else ("N" if cmd == 0xB0 else ("A", cmd - 0xA8))
                self.tx_fifo.append([kind, d[:32], None])
            return bytes([st]) + z
        if cmd == 0xE1:
            self.tx_fifo.clear()
        elif cmd == 0xE2:
            self.rx_fifo.clear()
        return bytes([st]) + z

    def xfer_view(self, out: bytes, view) -> bytes:
        """a read-only transaction (NOP / R_REGISTER) answered while a transmit cycle is still in progress
        (SimWorld.polling): STATUS, FIFO_STATUS and OBSERVE_TX still show the state before the cycle"""
        cmd, n = out[0], len(out) - 1
        st, fifo, obs = view
        if cmd < 0x20:
            src = {0x07: bytes([st]), 0x17: bytes([fifo]), 0x08: bytes([obs])}.get(cmd) or self.read_reg(cmd)
            return bytes([st]) + self._clock_out(src, n)
        return bytes([st]) + bytes(n)

    # ----- reception -------------------------------------------------------------------------
    def listens_to(self, k) -> Optional[int]:
        if not (self.rx_mode() and self.rf_ch == k["ch"] and self.rate() == k["rate"]
                and self.esb() == k["esb"] and self.crc_len() == k["crc"]
                and self.aw() == len(k["addr"])):
            return None
        for p in range(6):
            if self.en_rxaddr & (1 << p) and self.addr_of(p)[: self.aw()] == k["addr"]:
                dpl = self.esb() and self.dpl_on(p)
                if dpl != k["dpl"]:
                    return None
                if not k["dpl"] and (len(k["data"]) != self.rx_pw[p] or not k["data"]):
                    return None
                return p
        return None

    def receive(self, k):
        """returns None (no ACK) or ("ack", payload-or-None)"""
        p = self.listens_to(k)
        if p is None:
            return None
        dup = k["esb"] and self.last_rx == (k["pid"], k["addr"], k["data"])
        if not dup and len(self.rx_fifo) >= 3:
            return None
        acks = k["esb"] and bool(self.en_aa & (1 << p)) and not k["noack"]
        ack_pay = acks and bool(self.feature & 2) and self.dpl_on(p)
        if dup:
            return ("ack", self.last_ack if ack_pay else None) if acks else None
        self.rx_fifo.append((p, k["data"]))
        self.flags |= 0x40
        self.rpd = True
        if k["esb"]:
            self.last_rx = (k["pid"], k["addr"], k["data"])
        if not acks:
            return None
        self.last_ack = None
        if ack_pay:
            for i, e in enumerate(self.tx_fifo):
                if e[0] == ("A", p):
                    self.last_ack = e[1]
                    del self.tx_fifo[i]
                    break
        return ("ack", self.last_ack)


class SimWorld:
    def __init__(self, n: int = 1, plus: bool = True):
        self.radios = [SimRadio(self, i, plus) for i in range(n)]
        self.clock = 0
        self.faults: List[str] = []  # "D" delivered, "L" packet lost, "A" ack lost
        self.air: list = []
        self.spi_count = 0
        self.call_budget = MAX_SPI_PER_CALL
        self.poll_depth = 0

    def polling(self):
        """context manager for BLOCKING driver calls (send / resend): while it is active, status polls issued while a
        transmit cycle is in progress see the radio as it was before the cycle and advance the clock only part of
        the way (half of what remains), instead of jumping to the cycle's end at the first poll.  A driver that polls
        until the radio reports the outcome sees the same final state at the same final time as with the jump (so the
        model, which jumps, still corresponds); a driver that gives up on a deadline of its own does not (seeded change
        C02-s22).  Outside blocking calls the jump semantics of DESIGN section 0.2 are unchanged."""
        w = self

        class _P:
            def __enter__(self):
                # only cycles STARTED inside the blocking call are polled: a transmission that is already in flight when
                # the call begins (a non-blocking write() before it) is finished by the jump, as everywhere else - the
                # model resolves it atomically, and "resend() while a packet is still on the air" is outside every
                # property (it was a false alarm of the first version of this view: vp check, seed 1, C20)
                for r in w.radios:
                    r.view = None
                w.poll_depth += 1

            def __exit__(self, *a):
                w.poll_depth -= 1
        return _P()

    # ----- time ------------------------------------------------------------------------------
    def sleep(self, seconds: float):
        if seconds < 0:
            raise ValueError("sleep length must be non-negative")   # as CPython's time.sleep
        self.clock += int(round(seconds * 1e9))

    def monotonic_ns(self) -> int:
        return self.clock

    def monotonic(self) -> float:
        return self.clock / 1e9

    # ----- air -------------------------------------------------------------------------------
    def _deliver(self, s: int, k):
        ack = None
        for r in self.radios:
            if r.idx == s:
                continue
            a = r.receive(k)
            if ack is None:
                ack = a
        return ack

    def _next_fault(self) -> str:
        return self.faults.pop(0) if self.faults else "D"

    def _cycle(self, r: SimRadio):
        e = r.tx_fifo[0]
        kind, data, pid = e
        if pid is None:
            pid = r.next_pid
            r.next_pid = (r.next_pid + 1) % 4
        noack = kind == "N" and bool(r.feature & 1)
        k = {"ch": r.rf_ch, "rate": r.rate(), "crc": r.crc_len(), "esb": r.esb(),
             "dpl": r.esb() and r.dpl_on(0), "addr": bytes(r.tx_addr[: r.aw()]), "pid": pid,
             "noack": noack, "data": bytes(data)}
        await_ack = r.esb() and bool(r.en_aa & 1) and not noack
        start = max(self.clock, r.busy_until)
        ard_ns = 250 * ((r.setup_retr >> 4) + 1) * 1000
        if not await_ack:
            if self._next_fault() != "L":
                self._deliver(r.idx, k)
            r.tx_fifo.pop(0)
            r.flags |= 0x20
            r.arc_cnt = 0
            r.busy_until = start + T_TX_NS
            self.air.append((r.idx, k, 1, True))
            return
        arc = r.setup_retr & 0x0F
        made, got = 0, None
        for _ in range(arc + 1):
            o = self._next_fault()
            made += 1
            if o == "L":
                continue
            ack = self._deliver(r.idx, k)
            if o == "A" or ack is None:
                continue
            can_hear = bool(r.en_rxaddr & 1) and bytes(r.rx_addr[0][: r.aw()]) == bytes(r.tx_addr[: r.aw()])
            if can_hear:
                got = ack
                break
        if got is not None:
            r.tx_fifo.pop(0)
            r.flags |= 0x20
            r.arc_cnt = made - 1
            if got[1] is not None and r.feature & 2 and r.dpl_on(0) and len(r.rx_fifo) < 3:
                r.rx_fifo.append((0, got[1]))
                r.flags |= 0x40
            r.busy_until = start + (made - 1) * (T_TX_NS + ard_ns) + T_TX_NS + T_ACK_NS
            self.air.append((r.idx, k, made, True))
        else:
            e[2] = pid
            r.flags |= 0x10
            r.arc_cnt = arc
            r.plos_cnt = min(15, r.plos_cnt + 1)
            r.busy_until = start + made * (T_TX_NS + ard_ns)
            self.air.append((r.idx, k, made, False))

    def _try_transmit(self, r: SimRadio):
        if self.clock >= r.busy_until:
            r.view = (r.status(), r.fifo_status(), (min(r.plos_cnt, 15) << 4) | (r.arc_cnt & 0x0F))
        for _ in range(4):
            if not (r.tx_mode() and not (r.flags & 0x10) and r.tx_fifo):
                return
            if isinstance(r.tx_fifo[0][0], tuple):
                return
            self._cycle(r)

    # ----- pins and bus ----------------------------------------------------------------------
    def spi(self, idx: int, out: bytes) -> bytes:
        r = self.radios[idx]
        if (self.poll_depth > 0 and r.view is not None and out and (out[0] == 0xFF or out[0] < 0x20)
                and r.busy_until - self.clock > 4 * SPI_COST_NS):
            self.clock += (r.busy_until - self.clock) // 2 - SPI_COST_NS
            inb = r.xfer_view(bytes(out), r.view)
            self.clock += SPI_COST_NS
            self.spi_count += 1
            self.call_budget -= 1
            if self.call_budget < 0:
                raise SimTimeout("SPI transaction budget of one public call exhausted")
            return inb
        self.clock = max(self.clock, r.busy_until)
        inb = r.xfer(bytes(out))
        self.clock += SPI_COST_NS
        self.spi_count += 1
        self.call_budget -= 1
        if self.call_budget < 0:
            raise SimTimeout("SPI transaction budget of one public call exhausted")
        self._try_transmit(r)
        return inb

    def set_ce(self, idx: int, v: bool):
        r = self.radios[idx]
        self.clock = max(self.clock, r.busy_until)
        r.ce = bool(v)
        self._try_transmit(r)

    def inject(self, idx: int, pipe: int, data: bytes):
        r = self.radios[idx]
        if not (r.rx_mode() and len(r.rx_fifo) < 3 and pipe < 6 and r.en_rxaddr & (1 << pipe)):
            return
        if r.esb() and r.dpl_on(pipe):
            if not 1 <= len(data) <= 32:
                return
        elif len(data) != r.rx_pw[pipe] or not data:
            return
        r.rx_fifo.append((pipe, bytes(data)))
        r.flags |= 0x40
        r.rpd = True


class SimSpiDev:
    """spidev-style bus object (its class name ends in 'SpiDev', so RF24 wraps it in SPIDevCtx).

    It also watches the framing SPIDevCtx is responsible for: the device is (bus 0, device 0), it is opened
    before and closed after every transfer, and a chip-select *pin* (`csn`) is low during a transfer and released
    between two transfers.  Breaches go into the radio's violation log (which the model never has)."""

    def __init__(self, world: SimWorld, idx: int, csn: Optional["SimPin"] = None):
        self.world, self.idx, self.csn = world, idx, csn
        self.no_cs = True
        self._open = False
        self._xfers = 0

    def _log(self, what: str):
        v = self.world.radios[self.idx].violations
        if what not in v:
            v.append(what)

    def open(self, bus, dev):
        if (bus, dev) != (0, 0):
            self._log(f"SPIDEV:opened-bus{bus}-dev{dev}")
        if self._open:
            self._log("SPIDEV:opened-twice")
        self._open = True
        return None

    def close(self):
        self._open = False
        return None

    def xfer2(self, out_buf, baud=0):
        if not self._open:
            self._log("SPIDEV:transfer-on-closed-device")
        if self.csn is not None:
            if self.csn.value:
                self._log("CSN:high-during-transfer")
            if self._xfers and not self.csn.rose:
                self._log("CSN:not-released-between-transfers")
            self.csn.rose = False
            if not self.no_cs:
                self._log("SPIDEV:kernel-chip-select-left-on-with-a-CSN-pin")
        self._xfers += 1
        return bytearray(self.world.spi(self.idx, bytes(out_buf)))


class SimPin:
    """DigitalInOut stand-in; `ce=True` wires it to the radio's CE input"""

    def __init__(self, world: Optional[SimWorld] = None, idx: int = 0, ce: bool = False):
        self.world, self.idx, self.is_ce = world, idx, ce
        self._v = False
        self.rose = False

    def switch_to_output(self, value=False):
        self.value = value

    @property
    def value(self):
        return self._v

    @value.setter
    def value(self, v):
        if bool(v) and not self._v:
            self.rose = True          # a rising edge (chip-select released), consumed by SimSpiDev
        self._v = bool(v)
        if self.is_ce and self.world is not None:
            self.world.set_ce(self.idx, bool(v))


class BusioSpi:
    """busio.SPI-style bus for adafruit_bus_device.SPIDevice (used by rf24_lite)"""

    def __init__(self, world: SimWorld, idx: int):
        self.world, self.idx = world, idx
        self._locked = False
        self._cs_low = False
        self._pending = None

    def try_lock(self):
        if self._locked:
            return False
        self._locked = True
        return True

    def unlock(self):
        self._locked = False

    def configure(self, **kw):
        return None

    def write_readinto(self, out_buf, in_buf, out_start=0, out_end=None, in_start=0, in_end=None):
        out_end = len(out_buf) if out_end is None else out_end
        in_end = len(in_buf) if in_end is None else in_end
        res = self.world.spi(self.idx, bytes(out_buf[out_start:out_end]))
        n = in_end - in_start
        in_buf[in_start:in_end] = (res + bytes(n))[:n]

    def write(self, buf, start=0, end=None):
        # adafruit SPIDevice clocks `extra_clocks` bytes with CS high: ignored by the radio
        return None

    def readinto(self, buf, start=0, end=None, write_value=0):
        return None


class CsPin(SimPin):
    pass


def patch_time(world: SimWorld):
    """make the library's `time` module attributes read the virtual clock"""
    import types

    fake = types.SimpleNamespace(
        sleep=world.sleep, monotonic_ns=world.monotonic_ns, monotonic=world.monotonic
    )
    import circuitpython_nrf24l01.rf24 as m1
    import circuitpython_nrf24l01.rf24_lite as m2
    import circuitpython_nrf24l01.network.mixins as m3
    import circuitpython_nrf24l01.rf24_mesh as m4

    for m in (m1, m2, m3, m4):
        if not hasattr(m, "_verif_real_time"):
            m._verif_real_time = m.time
        m.time = fake


def unpatch_time():
    """give the library modules their real `time` back (other harnesses in the same process use it)"""
    import circuitpython_nrf24l01.rf24 as m1
    import circuitpython_nrf24l01.rf24_lite as m2
    import circuitpython_nrf24l01.network.mixins as m3
    import circuitpython_nrf24l01.rf24_mesh as m4

    for m in (m1, m2, m3, m4):
        if hasattr(m, "_verif_real_time"):
            m.time = m._verif_real_time
