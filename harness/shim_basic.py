"""A minimal SpiDev-style fake SPI bus (a register dictionary, nothing more) and a fake pin.

It only has to let `RF24.__init__` / `NetworkMixin._begin` run: the checks that use it (C16) stub the
radio's `read()` and the node's `_write()` and never look at the registers.  Every instance has its
own state (unlike the shim of the repo's test-suite, whose register file is a class attribute).
"""


class BasicSpiDev:  # the class name must end in "SpiDev": RF24.__init__ dispatches on it
    def __init__(self):
        self.no_cs = True
        self.regs = {i: bytearray([0]) for i in range(0x20)}
        for r in (0x0A, 0x0B, 0x10):
            self.regs[r] = bytearray(5)
        self.regs[7] = bytearray([0x0E])
        self.regs[0x17] = bytearray([0x11])

    def open(self, bus, device):
        return (bus, device)

    def close(self):
        return None

    def xfer2(self, out_buf, baud_rate):
        cmd = out_buf[0]
        n = len(out_buf) - 1
        status = bytearray(self.regs[7])
        if cmd < 0x20:  # R_REGISTER
            data = bytearray(self.regs[cmd])
            return status + (data + bytearray(n))[:n]
        if cmd < 0x40:  # W_REGISTER
            reg = cmd & 0x1F
            if reg == 7:
                self.regs[7][0] &= ~out_buf[1] & 0xFF
            else:
                self.regs[reg] = bytearray(out_buf[1:])
            return status + bytearray(n)
        return status + bytearray(n)  # every command: STATUS + zeros


class BasicPin:
    def __init__(self):
        self.value = False

    def switch_to_output(self, value=False):
        self.value = value


def new_master():
    """a real `RF24Mesh` master (node_id 0) on the fake bus"""
    from circuitpython_nrf24l01.rf24_mesh import RF24Mesh

    return RF24Mesh(BasicSpiDev(), BasicPin(), BasicPin(), node_id=0)
