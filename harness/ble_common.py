"""Adapter that runs the BLE protocol lines (see lean/NrfModel/Drv/Ble.lean) on the real
`circuitpython_nrf24l01.fake_ble` code, shared by the C18 and C19 checks."""
from __future__ import annotations

from harness.framework import Infra, exc_name
from harness.shim_ble import BasicSpiDev, BasicPin, rf_ch

import circuitpython_nrf24l01.fake_ble as fb
from circuitpython_nrf24l01.rf24 import RF24

import time as _time
import circuitpython_nrf24l01.rf24 as _rf24mod


class _NoSleepTime:
    """`time` as seen by rf24.py: real clocks, `sleep` returns at once (never compared)"""

    def __getattr__(self, name):
        return getattr(_time, name)

    @staticmethod
    def sleep(_seconds):
        return None


_rf24mod.time = _NoSleepTime()

BLE_FREQ = (2, 26, 80)


def fake_urandom(n: int) -> bytes:
    return bytes(0xA0 + i for i in range(n))


def hx(b) -> str:
    b = bytes(b)
    return b.hex() if b else "-"


def unhx(s: str) -> bytes:
    return b"" if s == "-" else bytes.fromhex(s)


def show_item(it) -> str:
    if isinstance(it, fb.TemperatureServiceData):
        return "T:" + hx(it._data)
    if isinstance(it, fb.BatteryServiceData):
        return "B:" + hx(it._data)
    if isinstance(it, fb.UrlServiceData):
        return "U:" + hx(it._type) + ":" + hx(it._data)
    if isinstance(it, (bytes, bytearray)):
        return "R:" + hx(it)
    return "?:" + repr(it)


def show_elem(q) -> str:
    if q is None:
        return "none"
    name = q.name
    if isinstance(name, str):
        name = name.encode("utf-8")
    return "mac={},name={},pa={},data=[{}]".format(
        hx(q.mac), "none" if name is None else hx(name),
        "none" if q.pa_level is None else int(q.pa_level),
        "/".join(show_item(i) for i in q.data))


class Session:
    """one `ble …` line: a fresh FakeBLE on a fresh fake radio that it shares with a plain RF24
    object (the `foreign` writer)"""

    def __init__(self, with_other=True):
        self.spi = BasicSpiDev()
        # the second driver object is constructed first (its constructor programs the radio)
        self.other = RF24(self.spi, BasicPin(), BasicPin()) if with_other else None
        self.ble = fb.FakeBLE(self.spi, BasicPin(), BasicPin())
        self.sent = []
        self.rx = []
        self.ble.send = lambda buf, *a, **k: self.sent.append(bytes(buf)) or True

    def state(self) -> str:
        b = self.ble
        nm = b.name
        if (nm, b.show_pa_level) != (b._ble_name, bool(b._show_dbm)) or b.channel != rf_ch(self.spi):
            raise Infra("public getters disagree with the attributes they expose")
        return "s={},{},{},{},{},{},{}".format(
            b._curr_freq, b._channel, b.channel, 1 if b.show_pa_level else 0,
            "none" if nm is None else hx(nm), hx(b.mac), len(b.rx_queue))

    def op(self, toks) -> str:
        b = self.ble
        o = toks[0]
        if o == "hop":
            b.hop_channel()
            return "ok"
        if o == "chan":
            b.channel = int(toks[1])
            return "ok"
        if o == "exit":
            b.__exit__()
            return "ok"
        if o == "enter":
            b.__enter__()
            return "ok"
        if o == "foreign":
            # another driver object on the same radio retunes it (its `channel` setter writes
            # register 5 only; the complete save/restore of a context is property C09's business)
            self.other.channel = int(toks[1])
            return "ok"
        if o == "name":
            a = toks[1]
            if a == "none":
                b.name = None
            elif a == "other":
                b.name = 5
            else:
                raw = unhx(a)
                # exercise the str path when the bytes are ASCII and of even length
                if len(raw) % 2 == 0 and all(c < 128 for c in raw):
                    b.name = raw.decode("ascii")
                elif len(raw) % 3 == 0:
                    b.name = bytearray(raw)
                else:
                    b.name = raw
            return "ok"
        if o == "showpa":
            b.show_pa_level = bool(int(toks[1]))
            return "ok"
        if o == "pa":
            b.pa_level = int(toks[1])
            return "ok"
        if o == "mac":
            a = toks[1]
            if a == "none":
                b.mac = None
            elif a.startswith("i"):
                b.mac = int(a[1:])
            else:
                b.mac = unhx(a)
            return "ok"
        if o == "lenav":
            return str(b.len_available(unhx(toks[1])))
        if o == "advlm":      # one list of bytearray chunks (what chunk() returns), advertised twice
            items = [bytearray(unhx(x)) for x in toks[1].split(",")]
            try:
                b.advertise(items)
                p1 = hx(self.sent[-1])
                b.advertise(items)
                out = f"sent={p1},{hx(self.sent[-1])}"
            except Exception as e:  # noqa: BLE001
                out = "exc=" + exc_name(e)
            return out + " list=" + ",".join(hx(x) for x in items)
        if o in ("adv", "advl", "advbad"):
            n = len(self.sent)
            if o == "adv":
                self._buf = getattr(self, "_buf", bytearray())      # the application's ONE buffer, re-used
                self._buf[:] = unhx(toks[1])
                b.advertise(self._buf, int(toks[2]))
                if bytes(self._buf) != unhx(toks[1]):
                    return "caller-buffer-modified"
            elif o == "advl":
                items = [] if toks[1] == "[]" else [unhx(x) for x in toks[1].split(",")]
                b.advertise(tuple(items) if len(items) % 2 else items)
            else:
                b.advertise(5)
            if len(self.sent) != n + 1:
                return "sent=?"
            return "sent=" + hx(self.sent[-1])
        if o == "rx":
            self.rx.append(unhx(toks[1]))
            try:
                r = b.available()
                out = "1" if r else "0"
            except Exception as e:  # state after the exception is part of the observation
                out = "exc=" + exc_name(e)
            self.rx.clear()
            return out + " c=" + hx(b.rx_cache)
        if o == "rxnone":
            r = b.available()
            return ("1" if r else "0") + " c=" + hx(b.rx_cache)
        if o == "read":
            return show_elem(b.read())
        raise Infra("unknown ble op " + o)


def run_session(toks) -> str:
    ops, cur = [], []
    for t in toks:
        if t == ";":
            ops.append(cur)
            cur = []
        else:
            cur.append(t)
    ops.append(cur)
    old = (fb.urandom, RF24.available, RF24.read)
    fb.urandom = fake_urandom
    try:
        s = Session(with_other="foreign" in toks)
        RF24.available = lambda self: bool(s.rx) if self is s.ble else old[1](self)
        RF24.read = (lambda self, length=None:
                     bytearray(s.rx[0]) if self is s.ble else old[2](self, length))
        outs = []
        for o in ops:
            try:
                r = s.op(o)
            except Infra:
                raise
            except Exception as e:
                r = "exc=" + exc_name(e)
            outs.append(r + " " + s.state())
        return " ; ".join(outs)
    finally:
        fb.urandom, RF24.available, RF24.read = old


def pyres(f) -> str:
    try:
        return f()
    except Infra:
        raise
    except Exception as e:
        return "exc=" + exc_name(e)


def impl_line(line: str) -> str:
    toks = line.split()
    op, args = toks[0], toks[1:]
    if op == "ble":
        return run_session(args)
    if op == "swap":
        return str(fb.swap_bits(int(args[0])))
    if op == "revbits":
        return hx(fb.reverse_bits(unhx(args[0])))
    if op == "chunk":
        return pyres(lambda: hx(fb.chunk(unhx(args[0]), int(args[1]))))
    if op == "whitener":
        return hx(fb.whitener(unhx(args[0]), int(args[1])))
    if op == "crc24":
        return pyres(lambda: hx(fb.crc24_ble(unhx(args[0]))))
    if op == "tempenc":
        def f():
            t = fb.TemperatureServiceData()
            t.data = int(args[0]) / 100.0  # the float glue: hundredths -> the float a user passes
            return hx(t.buffer[2:])
        return pyres(f)
    if op == "tempdec":
        def f():
            t = fb.TemperatureServiceData()
            t.data = unhx(args[0])
            return str(round(t.data * 100))  # float glue: back to integer hundredths
        return pyres(f)
    if op == "batenc":
        def f():
            t = fb.BatteryServiceData()
            t.data = int(args[0])
            return hx(t.buffer[2:])
        return pyres(f)
    if op == "batdec":
        def f():
            t = fb.BatteryServiceData()
            t.data = unhx(args[0])
            return str(t.data)
        return pyres(f)
    if op == "urlenc":
        def f():
            t = fb.UrlServiceData()
            t.data = unhx(args[0]).decode("ascii")
            return hx(t.buffer[4:])
        return pyres(f)
    if op == "urldec":
        def f():
            t = fb.UrlServiceData()
            t.data = unhx(args[0])
            return hx(t.data.encode("utf-8"))
        return pyres(f)
    if op == "svc":
        def f():
            t = fb.ServiceData(int(args[0]))
            if len(args) > 1:       # `svc <uuid>` alone: a fresh object, `.data` never assigned
                t.data = unhx(args[1])
            if t.buffer != t.uuid + t.data or repr(t) != fb.address_repr(t.buffer, False):
                raise Infra("ServiceData accessors inconsistent")
            return hx(t.buffer) + " " + str(len(t))
        return pyres(f)
    if op == "urlinit":
        def f():
            t = fb.UrlServiceData()
            return hx(t._type) + ("" if t.pa_level_at_1_meter == -25 and t.uuid == bytes([0xAA, 0xFE]) else " accessors-disagree")
        return pyres(f)
    if op == "urlpa":
        def f():
            t = fb.UrlServiceData()
            t._type = unhx(args[0])
            return str(t.pa_level_at_1_meter)
        return pyres(f)
    if op == "urlpaset":
        def f():
            t = fb.UrlServiceData()
            t._type = unhx(args[0])
            v = args[1]
            t.pa_level_at_1_meter = int(v[1:]) if v.startswith("i") else unhx(v)
            return hx(t._type)
        return pyres(f)
    raise Infra("unknown op " + op)


# ---------------------------------------------------------------------------------------------
# helpers for the judges
# ---------------------------------------------------------------------------------------------
def split_session(line: str, out: str):
    """[(op tokens, result string, state tuple or None)] of a `ble` line and its output"""
    ops, cur = [], []
    for t in line.split()[1:]:
        if t == ";":
            ops.append(cur)
            cur = []
        else:
            cur.append(t)
    ops.append(cur)
    parts = out.split(" ; ")
    res = []
    for i, o in enumerate(ops):
        if i >= len(parts):
            res.append((o, None, None))
            continue
        p = parts[i]
        k = p.rfind(" s=")
        if k < 0:
            res.append((o, p, None))
            continue
        st = p[k + 3:].split(",")
        res.append((o, p[:k], st))
    return res


def pad32(b: bytes) -> bytes:
    return (b + b"\0" * 32)[:32]
