"""entry point: ./check <Cxx> [--tier quick|thorough] [--replay file]"""
import argparse
import importlib
import os
import sys
import traceback

from harness.framework import Infra


def main() -> int:
    ap = argparse.ArgumentParser()
    ap.add_argument("prop")
    ap.add_argument("--tier", default=os.environ.get("VERIF_TIER", "quick"), choices=["quick", "thorough"])
    ap.add_argument("--replay", default=None)
    args = ap.parse_args()
    try:
        mod = importlib.import_module(f"harness.props.{args.prop.lower()}")
    except ModuleNotFoundError:
        print(f"no check for {args.prop}", file=sys.stderr)
        return 2
    cov = None
    if os.environ.get("VERIF_COVERAGE"):
        # opt-in measurement of what the correspondence runs execute of the library (tools/tie_coverage.sh);
        # never part of a registered check
        import coverage
        repo = os.environ.get("VERIF_REPO", "/repo")
        os.makedirs(os.environ["VERIF_COVERAGE"], exist_ok=True)
        cov = coverage.Coverage(data_file=os.path.join(os.environ["VERIF_COVERAGE"], f".coverage.{args.prop}"),
                                branch=True, include=[os.path.join(repo, "circuitpython_nrf24l01", "*")])
        cov.start()
    try:
        if args.replay:
            return mod.replay(args.replay)
        return mod.run(args.tier)
    except Infra as e:
        print(f"INFRASTRUCTURE: {e}", file=sys.stderr)
        return 2
    except Exception:
        traceback.print_exc()
        return 2
    finally:
        if cov is not None:
            cov.stop()
            cov.save()


if __name__ == "__main__":
    sys.exit(main())
