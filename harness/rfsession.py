"""Runs an `rf …` session line (see lean/NrfModel/Drv/Rf.lean) on the real drivers over simradio.

The output format mirrors the Lean driver exactly: per op
   `<result> ~ <object shadows> ~ <all radios> ~ [<new air records>]`   joined by ` ; `.
"""
from __future__ import annotations

from harness.framework import exc_name, Infra
from harness import simradio
from harness.simradio import SimWorld, SimSpiDev, SimPin, SimTimeout


def hx(b) -> str:
    b = bytes(b)
    return b.hex() if b else "-"


def unhex(s: str) -> bytes:
    return b"" if s == "-" else bytes.fromhex(s)


def sb(v) -> str:
    return "T" if v else "F"


def b01(v) -> str:
    return "1" if v else "0"


def show_tx_entry(e) -> str:
    kind, data, pid = e
    k = kind if isinstance(kind, str) else f"A{kind[1]}"
    return f"{k}:{hx(data)}:{'none' if pid is None else pid}"


def show_radio(r: simradio.SimRadio) -> str:
    return (
        f"cfg={r.config} aa={r.en_aa} rxen={r.en_rxaddr} aw={r.setup_aw} retr={r.setup_retr} ch={r.rf_ch} "
        f"rf={r.rf_setup} fl={r.flags} a0={hx(r.rx_addr[0])} a1={hx(r.rx_addr[1])} "
        f"an={','.join(map(str, r.rx_addr_n))} "
        f"tx={hx(r.tx_addr)} pw={','.join(map(str, r.rx_pw))} dyn={r.dynpd} feat={r.feature} act={b01(r.activated)} "
        f"txf=[{','.join(show_tx_entry(e) for e in r.tx_fifo)}] "
        f"rxf=[{','.join(f'{p}:{hx(d)}' for p, d in r.rx_fifo)}] "
        f"arc={r.arc_cnt} plos={r.plos_cnt} rpd={b01(r.rpd)} ce={b01(r.ce)} npid={r.next_pid} "
        f"irq={b01(r.irq_line())} viol=[{'|'.join(r.violations)}]"
    )


def show_rf24(d) -> str:
    pn = []
    for x in d._pipes[2:]:
        pn.append(str(x))
    p0r = "none" if d._pipe0_read_addr is None else hx(d._pipe0_read_addr)
    return (
        f"st={d._in[0]} p0={hx(d._pipes[0])} p1={hx(d._pipes[1])} pn={','.join(pn)} cfg={d._config} "
        f"open={d._open_pipes} feat={d._features} retr={d._retry_setup} rf={d._rf_setup} dyn={d._dyn_pl} aa={d._aa} "
        f"ch={d._channel} al={d._addr_len} pl={','.join(map(str, d._pl_len))} p0r={p0r} "
        f"txa={hx(d._tx_address)} plus={b01(d._is_plus_variant)}"
    )


def show_packet(k) -> str:
    return (f"ch{k['ch']}/r{k['rate']}/c{k['crc']}/e{b01(k['esb'])}/d{b01(k['dpl'])}/{hx(k['addr'])}/"
            f"p{k['pid']}/n{b01(k['noack'])}/{hx(k['data'])}")


def show_air(a) -> str:
    s, k, n, ok = a
    return f"{s}>{show_packet(k)}x{n}:{b01(ok)}"


def parse_arg(s: str):
    if s == "T":
        return True
    if s == "F":
        return False
    if s == "X":
        return "not-a-number"
    if s.startswith("["):
        inner = s[1:-1]
        return [] if not inner else [int(x) for x in inner.split(",")]
    return int(s)


def opt_int(s):
    return None if s == "N" else int(s)


def opt_bool(s):
    return None if s == "N" else (s == "T")


def pb(s):
    if s not in ("T", "F"):
        raise Infra("bad bool " + s)
    return s == "T"


# the caller's mutable buffers: ONE bytearray object per argument position for the whole session, rewritten in place
# before each call (an application that re-uses its transmit buffer).  A library that kept a reference to a buffer it
# was handed - instead of copying what it needs - would see it change under its feet.
_POOL = []


_ADDR = bytearray()


def reset_pool():
    del _POOL[:]
    del _ADDR[:]


def pooled_addr(b: bytes):
    """the application's ONE address buffer, rewritten in place for every open_rx_pipe() / open_tx_pipe() call"""
    _ADDR[:] = b
    return _ADDR


def parse_buf(s, k=0):
    if s.startswith("m:"):
        while len(_POOL) <= k:
            _POOL.append(bytearray())
        _POOL[k][:] = unhex(s[2:])
        return _POOL[k]
    if s.startswith("i:"):
        return unhex(s[2:])
    raise Infra("bad buffer " + s)


def s_send_res(r) -> str:
    if r is True or r is False:
        return sb(r)
    if r is None:
        return "N"
    return hx(r)


DEFAULTS = {"send": ["F", "0", "F"], "write": ["F", "F"], "resend": ["F"], "read": ["N"], "fifo": ["F", "N"],
            "clear_status_flags": ["T", "T", "T"], "interrupt_config": ["T", "T", "T"], "set_dynamic_payloads": ["N"],
            "get_dynamic_payloads": ["0"], "set_payload_length": ["N"], "get_payload_length": ["0"], "address": ["-1"]}


NET_DEFAULTS = {"write": ["56"], "multicast": ["N"], "check_connection": ["3", "F"], "lookup_node_id": ["N"],
                "lookup_address": ["0"], "release_address": ["0"]}


_CUR_WORLD = [None]


def _world_of(_d):
    """the simulated world of the running session (blocking calls poll: SimWorld.polling)"""
    return _CUR_WORLD[0]


def expand_defaults(toks, table=None):
    """`dflt <method> <required args>` -> the explicit call with the documented default values"""
    return toks[1:] + (table or DEFAULTS)[toks[1]] if toks and toks[0] == "dflt" else toks


def call_with_defaults(d, t):
    """`dflt <method> <required args>`: the real call with every optional parameter omitted"""
    m = t[0]
    if m == "send":
        buf = parse_buf(t[1])
        with _world_of(d).polling():
            return f"{s_send_res(d.send(buf))} buf={hx(buf)}"
    if m == "write":
        buf = parse_buf(t[1])
        return f"{sb(d.write(buf))} buf={hx(buf)}"
    if m == "resend":
        with _world_of(d).polling():
            return s_send_res(d.resend())
    if m == "read":
        r = d.read()
        return "N" if r is None else hx(r)
    if m == "fifo":
        return str(int(d.fifo()))
    if m in ("clear_status_flags", "interrupt_config"):
        getattr(d, m)()
        return "ok"
    if m == "set_dynamic_payloads":
        d.set_dynamic_payloads(pb(t[1]))
        return "ok"
    if m == "set_payload_length":
        d.set_payload_length(int(t[1]))
        return "ok"
    if m == "get_dynamic_payloads":
        return sb(d.get_dynamic_payloads())
    if m == "get_payload_length":
        return str(d.get_payload_length())
    if m == "address":
        return hx(d.address())
    raise Infra("no default form of " + m)


def rf24_call(d, toks):
    """returns the result string (exceptions propagate)"""
    t = toks
    if t[0] == "dflt":
        return call_with_defaults(d, t[1:])
    if t[0] == "get":
        a = t[1]
        v = getattr(d, a)
        if a in ("listen", "tx_full", "irq_dr", "irq_ds", "irq_df", "ack", "allow_ask_no_ack", "power",
                 "is_lna_enabled", "rpd", "is_plus_variant"):
            return sb(v)
        if a == "pipe":
            return "N" if v is None else str(v)
        return str(int(v))
    if t[0] == "set":
        a = t[1]
        if a in ("listen", "ack", "allow_ask_no_ack", "power"):
            setattr(d, a, pb(t[2]))
        elif a == "pa_level" and len(t) == 4:
            setattr(d, a, (parse_arg(t[2]), pb(t[3])))
        else:
            setattr(d, a, parse_arg(t[2]))
        return "ok"
    m = t[0]
    if m == "open_tx_pipe":
        d.open_tx_pipe(pooled_addr(unhex(t[1])))
        return "ok"
    if m == "close_rx_pipe":
        d.close_rx_pipe(int(t[1]))
        return "ok"
    if m == "open_rx_pipe":
        d.open_rx_pipe(int(t[1]), pooled_addr(unhex(t[2])))
        return "ok"
    if m == "available":
        return sb(d.available())
    if m == "any":
        return str(d.any())
    if m == "read":
        r = d.read(opt_int(t[1]))
        return "N" if r is None else hx(r)
    if m == "send":
        buf = parse_buf(t[1])
        with _world_of(d).polling():
            r = d.send(buf, pb(t[2]), int(t[3]), pb(t[4]))
        return f"{s_send_res(r)} buf={hx(buf)}"
    if m == "sendl":
        bufs = [parse_buf(x, k) for k, x in enumerate(t[4:])]
        with _world_of(d).polling():
            r = d.send(bufs, pb(t[1]), int(t[2]), pb(t[3]))
        return "[" + ",".join(s_send_res(x) for x in r) + "] buf=" + ",".join(hx(b) for b in bufs)
    if m == "write":
        buf = parse_buf(t[1])
        r = d.write(buf, pb(t[2]), pb(t[3]))
        return f"{sb(r)} buf={hx(buf)}"
    if m == "resend":
        with _world_of(d).polling():
            return s_send_res(d.resend(pb(t[1])))
    if m == "update":
        return sb(d.update())
    if m == "clear_status_flags":
        d.clear_status_flags(pb(t[1]), pb(t[2]), pb(t[3]))
        return "ok"
    if m == "interrupt_config":
        d.interrupt_config(pb(t[1]), pb(t[2]), pb(t[3]))
        return "ok"
    if m == "set_dynamic_payloads":
        d.set_dynamic_payloads(pb(t[1]), opt_int(t[2]))
        return "ok"
    if m == "get_dynamic_payloads":
        return sb(d.get_dynamic_payloads(int(t[1])))
    if m == "set_payload_length":
        d.set_payload_length(int(t[1]), opt_int(t[2]))
        return "ok"
    if m == "get_payload_length":
        return str(d.get_payload_length(int(t[1])))
    if m == "set_auto_retries":
        d.set_auto_retries(int(t[1]), int(t[2]))
        return "ok"
    if m == "get_auto_retries":
        a, b = d.get_auto_retries()
        return f"{a},{b}"
    if m == "set_auto_ack":
        d.set_auto_ack(pb(t[1]), opt_int(t[2]))
        return "ok"
    if m == "get_auto_ack":
        return sb(d.get_auto_ack(int(t[1])))
    if m == "load_ack":
        return sb(d.load_ack(unhex(t[1]), int(t[2])))
    if m in ("flush_rx", "flush_tx", "start_carrier_wave", "stop_carrier_wave", "hop_channel"):
        getattr(d, m)()
        return "ok"
    if m == "fifo":
        r = d.fifo(pb(t[1]), opt_bool(t[2]))
        return str(int(r)) if t[2] == "N" else sb(r)
    if m == "address":
        return hx(d.address(int(t[1])))
    if m == "withraise":        # an exception raised inside the block must come out of it
        class _Probe(Exception):
            pass
        try:
            with d:
                raise _Probe()
        except _Probe:
            return "raised"
        return "swallowed"
    if m == "enter":
        d.__enter__()
        return "ok"
    if m == "exit":
        d.__exit__()
        return "ok"
    raise Infra("unknown method " + m)


class Session:
    def __init__(self, nradios: int, plus: bool):
        reset_pool()
        self.world = SimWorld(nradios, plus)
        _CUR_WORLD[0] = self.world
        simradio.patch_time(self.world)
        self.objs = {}
        self.air_seen = 0

    def step(self, toks):
        from circuitpython_nrf24l01.rf24 import RF24

        w = self.world
        w.call_budget = simradio.MAX_SPI_PER_CALL
        if toks[0] == "new":
            name, cls, rid = toks[1], toks[2], int(toks[3])
            if cls == "rf24":
                klass = RF24
            elif cls == "ble":
                import circuitpython_nrf24l01.fake_ble as fb
                fb.urandom = lambda n: bytes(range(0xA1, 0xA1 + n))
                klass = fb.FakeBLE
            elif cls == "lite":
                from circuitpython_nrf24l01.rf24_lite import RF24 as klass
            else:
                raise Infra("unknown class " + cls)
            obj = klass.__new__(klass)
            self.objs[name] = obj
            try:
                if cls == "lite":
                    klass.__init__(obj, simradio.BusioSpi(w, rid), simradio.CsPin(), SimPin(w, rid, ce=True))
                else:
                    csn = SimPin()
                    klass.__init__(obj, SimSpiDev(w, rid, csn), csn, SimPin(w, rid, ce=True))
                res = "ok"
            except SimTimeout:
                res = "exc=DIVERGE"
            except Exception as e:
                res = "exc=" + exc_name(e)
            return res + " ~ " + self.show_obj(obj)
        if toks[0] == "env":
            if toks[1] == "inject":
                w.inject(int(toks[2]), int(toks[3]), unhex(toks[4]))
            elif toks[1] == "faults":
                w.faults = [] if toks[2] == "-" else list(toks[2])
            elif toks[1] == "sleep":
                w.clock += int(toks[2])
            else:
                raise Infra("bad env op")
            return "ok ~ -"
        obj = self.objs[toks[0]]
        try:
            res = rf24_call(obj, toks[1:])
        except SimTimeout:
            res = "exc=DIVERGE"
        except Infra:
            raise
        except Exception as e:
            res = "exc=" + exc_name(e)
        return res + " ~ " + self.show_obj(obj)

    def show_obj(self, obj):
        try:
            if type(obj).__module__.endswith("rf24_lite"):
                p0r = "none" if obj._pipe0_read_addr is None else hx(obj._pipe0_read_addr)
                return f"st={obj._status} p0r={p0r}"
            if type(obj).__name__ == "FakeBLE":
                return show_rf24(obj) + f" cf={obj._curr_freq}"
            return show_rf24(obj)
        except AttributeError:
            return "partial-object"

    def run(self, ops):
        outs = []
        for op in ops:
            res = self.step(op)
            new_air = self.world.air[self.air_seen:]
            self.air_seen = len(self.world.air)
            outs.append(res + " ~ " + " || ".join(show_radio(r) for r in self.world.radios)
                        + " ~ [" + ",".join(show_air(a) for a in new_air) + "]")
        return " ; ".join(outs)


def split_ops(toks):
    ops, cur = [], []
    for t in toks:
        if t == ";":
            ops.append(cur)
            cur = []
        else:
            cur.append(t)
    if cur:
        ops.append(cur)
    return ops


def run_line(line: str) -> str:
    toks = line.split()
    if toks[0] != "rf":
        raise Infra("not an rf line")
    s = Session(int(toks[1]), toks[2] == "1")
    try:
        return s.run(split_ops(toks[3:]))
    finally:
        simradio.unpatch_time()


# ------------------------------------------------------------------------------------------------
# parsing session output (for the judges)
# ------------------------------------------------------------------------------------------------
def _kv(s: str) -> dict:
    d = {}
    for tok in s.split(" "):
        if "=" in tok:
            k, v = tok.split("=", 1)
            d[k] = v
    return d


def parse_out(out: str):
    """[{res, obj:{…}, radios:[{…}], air:str}] per op"""
    ops = []
    for part in out.split(" ; "):
        f = part.split(" ~ ")
        if len(f) != 4:
            ops.append({"res": part, "obj": {}, "radios": [], "air": "[]", "raw": part})
            continue
        ops.append({"res": f[0], "obj": _kv(f[1]), "radios": [_kv(r) for r in f[2].split(" || ")],
                    "air": f[3], "raw": part})
    return ops


CFG_KEYS = ["cfg", "aa", "rxen", "aw", "retr", "ch", "rf", "a0", "a1", "an", "tx", "pw", "dyn", "feat"]
