"""A minimal fake SPI bus for constructing network nodes whose radio traffic is irrelevant to the
property under check (C11/C12/C06 look at what the network layer hands to `RF24.send`, which is
replaced by a recorder): register reads answer with what was written last, commands answer with a
STATUS byte.  No FIFO, no air."""


class BasicSpiDev:  # the class name must end in "SpiDev" (RF24.__init__ dispatches on it)
    def __init__(self):
        self.no_cs = True
        self.regs = {}

    def open(self, bus, device):
        return (bus, device)

    def close(self):
        return None

    def xfer2(self, out_buf, baud_rate):
        cmd = out_buf[0]
        n = len(out_buf) - 1
        status = 0x0E
        if cmd < 0x20:  # R_REGISTER
            val = self.regs.get(cmd, bytearray(5))
            return bytearray([status]) + (bytearray(val) + bytearray(n))[:n]
        if cmd < 0x40:  # W_REGISTER
            self.regs[cmd & 0x1F] = bytearray(out_buf[1:])
            return bytearray([status]) + bytearray(n)
        return bytearray([status]) + bytearray(n)


class BasicPin:
    def __init__(self):
        self.value = False

    def switch_to_output(self, value=False):
        self.value = value


def make_network(node_address=0):
    """an `RF24Network` on the fake bus; `send` records the payloads and reports success (as the
    repository's own `net_obj` fixture does).  Returns (network, list_of_payloads)."""
    from circuitpython_nrf24l01.rf24_network import RF24Network

    net = RF24Network(BasicSpiDev(), BasicPin(), BasicPin(), node_address)
    sent = []

    def rec_send(buf, ask_no_ack=False, force_retry=0, send_only=False):
        sent.append(bytes(buf))
        return True

    net._rf24.send = rec_send
    return net, sent
