"""C17 — mesh joins yield distinct working addresses; lookups give documented codes."""
from harness.framework import *
from harness import gen_net, netsession
from harness.gen_rf import rbytes

DEFAULT = 0o4444
_SPEC = {}


def spec(q):
    """evaluate an executable spec of lean/NrfModel/Spec/MeshProtocol.lean through the driver (memoised)"""
    if q not in _SPEC:
        r = run_driver([q])[0]
        if r == "bad-op":
            raise Infra("spec op failed: " + q)
        _SPEC[q] = r
    return _SPEC[q]


def valid_addr(a):
    if a in (0, DEFAULT):
        return False
    n = 0
    while a:
        if not 1 <= (a & 7) <= 5:
            return False
        a >>= 3
        n += 1
    return n <= 4


ADDRESS_LIKE_IDS = [1, 2, 3, 4, 5, 9, 10, 11, 12, 13, 17, 18, 19, 20, 21]   # = 0o1..0o5, 0o11..0o15, 0o21..0o25


def session(rng, njoin, nops, pool=None):
    """`pool`: draw the node IDs (and the unknown IDs that are looked up) from this list instead of 1..255 - IDs that are
    numerically equal to logical addresses the master hands out (seeded change C17-s5 confused the two in the table search;
    with IDs from 1..255 whether a session contains such a collision depended on the seed)"""
    ids = rng.sample(pool or range(1, 256), njoin)
    ops = ["new m master 0 0"]
    names = []
    for i, nid in enumerate(ids):
        names.append(f"x{i}")
        ops.append(f"new x{i} {rng.choice(['mesh', 'mesh', 'master'])} {i + 1} {nid}")
    idof = dict(zip(names, ids))
    # everybody joins (random order), then a random tail
    order = names[:]
    rng.shuffle(order)
    for n in order:
        ops += [f"{n} renew {rng.choice([1500, 2500])}", f"m lookup_address {idof[n]}"]
    # every node checks its connection both ways (joined directly or through a relay)
    for n in names:
        ops += [f"{n} check_connection 2 F", f"{n} check_connection 2 T"]
    ops += [f"m check_connection 1 {rng.choice('TF')}"]      # the master is connected by definition
    # write() by address: an invalid destination is refused without any transmission
    ops += [f"{rng.choice(names)} mwrite {rng.choice([0o6, 0o7, 0o20, 0o106, 0o11111, 65535])} {rng.choice([1, 70])} {rbytes(rng, 3)}"]
    # the same calls with their optional parameters omitted (judge_defaults: must equal the documented defaults)
    ops += [f"{rng.choice(names)} dflt check_connection", f"{rng.choice(names)} dflt lookup_node_id",
            f"{rng.choice(names)} dflt lookup_address"]
    for _ in range(nops):
        x = rng.random()
        n, o = rng.choice(names), rng.choice(names)
        if x < 0.15:
            ops += [f"{n} release", "m update", f"m lookup_address {idof[n]}"]
        elif x < 0.3:
            ops += [f"{n} renew {rng.choice([1500, 2500])}", f"m lookup_address {idof[n]}"]
        elif x < 0.45:
            ops.append(f"{n} lookup_address {rng.choice([idof[o], idof[o], 0, rng.choice([i for i in (pool or range(1, 256)) if i not in ids])])}")
        elif x < 0.6:
            ops.append(f"{n} lookup_node_id {rng.choice(['N', 0, 'A' + o, 'A' + o, 0o5555])}")   # A<name>: that node's current address
        elif x < 0.8:
            ops += [f"{n} send {idof[o]} {rng.choice([1, 5, 64, 100, 127])} {rbytes(rng, rng.choice([0, 3, 24, 40]))}", "m update", f"{o} read", f"{o} read"]
        elif x < 0.9:
            ops.append(f"{n} check_connection {rng.randint(1, 3)} {rng.choice('TF')}")
        else:
            ops += [f"{n} send 0 {rng.choice([1, 70])} {rbytes(rng, 4)}", "m update", "m read", "m read"]
    return ids, f"net {njoin + 1} 1 " + " ; ".join(ops)


def _frame(frm, to, fid, ty, res, msg=b""):
    import struct
    return (struct.pack("<HHHBB", frm, to, fid, ty, res) + msg).hex()


def scripted_joiner(rng):
    """open system: one joiner against scripted POLL replies and address responses, none of which
    it may accept (wrong ID in `reserved`, or an address that does not lie below the contact):
    it must stay on the unassigned address — nothing it transmits may carry another `from_node`"""
    nid = rng.randint(1, 255)
    contact = rng.choice([0, 0, 0o1, 0o3, 0o5, 0o15, 0o25, 0o123])
    lvl = 0
    c = contact
    while c:
        c >>= 3
        lvl += 1
    child = contact | (rng.randint(1, 5) << (3 * lvl))
    kind = rng.choice(["wrong-id", "wrong-id", "not-below", "not-below", "both", "acceptable", "acceptable"])
    if kind == "acceptable":
        # right ID, a direct child of the contact: the joiner must take the address (it then double-checks with
        # the master, which does not exist here: lookup frames *from the offered address* appear on the air)
        return ("net 1 0 " + " ; ".join([
            f"new x mesh 0 {nid}",
            f"env arrive x {rng.choice([2_000_000, 5_000_000, 20_000_000])} 0 {_frame(contact, DEFAULT, 1, 194, 0)}",
            f"env arrive x {rng.choice([80_000_000, 100_000_000, 150_000_000])} 0 {_frame(0, DEFAULT, 2, 128, nid, child.to_bytes(2, 'little'))}",
            f"x renew {rng.choice([200, 300])}"]))
    rid = nid if kind == "not-below" else rng.choice([i for i in (0, nid ^ 1, nid ^ 0x80, (nid + 1) & 0xFF) if i != nid])
    if kind == "wrong-id":
        offered = child
    else:
        # an address whose low `lvl` digits are not the contact's (only possible below a real contact)
        if lvl == 0:
            kind, rid, offered = "wrong-id", rng.choice([i for i in (0, nid ^ 1) if i != nid]), child
        else:
            other = rng.choice([d for d in range(1, 6) if d != (contact & 7)])
            offered = (child & ~7) | other
    ops = [f"new x mesh 0 {nid}"]
    # the contact answers the level poll of its own level; earlier levels stay silent (about 80 ms each)
    t_poll = 5_000_000 + lvl * 0   # only the first request round is scripted precisely for level 0 contacts
    ops.append(f"env arrive x {rng.choice([2_000_000, 5_000_000, 20_000_000])} 0 {_frame(contact, DEFAULT, 1, 194, 0)}")
    for k in range(rng.randint(1, 3)):
        ops.append(f"env arrive x {rng.choice([70_000_000, 100_000_000, 150_000_000, 250_000_000]) + k * 1000} 0 "
                   f"{_frame(0, DEFAULT, 2 + k, 128, rid, offered.to_bytes(2, 'little') + bytes(rng.choice([0, 0, 2])))}")
    ops.append(f"x renew {rng.choice([200, 300, 450])}")
    return "net 1 0 " + " ; ".join(ops)


def forced_release(rng):
    """the master forcibly releases a joined node's lease: lookups of it give -2, check_connection with
    ping_master is False, a re-join works"""
    nid = rng.randint(1, 255)
    ops = ["new m master 0 0", f"new x0 {rng.choice(['mesh', 'master'])} 1 {nid}", "x0 renew 1500", f"m lookup_address {nid}",
           "m release_address Ax0", f"m lookup_address {nid}", f"x0 check_connection {rng.randint(1, 2)} T",
           f"x0 lookup_address {nid}", "x0 renew 1500", f"m lookup_address {nid}", f"x0 check_connection 1 T"]
    return "net 2 1 " + " ; ".join(ops)


def send_after_rejoin(rng):
    """messages go to node IDs, not to addresses: A sends to B's ID, B releases, C joins (and may take B's old
    address), B re-joins, A sends to B's ID again - the second message must reach B wherever it is now"""
    ids = rng.sample(range(1, 256), 3)
    a, b, c = "x0", "x1", "x2"
    ops = ["new m master 0 0"] + [f"new x{i} mesh {i + 1} {nid}" for i, nid in enumerate(ids)]
    ops += [f"{a} renew 1500", f"m lookup_address {ids[0]}", f"{b} renew 1500", f"m lookup_address {ids[1]}"]
    for k in range(rng.randint(1, 3)):
        ops += [f"{a} send {ids[1]} {rng.choice([1, 5, 64])} {rbytes(rng, rng.choice([1, 3, 24]))}", "m update", f"{b} read", f"{b} read"]
    ops += [f"{b} release", "m update", f"m lookup_address {ids[1]}", f"{c} renew 1500", f"m lookup_address {ids[2]}",
            f"{b} renew 1500", f"m lookup_address {ids[1]}"]
    for k in range(rng.randint(1, 2)):
        ops += [f"{a} send {ids[1]} {rng.choice([1, 5, 64])} {rbytes(rng, rng.choice([1, 3, 24]))}", "m update", f"{b} read", f"{b} read",
                f"{c} read"]
    return "net 4 1 " + " ; ".join(ops)


TIMED_LOOKUP_HEAD = "net 2 1 new m master 0 0 ; new x mesh 1 7 ; x renew 1500 ; env faults D"


def timed_lookup(rng, odd=None):
    """-1 means "no answer within MESH_LOOKUP_TIMEOUT (135 ms)": the master's own reply is lost (every attempt of its
    transmission), and an answer for the asker is scripted to arrive clearly inside or clearly outside the window"""
    inside = odd is not None or rng.random() < 0.5
    delay_ms = rng.choice([20, 50, 80]) if inside else rng.choice([240, 400])
    ty = rng.choice([196, 198])
    answer = rng.choice([0o12, 0o21, 77])
    call = f"x lookup_address {rng.choice([9, 200])}" if ty == 196 else f"x lookup_node_id {rng.choice([0o3, 0o14])}"
    # the first joiner that reaches the master directly gets address 0o5 (C16); the judge skips the case otherwise
    body = answer.to_bytes(2, "little")
    if odd is not None:       # answers of other sizes: one byte is taken as is, none means -1, extra bytes are ignored
        body = [b"", bytes([rng.randrange(256)]), body + bytes([rng.randrange(256)]), bytes([rng.randrange(256), 0xFF])][odd]
    reply = _frame(0, 0o5, rng.randrange(65536), ty, 0, body)
    ops = [f"env faults D{'L' * 200}", f"env arrive x {delay_ms * 1000000} 0 {reply}", call, "env faults -", "x update", "x read"]
    return TIMED_LOOKUP_HEAD[:TIMED_LOOKUP_HEAD.index(" ; env faults D")] + " ; " + " ; ".join(ops)


def judge_timed_lookup(l, io):
    names, parts = l.split(" ; "), io.split(" ; ")
    if parts[2].split(" ~ ")[0].split()[0] != "5":
        return None
    delay = int(names[4].split()[3]) / 1e6
    reply = names[4].split()[-1]
    body = bytes.fromhex(reply[16:])
    answer = int.from_bytes(body[:2], "little", signed=True) if len(body) >= 2 else (body[0] if body else -1)
    res = parts[5].split(" ~ ")[0].split()[0]
    if res.startswith("exc="):
        return Finding(l, f"`{names[5]}` raised {res[4:]}", {})
    if delay <= 80 and res != str(answer):
        return Finding(l, f"`{names[5]}` returned {res} although the answer {answer} arrived {delay:.0f} ms after the call began, "
                          "inside MESH_LOOKUP_TIMEOUT = 135 ms", {"class": "timed-lookup"})
    if delay >= 240 and res != "-1":
        return Finding(l, f"`{names[5]}` returned {res} although the only answer arrived {delay:.0f} ms after the call began, outside "
                          "MESH_LOOKUP_TIMEOUT = 135 ms (documented: -1, no answer)", {"class": "timed-lookup"})
    return None


def resolve(line_ops, run):
    """`lookup_node_id A<name>` needs the node's current address: two-pass (run prefix, substitute)"""
    return line_ops


class C17(PropCheck):
    prop = "C17"
    rule = ("mesh networks of a real RF24Mesh master and 1..9 (thorough: ..12) real mesh nodes with arbitrary distinct IDs on a loss-free "
            "simulated medium: every node joins (random order; more than five joiners force joins through relays), then random "
            "lookups, sends by node ID, releases, re-joins, connection checks; judge: documented results of every call; non-trivial = "
            "at least one join went through a relay or a lookup was answered by the master")
    assumptions = ["closed-system schedule of harness/netsession.py (one joiner at a time, other nodes answer at the caller's polls); "
                   "concurrent joiners, POLL-reply timing races and packet loss are not explored here"]

    def impl(self, line):
        return netsession.run_line(self._concrete(line))

    def _concrete(self, line):
        """replace `A<name>` placeholders by the node's address at that point (obtained from the implementation run)"""
        if " Ax" not in line:
            return line
        ops = line.split(" ; ")
        for k, o in enumerate(ops):
            t = o.split()
            if t[-1].startswith("Ax"):
                pre = " ; ".join(ops[:k])
                out = netsession.run_line(pre)
                allv = out.split(" ; ")[-1].split(" ~ ")[1].split(" all=")[1].strip().split(",")
                idx = int(t[-1][2:]) + 1
                ops[k] = " ".join(t[:-1] + [allv[idx].split("/")[1]])
        return " ; ".join(ops)

    def cases(self, res, tier, rng):
        n = 40 if tier == "quick" else 380
        cs = []
        for _ in range(n):
            nj = rng.choice([1, 2, 3, 4, 5, 6, 7, 9]) if tier == "quick" else rng.randint(1, 12)
            _, line = session(rng, nj, rng.randint(2, 8))
            cs.append((self._concrete(line), "mesh-join-lookup-send"))
        for _ in range(8 if tier == "quick" else 60):
            _, line = session(rng, rng.choice([2, 3, 4, 6]), rng.randint(3, 8), pool=ADDRESS_LIKE_IDS)
            cs.append((self._concrete(line), "ids-equal-to-addresses"))
        for _ in range(30 if tier == "quick" else 150):
            cs.append((scripted_joiner(rng), "joiner-vs-scripted-responses"))
        for _ in range(6 if tier == "quick" else 20):
            cs.append((self._concrete(forced_release(rng)), "forced-release"))
        cs += [(self._concrete(send_after_rejoin(rng)), "send-after-rejoin") for _ in range(4 if tier == "quick" else 40)]
        cs += [(timed_lookup(rng), "timed-lookup") for _ in range(8 if tier == "quick" else 120)]
        cs += [(timed_lookup(rng, odd), "lookup-answer-sizes") for odd in range(4) for _ in range(1 if tier == "quick" else 10)]
        # a master-less mesh object with ID 0 counts as connected, without any traffic (RF24MeshNoMaster.check_connection)
        cs += [(f"net 2 1 new m master 0 0 ; new z mesh 1 0 ; z check_connection {a} {p} ; m lookup_address 0", "id0-node")
               for a in (1, 3) for p in "TF"]
        return cs

    def nontrivial(self, line, io):
        return "lookup" in line

    def judge(self, triples):
        out = []
        for l, io, mo in triples:
            if l.startswith(TIMED_LOOKUP_HEAD):
                f = judge_timed_lookup(l, io)
                if f:
                    out.append(f)
                continue
            if l.startswith("net 1 0 new x mesh 0 "):
                # open system: the joiner takes an offered address iff the response carries its ID and the address
                # lies below the contact (Spec.MeshProtocol.accepts); otherwise it stays unassigned
                parts = io.split(" ; ")
                what = None
                ops_ = l.split(" ; ")
                nid_ = int(ops_[0].split()[-1])
                arr = [o.split()[-1] for o in ops_ if " arrive " in o]
                contact_ = int(arr[0][2:4] + arr[0][0:2], 16)
                # Spec.MeshProtocol.accepts own-id contact type reserved offered
                good = [int(a[18:20] + a[16:18], 16) for a in arr[1:]
                        if spec(f"specaccepts {nid_} {contact_} {int(a[12:14], 16)} {int(a[14:16], 16)} "
                                f"{int(a[18:20] + a[16:18], 16)}") == "1"]
                if good:
                    seen = False
                    for part in parts:
                        f = part.split(" ~ ")
                        if len(f) == 4 and f[3] != "[]":
                            for rec in f[3][1:-1].split(","):
                                data = rec.rsplit("x", 1)[0].split("/")[-1]
                                if len(data) >= 16 and int(data[2:4] + data[0:2], 16) == good[0] and data[12:14] == "c6":
                                    seen = True
                        res = f[0].split(" all=")[0].strip()
                        if res.startswith("exc="):
                            what = f"renew_address() raised {res[4:]}"
                    if not seen and not what:
                        what = (f"the joiner (ID {nid_}) did not take the address {oct(good[0])} offered below its contact {oct(contact_)} "
                                "with its own ID (no double-check lookup from that address was transmitted)")
                    if what:
                        out.append(Finding(l, what, {}))
                    continue
                for k, part in enumerate(parts):
                    f = part.split(" ~ ")
                    res = f[0].split(" all=")[0].strip()
                    if res.startswith("exc="):
                        what = f"op {k} raised {res[4:]}"
                        break
                    if k == len(parts) - 1 and res != "N":
                        what = f"renew_address() returned {res} although no acceptable response arrived"
                    if len(f) == 4 and f[3] != "[]":
                        for rec in f[3][1:-1].split(","):
                            data = rec.rsplit("x", 1)[0].split("/")[-1]
                            if len(data) >= 16 and data[0:4] != "2409":
                                frm = int(data[2:4] + data[0:2], 16)
                                what = (f"the joiner transmitted a frame from address {oct(frm)} (type {int(data[12:14], 16)}): it accepted an "
                                        "address response that carried another node's ID or an address not below the contact")
                    if len(f) > 1 and " all=" in f[1] and f[1].split(" all=")[1].strip().split("/")[1] != str(DEFAULT):
                        what = what or f"op {k}: the joiner's address is {f[1].split(' all=')[1].strip().split('/')[1]}"
                if what:
                    out.append(Finding(l, what, {}))
                continue
            if not l.startswith("net ") or " master 0 0" not in l:
                continue
            names, parts = l.split(" ; "), io.split(" ; ")
            forced = set()   # nodes whose lease the master was told to drop (release_address(addr) on the master)
            idof, order = {}, []
            what = None
            addr = {}
            pending = None   # (dest name, from addr, type, msg) expected at the next reads
            got = []
            for k, (name, part) in enumerate(zip(names, parts)):
                t = name.split()
                if k == 0:
                    t = t[3:]
                f = part.split(" ~ ")
                res = f[0].split(" all=")[0].strip()
                if t[0] == "new":
                    order.append(t[1])
                    idof[t[1]] = int(t[4])
                    continue
                allv = f[1].split(" all=")[1].strip().split(",") if len(f) > 1 and " all=" in f[1] else []
                prev = dict(addr)
                for nm, ent in zip(order, allv):
                    if ent != "?":
                        addr[nm] = int(ent.split("/")[1])
                if res.startswith("exc="):
                    what = f"op {k} `{name}` raised {res[4:]}"
                    break
                x = t[0]

                def conn(n):
                    """holds an address and every ancestor address is held by a node that is itself connected"""
                    a = prev.get(n, DEFAULT)
                    if n == "m":
                        return True
                    if a == DEFAULT:
                        return False
                    held = {prev[y] for y in order if y != "m" and prev.get(y, DEFAULT) != DEFAULT}
                    while a >> 3 or a:
                        nd = 0
                        b = a
                        while b:
                            b >>= 3
                            nd += 1
                        a &= (1 << (3 * (nd - 1))) - 1   # parent
                        if a and a not in held:
                            return False
                        if not a:
                            break
                    return True

                broken = [y for y in order if y != "m" and prev.get(y, DEFAULT) != DEFAULT and not conn(y)]
                if broken and x in broken:
                    continue   # this node's route to the master is gone (an ancestor released its address): nothing is promised
                if t[1] == "release_address" and x == "m":
                    tgt = next((n for n in order if n != "m" and prev.get(n, DEFAULT) == int(t[2]) and n not in forced), None)
                    if res != ("T" if tgt else "F") and int(t[2]) != 0:
                        what = f"op {k}: master.release_address({oct(int(t[2]))}) returned {res} (lease held by {tgt})"
                    if tgt and res == "T":
                        forced.add(tgt)
                    continue
                if t[1] == "renew":
                    if res != "N":
                        forced.discard(x)
                    if res == "N":
                        what = f"op {k}: {x} (ID {idof[x]}).renew_address() returned None on a loss-free medium with the master running"
                    else:
                        a = int(res)
                        if not valid_addr(a):
                            what = f"op {k}: renew_address() returned the invalid address {oct(a)}"
                        elif any(n != x and n != "m" and addr.get(n) == a for n in order):
                            what = f"op {k}: renew_address() gave {x} the address {oct(a)} that another connected node holds"
                        elif addr.get(x) != a:
                            what = f"op {k}: renew_address() returned {oct(a)} but the node's address is {oct(addr.get(x, 0))}"
                elif t[1] == "lookup_address":
                    q = int(t[2])
                    who = next((n for n in order if idof.get(n) == q and n != "m"), None)
                    if q == 0:
                        exp = "0"
                    elif x != "m" and not conn(x):
                        exp = "-2"
                    elif who is not None and conn(who) and who not in forced:
                        exp = str(prev[who])
                    else:
                        exp = "-2"
                    if res != exp and who not in broken:
                        what = f"op {k}: {x}.lookup_address({q}) returned {res}, documented answer {exp}"
                elif t[1] == "lookup_node_id":
                    if t[2] == "N":
                        exp = str(idof[x])
                    elif int(t[2]) == 0:
                        exp = "0"
                    elif x != "m" and not conn(x):
                        exp = "-2"
                    else:
                        who = next((n for n in order if n != "m" and conn(n) and n not in forced and prev[n] == int(t[2])), None)
                        exp = str(idof[who]) if who else "-2"
                        if any(prev.get(y) == int(t[2]) for y in broken):
                            exp = res   # the lease of a node whose route is gone still is the master's mapping
                    if res != exp:
                        what = f"op {k}: {x}.lookup_node_id({t[2]}) returned {res}, documented answer {exp}"
                elif t[1] == "mwrite" and not valid_addr(int(t[2])) and int(t[2]) not in (0, 0o100, 0o10, 0o1000, DEFAULT):
                    f_ = part.split(" ~ ")
                    if res != "F" or (len(f_) == 4 and f_[3] != "[]"):
                        what = (f"op {k}: {x}.write() to the invalid address {oct(int(t[2]))} returned {res}"
                                + ("" if len(f_) != 4 or f_[3] == "[]" else " and transmitted " + f_[3][:80]))
                elif t[1] == "release":
                    if res != ("T" if conn(x) else "F"):
                        what = f"op {k}: {x}.release_address() returned {res} (connected before: {conn(x)})"
                    elif addr.get(x) != DEFAULT:
                        what = f"op {k}: after release_address() the node's address is {oct(addr.get(x, 0))}, not 0o4444"
                elif t[1] == "check_connection":
                    # with ping_master the master's table decides (a lease dropped by the master: not connected)
                    want = conn(x) and not (t[3] == "T" and x in forced) or idof.get(x) == 0
                    if res != ("T" if want else "F"):
                        what = (f"op {k}: {x}.check_connection({t[2]},{t[3]}) returned {res} (holds an address with a live route: {conn(x)}, "
                                f"lease dropped by the master: {x in forced})")
                elif t[1] == "send":
                    q = int(t[2])
                    who = "m" if q == 0 else next((n for n in order if idof.get(n) == q and n != "m"), None)
                    ok = conn(x) and who is not None and (who == "m" or (conn(who) and who not in forced))
                    if ok and who != x:
                        if res != "T":
                            what = f"op {k}: {x}.send(ID {q}) returned {res} although both nodes are connected"
                        pending = (who, prev[x], int(t[3]), t[4], k)
                        got = []
                    elif not ok and res != "F" and who != x and who not in broken:
                        what = f"op {k}: {x}.send(ID {q}) returned {res} (sender connected: {conn(x)}, target known: {who})"
                elif t[1] == "read" and pending is not None and x == pending[0]:
                    got.append(res)
                    if len(got) == 2:
                        real = [g for g in got if g != "N"]
                        who, frm, typ, msg, kk = pending
                        if len(real) != 1 or not real[0].startswith(f"{frm}>") or real[0].rsplit(":", 1)[1] != msg or real[0].split(":")[1].split("/")[0] != str(typ):
                            what = f"op {kk}: message sent to node ID {idof.get(who, 0)} : its queue delivered {real} (expected one frame from {oct(frm)} type {typ} bytes {msg})"
                        pending = None
                if what:
                    break
            if what:
                out.append(Finding(l, what, {}))
        seen = {f.case for f in out}
        out += [f for f in judge_defaults(triples, self.impl) if f.case not in seen]
        return out


def run(tier):
    return run_check(C17(), tier)


def replay(path):
    return replay_generic(C17(), path)
