"""C19 — received BLE packets decode to what was advertised; all else is ignored safely."""
import itertools

from harness.framework import *
from harness.ble_common import impl_line, split_session, pad32, hx, unhx, BLE_FREQ

PREFIXES = ["http://www.", "https://www.", "http://", "https://"]
SUFFIXES = [".com/", ".org/", ".edu/", ".net/", ".info/", ".biz/", ".gov/",
            ".com", ".org", ".edu", ".net", ".info", ".biz", ".gov"]


def rnd_bytes(rng, n):
    return bytes(rng.randrange(256) for _ in range(n))


def ad(t, d):
    return bytes([(len(d) + 1) & 0xFF, t & 0xFF]) + bytes(d)


def temp_bytes(h):
    return (h & 0xFFFFFF).to_bytes(3, "little") + b"\xfe"


def url_encode_ref(url: str) -> bytes:
    """Eddystone-URL encoding (reference, longest expansion first as the code tables are ordered)"""
    for i, p in enumerate(PREFIXES):
        if url.startswith(p):
            out, rest = bytes([i]), url[len(p):]
            break
    else:
        raise ValueError(url)
    while rest:
        for i, s in enumerate(SUFFIXES):
            if rest.startswith(s):
                out += bytes([i])
                rest = rest[len(s):]
                break
        else:
            out += rest[0].encode()
            rest = rest[1:]
    return out


def ref_element(mac: bytes, ads):
    """reference decoding of parsed AD structures (C19_decode / Nrf.Proofs.Ble.refElement):
    canonical element string"""
    name, pa, data = None, None, []
    for t, d in ads:
        if t == 0x0A:
            if len(d) == 1:
                pa = d[0] - 256 if d[0] >= 128 else d[0]
        elif t in (0x08, 0x09):
            name = d
        elif t == 0x16 and len(d) >= 2:
            uuid = d[0] | d[1] << 8
            if uuid == 0x1809:
                data.append("T:" + hx(d[2:]))
            elif uuid == 0x180F:
                data.append("B:" + hx(d[2:]))
            elif uuid == 0xFEAA:
                data.append("U:" + hx(b"\xaa\xfe\x10" + d[3:4]) + ":" + hx(d[4:]))
            else:
                data.append("R:" + hx(b"\x16" + d))
        else:
            data.append("R:" + hx(ad(t, d)))
    return "mac={},name={},pa={},data=[{}]".format(
        hx(mac), "none" if name is None else hx(name), "none" if pa is None else pa, "/".join(data))


def parse_spec_adv(so: str):
    """`specrecv` output → (payload bytes, (mac, ads) or None)"""
    f = dict(x.split("=", 1) for x in so.split(" ", 3))
    payload = unhx(f["payload"])
    a = f["adv"]
    if a == "none":
        return payload, None
    mac_s, ads_s = a.split(",ads=", 1)
    mac = unhx(mac_s[4:])
    ads = []
    body = ads_s[1:-1]
    if body:
        for item in body.split("/"):
            t, d = item.split(":")
            ads.append((int(t), unhx(d)))
    return payload, (mac, ads)


class C19(PropCheck):
    prop = "C19"
    rule = ("a case is one receive session (fresh FakeBLE, payloads scripted into RF24.read) or one "
            "codec call; non-trivial = the session queued at least one element or the codec "
            "returned a value; distinct = distinct protocol lines")
    assumptions = [
        "RF24.available()/RF24.read(32) are scripted: the 32 bytes the radio hands out are the input "
        "(their delivery through the RX FIFO is C01/C10)",
        "temperatures are compared as integer hundredths; the float conversion is exercised on the "
        "real code over −300.00..300.00 in steps of 0.01 (and sampled over the 24-bit range)",
        "URL text is ASCII; names are compared as UTF-8 bytes (str or bytes object is not distinguished)",
    ]
    exhaustive = False

    def impl(self, line):
        return impl_line(line)

    # ---------------------------------------------------------------------------- generation
    def _encode(self, jobs):
        """jobs: [(rf, pdu bytes, tail bytes)] → 32-byte payloads from the spec encoder"""
        outs = run_driver([f"specenc {rf} {hx(p)} {hx(t)}" for rf, p, t in jobs])
        res = []
        for o in outs:
            if o == "none":
                raise Infra("spec encoder refused a job")
            res.append(unhx(o))
        return res

    def cases(self, res, tier, rng):
        out = []
        thorough = tier == "thorough"
        # ---- codecs -------------------------------------------------------------------------
        for h in range(-30000, 30001):
            out.append((f"tempenc {h}", "temp-encode-exhaustive"))
        res.exhaustive_blocks.append("temperature setter over −300.00..300.00 step 0.01 (float glue)")
        for h in range(-30000, 30001, 1 if thorough else 7):
            out.append((f"tempdec {hx(temp_bytes(h))}", "temp-decode"))
        for h in [-8388608, -8388607, -1, 0, 1, 8388607, 8388606, -32768, 32767, -32769, 32768,
                  -65536, 65535, 2 ** 22, -2 ** 22] + [rng.randrange(-2 ** 23, 2 ** 23) for _ in range(300)]:
            out.append((f"tempenc {h}", "temp-encode-24bit"))
            out.append((f"tempdec {hx(temp_bytes(h))}", "temp-decode-24bit"))
        for d in ("-", "01", "0102", "010203", "01020304ff", "ffffff", "ffffffff", "000080fe", "ffff7ffe"):
            out.append((f"tempdec {d}", "temp-decode-malformed"))
        for v in range(-2, 259):
            out.append((f"batenc {v}", "battery-exhaustive"))
        for v in range(256):
            out.append((f"batdec {hx(bytes([v]))}", "battery-exhaustive"))
        out += [("batdec -", "battery-malformed"), ("batdec 0102", "battery-malformed")]
        res.exhaustive_blocks.append("battery 0..255 (and −2..258 for the setter)")
        urls = []
        hosts = ["a", "example", "x.y", "nrf24", "a-b_c", "google", "w", "comm", "orgo", "net.work",
                 "info.biz", "a.co", "edu", "www", "http", "z" * 10]
        tails = ["", "/", "/a", "/index.html", "?q=1", "#f", "/~u", "/.com", ".com.org", "/x.net/y"]
        for p in PREFIXES:
            for hname in hosts:
                for s in SUFFIXES[7:] + [".io", ".de", ""]:
                    urls.append(p + hname + s + rng.choice(tails))
        for _ in range(600 if thorough else 150):
            n = rng.randrange(0, 14)
            body = "".join(chr(rng.randrange(0x21, 0x7F)) for _ in range(n))
            urls.append(rng.choice(PREFIXES) + body + rng.choice(SUFFIXES + [""]))
        for u in urls:
            out.append((f"urlenc {hx(u.encode())}", "url-encode"))
            out.append((f"urldec {hx(url_encode_ref(u))}", "url-decode"))
        for pw in range(-130, 131, 1 if thorough else 3):
            out.append((f"urlpaset aafe10e7 i{pw}", "url-txpower"))
        for b in range(0, 256, 1 if thorough else 5):
            out.append((f"urlpa aafe10{b:02x}", "url-txpower"))
            out.append((f"urlpaset aafe10e7 {b:02x}", "url-txpower"))
        out.append(("urlinit", "url-txpower"))
        out += [("urlpaset aafe10e7 -", "url-txpower"), ("urlpa aafe10", "url-txpower"),
                ("urlpa -", "url-txpower")]
        for u in (0, 1, 0x1809, 0x180F, 0xFEAA, 0xFFFF, 0x10000, -1, 0x1234):
            for n in (0, 1, 5):
                out.append((f"svc {u} {hx(rnd_bytes(rng, n))}", "service-data-base"))
            out.append((f"svc {u}", "service-data-base"))
        # ---- packets from the independent encoder ------------------------------------------
        jobs, meta = [], []   # meta: (block, extra ops after rx)

        def pdu(mac, ads_bytes, hdr=0x42, length=None):
            body = mac + ads_bytes
            return bytes([hdr, len(body) if length is None else length]) + body

        def add(block, rf, p, tail=None, post="read ; read"):
            jobs.append((rf, p, rnd_bytes(rng, 32) if tail is None else tail))
            meta.append((block, rf, post))

        flags = ad(1, b"\x05")
        # encodable combinations (what FakeBLE.advertise can produce), all three channels
        for v in range(256):
            rf = BLE_FREQ[v % 3]
            add("valid-battery-exhaustive", rf, pdu(rnd_bytes(rng, 6), flags + ad(0x16, b"\x0f\x18" + bytes([v]))))
        temps = [-30000, -525, -1, 0, 1, 29, 2525, 30000, -8388608, 8388607] + \
                [rng.randrange(-30000, 30001) for _ in range(200 if thorough else 40)]
        for h in temps:
            add("valid-temperature", rng.choice(BLE_FREQ),
                pdu(rnd_bytes(rng, 6), flags + ad(0x16, b"\x09\x18" + temp_bytes(h))))
        for u in rng.sample(urls, 120 if thorough else 40):
            enc = url_encode_ref(u)
            if len(enc) <= 12:
                pw = rng.randrange(-128, 128)
                add("valid-url", rng.choice(BLE_FREQ),
                    pdu(rnd_bytes(rng, 6), flags + ad(0x16, b"\xaa\xfe\x10" + bytes([pw & 0xFF]) + enc)))
        for nl in range(0, 19):
            for pa in (None, 0, -6, -12, -18):
                body = flags
                room = 18 - (nl + 2) - (3 if pa is not None else 0)
                if room < 0:
                    continue
                if pa is not None:
                    body += ad(0x0A, bytes([pa & 0xFF]))
                name = bytes(rng.choice(b"abcXYZ 019") for _ in range(nl)) if nl % 3 else rnd_bytes(rng, nl)
                body += ad(rng.choice([8, 8, 9]), name)
                if room >= 2:
                    n = rng.randrange(0, room - 1)
                    body += ad(rng.choice([0xFF, 0xFF, 0x16, 0x24, 0x00, 0x01]), rnd_bytes(rng, n))
                add("valid-name-pa-raw", rng.choice(BLE_FREQ), pdu(rnd_bytes(rng, 6), body))
        for _ in range(400 if thorough else 120):
            body, room = flags, 18
            while room >= 2 and rng.random() < 0.8:
                n = rng.randrange(0, room - 1)
                kind = rng.choice(["raw", "svc", "temp", "batt", "pa", "name"])
                if kind == "temp" and room >= 8:
                    c = ad(0x16, b"\x09\x18" + temp_bytes(rng.randrange(-30000, 30001)))
                elif kind == "batt" and room >= 5:
                    c = ad(0x16, b"\x0f\x18" + bytes([rng.randrange(256)]))
                elif kind == "pa" and room >= 3:
                    c = ad(0x0A, bytes([rng.choice([0, 250, 244, 238])]))
                elif kind == "name":
                    c = ad(8, rnd_bytes(rng, n))
                elif kind == "svc" and n >= 2:
                    c = ad(0x16, rnd_bytes(rng, n))
                else:
                    c = ad(rng.choice([0xFF, 0x24, 0x03, 0x19]), rnd_bytes(rng, n))
                body += c
                room -= len(c)
            add("valid-multi-chunk", rng.choice(BLE_FREQ), pdu(rnd_bytes(rng, 6), body))
        # adversarial CRC-valid packets: every (size, type) around truncation boundaries
        types = [0x16, 0x0A, 0x08, 0x09, 0xFF, 0x01, 0x00]
        for room in range(0, 6):
            for size in sorted({0, 1, 2, 3, 4, 5, room - 1, room, room + 1, 30, 255} - {-1}):
                for t in types:
                    for pre in (b"", flags):
                        tailb = bytes([size, t]) + rnd_bytes(rng, 4)
                        body = pre + tailb[:room]
                        add("adversarial-size-type", rng.choice(BLE_FREQ), pdu(rnd_bytes(rng, 6), body))
        res.exhaustive_blocks.append("CRC-valid packets: AD area of 0..5 bytes × size byte "
                                     "{0..5, room−1, room, room+1, 30, 255} × 7 types, with/without flags")
        for uuid in (b"\x09\x18", b"\x0f\x18", b"\xaa\xfe", b"\x34\x12"):
            for n in range(0, 7):
                for cut in range(0, 3 + n):
                    body = (uuid + rnd_bytes(rng, n))[:cut]
                    add("adversarial-service-data", rng.choice(BLE_FREQ),
                        pdu(rnd_bytes(rng, 6), flags + ad(0x16, body)))
        res.exhaustive_blocks.append("service data 0x16 with each known UUID / unknown UUID truncated at every length 0..8")
        for length in range(0, 32):      # every length byte, CRC valid for that length where it fits
            body = rnd_bytes(rng, max(0, length))
            if length <= 27:
                add("adversarial-length-byte", rng.choice(BLE_FREQ), bytes([0x42, length]) + body)
        # a length byte with its two top bits set (reserved in the BLE header; the property calls such a byte
        # inconsistent with the 32 received bytes) on a packet whose CRC is valid at the position the LOW six bits name
        # (seeded change C19-s22 masked the byte in available() but not in QueueElement)
        for hi in (0x40, 0x80, 0xC0):
            for length in range(6, 28):
                add("adversarial-length-high-bits", rng.choice(BLE_FREQ),
                    bytes([0x42, length | hi]) + rnd_bytes(rng, 6) + flags
                    + (ad(0x16, b"\x0f\x18" + bytes([80])) + rnd_bytes(rng, 32))[: length - 9])
        res.exhaustive_blocks.append("length byte = L | {0x40, 0x80, 0xC0} for L = 6..27, CRC valid at offset L + 2")
        for hdr in (0x00, 0x02, 0x40, 0x42, 0x46, 0xC2, 0xFF):
            add("adversarial-header", rng.choice(BLE_FREQ), pdu(rnd_bytes(rng, 6), flags, hdr=hdr))
        payloads = self._encode(jobs)
        valid = []
        for (block, rf, post), pl in zip(meta, payloads):
            out.append((f"ble chan {rf} ; rx {hx(pl)} ; {post}", block))
            if block.startswith("valid"):
                valid.append((rf, pl))
        # FakeBLE -> FakeBLE: what the (C18-verified) model of advertise() sends is fed to a receiver
        tx_lines = []
        for _ in range(600 if thorough else 200):
            rf = rng.choice(BLE_FREQ)
            pre = [f"mac {hx(rnd_bytes(rng, 6))}", f"chan {rf}"]
            room = 18
            if rng.random() < 0.5:
                pre += [f"pa {rng.choice([0, -6, -12, -18])}", "showpa 1"]
                room -= 3
            if rng.random() < 0.6:
                nl = rng.randrange(0, min(10, room - 1))
                pre.append("name " + hx(bytes(rng.choice(b"nRF24L01 abc") for _ in range(nl))))
                room -= nl + 2
            chunks = []
            while room >= 2 and rng.random() < 0.7:
                kind = rng.choice(["temp", "batt", "url", "raw"])
                if kind == "temp" and room >= 8:
                    c = ad(0x16, b"\x09\x18" + temp_bytes(rng.randrange(-30000, 30001)))
                elif kind == "batt" and room >= 5:
                    c = ad(0x16, b"\x0f\x18" + bytes([rng.randrange(256)]))
                elif kind == "url" and room >= 9:
                    c = ad(0x16, b"\xaa\xfe\x10\xe7" + url_encode_ref(rng.choice(PREFIXES) + "a" + rng.choice(SUFFIXES)))
                else:
                    c = ad(0xFF, rnd_bytes(rng, rng.randrange(0, room - 1)))
                chunks.append(c)
                room -= len(c)
            arg = ",".join(hx(c) for c in chunks) if chunks else "[]"
            tx_lines.append((rf, "ble " + " ; ".join(pre + [f"advl {arg}"])))
        for (rf, tl), mo in zip(tx_lines, run_driver([l for _, l in tx_lines])):
            last = mo.split(" ; ")[-1]
            if not last.startswith("sent="):
                raise Infra("model sender did not advertise: " + last[:100])
            pl = pad32(unhx(last.split()[0][5:]))
            out.append((f"ble chan {rf} ; rx {hx(pl)} ; read ; read", "fakeble-to-fakeble"))
            if len(valid) % 3 == 0:
                # a device that has itself advertised something short on this channel before it listens
                out.append((f"ble chan {rf} ; adv {hx(rnd_bytes(rng, rng.randint(0, 3)))} 255 ; rx {hx(pl)} ; read ; read",
                            "advertised-then-received"))
            valid.append((rf, pl))
        # wrong channel: a valid packet heard on another frequency must be rejected
        for rf, pl in rng.sample(valid, 30):
            other = rng.choice([c for c in BLE_FREQ if c != rf])
            out.append((f"ble chan {other} ; rx {hx(pl)} ; read", "valid-wrong-channel"))
        # length byte lying about an otherwise valid packet
        for rf, pl in rng.sample(valid, 20):
            out.append((f"ble chan {rf} ; rx {hx(pl)} ; read ; rx {hx(pl[:1] + bytes([pl[1] ^ 0x80]) + pl[2:])} ; read",
                        "length-byte-corrupt"))
        # ---- corruptions --------------------------------------------------------------------
        base = rng.sample(valid, 16 if thorough else 8)
        for rf, pl in base:
            for bit in range(256):
                c = bytearray(pl)
                c[bit // 8] ^= 1 << (bit % 8)
                out.append((f"ble chan {rf} ; rx {hx(c)} ; read", "corrupt-single-bit-all"))
        res.exhaustive_blocks.append(f"all 256 single-bit corruptions of {len(base)} valid packets")
        for _ in range(20000 if thorough else 6000):
            rf, pl = rng.choice(base)
            c = bytearray(pl)
            b1, b2 = rng.sample(range(256), 2)
            c[b1 // 8] ^= 1 << (b1 % 8)
            c[b2 // 8] ^= 1 << (b2 % 8)
            out.append((f"ble chan {rf} ; rx {hx(c)} ; read", "corrupt-double-bit-sampled"))
        # ---- random payloads ------------------------------------------------------------------
        for _ in range(30000 if thorough else 8000):
            out.append((f"ble chan {rng.choice(BLE_FREQ)} ; rx {hx(rnd_bytes(rng, 32))} ; read", "random-32-bytes"))
        for pl in (bytes(32), b"\xff" * 32, bytes(range(32)), b"\x42" * 32):
            for rf in BLE_FREQ:
                out.append((f"ble chan {rf} ; rx {hx(pl)} ; read", "constant-payloads"))
        # ---- FIFO histories -------------------------------------------------------------------
        for _ in range(600 if thorough else 150):
            rf = rng.choice(BLE_FREQ)
            mine = [pl for r, pl in valid if r == rf]
            ops = [f"chan {rf}"]
            for _ in range(rng.randrange(3, 12)):
                k = rng.random()
                if k < 0.45:
                    ops.append("rx " + hx(rng.choice(mine)))
                elif k < 0.55:
                    ops.append("rx " + hx(rnd_bytes(rng, 32)))
                elif k < 0.65:
                    ops.append("rxnone")
                else:
                    ops.append("read")
            ops += ["read"] * 3
            out.append(("ble " + " ; ".join(ops), "fifo-histories"))
        for h in itertools.product(["rx", "read", "rxnone"], repeat=5):
            rf, pls = 2, [pl for r, pl in valid if r == 2]
            ops = ["chan 2"] + [("rx " + hx(pls[i % len(pls)]) if o == "rx" else o) for i, o in enumerate(h)]
            out.append(("ble " + " ; ".join(ops + ["read", "read"]), "fifo-exhaustive-5"))
        res.exhaustive_blocks.append("every rx/read/poll history of length 5")
        return out

    def nontrivial(self, line, io):
        if line.startswith("ble "):
            return "mac=" in io
        return not io.startswith("exc=")

    # ---------------------------------------------------------------------------- judge
    def judge(self, triples):
        """Spec-based.  For every `rx`: `specrecv RF_CH payload` (bit-serial BLE receiver) decides
        whether the payload must be queued; queued elements whose AD structures parse must equal
        the reference decoding; available() must never raise; read() must return the queued
        elements in order, once.  Codecs: setter output must decode (spec formats) to the value set;
        getters must return the value the spec format holds."""
        finds = []
        rxq = []    # (line, index in steps, rf, payload)
        sessions = {}
        for line, io, mo in triples:
            if not line.startswith("ble "):
                continue
            steps = split_session(line, io)
            sessions[line] = (steps, io)
            st = ["0", "2", "2", "0", "none", "", "0"]
            for i, (op, r, ns) in enumerate(steps):
                if r is None or ns is None:
                    break
                if op[0] == "rx":
                    rxq.append((line, i, int(st[2]), unhx(op[1])))
                st = ns
        spec = {}
        if rxq:
            outs = run_driver([f"specrecv {rf} {hx(pl)}" for _, _, rf, pl in rxq])
            for (line, i, rf, pl), so in zip(rxq, outs):
                spec[(line, i)] = so
        for line, (steps, io) in sessions.items():
            expected = []   # reference queue: element strings or None (= unparsable, any element)
            qlen = 0
            for i, (op, r, ns) in enumerate(steps):
                if r is None or ns is None:
                    break
                where = f"op #{i + 1} `{' '.join(op)[:80]}`"
                o = op[0]
                if o in ("rx", "rxnone"):
                    if r.startswith("exc="):
                        finds.append(Finding(line, f"{where}: available() raised {r.split()[0][4:]} "
                                                   f"(spec receiver: {spec.get((line, i), '-')[:120]})",
                                             {"class": "available-raises", "impl": io[:400]}))
                        break
                    newlen = int(ns[6])
                    if o == "rx":
                        so = spec[(line, i)]
                        if so == "none":
                            if newlen != qlen:
                                finds.append(Finding(line, f"{where}: payload with inconsistent length/CRC "
                                                           "(rejected by the BLE receiver) was queued",
                                                     {"class": "queued-invalid"}))
                                break
                        else:
                            if newlen != qlen + 1:
                                finds.append(Finding(line, f"{where}: valid packet ({so[:100]}) was not queued",
                                                     {"class": "valid-not-queued"}))
                                break
                            _pl, adv = parse_spec_adv(so)
                            expected.append(None if adv is None else ref_element(*adv))
                    elif newlen != qlen:
                        finds.append(Finding(line, f"{where}: queue changed without a payload", {"class": "fifo"}))
                        break
                    want_ret = "1" if newlen else "0"
                    if r.split()[0] != want_ret:
                        finds.append(Finding(line, f"{where}: available() returned {r.split()[0]}, queue length {newlen}",
                                             {"class": "available-result"}))
                        break
                    qlen = newlen
                elif o == "read":
                    if not expected:
                        if r != "none":
                            finds.append(Finding(line, f"{where}: read() on an empty queue returned {r[:80]}",
                                                 {"class": "fifo"}))
                            break
                    else:
                        want = expected.pop(0)
                        qlen -= 1
                        if r == "none" or (want is not None and r != want) or int(ns[6]) != qlen:
                            finds.append(Finding(
                                line, f"{where}: read() returned `{r[:160]}`, advertised / in arrival order: "
                                      f"`{str(want)[:160]}`", {"class": "decode-mismatch"}))
                            break
        finds += self._judge_codecs([(l, io) for l, io, _ in triples if not l.startswith("ble ")])
        finds.sort(key=lambda f: len(f.case))
        return finds

    @staticmethod
    def _spec_query(line, io):
        """driver line whose answer the codec case is judged against (or None)"""
        op, *a = line.split()
        bad = io.startswith("exc=")
        if op == "tempenc":
            return None if bad else f"spectemp {io}"
        if op == "tempdec":
            return f"spectemp {a[0]}"
        if op == "batdec":
            return f"specbatt {a[0]}"
        if op == "urlenc":
            return None if bad else f"specurl 10e7{'' if io == '-' else io}"
        if op == "urldec":
            return f"specurl 10e7{'' if a[0] == '-' else a[0]}"
        return None

    def _judge_codecs(self, pairs):
        qs = [(l, io, self._spec_query(l, io)) for l, io in pairs]
        lines = [q for _, _, q in qs if q is not None]
        answers = dict(zip(lines, run_driver(lines))) if lines else {}
        finds = []
        for line, io, q in qs:
            f = self._judge_codec(line, io, answers.get(q) if q is not None else None)
            if f:
                finds.append(f)
        return finds

    def _judge_codec(self, line, io, so):
        op, *a = line.split()
        if op == "tempenc":
            h = int(a[0])
            if -8388608 <= h < 8388608:
                if so is None:
                    so = io
                if so != str(h):
                    return Finding(line, f"temperature {h / 100:.2f} is advertised as {io}, which is "
                                         f"{so} hundredths in the Health Thermometer format",
                                   {"class": "temperature-encode"})
        elif op == "tempdec":
            if so != "none" and io != so:
                return Finding(line, f"temperature bytes {a[0]} hold {so} hundredths, the getter returns {io}",
                               {"class": "temperature-decode"})
        elif op == "batenc":
            v = int(a[0])
            want = hx(bytes([v])) if 0 <= v < 256 else None
            if want is not None and io != want:
                return Finding(line, f"battery {v} encoded as {io}", {"class": "battery"})
        elif op == "batdec":
            if so != "none" and io != so:
                return Finding(line, f"battery bytes {a[0]} hold {so}, the getter returns {io}", {"class": "battery"})
        elif op == "svc":
            u = int(a[0])
            if 0 <= u < 65536:
                data = "" if len(a) < 2 or a[1] == "-" else a[1]
                want = f"{u.to_bytes(2, 'little').hex()}{data} {2 + len(data) // 2}"
                if io != want:
                    return Finding(line, f"ServiceData({u}){'' if len(a) > 1 else ' (fresh, no data assigned)'}: buffer / len() give `{io}`, "
                                         f"the 16-bit UUID little-endian followed by the data is `{want}`", {"class": "service-data"})
        elif op == "urlinit":
            if io != "aafe10e7":
                return Finding(line, f"a fresh UrlServiceData() starts with {io}: documented is the Eddystone UUID 0xFEAA, frame type "
                                     "0x10 (URL) and pa_level_at_1_meter = -25 dBm", {"class": "url-init"})
        elif op == "urlenc":
            if so is None:
                so = io
            if so != "-25," + a[0]:
                return Finding(line, f"URL {unhx(a[0])!r} is advertised as {io}, which an Eddystone "
                                     f"decoder reads as {so[:80]}", {"class": "url-encode"})
        elif op == "urldec":
            if so != "none" and io != so.split(",", 1)[1]:
                return Finding(line, f"encoded URL {a[0]} is {so[:80]}, the getter returns {io[:80]}",
                               {"class": "url-decode"})
        elif op == "urlpaset" and a[1].startswith("i"):
            pw = int(a[1][1:])
            if -128 <= pw < 128 and io != hx(unhx(a[0])[:-1] + bytes([pw & 0xFF])):
                return Finding(line, f"TX power {pw} stored as {io}", {"class": "url-txpower"})
        elif op == "urlpa":
            t = unhx(a[0])
            if len(t) == 4:
                want = str(t[3] - 256 if t[3] >= 128 else t[3])
                if io != want:
                    return Finding(line, f"TX power byte {t[3]:02x} read as {io}", {"class": "url-txpower"})
        return None


def run(tier):
    return run_check(C19(), tier)


def replay(path):
    return replay_generic(C19(), path)
