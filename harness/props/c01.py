"""C01 — link payload integrity: what send() is given is what the peer's read() returns."""
from harness.framework import *
from harness.rfsession import run_line, parse_out
from harness.gen_rf import rbytes


def setup_ops(rng, cfg):
    """configure transmitter a (radio 0) and receiver b (radio 1) compatibly"""
    aw, pipe = cfg["aw"], cfg["pipe"]
    base = bytes(rng.randrange(1, 255) for _ in range(aw))
    ops = ["new a rf24 0", "new b rf24 1", "a enter", "b enter"]
    for o in "ab":
        ops += [f"{o} set channel {cfg['ch']}", f"{o} set data_rate {cfg['rate']}", f"{o} set crc {cfg['crc']}",
                f"{o} set address_length {aw}"]
        if not cfg["aa"]:
            ops.append(f"{o} set auto_ack F")
        if cfg["dyn"]:
            ops.append(f"{o} set dynamic_payloads T")
        else:
            ops.append(f"{o} set dynamic_payloads F")
            if cfg.get("detour"):
                # the same compatible configuration reached by another history: a per-pipe length first (the target
                # pipe on another length, pipe 0 possibly already on the final one), then the all-pipes setter with
                # a value that pipe 0 may already hold (seeded change C01-s22: "nothing changes" early return)
                ops.append(f"{o} set_payload_length {rng.choice([1, 16, 31, rng.randint(1, 32)])} {pipe}")
                if rng.random() < 0.6:
                    ops.append(f"{o} set_payload_length {cfg['plen']} 0")
            ops.append(f"{o} set payload_length {cfg['plen']}")
            if o == "b" and cfg.get("mixed"):
                # the receiver's other pipes expect other static lengths: only pipe `pipe` has the sender's
                lens = [rng.randint(1, 32) for _ in range(6)]
                lens[pipe] = cfg["plen"]
                ops.append(f"b set payload_length [{','.join(map(str, lens))}]")
        ops.append(f"{o} set allow_ask_no_ack {'T' if cfg['dynack'] else 'F'}")
    if pipe >= 2:
        other = bytes([base[0] ^ 0x55]) + base[1:]
        ops.append(f"b open_rx_pipe 1 {other.hex()}")
    ops.append(f"b open_rx_pipe {pipe} {base.hex()}")
    # a decoy pipe with a different address
    decoy = (pipe + 1) % 6
    if decoy >= 2 and pipe < 2:
        pass
    ops += ["b set listen T", "a set listen F", f"a open_tx_pipe {base.hex()}"]
    return ops


def rand_cfg(rng):
    return {"aw": rng.choice([3, 4, 5]), "pipe": rng.randrange(6), "ch": rng.randint(0, 125),
            "rate": rng.choice([1, 2, 250]), "crc": rng.choice([0, 1, 2]), "aa": rng.random() < 0.8,
            "dyn": rng.random() < 0.5, "plen": rng.choice([32, rng.randint(1, 32), rng.randint(1, 32)]),
            "detour": rng.random() < 0.4, "dynack": rng.random() < 0.5,
            "mixed": rng.random() < 0.5}


def session(rng, cfg, nsend, lens=None):
    if cfg["dyn"] and not cfg["aa"]:
        cfg["aa"] = True  # dynamic payloads require auto-ack (data sheet): not a compatible configuration otherwise
    ops = setup_ops(rng, cfg)
    unread = 0
    overflow = rng.random() < 0.15   # a session in which the peer is allowed to overflow uses blocking send() only
    for i in range(nsend):
        n = lens[i] if lens else rng.choice([0, 1, 2, 7, 24, 31, 32, 33, 40, rng.randint(1, 32), rng.randint(1, 32)])
        kind = rng.choice("mi")
        noack = rng.choice("FFT")
        x = rng.random()
        k = rng.randint(1, 3) if 0.75 <= x < 0.9 and not overflow else 1
        if not overflow:
            while unread + k > 3:
                ops += ["b available", "b get pipe", "b read N"]
                unread -= 1
        if x < 0.75 or overflow:
            ops.append(f"a send {kind}:{rbytes(rng, n)} {noack} 0 {rng.choice('FT')}")
        elif x < 0.9:
            ops.append(f"a sendl {noack} 0 F " + " ".join(f"{rng.choice('mi')}:{rbytes(rng, rng.randint(1, 32))}" for _ in range(k)))
        else:
            ops.append(f"a write {kind}:{rbytes(rng, n)} {noack} F ; a update")
        unread = min(3, unread + k)
        while unread > 0 and rng.random() < (0.2 if overflow else 0.4):
            ops += ["b available", "b get pipe", "b read N"]
            unread -= 1
    for _ in range(4):
        ops += ["b available", "b get pipe", "b read N"]
    return "rf 2 1 " + " ; ".join(ops)


def spidev_impl(a):
    """SPIDevCtx on a recording spidev object: which node is opened, chip-select handling around one transfer"""
    from circuitpython_nrf24l01.wrapper.cpy_spidev import SPIDevCtx
    from harness.simradio import SimPin
    log = {"open": None, "pin_low_in_xfer": None}
    pin = SimPin()

    class Rec:
        no_cs = None

        def open(self, bus, dev):
            log["open"] = (bus, dev)

        def close(self):
            log["closed"] = True

        def xfer2(self, out, baud=0):
            log["pin_low_in_xfer"] = not pin.value
            return [0x0E] + [0] * (len(out) - 1)

    spi = Rec()
    csn = int(a[1]) if a[0] == "int" else ((int(a[1]), pin) if a[0] == "pair" else pin)
    ctx = SPIDevCtx(spi, csn)
    buf = bytearray(2)
    with ctx as c:
        c.write_readinto(b"\xff\x00", buf)
    bus, dev = log["open"]
    out = f"{bus} {dev} {'T' if spi.no_cs else 'F'}"
    if a[0] != "int" and not (log["pin_low_in_xfer"] and pin.value):
        out += " csn-pin-not-driven"
    if buf[0] != 0x0E or not log.get("closed"):
        out += " transfer-broken"
    return out


class C01(PropCheck):
    prop = "C01"
    rule = ("two real RF24 objects on two simulated radios joined by the loss-free air; random compatible configurations "
            "(channel, rate, CRC 0..2, address width 3..5, receiving pipe 0..5, static 1..32 / dynamic, auto-ack on/off, "
            "ask_no_ack with and without EN_DYN_ACK); payload lengths 0..40, bytes and bytearray, single / list / write(); "
            "peer reads interleaved; exhaustive block: every length 0..40 x static/dynamic x buffer kind; non-trivial = at "
            "least one payload was read by the peer")
    assumptions = ["air and peer radio as lean/NrfModel/Air.lean (no collisions, no bit errors)",
                   "compatible configuration as the property states; dynamic payloads only together with auto-ack"]

    def impl(self, line):
        if line.startswith("spidev "):
            return spidev_impl(line.split()[1:])
        return run_line(line)

    def cases(self, res, tier, rng):
        cs = []
        # exhaustive lengths block
        for dyn in (False, True):
            for plen in ((8, 32) if not dyn else (0,)):
                for kind_mut in (False, True):
                    cfg = {"aw": 5, "pipe": 1, "ch": 76, "rate": 1, "crc": 2, "aa": True, "dyn": dyn, "plen": plen, "dynack": True}
                    ops = setup_ops(rng, cfg)
                    for n in range(41):
                        ops += [f"a send {'m' if kind_mut else 'i'}:{rbytes(rng, n)} F 0 F", "b available", "b get pipe", "b read N", "b read N"]
                    cs.append(("rf 2 1 " + " ; ".join(ops), "lengths-exhaustive"))
        res.exhaustive_blocks.append("payload lengths 0..40 x {static 8, static 32, dynamic} x {bytes, bytearray}")
        cs += [(f"spidev int {n}", "spidev-csn-forms") for n in range(0, 33)] + [(f"spidev pair {n}", "spidev-csn-forms") for n in range(0, 33)]
        cs.append(("spidev pin", "spidev-csn-forms"))
        res.exhaustive_blocks.append("SPIDevCtx chip-select forms: int 0..32, (int 0..32, pin), pin")
        n = 150 if tier == "quick" else 3000
        for _ in range(n):
            cs.append((session(rng, rand_cfg(rng), rng.randint(3, 12)), "random-config"))
        # all six pipes x address widths
        for pipe in range(6):
            for aw in (3, 4, 5):
                cfg = rand_cfg(rng)
                cfg.update(pipe=pipe, aw=aw)
                cs.append((session(rng, cfg, 4), "pipes-x-widths"))
        return cs

    def nontrivial(self, line, io):
        return any(o["res"] not in ("N", "ok", "T", "F") and not o["res"].startswith("exc") and "read N" in n
                   for n, o in zip(line.split(" ; "), parse_out(io)))

    def judge(self, triples):
        out = []
        for l, io, mo in triples:
            if l.startswith("spidev "):
                a = l.split()[1:]
                n = int(a[1]) if len(a) > 1 else 0
                want = f"{n // 10} {n % 10} {'F' if a[0] == 'int' else 'T'}"    # documented: bus * 10 + device
                if io != want:
                    out.append(Finding(l, f"SPIDevCtx({l[7:]}) gives `{io}`, documented `{want}`", {}))
                continue
            if not l.startswith("rf 2 1 new a rf24 0 ; new b rf24 1 ; a enter ; b enter"):
                continue
            names, ops = l.split(" ; "), parse_out(io)
            expect = []   # payloads the peer still has to return, in order: (pipe, data)
            last_acc = None   # (pid, address, data) of the ESB packet the peer's radio accepted last
            what = None
            last_pipe = None
            for k, (name, o) in enumerate(zip(names, ops)):
                t = name.split()
                if k == 0:
                    t = t[3:]
                if not o["radios"] or len(o["radios"]) < 2:
                    continue
                ra, rb = o["radios"]
                prev = ops[k - 1]["radios"] if k and ops[k - 1]["radios"] else None
                framing = [v for r in (ra, rb) for v in r.get("viol", "[]")[1:-1].split("|") if v.startswith(("CSN:", "SPIDEV:"))]
                if framing:
                    what = f"SPI framing broken (wrapper/cpy_spidev.py): {framing[0]}"
                    break
                if t[0] == "a" and t[1] in ("send", "sendl", "write"):
                    bufs = [t[2]] if t[1] != "sendl" else t[5:]
                    dyn = int(ra["dyn"]) & 1 and int(ra["feat"]) & 4
                    plen = int(ra["pw"].split(",")[0])
                    res = o["res"]
                    # caller's buffers never modified
                    given = ",".join((b[2:] or "-") for b in bufs)
                    if not res.startswith("exc=") and res.split("buf=")[-1] != given:
                        what = f"caller's buffer changed from {given} to {res.split('buf=')[-1]}"
                        break
                    if dyn and t[1] != "sendl" and (len(bufs[0]) - 2) // 2 not in range(1, 33) and bufs[0][2:] != "-" or \
                            (dyn and t[1] != "sendl" and bufs[0][2:] == "-"):
                        if res != "exc=ValueError":
                            what = f"dynamic payload of illegal length accepted: {res}"
                            break
                        if prev and (not set(ra["txf"][1:-1].split(",")) <= set(prev[0]["txf"][1:-1].split(",") + [""])
                                     or prev[1]["rxf"] != rb["rxf"] or o["air"] != "[]"):
                            what = "rejected payload nevertheless reached the radio (TX FIFO / air / peer changed)"
                            break
                        continue
                    if t[1] == "write" and prev and res.split()[0] in ("T", "F"):
                        # documented: write() returns True when the payload was put into the TX FIFO, False when that is full
                        held = len([x for x in prev[0]["txf"][1:-1].split(",") if x])
                        want = "F" if held >= 3 else "T"
                        if res.split()[0] != want:
                            what = (f"write() returned {res.split()[0]} with {held} payload(s) waiting in the 3-level TX FIFO "
                                    f"(documented: {want})")
                            break
                    room = len([x for x in (prev[1]["rxf"][1:-1].split(",") if prev else []) if x])
                    air = [r for r in (o["air"][1:-1].split(",") if o["air"] not in ("[]", "") else []) if r.startswith("0>")]
                    for b in bufs:
                        data = bytes.fromhex(b[2:]) if b[2:] != "-" else b""
                        if dyn and not 1 <= len(data) <= 32:
                            continue
                        if not dyn:
                            data = (data + bytes(plen))[:plen]
                        # the packet as it went on the air (PID, address): Enhanced ShockBurst receivers acknowledge but
                        # discard a packet whose PID and CRC equal those of the packet they accepted last (product
                        # specification 7.5.2) - with a 2-bit PID, the same bytes sent again 4 loads later are such a
                        # packet.  That is the radio's behaviour, not the driver's: such a payload is not outstanding.
                        key = None
                        for j, r in enumerate(air):
                            f = r.rsplit("x", 1)[0].split("/")
                            if f[-1] == (data.hex() or "-"):
                                key = (f[6], f[5], f[-1]) if f[3] == "e1" else None
                                del air[: j + 1]
                                break
                        if key is not None and key == last_acc:
                            continue
                        if room < 3:
                            if key is not None:
                                last_acc = key
                            # which pipe of b listens on a's TX address
                            aw = int(rb["aw"]) + 2
                            txa = ra["tx"][: 2 * aw]
                            pipes = [rb["a0"], rb["a1"]] + [format(int(x), "02x") + rb["a1"][2:] for x in rb["an"].split(",")]
                            pn = next((i for i in range(6) if int(prev[1]["rxen"] if prev else rb["rxen"]) & (1 << i) and pipes[i][: 2 * aw] == txa), None)
                            expect.append((pn, data.hex() or "-"))
                            room += 1
                        # with a full FIFO the payload is legitimately not delivered (send() returns False)
                elif t[:3] == ["b", "get", "pipe"]:
                    last_pipe = o["res"]
                elif t[:2] == ["b", "read"]:
                    got = o["res"]
                    if got == "N":
                        if expect:
                            what = f"peer's read() returned None but {len(expect)} payload(s) are outstanding, next {expect[0]}"
                            break
                    else:
                        if not expect:
                            what = f"peer's read() returned {got} which was never sent (or was already returned)"
                            break
                        pn, data = expect.pop(0)
                        if got != data:
                            what = f"peer's read() returned {got}, sent (padded/truncated) was {data}"
                            break
                        if last_pipe is not None and last_pipe != str(pn):
                            what = f"payload attributed to pipe {last_pipe}, sent to the address of pipe {pn}"
                            break
            if what:
                out.append(Finding(l, f"op {k} `{name if k else ' '.join(t)}`: {what}", {"op_index": k}))
        return out


def run(tier):
    return run_check(C01(), tier)


def replay(path):
    return replay_generic(C01(), path)
