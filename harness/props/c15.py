"""C15 — no received frame can crash a node; address validity predicate."""
from harness.framework import *


class C15(PropCheck):
    prop = "C15"
    rule = ("exhaustive enumeration of the 16-bit address space through is_address_valid; "
            "every case is a distinct input and counts as non-trivial")
    assumptions = ["header fields are unsigned 16-bit after struct.unpack; negative or None "
                   "arguments are outside the model"]
    exhaustive = True

    def impl(self, line):
        from circuitpython_nrf24l01.network.structs import is_address_valid
        op, *args = line.split()
        if op == "valid":
            return "1" if is_address_valid(int(args[0])) else "0"
        raise Infra("unknown op " + op)

    def cases(self, res, tier, rng):
        res.exhaustive_blocks.append("is_address_valid over all 65536 16-bit values")
        return [(f"valid {a}", "valid-exhaustive") for a in range(65536)]

    def nontrivial(self, line, io):
        return True

    def judge(self, triples):
        """spec: Nrf.Spec.validAddrB evaluated by the driver against the implementation's answer"""
        out = []
        tr = [t for t in triples if t[0].startswith("valid ")]
        if not tr:
            return out
        spec = run_driver(["spec" + l for l, _, _ in tr])
        for (l, io, mo), so in zip(tr, spec):
            if io != so:
                a = int(l.split()[1])
                out.append(Finding(l, f"is_address_valid({a} = {oct(a)}) returns {io}, the property demands {so}",
                                   {"impl": io, "model": mo, "spec": so}))
        return out


def run(tier):
    return run_check(C15(), tier)


def replay(path):
    return replay_generic(C15(), path)
