"""C15 — no received frame can crash a node; address validity predicate."""
from harness.framework import *


# ------------------------------------------------------------------------------------------------
# update() totality on arbitrary received frames (node layer)
# ------------------------------------------------------------------------------------------------
from harness import netsession, gen_net
from harness.rfsession import parse_out
import struct as _struct

ROLE_ADDRS = [0, 0o1, 0o5, 0o21, 0o45, 0o321, 0o4321, 0o5555, 0o4444]
INVALID_ADDRS = [0o6, 0o7, 0o10, 0o20, 0o60, 0o106, 0o11111, 0o7777, 0xFFFF, 0o5550, 0o100, 0o1000]


def _frame(frm, to, fid, typ, res, msg):
    return (_struct.pack("<HHHBB", frm & 0xFFFF, to & 0xFFFF, fid & 0xFFFF, typ & 0xFF, res & 0xFF) + msg)[:32].hex()


def dest_classes(addr, rng):
    """self, child, descendant, parent side, multicast, default address, invalid"""
    lvl = 0
    a = addr
    while a:
        a >>= 3
        lvl += 1
    out = [addr, 0o100, 0o4444, rng.choice(INVALID_ADDRS), 0]
    if lvl < 4:
        child = addr | (rng.randint(1, 5) << (3 * lvl))
        out.append(child)
        if lvl < 3:
            out.append(child | (rng.randint(1, 5) << (3 * (lvl + 1))))
    out.append(rng.choice([0o2, 0o13, 0o123, 0o2222]))
    return out


def total_session(rng, kind, arg, frames):
    ops = [f"new n {kind} 0 {arg}"]
    if rng.random() < 0.3 and kind != "routing":
        ops.append(f"n set fragmentation {rng.choice('TF')}")
    if rng.random() < 0.2:
        ops.append(f"n set allow_multicast {rng.choice('TF')}")
    if rng.random() < 0.3:
        ops.append("n set multicast_relay T")
    if kind == "master":
        for _ in range(rng.randint(0, 3)):
            ops.append(f"n setaddr {rng.randint(1, 255)} {rng.choice([1, 2, 3, 4, 5, 0o11, 0o21, 0o15])}")
    for grp in frames:
        for pipe, fr in grp:
            ops.append(f"env inject 0 {pipe} {fr}")
        ops.append("n update")
        ops.append("n update")
    return "net 1 0 " + " ; ".join(ops)


def total_cases(rng, tier):
    cs = []
    kinds = [("routing", a) for a in ROLE_ADDRS[:8]] + [("network", a) for a in ROLE_ADDRS[:8]] + \
            [("mesh", 0), ("mesh", 5), ("master", 0), ("master", 7)]
    types = list(range(256))
    per = 8 if tier == "quick" else 40
    for kind, arg in kinds:
        addr = arg if kind in ("routing", "network") else (0 if arg == 0 else 0o4444)
        for rep in range(per):
            frames = []
            for _ in range(12):
                grp = []
                for _ in range(rng.randint(1, 3)):
                    typ = rng.choice(types) if rng.random() < 0.6 else rng.choice([128, 130, 131, 148, 149, 150, 193, 194, 195, 196, 197, 198])
                    to = rng.choice(dest_classes(addr, rng))
                    frm = rng.choice([0o1, 0o2, 0o4444, 0, 0o21, 0o321, addr, rng.choice(INVALID_ADDRS), 0o5])
                    n = rng.choice([0, 0, 1, 2, 3, 8, 23, 24, 24])
                    fr = _frame(frm, to, rng.randrange(65536), typ, rng.randrange(256), bytes(rng.randrange(256) for _ in range(n)))
                    if rng.random() < 0.12:
                        fr = fr[: 2 * rng.randint(1, 7)]          # shorter than a header
                    if rng.random() < 0.05:
                        fr = bytes(rng.randrange(256) for _ in range(rng.randint(1, 32))).hex()
                    grp.append((rng.randint(0, 5), fr))
                frames.append(grp)
            cs.append((total_session(rng, kind, arg, frames), f"update-total-{kind}"))
    # a master with leases receiving release / lookup / request frames that concern exactly those leases
    for _ in range(12 if tier == "quick" else 150):
        leases = rng.sample([1, 2, 3, 4, 5, 0o11, 0o21, 0o15, 0o31, 0o121], rng.randint(1, 5))
        ids = rng.sample(range(1, 255), len(leases))
        ops = ["new n master 0 0"] + [f"n setaddr {i} {a}" for i, a in zip(ids, leases)]
        for _ in range(8):
            a = rng.choice(leases + [0o2, 0o4444, 0])
            i = rng.choice(ids + [0, 250])
            fr = rng.choice([
                _frame(a, 0, rng.randrange(65536), 197, rng.randrange(256), b""),
                _frame(a, 0, rng.randrange(65536), 196, 0, bytes([i])),
                _frame(a, 0, rng.randrange(65536), 198, 0, bytes([rng.choice(leases) & 0xFF, rng.choice(leases) >> 8])),
                _frame(rng.choice([0o4444, a]), 0, rng.randrange(65536), 195, i, b""),
            ])
            ops += [f"env inject 0 {rng.randint(1, 5)} {fr}", "n update", "n update"]
        cs.append(("net 1 0 " + " ; ".join(ops), "master-with-leases"))
    # a master whose slots are exhausted: an address request that cannot be served, then frames of every kind
    # (nothing may be left pending that makes a later update() act on an unrelated / discarded frame)
    for _ in range(8 if tier == "quick" else 100):
        via = rng.choice([0o4444, 0o4444, 0o1, 0o21, 0o5])
        base, lvl = (0, 0) if via == 0o4444 else (via, len(oct(via)) - 2)
        slots = [base | (i << (3 * lvl)) for i in range(1, 6 if via == 0o4444 else 5)]
        ids = rng.sample(range(1, 200), len(slots))
        ops = ["new n master 0 0"] + [f"n setaddr {i} {a}" for i, a in zip(ids, slots)]
        ops += [f"env inject 0 1 {_frame(via, 0, 7, 195, rng.randint(200, 250), b'')}", "n update", "n update"]
        for _ in range(6):
            fr = rng.choice([
                _frame(rng.choice(INVALID_ADDRS), 0, rng.randrange(65536), rng.randrange(256), rng.randrange(256), b""),
                _frame(0o2, rng.choice(INVALID_ADDRS), rng.randrange(65536), rng.randrange(256), rng.randrange(256), b""),
                _frame(rng.choice([0o3, 0o4444]), 0, rng.randrange(65536), rng.choice([1, 100, 196, 198, 197]), rng.randrange(256), bytes(rng.randrange(256) for _ in range(rng.choice([0, 1, 2])))),
            ])
            ops += [f"env inject 0 {rng.randint(1, 5)} {fr}", "n update", "n update"]
        cs.append(("net 1 0 " + " ; ".join(ops), "master-exhausted"))
    # a handled frame followed by a discarded one in the same update() (stale return value)
    for kind, arg in (("master", 0), ("mesh", 0), ("network", 0o5), ("master", 9)):
        addr = 0 if kind in ("master", "mesh") and arg == 0 else (0o4444 if kind in ("master", "mesh") else arg)
        for _ in range(6 if tier == "quick" else 60):
            frames = []
            for _ in range(6):
                typ = rng.choice([195, 195, 196, 197, 198, 128, 194, 1, 150])
                first = _frame(rng.choice([0o4444, 0o5, 0o21]), rng.choice([0o100, addr]), rng.randrange(65536), typ, rng.randint(0, 255),
                               bytes(rng.randrange(256) for _ in range(rng.choice([0, 1, 2]))))
                second = _frame(rng.choice(INVALID_ADDRS + [0o5]), rng.choice(INVALID_ADDRS + [addr]), rng.randrange(65536), rng.randrange(256), rng.randrange(256), b"")
                if rng.random() < 0.4:
                    # addresses that differ from one the node has just seen as valid only above bit 11 (a five-digit address
                    # whose four low digits are a real node): invalid all the same
                    hi = rng.randint(1, 15) << 12
                    fb = bytes.fromhex(first)
                    f_from, f_to = fb[0] | fb[1] << 8, fb[2] | fb[3] << 8
                    second = _frame(rng.choice([f_from | hi, f_from, 0o5 | hi]), rng.choice([f_to | hi, addr | hi, f_to]),
                                    rng.randrange(65536), rng.choice([0, 1, 65, 127, typ]), rng.randrange(256),
                                    bytes(rng.randrange(256) for _ in range(rng.choice([0, 2, 8]))))
                frames.append([(rng.randint(0, 5), first), (rng.randint(0, 5), second)])
            cs.append((total_session(rng, kind, arg, frames), f"handled-then-discarded-{kind}"))
    # the master waits for a NETWORK_ACK (address response routed via an existing child that acknowledges at
    # link level) while other frames arrive: frame_buf is replaced under _dhcp()'s retry (witness of the fixed
    # defect "retry from whatever frame the wait left in frame_buf": IndexError out of update())
    for _ in range(4 if tier == "quick" else 60):
        child = rng.choice([0o1, 0o2, 0o3, 0o4, 0o5])
        via = child | (rng.randint(1, 5) << 3) | (rng.choice([0, 1, 2, 3]) << 6 if rng.random() < 0.3 else 0)
        req = _frame(via, 0, rng.randrange(65536), 195, rng.randint(1, 255), b"")
        ops = ["new m master 0 0", f"new c network 1 {child}", f"env inject 0 {rng.randint(1, 5)} {req}"]
        for k in range(rng.randint(1, 3)):
            to = rng.choice(INVALID_ADDRS + [0o6, 0o7, 0o16, 0o26, 0] + [rng.randrange(65536)])
            frm = rng.choice([0o1, 0o5, 0o21] + INVALID_ADDRS)
            other = _frame(frm, to, rng.randrange(65536), rng.randrange(256), rng.randrange(256),
                           bytes(rng.randrange(256) for _ in range(rng.choice([0, 1, 2, 8]))))
            ops.append(f"env arrive m {rng.choice([1, 2, 3, 10, 40]) * 1000000 + k} {rng.randint(0, 5)} {other}")
        ops += ["m update", "m update"]
        cs.append(("net 2 0 " + " ; ".join(ops), "master-ack-wait-overwrite"))
    cs.append(("net 2 0 new m master 0 0 ; new n5 network 1 5 ; env inject 0 1 0d0000000100c307 ; "
               "env arrive m 3000000 1 010006000200010078 ; m update", "master-ack-wait-overwrite"))
    # systematic: every type x body length 0..24 (sampled) to the master and to a mesh node, as lookups etc.
    for kind, arg in (("master", 0), ("network", 0o21), ("mesh", 0)):
        addr = 0 if kind != "network" else 0o21
        for typ in (types if tier == "thorough" else types[::5] + [128, 130, 131, 148, 149, 150, 193, 194, 195, 196, 197, 198]):
            frames = []
            for n in (0, 1, 2, 3, 24):
                frames.append([(1, _frame(0o5, addr, 7, typ, 9, bytes(range(n))))])
            cs.append((total_session(rng, kind, arg, frames), f"types-x-lengths-{kind}"))
    return cs


def judge_total(triples):
    out = []
    for l, io, mo in triples:
        if not (l.startswith("net 1 0 new n ") or l.startswith("net 2 0 new m master ")):
            continue
        names, ops = l.split(" ; "), parse_out(io)
        pending = []
        for k, (name, o) in enumerate(zip(names, ops)):
            t = name.split()
            if t[:2] == ["env", "inject"]:
                pending.append(t[4])
            if t[-1] == "update":
                if o["res"].startswith("exc="):
                    out.append(Finding(l, f"op {k}: update() raised {o['res'][4:]} after receiving {pending}",
                                       {"op_index": k, "frames": pending}))
                    break
                pending = []
    return out


class C15(PropCheck):
    prop = "C15"
    rule = ("exhaustive enumeration of the 16-bit address space through is_address_valid; "
            "every case is a distinct input and counts as non-trivial")
    assumptions = ["header fields are unsigned 16-bit after struct.unpack; negative or None "
                   "arguments are outside the model"]
    exhaustive = True

    def impl(self, line):
        from circuitpython_nrf24l01.network.structs import is_address_valid
        op, *args = line.split()
        if op == "net":
            return netsession.run_line(line)
        if op == "valid":
            return "1" if is_address_valid(int(args[0])) else "0"
        raise Infra("unknown op " + op)

    def cases(self, res, tier, rng):
        res.exhaustive_blocks.append("is_address_valid over all 65536 16-bit values")
        return [(f"valid {a}", "valid-exhaustive") for a in range(65536)] + total_cases(rng, tier)

    def nontrivial(self, line, io):
        return True

    def judge(self, triples):
        """spec: Nrf.Spec.validAddrB evaluated by the driver against the implementation's answer"""
        out = judge_total(triples)
        tr = [t for t in triples if t[0].startswith("valid ")]
        if not tr:
            return out
        spec = run_driver(["spec" + l for l, _, _ in tr])
        for (l, io, mo), so in zip(tr, spec):
            if io != so:
                a = int(l.split()[1])
                out.append(Finding(l, f"is_address_valid({a} = {oct(a)}) returns {io}, the property demands {so}",
                                   {"impl": io, "model": mo, "spec": so}))
        return out


def run(tier):
    return run_check(C15(), tier)


def replay(path):
    return replay_generic(C15(), path)
