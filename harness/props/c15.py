"""C15 — no received frame can crash a node; address validity predicate."""
from harness.framework import *


def cases_valid(res):
    from circuitpython_nrf24l01.network.structs import is_address_valid

    def mk(a):
        return Case(f"valid {a}", lambda a=a: "1" if is_address_valid(a) else "0", "valid-exhaustive",
                    nontrivial=lambda o: True)

    res.exhaustive_blocks.append("is_address_valid over all 65536 16-bit values")
    return [mk(a) for a in range(65536)]


def judge_valid(bad):
    """spec: Nrf.Spec.validAddrB evaluated by the driver against the implementation's answer"""
    out = []
    if not bad:
        return out
    spec = run_driver(["spec" + c.line for c, _, _ in bad])
    for (c, io, mo), so in zip(bad, spec):
        if io != so:
            a = int(c.line.split()[1])
            out.append(Finding(c.line, f"is_address_valid({a} = {oct(a)}) returns {io}, the property demands {so}",
                               {"impl": io, "model": mo, "spec": so}))
    return out


def run(tier: str) -> int:
    res = Result("C15", tier, seed_of())
    a = audit("C15", thorough=(tier == "thorough"))
    broken = list(a.problems)
    viol = []
    bad = correspond(res, cases_valid(res))
    viol += judge_valid(bad)
    if bad and not viol:
        broken += [f"correspondence: {c.line}: impl={io} model={mo}" for c, io, mo in bad[:20]]
    if broken and not viol:
        # search: the spec against the implementation on the whole (finite) domain
        from circuitpython_nrf24l01.network.structs import is_address_valid
        allc = [(Case(f"valid {x}", None), "1" if is_address_valid(x) else "0", "") for x in range(65536)]
        viol += judge_valid(allc)
    return finish(
        res, a, viol, broken,
        rule="exhaustive enumeration of the 16-bit address space through is_address_valid; every case is distinct and counts",
        assumptions=["header fields are unsigned 16-bit after struct.unpack; negative or None arguments are outside the model"],
        exhaustive=True,
    )
