"""C06 — reassembly never delivers a message that was not sent in full.

A history is a line `q fixed <next_id> sent:<msg>… new:0:<frame> (unp:0:<payload> enq:0 | deq:1)*`
(protocol in NrfModel/Drv/Structs.lean): one frame object is reused for every received payload
exactly as `NetworkMixin._net_update()` reuses `frame_buf` (`frame_buf.unpack(payload)`, then
`queue.enqueue(frame_buf)`); `deq` is the application reading.  The `sent:` tokens are annotations
(no-ops for model and implementation) naming the messages that were sent, so that a line is
self-contained for the judge and for replay.  Payloads are produced by the reference encoder
`Nrf.Spec.refFrames` (tied to the real sender by C11).
Judge: `Nrf.Spec.SafeOut` (driver op `specsafe`) on every frame the implementation hands out, and
at-most-once per sent message."""
import itertools

from harness.framework import *
from harness import structs_impl as SI

DEFAULT = "4095/0/0/i0/0/-"
KNOWN_CLASS = "C06-complete-replay"


def msg(src, dst, fid, ty, body: bytes) -> str:
    return f"{src}/{dst}/{fid}/{ty}/{body.hex() or '-'}"


def body_of(tag: int, nfrag: int, last: int) -> bytes:
    """nfrag fragments; fragment k consists of bytes (tag*16+k), the last one of `last` bytes"""
    b = b""
    for k in range(nfrag):
        b += bytes([(tag * 16 + k) & 0xFF]) * (24 if k < nfrag - 1 else last)
    return b


def parse_payload(hx: str):
    b = SI.unhex(hx)
    if len(b) < 8:
        return None
    return (b[0] + 256 * b[1], b[2] + 256 * b[3], b[4] + 256 * b[5], b[6], b[7], b[8:])


def w_of(t) -> str:
    return f"{t[0]}/{t[1]}/{t[2]}/{t[3]}/{t[4]}/{t[5].hex() or '-'}"


def frames_of(msgs):
    """reference encoder (Lean spec) -> {msg: [payload hex…]}"""
    out = run_driver([f"specfrags {m} 0" for m in msgs])
    return {m: o.split(",") for m, o in zip(msgs, out)}


def line_of(msgs, events, nid=0):
    toks = [f"sent:{m}" for m in msgs] + [f"new:0:{DEFAULT}"]
    for e in events:
        toks += ["deq:1"] if e == "X" else [f"unp:0:{e}", "enq:0"]
    return f"q fixed {nid} " + " ".join(toks)


class C06(PropCheck):
    judge_all = False
    prop = "C06"
    rule = ("a history counts when it is a distinct event sequence in which at least one fragment was "
            "refused or one message was handed to the application")
    assumptions = [
        "every received frame is a frame of a sent message (no forged frames); origins are valid node "
        "addresses (never 0o7777, which is_address_valid rejects before the queue is reached)",
        "two messages of the same origin in flight do not share a frame id (ids of different origins may)",
        "a sent message has at most 255 fragments (the counter is one byte)",
        "single-frame messages do not use the fragment type codes 148..150",
    ]
    exhaustive = False

    def impl(self, line):
        return SI.run_line(line)

    # ---------------------------------------------------------------- generators
    def cases(self, res, tier, rng):
        out = []
        # --- exhaustive: two senders, same frame id, 2 and 3 fragments
        A = msg(1, 0, 5, 2, body_of(0xA, 2, 5))
        B = msg(2, 0, 5, 1, body_of(0xB, 3, 24))
        fr = frames_of([A, B])
        alpha = fr[A] + fr[B] + ["X"]
        depth = 6 if tier == "quick" else 7
        res.exhaustive_blocks.append(
            f"all {len(alpha)}^{depth} histories over the 2+3 fragments of two senders' messages with the "
            "same frame id and `dequeue`, followed by two dequeues")
        for ev in itertools.product(alpha, repeat=depth):
            out.append((line_of([A, B], list(ev) + ["X", "X"]), "exh-2senders"))
        # --- exhaustive: one sender, two fragmented messages with different ids + a plain frame +
        #     another sender's message with an id equal to the first
        C = msg(1, 0, 6, 131, body_of(0xC, 2, 1))
        S = msg(1, 0, 7, 9, b"plain")
        D = msg(3, 0o100, 5, 0, body_of(0xD, 2, 24))
        fr2 = frames_of([A, C, S, D])
        alpha2 = fr2[A] + fr2[C] + fr2[S] + fr2[D] + ["X"]
        d2 = 4 if tier == "quick" else 6
        res.exhaustive_blocks.append(f"all {len(alpha2)}^{d2} histories over 3 two-fragment messages (two "
                                     "origins, coinciding id, one EXT_DATA typed), a plain frame and `dequeue`")
        for ev in itertools.product(alpha2, repeat=d2):
            out.append((line_of([A, C, S, D], list(ev) + ["X", "X", "X"]), "exh-mixed"))
        # --- exhaustive: ONE sender re-uses its header (same origin, destination and frame id) for a second, different
        #     message after the first train ended (completely or not): every multiplicity 0..2 of every fragment, the
        #     first train strictly before the second.  Nothing but the two sent messages may ever be delivered.
        for na, nb in ((2, 2), (3, 2), (2, 3), (3, 3)):
            A2 = msg(1, 0, 5, 2, body_of(0xA, na, 5))
            B2 = msg(1, 0, 5, rng.choice([2, 7]), body_of(0xB, nb, 7))
            fr4 = frames_of([A2, B2])
            seqs = fr4[A2] + fr4[B2]
            for mult in itertools.product((0, 1, 2), repeat=len(seqs)):
                if tier == "quick" and (na + nb > 5 and rng.random() < 0.7):
                    continue
                ev = [f for f, m in zip(seqs, mult) for _ in range(m)]
                out.append((line_of([A2, B2], ev + ["X", "X", "X"]), "exh-header-reused"))
        res.exhaustive_blocks.append("one sender, two different messages with the same (origin, destination, id), sent one after "
                                     "the other: every multiplicity 0..2 of every fragment (2+2, 3+2, 2+3 fragments; 3+3 sampled in quick)")
        # --- random: up to 3 senders, 2..7 fragments, drop/dup/reorder/interleave, strays
        n = 4000 if tier == "quick" else 60000
        specs = [self.random_sent(rng) for _ in range(n)]
        allm = sorted({m for ms in specs for m in ms})
        fr3 = frames_of(allm)
        for ms in specs:
            out.append((self.random_history(rng, ms, fr3), "rnd"))
        return out

    def random_sent(self, rng):
        senders = rng.sample([1, 2, 0o11, 0o4444, 0o5555], rng.randint(1, 3))
        ms = []
        for s in senders:
            ids = rng.sample([5, 6, 7, 65535, 0], rng.randint(1, 3))
            for fid in ids:
                nfrag = rng.choice([1, 2, 2, 3, 3, 4, 5, 6, 7])
                ty = rng.choice([0, 1, 7, 65, 127, 131, 131, 200, 255, 148, 150])
                if nfrag == 1 and ty in (148, 149, 150):
                    ty = 9
                last = rng.choice([1, 5, 23, 24]) if nfrag > 1 else rng.choice([0, 1, 24])
                tag = rng.randrange(16)
                dst = rng.choice([0, 0, 0o100])
                ms.append(msg(s, dst, fid, ty, body_of(tag, nfrag, last)))
                if nfrag > 1 and rng.random() < 0.15:
                    # the same origin re-uses the id for the other destination (multicast() re-uses
                    # the last frame id): a different message as far as the cache key goes
                    ms.append(msg(s, 0o100 if dst == 0 else 0, fid, rng.choice([0, 1, 2, 9]),
                                  body_of((tag + 5) % 16, rng.choice([2, 3]), rng.choice([1, 24]))))
        return ms

    def random_history(self, rng, ms, fr):
        streams = {}
        for m in ms:
            seq = []
            for k, f in enumerate(fr[m]):
                r = rng.random()
                mult = 0 if r < 0.12 else (1 if r < 0.72 else 2)
                seq += [f] * mult
            if rng.random() < 0.25:       # a complete retransmission of the train
                seq = seq + list(fr[m])
            # bounded reordering: a few swaps of neighbours at distance <= 2
            for _ in range(rng.choice([0, 0, 1, 2])):
                if len(seq) > 1:
                    i = rng.randrange(len(seq) - 1)
                    j = min(len(seq) - 1, i + rng.randint(1, 2))
                    seq[i], seq[j] = seq[j], seq[i]
            streams.setdefault(m.split("/")[0], []).extend(seq)
        # interleave the senders' streams, sprinkle dequeues
        ev = []
        live = [s for s in streams.values() if s]
        burst = rng.random() < 0.5
        while live:
            s = rng.choice(live)
            take = rng.randint(1, 4) if burst else 1
            for _ in range(take):
                if s:
                    ev.append(s.pop(0))
            live = [x for x in live if x]
            if rng.random() < 0.2:
                ev.append("X")
        ev += ["X"] * rng.randint(0, 8)
        return line_of(ms, ev, nid=rng.choice([0, 5, 65535]))

    def nontrivial(self, line, io):
        return " enq:0 -> 0 " in io or re.search(r"deq:1 -> \d", io) is not None

    # ---------------------------------------------------------------- judge
    def judge(self, triples):
        jobs = []      # (line, io, mo, [(sent, rcv, out, opindex)], per-line bookkeeping)
        out = []
        for l, io, mo in triples:
            if not l.startswith("q ") or " sent:" not in l:
                continue
            toks = l.split()[3:]
            if io.startswith("exc="):
                out.append(Finding(l, "an exception escaped enqueue/dequeue: " + io, {"impl": io}))
                continue
            parts = io.split(" | ")
            if len(parts) != len(toks):
                continue
            sent, rcv, outs = [], [], []
            for k, (t, part) in enumerate(zip(toks, parts)):
                p = t.split(":")
                res = part.split(" -> ", 1)[1].split(" ", 1)[0]
                if p[0] == "sent":
                    sent.append(p[1])
                elif p[0] == "unp":
                    f = parse_payload(p[2])
                    if f:
                        rcv.append(f)
                elif p[0] == "deq" and res != "none":
                    f, t_, i, ty, r, m = res.split("/")
                    o = (int(f), int(t_), int(i), int(ty[1:]) if ty[0] == "i" else -1, int(r), SI.unhex(m))
                    outs.append((k, o, list(rcv)))
            jobs.append((l, io, mo, sent, outs, rcv))
        queries = []
        for l, io, mo, sent, outs, rcv in jobs:
            for k, o, r in outs:
                queries.append(f"specsafe {','.join(sent)} {','.join(w_of(x) for x in r) or 'none'} {w_of(o)}")
        answers = iter(run_driver(queries)) if queries else iter(())
        for l, io, mo, sent, outs, rcv in jobs:
            finding = None
            for k, o, r in outs:
                a = next(answers)
                if a != "1" and finding is None:
                    finding = Finding(
                        l, f"op #{k}: the queue handed out from={oct(o[0])} id={o[2]} type={o[3]} "
                           f"len={len(o[5])} body={o[5].hex()}, which is not a message that was sent and "
                           "received in full", {"impl": io[:3000], "model": (mo or "")[:3000], "class": "C06-safety"})
            if finding is None:
                finding = self.two_copies_queued(l, io, mo)
            if finding is None:
                finding = self.at_most_once(l, io, mo, sent, outs, rcv)
            if finding:
                out.append(finding)
        return out

    @staticmethod
    def two_copies_queued(l, io, mo):
        """a second copy of a message while the first is still queued is never acceptable (this is
        what separates a new violation from the known complete-replay-after-dequeue residue)"""
        for k, part in enumerate(io.split(" | ")):
            m = re.search(r"q=\[([^\]]*)\]", part)
            if not m or not m.group(1):
                continue
            keys = [tuple(x.split("/")[i] for i in (0, 2, 3)) for x in m.group(1).split(";")]
            if len(set(keys)) != len(keys):
                return Finding(l, f"after op #{k} the queue holds two frames with the same origin, id and type: "
                                  f"[{m.group(1)[:300]}]", {"impl": io[:3000], "model": (mo or "")[:3000],
                                                            "class": "C06-two-copies-queued"})
        return None

    def at_most_once(self, l, io, mo, sent, outs, rcv):
        fr = None
        for m in sent:
            s, d, i, ty, body = m.split("/")
            key = (int(s), int(d), int(i), int(ty), SI.unhex(body))
            n = sum(1 for _, o, _ in outs if (o[0], o[1], o[2], o[3], o[5]) == key)
            if n <= 1:
                continue
            fr = fr or frames_of(sent)
            counts = []
            for hx in fr[m]:
                f = parse_payload(hx)
                counts.append(sum(1 for g in rcv if g[:4] == f[:4] and g[5] == f[5]))
            if min(counts) >= n:
                return Finding(l, f"message from={oct(key[0])} id={key[2]} was handed to the application {n} "
                                  f"times: every one of its fragments was received {min(counts)} times and the "
                                  "first copy had been dequeued (complete replay of a fragment train)",
                               {"impl": io[:3000], "class": KNOWN_CLASS})
            return Finding(l, f"message from={oct(key[0])} id={key[2]} was handed to the application {n} times "
                              f"although one of its fragments was received only {min(counts)} time(s)",
                           {"impl": io[:3000], "model": (mo or "")[:3000], "class": "C06-at-most-once"})
        return None


def run(tier):
    return run_check(C06(), tier)


def replay(path):
    return replay_generic(C06(), path)
