"""C03 — setters program the documented encoding; getters agree; no reserved/out-of-range write;
no foreign register altered; cached view equals the radio."""
from harness.framework import *
from harness import gen_rf
from harness.rfsession import run_line, parse_out, CFG_KEYS

# shadow attribute -> register key of the radio dump
SHADOW_EQ = [("p0", "a0"), ("p1", "a1"), ("pn", "an"), ("cfg", "cfg"), ("open", "rxen"), ("feat", "feat"),
             ("retr", "retr"), ("rf", "rf"), ("dyn", "dyn"), ("aa", "aa"), ("ch", "ch"), ("pl", "pw"), ("txa", "tx")]


def pair_sessions():
    """bounded-exhaustive: all ordered pairs over a small alphabet of calls that share registers"""
    alpha = [
        "set pa_level -18", "set pa_level 0 F", "set data_rate 250", "set data_rate 2", "set data_rate 1",
        "set crc 0", "set crc 1", "set crc 2", "set power F", "set power T", "set listen T", "set listen F",
        "interrupt_config F T F", "interrupt_config T T T",
        "set dynamic_payloads F", "set dynamic_payloads T", "set dynamic_payloads [1,0,-1,1]", "set_dynamic_payloads F 2",
        "set ack T", "set ack F", "set allow_ask_no_ack F", "set allow_ask_no_ack T",
        "set ard 250", "set ard 2999", "set arc 0", "set arc 15", "set_auto_retries 4000 3",
        "set auto_ack F", "set auto_ack 5", "set auto_ack [0,1,-1,1,0,1]", "set_auto_ack F 0", "set_auto_ack T 3",
        "set payload_length 8", "set payload_length [1,2,3,4,5,6]", "set_payload_length 5 2",
        "set address_length 3", "set address_length 7", "set channel 125",
        "open_rx_pipe 0 3132333435", "open_rx_pipe 3 aa", "close_rx_pipe 0", "close_rx_pipe 3", "open_tx_pipe aabbccddee",
    ]
    getters = ("get pa_level ; a get is_lna_enabled ; a get data_rate ; a get crc ; a get power ; a get listen ; "
               "a get dynamic_payloads ; a get ack ; a get allow_ask_no_ack ; a get ard ; a get arc ; a get auto_ack ; "
               "a get payload_length ; a get_payload_length 2 ; a get address_length ; a get channel ; a address 0 ; "
               "a address 3 ; a address -1")
    out = []
    for x in alpha:
        for y in alpha:
            out.append(f"rf 1 1 new a rf24 0 ; a enter ; a {x} ; a {y} ; a {getters}")
    return out


class C03(PropCheck):
    prop = "C03"
    rule = ("sessions of configuration calls on a real RF24 over the simulated radio (plus and non-plus), arguments from the "
            "documented domain and beyond; bounded-exhaustive ordered pairs of register-sharing calls followed by every "
            "getter; a case is non-trivial when at least one call changed a configuration register; distinct by full line")
    assumptions = ["radio behaves as lean/NrfModel/Radio.lean (= harness/simradio.py): write masks, reserved bits, ranges "
                   "from the nRF24L01+ product specification", "addresses longer than 5 bytes are outside the explored domain"]

    def impl(self, line):
        return run_line(line)

    def cases(self, res, tier, rng):
        n, depth = (120, 40) if tier == "quick" else (1500, 60)
        cs = [(gen_rf.session_config(rng, depth), "config-random") for _ in range(n)]
        if tier == "thorough":
            cs += [(gen_rf.session_config(rng, 400), "config-random-long") for _ in range(40)]
        ps = pair_sessions()
        if tier == "quick":
            ps = [p for i, p in enumerate(ps) if (i + res.seed) % 4 == 0]
        else:
            res.exhaustive_blocks.append(f"all {len(ps)} ordered pairs over the 43-call register-sharing alphabet")
        cs += [(p, "config-pairs") for p in ps]
        # the calls that interact through pipe 0 and the role: every sequence of 4 (thorough: 5), then the registers are read back
        import itertools
        core = ["open_rx_pipe 0 3132333435", "close_rx_pipe 0", "open_tx_pipe a1a2a3a4a5", "set listen T", "set listen F",
                "set_auto_ack F 0", "set_auto_ack T 0"]
        k = 4 if tier == "quick" else 5
        for seq in itertools.product(core, repeat=k):
            cs.append(("rf 1 1 new a rf24 0 ; a enter ; " + " ; ".join("a " + x for x in seq) + " ; a address 0 ; a get listen ; a get auto_ack",
                       f"pipe0-role-depth{k}"))
        res.exhaustive_blocks.append(f"all {len(core) ** k} sequences of {k} pipe-0 / role calls")
        # non-plus chip: the non-plus branches (start_carrier_wave, pa_level / lna bit) are reached by a first object
        # (fresh chip: FEATURE = 0, locked - the K2 state) and by an object constructed after another one (FEATURE unlocked,
        # holding 5 after an RF24, 0 after a FakeBLE - the K1 state)
        for i in range(n // 3):
            ops = [[], ["new z rf24 0"], ["new z ble 0"]][i % 3] + ["new a rf24 0", "a enter", "a get is_plus_variant"]
            for _ in range(rng.randint(4, depth // 2)):
                ops.append(rng.choice(["a start_carrier_wave", "a stop_carrier_wave", "a enter"]) if rng.random() < 0.25
                           else gen_rf.config_op(rng))
            cs.append(("rf 1 0 " + " ; ".join(ops), "nonplus-detected"))
        # variant detection after every chain of up to three earlier constructors, on both variants (the prior chip
        # states the library itself can produce: locked/0, unlocked/5, unlocked/0)
        import itertools as _it
        nchains = 0
        for p in ("1", "0"):
            for k in range(4):
                for chain in _it.product(["rf24", "ble"], repeat=k):
                    for last in ("rf24", "ble"):
                        names = [f"z{i}" for i in range(k)]
                        ops = [f"new {nm} {kd} 0" for nm, kd in zip(names, chain)] + [f"new a {last} 0", "a enter",
                               "a get is_plus_variant", "a set dynamic_payloads [1,0,1]", "a set ack T", "a get dynamic_payloads",
                               "a get ack", "a exit"]
                        cs.append((f"rf 1 {p} " + " ; ".join(ops), "variant-after-constructor-chains"))
                        nchains += 1
        res.exhaustive_blocks.append(f"variant detection after all {nchains} chains of <= 3 earlier RF24 / FakeBLE constructors, plus and non-plus")
        # every method with optional parameters, called with them omitted (documented defaults)
        cs += [(gen_rf.defaults_session(rng), "documented-defaults") for _ in range(n // 2)]
        return cs

    def nontrivial(self, line, io):
        ops = parse_out(io)
        prev = None
        for o in ops:
            if not o["radios"]:
                continue
            cur = tuple(o["radios"][0].get(k) for k in CFG_KEYS)
            if prev is not None and cur != prev:
                return True
            prev = cur
        return False

    def judge(self, triples):
        out = []
        need = [l for l, io, mo in triples if mo is None]
        got = dict(zip(need, run_driver(need))) if need else {}
        # the documented behaviour itself: `speccfg` evaluates Cfg.docStep (lean/NrfModel/Spec/Cfg.lean, written from
        # docs/ + data sheet) on single-object sessions made of C03 calls; `bad-op` = outside its alphabet/domain
        slines = [l for l, io, mo in triples
                  if l.startswith("rf ") and " ; ".join(l.split(" ; ")[:2]).endswith("new a rf24 0 ; a enter")]
        sgot = dict(zip(slines, run_driver(["speccfg" + l[2:] for l in slines]))) if slines else {}
        for l, io, mo in triples:
            if not l.startswith("rf "):
                continue
            mo = got.get(l, mo)
            opnames = l.split(" ; ")
            iops, mops = parse_out(io), parse_out(mo)
            plus = l.split()[2] == "1"
            suspended = False  # non-plus carrier-wave test documents altered settings until `with`
            for k, (name, a) in enumerate(zip(opnames, iops)):
                call = " ".join(name.split()[-len(name.split()) + (4 if k == 0 else 0):]) if k == 0 else name
                if "start_carrier_wave" in name and not plus:
                    suspended = True
                if name.endswith(" enter"):
                    suspended = False
                if not a["radios"]:
                    continue
                r = a["radios"][0]
                what = None
                viol = [v for v in r.get("viol", "[]")[1:-1].split("|") if v and v != "SETUP_AW:illegal:0" and not v.startswith("CE:")]
                if viol and not suspended:
                    what = f"reserved/out-of-range register write logged by the radio: {viol[-1]}"
                elif k >= 2 and not suspended and a["obj"]:
                    for sk, rk in SHADOW_EQ:
                        if a["obj"].get(sk) != r.get(rk):
                            what = f"driver's cached {sk}={a['obj'].get(sk)} differs from the radio's {rk}={r.get(rk)}"
                            break
                    if what is None and a["obj"].get("al") != str(int(r.get("aw", "0")) + 2):
                        what = f"cached address length {a['obj'].get('al')} vs SETUP_AW {r.get('aw')}"
                if what is None and name.endswith(" get is_plus_variant") and a["res"] in ("T", "F") and a["res"] != ("T" if plus else "F"):
                    # a directly computable fact: the session says which chip it is (every object, every chip history)
                    what = (f"is_plus_variant returns {a['res']} on a{' plus' if plus else ' non-plus'} chip "
                            f"(documented: True only for the nRF24L01+)")
                sp = sgot.get(l)
                if what is None and sp and sp != "bad-op" and k >= 2:
                    sops = parse_out(sp)
                    if k < len(sops) and sops[k]["radios"]:
                        m = sops[k]
                        if a["res"] != m["res"]:
                            what = f"returns {a['res']}, the documentation (Cfg.docStep) gives {m['res']}"
                        else:
                            for ck in CFG_KEYS + ["ce"]:
                                if r.get(ck) != m["radios"][0].get(ck):
                                    what = (f"register {ck}={r.get(ck)} after the call, the documented encoding "
                                            f"(Cfg.docStep) is {m['radios'][0].get(ck)}")
                                    break
                if what is None and k < len(mops) and mops[k]["radios"]:
                    m = mops[k]
                    if a["res"] != m["res"]:
                        what = f"returns {a['res']}, documented behaviour gives {m['res']}"
                    else:
                        for ck in CFG_KEYS:
                            if r.get(ck) != m["radios"][0].get(ck):
                                what = f"register {ck}={r.get(ck)} after the call, documented encoding gives {m['radios'][0].get(ck)}"
                                break
                if what:
                    det = {"op_index": k, "op": call, "impl_op": a["raw"][:400]}
                    out.append(Finding(l, f"op {k} `{call}`: {what}", det))
                    break
        seen = {f.case for f in out}
        out += [f for f in judge_defaults(triples, self.impl) if f.case not in seen]
        return out


def run(tier):
    return run_check(C03(), tier)


def replay(path):
    return replay_generic(C03(), path)
