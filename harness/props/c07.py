"""C07 — after any network operation the node listens again on all its addresses."""
from harness.framework import *
from harness import gen_net, netsession
from harness.rfsession import parse_out
from harness.gen_rf import rbytes


def phys_addr(addr: int, pipe: int, am: bool, pfx: int, sfx: bytes, lvl: int) -> bytes:
    """documented pipe addressing (docs/network_docs/topology.rst): one byte per octal digit, the
    pipe's own byte first; with multicast enabled pipe 0 of every node but the master is the shared
    address of the node's (multicast) level"""
    digits = []
    a = addr
    while a:
        digits.append(a & 7)
        a >>= 3
    if am and pipe == 0:
        if lvl == 0:
            return bytes([sfx[0]] + [pfx] * 4)
        return bytes([pfx, sfx[lvl]] + [pfx] * 3)
    out = [sfx[pipe]] + [sfx[d] for d in digits]
    return bytes((out + [pfx] * 5)[:5])


def radio_pipe_addrs(r):
    return [bytes.fromhex(r["a0"]), bytes.fromhex(r["a1"])] + [bytes([int(x)]) + bytes.fromhex(r["a1"])[1:] for x in r["an"].split(",")]


def session(rng, tier):
    x = rng.random()
    if x < 0.5:
        n = rng.randint(2, 6)
        line = gen_net.session_tree(rng, n, rng.randint(4, 14), closed=rng.random() < 0.8)
        # sometimes a node is absent (next hop missing): drop the creation of one non-root node
        ops = line.split(" ; ")
        extra = []
        for _ in range(rng.randint(0, 3)):
            who = f"n{rng.randrange(n)}"
            extra.append(rng.choice([f"{who} set multicast_level {rng.choice([0, 1, 2, 3, 4, 5, -1])}",
                                     f"{who} set node_address {rng.choice([0o1, 0o2, 0o15, 0o123, 0o4321, 0o6, 0o111111])}",
                                     f"{who} set fragmentation {rng.choice('TF')}", f"{who} set multicast_relay T",
                                     f"{who} write {rng.choice([0o1, 0o2, 0o11, 0o3333])} {rng.choice([1, 70])} {rbytes(rng, rng.choice([3, 60]))} 56",
                                     f"{who} write {rng.choice([0o1, 0o5])} 5 {rbytes(rng, 4)} {rng.choice([0o1, 0o5, 0])}"]))
        if rng.random() < 0.25:
            # multicasting switched off the documented way (allow_multicast, then node_address), then a level change
            who = rng.randrange(n)
            addr = next((int(t[t.index("new") + 4]) for t in (o.split() for o in ops)
                         if "new" in t and t[t.index("new") + 1] == f"n{who}" and t[t.index("new") + 2] != "routing"), None)
            if addr is not None:
                extra += [f"n{who} set allow_multicast F", f"n{who} set node_address {addr}"]
                if rng.random() < 0.7:
                    extra.append(f"n{who} set multicast_level {rng.choice([0, 1, 2, 3, 4])}")
        pos = rng.randint(n + 1, len(ops)) if len(ops) > n + 1 else len(ops)
        ops = ops[:pos] + extra + ops[pos:]
        # node kinds routing cannot write/multicast… generator already respects writers; filter illegal extras
        kinds = {}
        for o in ops:
            t = o.split()
            if "new" in t:
                i = t.index("new")
                kinds[t[i + 1]] = t[i + 2]
        out = []
        for o in ops:
            t = o.split()
            if t[0] in kinds and kinds[t[0]] == "routing" and t[1] in ("write",):
                continue
            out.append(o)
        return " ; ".join(out)
    return gen_net.session_mesh(rng, rng.randint(1, 4), rng.randint(3, 9))


def slow_routed_session(rng):
    """a routed write of an acknowledged type (65..191) whose transmission is SLOW relative to route_timeout: a chain
    0 - 0o1 - 0o11 (- 0o111), the writer's route_timeout set to 0..5 ms and/or its first hop delayed by lost attempts,
    single frames and fragment trains.  Every exit of `_write` — including 'the time is already up' — must leave the
    node listening (seeded change C07-s21 returned before listen = True)."""
    chain = [0, 0o1, 0o11, 0o111][: rng.choice([3, 4])]
    ops = [f"new n{i} network {i} {a}" for i, a in enumerate(chain)]
    w = rng.choice([0, len(chain) - 1])
    far = [i for i in range(len(chain)) if abs(i - w) >= 2]
    ops.append(f"n{w} set route_timeout {rng.choice([0, 0, 1, 2, 5, 75])}")
    if rng.random() < 0.5:
        ops.append(f"n{w} set tx_timeout {rng.choice([5, 25, 60])}")
    for _ in range(rng.randint(1, 3)):
        if rng.random() < 0.7:
            ops.append("env faults " + "L" * rng.randint(1, 14) + rng.choice(["", "D", "DL", "DLLD"]))
        ops.append(f"n{w} write {chain[rng.choice(far)]} {rng.choice([65, 70, 127, 191])} "
                   f"{rbytes(rng, rng.choice([1, 24, 25, 60, 120, 144]))} 56")
        if rng.random() < 0.4:
            ops.append(f"n{rng.randrange(len(chain))} update")
    return f"net {len(chain)} 1 " + " ; ".join(ops)


class C07(PropCheck):
    prop = "C07"
    rule = ("sessions of network / mesh API calls on real node objects over simulated radios (trees of routing-only and full "
            "nodes, mesh joins / lookups / sends / releases), with lost packets and ACKs, absent next hops, NETWORK_ACK waits, "
            "fragment aborts, loop-back writes, node_address / multicast_level changes; after EVERY call the radio of every "
            "node is checked; non-trivial = the session transmitted at least one frame")
    assumptions = ["closed-system scheduling of harness/netsession.py (other nodes run update() to completion at the running node's "
                   "polls); user calls through the exposed radio API are outside the property"]

    def impl(self, line):
        return netsession.run_line(line)

    def cases(self, res, tier, rng):
        n = 150 if tier == "quick" else 2500
        return ([(session(rng, tier), "net-api-random") for _ in range(n)]
                + [(slow_routed_session(rng), "slow-routed-write") for _ in range(n // 4)])

    def nontrivial(self, line, io):
        return "x1:1" in io or "x2:1" in io or "x6:" in io or "x1:0" in io

    def judge(self, triples):
        out = []
        for l, io, mo in triples:
            if not l.startswith("net "):
                continue
            names = l.split(" ; ")
            what = None
            rid_of, stale = {}, set()
            for k, (name, part) in enumerate(zip(names, io.split(" ; "))):
                t = name.split()
                if "new" in t and len(t) > t.index("new") + 3:
                    rid_of[t[t.index("new") + 1]] = int(t[t.index("new") + 3])
                # `allow_multicast` is a plain attribute that takes effect "when setting the node_address"
                # (docs/network_docs/network_api.rst): the node is not judged between the two assignments.
                # A `multicast_level` assignment is judged like every other call, also on a node without
                # multicasting: its pipe 0 must (still) be on the node's own address (phys_addr with am = False;
                # former known finding C07-mclvl-no-multicast, fixed by 6a18625, regression line in corpus/C07)
                if len(t) >= 3 and t[1] == "set" and t[0] in rid_of:
                    if t[2] == "allow_multicast":
                        stale.add(rid_of[t[0]])
                    elif t[2] == "node_address":
                        stale.discard(rid_of[t[0]])
                f = part.split(" ~ ")
                if len(f) != 4 or " all=" not in f[1] and not f[0].count(" all="):
                    continue
                res = f[0]
                allv = (f[1].split(" all=")[1] if " all=" in f[1] else "").strip()
                radios = [dict(tok.split("=", 1) for tok in r.split(" ") if "=" in tok) for r in f[2].split(" || ")]
                if res.startswith("exc="):
                    continue  # an exception escaping a call is C15's subject; the call did not "return"
                for ent in allv.split(","):
                    if ent in ("", "?"):
                        continue
                    rid, addr, lvl, am, pfx, sfx = ent.split("/")
                    rid, addr, lvl, am, pfx, sfx = int(rid), int(addr), int(lvl), am == "1", int(pfx), bytes.fromhex(sfx)
                    if rid in stale:
                        continue
                    r = radios[rid]
                    if int(r["cfg"]) & 3 != 3 or r["ce"] != "1":
                        what = f"node {oct(addr)} is not listening (CONFIG={r['cfg']} CE={r['ce']})"
                    elif int(r["rxen"]) != 0x3F:
                        what = f"node {oct(addr)}: open pipes EN_RXADDR={r['rxen']} (expected all six)"
                    elif int(r["aw"]) != 3:
                        what = f"node {oct(addr)}: address width SETUP_AW={r['aw']} (expected 3 = five bytes)"
                    elif int(r["aa"]) != 0x3E:
                        what = f"node {oct(addr)}: EN_AA={r['aa']} (expected auto-ack on pipes 1-5, off on pipe 0)"
                    elif int(r["dyn"]) != 0x3F or not int(r["feat"]) & 4:
                        what = f"node {oct(addr)}: dynamic payloads DYNPD={r['dyn']} FEATURE={r['feat']}"
                    else:
                        got = radio_pipe_addrs(r)
                        for p in range(6):
                            exp = phys_addr(addr, p, am, pfx, sfx, lvl)
                            if got[p] != exp:
                                what = f"node {oct(addr)}: pipe {p} listens on {got[p].hex()}, its address is {exp.hex()}"
                                break
                    if what:
                        break
                if what:
                    out.append(Finding(l, f"op {k} `{name if k else ' '.join(name.split()[3:])}`: {what}",
                                       {"op_index": k}))
                    break
        seen = {f.case for f in out}
        out += [f for f in judge_defaults(triples, self.impl) if f.case not in seen]
        return out


def run(tier):
    return run_check(C07(), tier)


def replay(path):
    return replay_generic(C07(), path)
