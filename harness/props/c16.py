"""C16 — the mesh master leases each logical address to at most one node ID.

Implementation side: a real `RF24Mesh` master (node_id 0) on a fake SPI bus.  Frames are fed through
a stub of `self._rf24.read()` so that `_net_update()` and the dispatch in `RF24Mesh.update()` run for
real; `self._write()` is replaced by a recorder that returns scripted results (the transmission is
the node layer).  Files are real files in a temporary directory.
"""
import atexit
import json
import os
import shutil
import struct
import tempfile

from harness.framework import *
from harness.shim_basic import new_master

DEFAULT = 0o4444


def val(ds):
    return sum(d << (3 * k) for k, d in enumerate(ds))


def nodes_of_len(n):
    out = [[]]
    for _ in range(n):
        out = [ds + [d] for ds in out for d in (1, 2, 3, 4, 5)]
    return out


def hexs(b):
    b = bytes(b)
    return b.hex() if b else "-"


def show_table(d):
    return ",".join(f"{k}={v}" for k, v in d.items()) if d else "-"


def parse_table(s):
    return [] if s == "-" else [tuple(int(x) for x in kv.split("=")) for kv in s.split(",")]


class MasterRig:
    """one real master, its scripted radio and its two files"""

    def __init__(self, tmpdir, tag):
        self.files = {"b": os.path.join(tmpdir, tag + ".bin"), "j": os.path.join(tmpdir, tag + ".json")}
        for f in self.files.values():
            if os.path.exists(f):
                os.remove(f)
        self.rx, self.calls, self.script = [], [], []
        self.boot()

    def boot(self):
        self.mesh = m = new_master()
        m._rf24.read = lambda length=None: self.rx.pop(0) if self.rx else None

        def rec_write(to_node, send_type):
            h = m.frame_buf.header
            self.calls.append(f"{to_node}.{send_type}.{h.from_node}.{h.to_node}.{h.message_type}."
                              f"{h.reserved}.{hexs(m.frame_buf.message)}")
            return self.script.pop(0) if self.script else True

        m._write = rec_write

    def event(self, tok):
        m = self.mesh
        p = tok.split(":")
        self.calls.clear()
        self.script.clear()
        ret, exc, filestr = 0, "-", "-"
        try:
            if p[0] == "f":
                t, fr, rs, msg, w = int(p[1]), int(p[2]), int(p[3]), p[4], p[5]
                self.script += [c == "1" for c in w]
                body = b"" if msg == "-" else bytes.fromhex(msg)
                self.rx.append(bytearray(struct.pack("<HHHBB", fr, 0, 7, t, rs) + body))
                ret = m.update()
            elif p[0] == "d":
                fr, rs, w = int(p[1]), int(p[2]), p[3]
                self.script += [c == "1" for c in w]
                h = m.frame_buf.header
                h.from_node, h.to_node, h.message_type, h.reserved = fr, 0, 195, rs
                m.frame_buf.message = b""
                m._do_dhcp = True
                m._dhcp()
            elif p[0] == "la":
                ret = m.lookup_address(int(p[1]))
            elif p[0] == "li":
                ret = m.lookup_node_id(int(p[1]))
            elif p[0] == "ra":
                self.script += [c == "1" for c in p[2]]
                m.frame_buf.header.reserved = 0
                ret = int(bool(m.release_address(int(p[1]))))
            elif p[0] == "sa":
                m.set_address(int(p[1]), int(p[2]), p[3] == "1")
            elif p[0] == "sv":
                try:
                    m.save_dhcp(self.files[p[1]], as_bin=(p[1] == "b"))
                finally:
                    raw = open(self.files[p[1]], "rb").read()
                    if p[1] == "b":
                        filestr = "b" + hexs(raw)
                    else:
                        pairs = json.loads(raw.decode(), object_pairs_hook=list)
                        filestr = "j" + ",".join(f"{k}={v}" for k, v in pairs)
            elif p[0] == "ld":
                m.load_dhcp(self.files[p[1]], as_bin=(p[1] == "b"))
            elif p[0] == "rb":
                self.boot()
                m = self.mesh
            else:
                raise Infra("unknown event " + tok)
        except Infra:
            raise
        except Exception as e:  # what the caller of the library would see
            exc, ret = exc_name(e), 0
        if self.rx:  # a frame that was not consumed would leak into the next event
            raise Infra("frame not consumed by update(): " + tok)
        ws = "+".join(self.calls) if self.calls else "-"
        ab = "1" if m._addr == DEFAULT else "0"
        return f"{int(ret)}/{exc}/{ws}/{ab}/{show_table(m.dhcp_dict)}/{filestr}"


def judge_relayed(l, io):
    """one relayed request for ID r on a master with an empty table: afterwards at most one lease exists, it is r's,
    and every address is leased once"""
    names, parts = l.split(" ; "), io.split(" ; ")
    req = bytes.fromhex(names[2].split()[-1])
    rid = req[7]
    asked = {rid}
    for n in names[3:]:
        t = n.split()
        if t[:2] == ["env", "arrive"]:
            b = bytes.fromhex(t[-1])
            if len(b) >= 8 and b[6] == 195:
                asked.add(b[7])          # another address request is another legitimate lease
    for k, (name, part) in enumerate(zip(names, parts)):
        if not name.startswith("m update"):
            continue
        f = part.split(" ~ ")
        if len(f) < 2 or "dhcp=[" not in f[1]:
            continue
        tab = f[1].split("dhcp=[")[1].split("]")[0]
        leases = [tuple(int(x) for x in e.split(":")) for e in tab.split(",") if e]
        foreign = [i for i, _ in leases if i not in asked]
        if foreign:
            return Finding(l, f"op {k}: the master's table holds a lease for ID {foreign[0]}, which never asked (requests came from "
                              f"{sorted(asked)}): {tab}", {"class": "foreign-lease"})
        addrs = [a for _, a in leases]
        if len(set(addrs)) != len(addrs):
            return Finding(l, f"op {k}: one address leased to two IDs: {tab}", {"class": "double-lease"})
    return None


class C16(PropCheck):
    prop = "C16"
    rule = ("a history counts when at least one lease exists at some point in it, a persistence "
            "case when the table is not empty; distinct = distinct input lines")
    assumptions = [
        "the transmission of the reply (_write) is the node layer: its calls are recorded as data, "
        "its Boolean results are scripted inputs",
        "json.dumps / json.load / the file system are Python's (exercised, not modelled)",
        "request frames carry IDs 1..255 and come directly (from_node 0o4444) or from a node of "
        "level 0..3; other senders (level-4 relays, forged addresses, manual set_address) are "
        "compared with the model but nothing of the property is demanded of them",
    ]
    exhaustive = False

    def __init__(self):
        self.tmp = tempfile.mkdtemp(prefix="c16-")
        atexit.register(shutil.rmtree, self.tmp, True)
        self.n = 0

    # ---------------------------------------------------------------------------------- impl
    def impl(self, line):
        if line.startswith("net "):
            from harness import netsession
            return netsession.run_line(line)
        op, *args = line.split()
        self.n += 1
        if op == "mesh":
            rig = MasterRig(self.tmp, "h")
            return " ".join(rig.event(t) for t in args)
        if op == "persist":
            fmt, table = args
            rig = MasterRig(self.tmp, "p")
            rig.mesh.dhcp_dict = dict(parse_table(table))
            first = rig.event("sv:" + fmt)
            _, exc, _, _, _, filestr = first.split("/")
            if exc != "-":
                return f"{filestr} {exc} -"
            rig.event("rb")
            second = rig.event("ld:" + fmt)
            _, exc, _, _, tbl, _ = second.split("/")
            return f"{filestr} {exc} {tbl}"
        if op in ("loadbin", "loadjson"):
            content, table = args
            rig = MasterRig(self.tmp, "l")
            rig.mesh.dhcp_dict = dict(parse_table(table))
            if op == "loadbin":
                open(rig.files["b"], "wb").write(b"" if content == "-" else bytes.fromhex(content))
                out = rig.event("ld:b")
            else:
                pairs = [] if content == "-" else [kv.split("=") for kv in content.split(",")]
                text = "{" + ", ".join(f'"{k}": {v}' for k, v in pairs) + "}"
                open(rig.files["j"], "w").write(text)
                out = rig.event("ld:j")
            _, exc, _, _, tbl, _ = out.split("/")
            return f"{exc} {tbl}"
        raise Infra("unknown op " + op)

    # ----------------------------------------------------------------------------- generators
    def cases(self, res, tier, rng):
        thorough = tier == "thorough"
        out = []
        relays = [ds for n in range(4) for ds in nodes_of_len(n)]  # the 156 nodes of level 0..3

        def req(fr, i, w=None):
            return f"f:195:{fr}:{i}:-:{w or rng.choice(['11', '10', '01', '00'])}"

        # A. exhaustive histories over a small alphabet
        alpha = [f"f:195:{fr}:{i}:-:11" for i in (1, 2, 3) for fr in (DEFAULT, 0o1)]
        alpha += [f"f:197:{a}:0:-:11" for a in (0o5, 0o4, 0o41)]
        alpha += ["sv:b", "ld:b", "sv:j", "ld:j", "rb"]
        depth = 4 if thorough else 3
        hist = [[]]
        for _ in range(depth):
            hist = [h + [e] for h in hist for e in alpha]
        out += [("mesh " + " ".join(h), "exhaustive-small") for h in hist]
        res.exhaustive_blocks.append(
            f"all {len(hist)} histories of length {depth} over {len(alpha)} events (3 IDs x "
            "{direct, relay 0o1} requests, 3 releases, save/load in both formats, reboot)")

        # B. every relay of level 0..3 (and the direct case): fill, overfill, release, re-request
        for via in [None] + relays:
            fr = DEFAULT if via is None else val(via)
            base = 0 if via is None else fr
            sh = 0 if via is None else 3 * len(via)
            ids = rng.sample(range(1, 256), 8)
            ev = [req(fr, i) for i in ids[:6]]                      # 5th / 6th find the parent full
            ev += [f"la:{ids[0]}", f"li:{base | (2 << sh)}"]
            k = rng.randint(1, 4)
            ev += [f"f:197:{base | (k << sh)}:0:-:11", req(fr, ids[6])]  # released slot comes back
            ev += [req(fr, ids[1]), req(fr, ids[5])]                # an owner / a loser asks again
            other = rng.choice(relays)
            ev += [req(val(other), ids[0]), req(fr, ids[7])]        # ID moves away, slot is free
            ev += [f"ra:{base | (rng.randint(1, 5) << sh)}:1", req(fr, ids[5])]
            f = rng.choice("bj")
            ev += [f"sv:{f}", "rb", f"ld:{f}", req(fr, ids[2])]
            out.append(("mesh " + " ".join(ev), "every-relay"))
        res.exhaustive_blocks.append("fill / overfill / release / re-request under each of the 156 "
                                     "relays of level 0..3 and directly under the master")

        # C. senders the property does not speak about (model = code is still compared)
        outside = [val(ds) for ds in rng.sample(nodes_of_len(4), 40 if thorough else 12)]
        outside += [0o100, 0o10, 0o1000, 0o4444]
        for fr in outside:
            ev = [req(fr, i) for i in rng.sample(range(1, 256), 6)]
            out.append(("mesh " + " ".join(ev), "outside-relays"))
        for _ in range(200 if thorough else 40):
            ev = []
            for _ in range(rng.randint(1, 8)):
                fr = rng.choice([rng.randrange(65536), rng.randrange(0o10000), DEFAULT, 0, 0o7777])
                ev.append(f"d:{fr}:{rng.choice([0, 1, 2, 255, rng.randrange(256)])}:"
                          f"{rng.choice(['11', '01'])}")
            out.append(("mesh " + " ".join(ev), "dhcp-direct-any-sender"))

        # D. long random histories, few IDs, few relays: parents run full
        for _ in range(6000 if thorough else 250):
            out.append(("mesh " + " ".join(self.random_history(rng, relays)), "random-history"))

        # E. persistence: every table size 0..255, both formats
        nodes = [val(ds) for n in range(1, 5) for ds in nodes_of_len(n) if val(ds) != DEFAULT]
        for rep in range(3 if thorough else 1):
            for n in range(256):
                for fmt in "bj":
                    ids = rng.sample(range(256), n)
                    addrs = rng.sample(nodes, n) if rng.random() < 0.5 else rng.sample(range(65536), n)
                    t = ",".join(f"{i}={a}" for i, a in zip(ids, addrs)) or "-"
                    out.append((f"persist {fmt} {t}", "persist-all-sizes"))
        res.exhaustive_blocks.append("persistence for every table size 0..255 in both formats")
        for _ in range(300 if thorough else 60):  # tables outside the invariant / the formats
            n = rng.randint(1, 12)
            ids = rng.sample(range(256), n)
            addrs = [rng.choice([1, 2, 0o11, rng.randrange(65536)]) for _ in range(n)]
            if rng.random() < 0.25:
                ids[rng.randrange(n)] = rng.choice([256, 300, 1000])
            if rng.random() < 0.25:
                addrs[rng.randrange(n)] = rng.choice([65536, 70000])
            t = ",".join(f"{i}={a}" for i, a in zip(ids, addrs))
            out.append((f"persist {rng.choice('bj')} {t}", "persist-odd-tables"))

        # F. arbitrary file contents into a non-empty master
        for _ in range(400 if thorough else 80):
            n = rng.randint(0, 6)
            t = ",".join(f"{i}={a}" for i, a in
                         zip(rng.sample(range(1, 9), n), rng.sample(range(1, 9), n))) or "-"
            if rng.random() < 0.5:
                ln = rng.choice([0, 1, 3, 4, 5, 7, 8, 11, 12, 16, 17, 20])
                b = bytes(rng.choice([rng.randrange(256), rng.randrange(9), 0]) for _ in range(ln))
                out.append((f"loadbin {hexs(b)} {t}", "load-arbitrary-file"))
            else:
                keys = rng.sample(["1", "2", "3", "04", "5", "6", "007", "8", "12", "255", "x", "1a", ""],
                                  rng.randint(0, 5))
                if rng.random() < 0.8:
                    keys = [k for k in keys if k.isdigit()]
                p = ",".join(f"{k}={rng.randrange(1, 9)}" for k in keys) or "-"
                out.append((f"loadjson {p} {t}", "load-arbitrary-file"))
        self.selfcheck(res, [l for l, _ in corpus_lines(self.prop)] + [l for l, _ in out])
        # --- the master on real radios: an address request relayed by an existing child is answered with a routed frame
        #     whose NETWORK_ACK the master awaits; other frames arrive meanwhile (they are unpacked into the shared
        #     frame_buf).  The lease must be the requester's - one address, under the ID that asked.
        for _ in range(12 if tier == "quick" else 200):
            child = rng.choice([0o1, 0o2, 0o3, 0o4, 0o5])
            via = child | (rng.randint(1, 5) << 3)
            rid = rng.randint(1, 255)
            req = (struct.pack("<HHHBB", via, 0, rng.randrange(65536), 195, rid)).hex()
            ops = ["new m master 0 0", f"new c network 1 {child}", f"env inject 0 {rng.randint(1, 5)} {req}"]
            for q in range(rng.randint(1, 3)):
                other = struct.pack("<HHHBB", rng.choice([0o1, 0o5, 0o21, via]), rng.choice([0, 0, 0o6, 0o16]), rng.randrange(65536),
                                    rng.choice([0, 1, 65, 195, 197, 130]), rng.choice([i for i in range(1, 256) if i != rid]))
                ops.append(f"env arrive m {rng.choice([1, 3, 10, 40, 80, 100, 130, 160, 200]) * 1000000 + q} {rng.randint(0, 5)} {other.hex()}")
            ops += ["m update", "m update"]
            cs_extra = ("net 2 0 " + " ; ".join(ops), "master-on-radios-relayed-request")
            out.append(cs_extra)
        return out

    def selfcheck(self, res, lines):
        """The judge must accept the *model's* own behaviour on every generated line (the theorems say
        the model satisfies the property; a judge that rejects it would be judging something else)."""
        model = run_driver(lines)
        bad = [f.case for f in self.judge([(l, mo, mo) for l, mo in zip(lines, model)])]
        res.extra["judge_selfcheck_lines"] = len(lines)
        if bad:
            raise Infra("the spec judge rejects the model's own output on: " + bad[0][:300])

    def random_history(self, rng, relays):
        ids = rng.sample(range(1, 256), rng.randint(2, 9))
        if rng.random() < 0.2:
            ids.append(255)
        pool = [DEFAULT] * rng.randint(0, 2) + [val(rng.choice(relays)) for _ in range(rng.randint(1, 3))]
        if rng.random() < 0.1:
            pool.append(val(rng.choice(nodes_of_len(4))))  # outside the property, still compared

        def slot():
            fr = rng.choice(pool)
            if fr == DEFAULT:
                return rng.randint(1, 5)
            sh = 0
            while fr >> sh:
                sh += 3
            return fr | (rng.randint(1, 5) << sh)

        ev, saved = [], set()
        for _ in range(rng.randint(20, 60)):
            r = rng.random()
            w = rng.choice(["11", "11", "10", "01", "00"])
            if r < 0.55:
                ev.append(f"f:195:{rng.choice(pool)}:{rng.choice(ids)}:-:{w}")
            elif r < 0.70:
                ev.append(f"f:197:{rng.choice([slot(), slot(), slot(), 0, rng.randrange(0o10000)])}:"
                          f"{rng.choice([0, 3])}:-:{w}")
            elif r < 0.74:
                ev.append(f"la:{rng.choice(ids + [0, 77])}")
            elif r < 0.78:
                ev.append(f"li:{rng.choice([slot(), slot(), 0, 0o4444])}")
            elif r < 0.82:  # lookup frames (their replies belong to C15/C17; the table must not move)
                t = rng.choice([196, 198])
                body = rng.choice([b"", bytes([rng.choice(ids)]), struct.pack("<H", slot()),
                                   bytes([rng.choice(ids), 0, 9])])
                ev.append(f"f:{t}:{rng.choice(pool)}:{rng.choice([0, 5])}:{hexs(body)}:{w}")
            elif r < 0.85:  # other frame types / a request carrying ID 0
                t = rng.choice([0, 5, 127, 130, 131, 148, 150, 193, 194, 195, 199, 255])
                rs = 0 if t == 195 else rng.randrange(256)
                ev.append(f"f:{t}:{rng.choice(pool)}:{rs}:{hexs(bytes(rng.randrange(256) for _ in range(rng.randint(0, 4))))}:{w}")
            elif r < 0.90:
                f = rng.choice("bj")
                saved.add(f)
                ev.append(f"sv:{f}")
            elif r < 0.94:
                if saved:
                    ev.append(f"ld:{rng.choice(sorted(saved))}")
            elif r < 0.96:
                ev.append("rb")
                if saved and rng.random() < 0.8:
                    ev.append(f"ld:{rng.choice(sorted(saved))}")
            elif r < 0.975:
                ev.append(f"ra:{rng.choice([slot(), 0])}:{w[0]}")
            elif r < 0.99:
                ev.append(f"d:{rng.choice(pool)}:{rng.choice(ids)}:{w}")
            else:
                ev.append(f"sa:{rng.choice(ids)}:{slot()}:{rng.choice('01')}")

        return ev

    # ---------------------------------------------------------------------------------- judge
    def nontrivial(self, line, io):
        if io.startswith("exc="):
            return False
        if line.startswith("mesh "):
            return any(t.split("/")[4] != "-" for t in io.split() if t.count("/") == 5)
        return not line.endswith(" -")

    def judge(self, triples):
        """the property's spec (Nrf.Spec.judge / specpersist, evaluated by the driver) against what
        the implementation was observed to do"""
        out, lines, idx = [], [], []
        for l, io, mo in triples:
            if l.startswith("net 2 0 new m master 0 0 ; new c network 1 "):
                f = judge_relayed(l, io)
                if f:
                    out.append(f)
                continue
            if io.startswith("exc="):
                continue
            op, *args = l.split()
            if op == "mesh":
                if len(io.split()) != len(args):
                    continue
                lines.append("specmesh " + " ".join(args) + " @ " + io)
                idx.append((l, io, mo))
            elif op == "persist":
                fmt, table = args
                _file, exc, loaded = io.split()
                lines.append(f"specpersist {fmt} {table} @ {loaded if exc == '-' else '999999=0'}")
                idx.append((l, io, mo))
        if not lines:
            return out
        for (l, io, mo), so in zip(idx, run_driver(lines)):
            if so == "ok":
                continue
            if l.startswith("mesh "):
                i = int(so.split()[1])
                evs, obs = l.split()[1:], io.split()
                before = obs[i - 1].split("/")[4] if i else "-"
                what = (f"event #{i} `{evs[i]}` on a master whose table was [{before}] violates the "
                        f"lease property: observed {obs[i]}")
                out.append(Finding(l, what, {"event_index": i, "event": evs[i], "table_before": before,
                                             "observed": obs[i], "model": (mo or "").split()[i:i + 1]}))
            else:
                out.append(Finding(l, "save_dhcp()/load_dhcp() into an empty master did not reproduce "
                                      f"the table: got {io}", {"impl": io, "model": mo}))
        return out


def run(tier):
    return run_check(C16(), tier)


def replay(path):
    return replay_generic(C16(), path)
