"""C12 — the frame queue is a bounded, duplicate-free FIFO of private copies.

Correspondence: op histories (`q fixed <next_id> <op>…`, protocol in NrfModel/Drv/Structs.lean) run
on real `FrameQueueFrag`/`FrameQueue` objects and the real `fragmentation` setter, compared after
every op on the return value and the complete observable state (queue contents by value, capacity,
class, reassembly cache, header id counter, every frame object the caller holds).
Judge: the reference queue `Nrf.Spec.RefQ` (driver op `specq`) against the implementation's
outputs, for histories inside the property's scope."""
import itertools

from harness.framework import *
from harness import structs_impl as SI

FRAG_TYPES = (148, 149, 150)


def frame(src, fid, ty, body, to=0, rsv=0):
    return f"{src}/{to}/{fid}/i{ty}/{rsv}/{body}"


# three frame keys (origin, id, type); K[0] and K[1] differ only in the type, K[2] in the id
KEYS = [frame(1, 7, 5, "a1"), frame(1, 7, 6, "b2b2"), frame(1, 8, 5, "-")]
# same keys as KEYS[0] but other content: a duplicate by key, not by value
DUPS = [frame(1, 7, 5, "ee", to=3, rsv=9)]


def sym_tokens(sym: str, depth: int):
    """one symbol of the exhaustive alphabet -> protocol tokens.  Var 0 is ONE caller-owned frame
    object reused for every enqueue (so every later enqueue mutates an object that was passed in
    before), var 1 receives dequeued, var 2 peeked objects."""
    if sym[0] == "E":
        return [f"mut:0:{KEYS[int(sym[1])]}", "enq:0"]
    if sym == "U":
        return [f"mut:0:{DUPS[0]}", "enq:0"]
    if sym == "D":
        return ["peek:2", "deq:1"]
    if sym == "P":
        return ["peek:2", "len"]
    if sym[0] == "M":
        return [f"max:{sym[1:]}"]
    if sym == "F":
        return ["frag:T"]  # toggles: resolved by the caller
    raise AssertionError(sym)


def history(syms, b=""):
    """`b="b"`: the caller's frame carries a bytearray that it rewrites in place"""
    toks = [f"new:0:{frame(9, 9, 9, '99')}"]
    fragon = True
    for d, s in enumerate(syms):
        for t in sym_tokens(s, d):
            if t == "frag:T":
                fragon = not fragon
                t = f"frag:{int(fragon)}"
            toks.append(t)
    if b:
        toks = [t.replace("new:", "newb:", 1).replace("mut:", "mutb:", 1) for t in toks]
    return "q fixed 3 " + " ".join(toks)


def wire_ok(fr: str) -> bool:
    f, t, i, ty, r, m = fr.split("/")
    return (ty[0] == "i" and int(f) < 4096 and int(t) < 4096 and int(i) < 65536
            and int(ty[1:]) < 256 and int(r) < 256)


def to_w(fr: str) -> str:
    f, t, i, ty, r, m = fr.split("/")
    return f"{f}/{t}/{i}/{ty[1:]}/{r}/{m}"


class C12(PropCheck):
    judge_all = False
    prop = "C12"
    rule = ("a history counts when it is a distinct op sequence in which at least one enqueue was "
            "accepted and at least one frame left the queue or was refused (duplicate / full)")
    assumptions = [
        "frames are wire-representable (12-bit addresses, 16-bit id, 8-bit type/reserved): the stored "
        "copy is the masked wire image (C11)",
        "in fragmentation mode the enqueued frames are not fragment types 148..150 (those go through the "
        "reassembler: C06)",
        "the caller mutates only frame objects it owns (created by it or returned by dequeue()); the "
        "object returned by peek() IS the stored object (modelled and compared, outside the property)",
    ]
    exhaustive = False

    def impl(self, line):
        return SI.run_line(line)

    # ---------------------------------------------------------------- generators
    def cases(self, res, tier, rng):
        out = []
        alpha = ["E0", "E1", "E2", "D", "M1", "F"]
        depth = 6 if tier == "quick" else 7
        res.exhaustive_blocks.append(
            f"all {len(alpha)}^{depth} op histories of depth {depth} over {alpha} (3 frame keys, one reused "
            "caller object, peek+dequeue, max_queue_size=1, fragmentation toggle; len() after every op)")
        for syms in itertools.product(alpha, repeat=depth):
            out.append((history(syms), "exh-depth"))
        # capacity boundary: fill to max, shrink below len, grow, duplicates by key with other content
        alpha2 = ["E0", "E1", "E2", "U", "D", "P", "M0", "M2", "M3", "F"]
        d2 = 4 if tier == "quick" else 5
        res.exhaustive_blocks.append(f"all {len(alpha2)}^{d2} histories over {alpha2} after a 3-frame prefix")
        for syms in itertools.product(alpha2, repeat=d2):
            out.append((history(("E0", "E1", "E2") + syms), "exh-capacity"))
        d3 = 5 if tier == "quick" else 6
        res.exhaustive_blocks.append(
            f"all {len(alpha)}^{d3} histories over {alpha} in which the reused caller frame carries a "
            "bytearray message that is rewritten in place between enqueues")
        for syms in itertools.product(alpha, repeat=d3):
            out.append((history(syms, b="b"), "exh-inplace"))
        n = 3000 if tier == "quick" else 40000
        for _ in range(n):
            out.append((self.random_history(rng, in_scope=True), "rnd-in-scope"))
        for _ in range(n // 2):
            out.append((self.random_history(rng, in_scope=False), "rnd-any"))
        return out

    def random_history(self, rng, in_scope: bool):
        toks = []
        nvars = 3
        # half the histories use mutable message buffers that the caller rewrites in place
        b = "b" if rng.random() < 0.5 else ""
        for v in range(nvars):
            toks.append(f"new{b}:{v}:{self.rand_frame(rng, in_scope)}")
        fragon = True
        owned = set(range(nvars))      # vars bound to caller-owned objects
        bound = set(range(nvars))
        for _ in range(rng.randint(4, 40)):
            r = rng.random()
            if r < 0.40:
                v = rng.choice(sorted(owned)) if in_scope else rng.choice(sorted(bound))
                if rng.random() < 0.7:
                    toks.append(f"mut{b}:{v}:{self.rand_frame(rng, in_scope)}")
                toks.append(f"enq:{v}")
            elif r < 0.60:
                v = rng.choice([3, 4])
                toks.append(f"deq:{v}")
                bound.add(v)
                owned.add(v)        # may turn out to be None: filtered when used
            elif r < 0.70:
                toks.append("peek:5")
                owned.discard(5)
                bound.add(5)
            elif r < 0.78:
                toks.append("len")
            elif r < 0.88:
                toks.append(f"max:{rng.choice([0, 1, 2, 3, 4, 6, 6, 8, -1] if not in_scope else [0, 1, 2, 3, 4, 6, 8])}")
            elif r < 0.95:
                fragon = not fragon if rng.random() < 0.8 else fragon
                toks.append(f"frag:{int(fragon)}")
            else:
                v = rng.choice(sorted(owned)) if in_scope else rng.choice(sorted(bound))
                toks.append(f"mut{b}:{v}:{self.rand_frame(rng, in_scope)}")
        return f"q fixed {rng.choice([0, 3, 65534, 65535])} " + " ".join(toks)

    def rand_frame(self, rng, in_scope):
        src = rng.choice([1, 2, 0o4444])
        fid = rng.choice([7, 8, 9])
        if in_scope:
            ty = rng.choice([0, 5, 6, 65, 131, 147, 151, 255])
            return frame(src, fid, ty, rng.randbytes(rng.choice([0, 1, 3, 24])).hex() or "-",
                         to=rng.choice([0, 0o100]), rsv=rng.choice([0, 2, 131, 255]))
        ty = rng.choice(["i5", "i148", "i149", "i150", "i150", "i300", "s84", "s", "i5"])
        rsv = rng.choice([0, 1, 2, 3, 131, 300])
        src = rng.choice([src, 0o7777, 70000])
        body = rng.randbytes(rng.choice([0, 1, 24])).hex() or "-"
        return f"{src}/{rng.choice([0, 5000])}/{rng.choice([fid, 65536 + 7])}/{ty}/{rsv}/{body}"

    def nontrivial(self, line, io):
        return "enq:" in line and "-> 1 " in io and ("-> 0 " in io or "deq:" in line)

    # ---------------------------------------------------------------- judge
    def judge(self, triples):
        out, jobs = [], []
        for l, io, mo in triples:
            if not l.startswith("q "):
                continue
            r = self.judge_one(l, io)
            if isinstance(r, str):
                out.append(Finding(l, r, {"impl": io[:2000], "model": (mo or "")[:2000]}))
            elif r is not None:
                jobs.append((l, io, mo, r))
        if jobs:      # one driver call for all reference-queue runs
            answers = run_driver(["specq " + " ".join(j[3][0]) for j in jobs])
            for (l, io, mo, (spec_ops, idx, toks, parts)), so in zip(jobs, answers):
                f = self.compare(so.split(" | "), idx, toks, parts)
                if f:
                    out.append(Finding(l, f, {"impl": io[:2000], "model": (mo or "")[:2000]}))
        return out

    def judge_one(self, line, io):
        """Returns None (out of scope / nothing to judge), a str (a violation visible without the
        reference queue) or the job for `compare`.
        Translate the history to value-level ops of the reference queue (the value of an
        enqueued object is what the caller last assigned to it, or what dequeue() handed out),
        run `Nrf.Spec.RefQ` on it and compare every result and the contents after every op.
        Histories outside the property's scope (see `assumptions`) are not judged."""
        toks = line.split()[3:]
        if io.startswith("exc="):
            parts = None
        else:
            parts = io.split(" | ")
            if len(parts) != len(toks):
                return f"implementation produced {len(parts)} op results for {len(toks)} ops"
        vals, owned = {}, {}
        fragon = True
        spec_ops, idx = [], []
        for k, t in enumerate(toks):
            p = t.split(":")
            res = parts[k].split(" -> ", 1)[1].split(" ", 1)[0] if parts else None
            if p[0] in ("new", "newb"):
                vals[int(p[1])], owned[int(p[1])] = p[2], True
            elif p[0] in ("mut", "mutb"):
                if res == "skip":
                    continue
                if not owned.get(int(p[1])):
                    return None
                vals[int(p[1])] = p[2]
            elif p[0] == "enq":
                v = int(p[1])
                fr = vals.get(v)
                if res == "skip":
                    continue
                if not owned.get(v) or fr is None or not wire_ok(fr):
                    return None
                if fragon and int(fr.split("/")[3][1:]) in FRAG_TYPES:
                    return None
                spec_ops.append("enq:" + to_w(fr)); idx.append(k)
            elif p[0] == "deq":
                if parts is None:
                    return "exception escaped a queue operation: " + io
                vals[int(p[1])] = None if res == "none" else res
                owned[int(p[1])] = res != "none"
                spec_ops.append("deq"); idx.append(k)
            elif p[0] == "peek":
                owned[int(p[1])] = False
                spec_ops.append("peek"); idx.append(k)
            elif p[0] == "len":
                spec_ops.append("len"); idx.append(k)
            elif p[0] == "max":
                spec_ops.append(t); idx.append(k)
            elif p[0] == "frag":
                b = bool(int(p[1]))
                if b != fragon:
                    spec_ops.append("frag"); idx.append(k)
                fragon = b
            else:
                return None
        if parts is None:
            return "exception escaped a queue operation: " + io
        if not spec_ops:
            return None
        return (spec_ops, idx, toks, parts)

    @staticmethod
    def compare(so, idx, toks, parts):
        for k, s in zip(idx, so):
            sres, sitems = s.split(" ", 1)
            part, tok = parts[k], toks[k]
            res = part.split(" -> ", 1)[1].split(" ", 1)[0]
            items = re.search(r"q=\[([^\]]*)\]", part).group(1)
            items_w = ";".join(to_w(x) for x in items.split(";")) if items else ""
            ilen = int(re.search(r" len=(\d+) ", part).group(1))
            if tok.startswith(("deq", "peek")) and res != "none":
                res = to_w(res)
            if res != sres:
                return f"op #{k} `{tok}` returned {res}, the reference queue says {sres}"
            if "[" + items_w + "]" != sitems:
                return f"after op #{k} `{tok}` the queue holds [{items_w}], the reference queue {sitems}"
            nspec = len(sitems[1:-1].split(";")) if sitems != "[]" else 0
            if ilen != nspec:
                return f"after op #{k} `{tok}` len() is {ilen}, the reference queue holds {nspec}"
            cap = re.search(r" max=(-?\d+) ", part).group(1)
            if tok.startswith("enq") and res == "1" and ilen > int(cap):
                return f"op #{k} `{tok}` accepted a frame beyond max_queue_size={cap} (len {ilen})"
        return None


def run(tier):
    return run_check(C12(), tier)


def replay(path):
    return replay_generic(C12(), path)
