"""C11 — header and fragment wire formats are stable and TMRh20-compatible.

Correspondence: `RF24NetworkHeader.__init__/pack/unpack`, `RF24NetworkFrame.pack/unpack/__len__`,
`is_ack_type`, the `fragmentation` setter's `max_message_length`, and the payloads a real
`RF24Network.write()` hands to `RF24.send` (node built on harness/shim_basic.py, `send` replaced by
a recorder that reports success — what the repository's own `net_obj` fixture does).
Judge: the byte layout `Nrf.Spec.frameBytes` / `parseFrame`, the reference encoder
`Nrf.Spec.refFrames` and the TMRh20-style reference reassembler `Nrf.Spec.tmrhReassemble`
(driver ops `specheader`, `specparse`, `specfrags`, `spectmrh`) against the implementation's output."""
from harness.framework import *
from harness import structs_impl as SI

ADDRS = [0, 1, 0o5, 0o10, 0o100, 0o1000, 0o4444, 0o5555, 0o7777, 255, 256, 4095]
IDS = [0, 1, 255, 256, 257, 0x1234, 65534, 65535]


def in_range(f, t, i, ty, r):
    return ty[0] == "i" and int(f) < 4096 and int(t) < 4096 and int(i) < 65536 and int(ty[1:]) < 256 \
        and int(r) < 256


class C11(PropCheck):
    judge_all = False
    prop = "C11"
    rule = ("a case counts when it is a distinct input that did not end in an exception (codec cases: "
            "distinct field tuple / buffer; write cases: distinct header+message)")
    assumptions = [
        "header attributes are non-negative ints (or a str message_type); struct's native byte order is "
        "little-endian on the host",
        "every RF24.send() of the emission reports success (retries/aborts: C05/C07); first hop != this node",
    ]
    exhaustive = False

    def impl(self, line):
        if line.startswith("net "):
            from harness import netsession
            return netsession.run_line(line)
        return SI.run_line(line)

    def cases(self, res, tier, rng):
        out = []
        res.exhaustive_blocks.append("pack/unpack over all 256 types x 256 reserved values (addresses and ids "
                                     "cycling through the boundary values)")
        k = 0
        for ty in range(256):
            for rs in range(256):
                f, t, i = ADDRS[k % len(ADDRS)], ADDRS[(k // 3) % len(ADDRS)], IDS[(k // 7) % len(IDS)]
                k += 1
                out.append((f"hpack {f} {t} {i} i{ty} {rs}", "hpack-grid"))
                buf = bytes([f % 256, f // 256, t % 256, t // 256, i % 256, i // 256, ty, rs])
                if (ty + rs) % 3 == 0:
                    buf += rng.randbytes(rng.choice([0, 1, 24]))
                out.append((f"hunpack 4095 0 9 i0 0 {buf.hex()}", "hunpack-grid"))
        res.exhaustive_blocks.append(f"pack over all {len(ADDRS)}^2 x {len(IDS)} boundary address/id combinations")
        for f in ADDRS:
            for t in ADDRS:
                for i in IDS:
                    out.append((f"hpack {f} {t} {i} i{(f + t + i) % 256} {(f * 7 + i) % 256}", "hpack-bounds"))
        # out-of-range attribute values (masked by pack), str types
        for f, t, i, ty, r in [(4096, 0, 0, "i0", 0), (0xFFFF, 0x1FFF, 65536, "i256", 256),
                               (70000, 70000, 70000, "i300", 300), (1, 2, 3, "s", 0), (1, 2, 3, "s84", 0),
                               (1, 2, 3, "s8364", 0), (1, 2, 3, "s84_85", 7), (1, 2, 3, "s0", 0)]:
            out.append((f"hpack {f} {t} {i} {ty} {r}", "hpack-malformed"))
            out.append((f"fpack {f}/{t}/{i}/{ty}/{r}/0102", "fpack-malformed"))
        # short and arbitrary buffers
        for n in range(0, 12):
            for _ in range(6):
                out.append((f"hunpack 1 2 3 i4 5 {rng.randbytes(n).hex() or '-'}", "hunpack-len"))
                out.append((f"funpack 1/2/3/s84/5/aabb {rng.randbytes(n).hex() or '-'}", "funpack-len"))
        for _ in range(1500 if tier == "quick" else 30000):
            n = rng.choice([8, 8, 9, 20, 32, 33, 40])
            out.append((f"funpack 1/2/3/i4/5/aabb {rng.randbytes(n).hex()}", "funpack-rnd"))
            f, t, i = rng.choice(ADDRS), rng.choice(ADDRS), rng.choice(IDS + [rng.randrange(65536)])
            m = rng.randbytes(rng.choice([0, 1, 23, 24, 25, 40])).hex() or "-"
            out.append((f"fpack {f}/{t}/{i}/i{rng.randrange(256)}/{rng.randrange(256)}/{m}", "fpack-rnd"))
        # constructor: all int types incl. negative / oversize, 1-char strings, id wrap
        res.exhaustive_blocks.append("RF24NetworkHeader(to, type) for every int type -256..511 and every 1-char str "
                                     "type with code point 0..767, at counter values incl. 65535")
        for ty in range(-256, 512):
            out.append((f"hinit {IDS[ty % len(IDS)]} {ADDRS[ty % len(ADDRS)]} i{ty}", "hinit-int"))
        for cp in list(range(0, 768)) + [8364, 0x10FFFF]:
            out.append((f"hinit {IDS[cp % len(IDS)]} {ADDRS[cp % len(ADDRS)]} s{cp}", "hinit-str"))
        for n in IDS + [65535]:
            for to in ["none", "-1", "4096", "70000", "0", "2340"]:
                for ty in ["none", "s", "s84_85", "i0"]:
                    out.append((f"hinit {n} {to} {ty}", "hinit-misc"))
        for ty in range(256):
            out.append((f"isack i{ty}", "isack"))
        out += [("isack s84", "isack"), ("isack s", "isack"), ("isack i300", "isack")]
        for c in (0, 1):
            for e in (0, 1):
                for ml in (24, 100, 144):
                    out.append((f"fragmaxlen {c} {ml} {e}", "fragmaxlen"))
        # the sender: every length 0..200, every type, random content
        res.exhaustive_blocks.append("RF24Network.write() for every message length 0..200 (random content, "
                                     "types cycling through all 256 values) on the master node")
        reps = 2 if tier == "quick" else 12
        k = 0
        for rep in range(reps):
            for n in range(0, 201):
                ty = (k * 37 + rep) % 256
                k += 1
                to = rng.choice([1, 2, 3, 4, 5])
                fid = rng.choice(IDS + [rng.randrange(65536)])
                rs = rng.choice([0, 0, 7, 255])
                body = rng.randbytes(n).hex() or "-"
                out.append((f"write 0 {max(n, 144)} 1 {rng.choice([0o7777, 3])}/{to}/{fid}/i{ty}/{rs}/{body}", "write-len"))
        for ty in range(256):      # all types with a 3-fragment and a 2-fragment message
            n = 49 if ty % 2 else 25
            out.append((f"write 0 144 1 4095/{1 + ty % 5}/{ty * 257}/i{ty}/0/{rng.randbytes(n).hex()}", "write-types"))
        # other nodes (to the parent / to a child), max length guard, fragmentation off, invalid
        # destination, loop-back, str type; non-ack types for routed destinations (no NETWORK_ACK wait)
        for _ in range(300 if tier == "quick" else 4000):
            node = rng.choice([0, 0o1, 0o5, 0o21, 0o4444])
            n = rng.choice([0, 1, 23, 24, 25, 47, 48, 49, 72, 100, 143, 144, 145, 168, 200])
            fe = rng.choice([1, 1, 1, 0])
            ml = rng.choice([144, 144, 24, 100, 200])
            to = rng.choice([0, 1, 2, 5, node, (node << 3 | 1) & 0xFFF, 0o11, 0o100, 0o10, 7, 0o6, 0o7777, 0o15555])
            ty = rng.choice([0, 1, 64, 127, 200, 255, 193, 148, 150])
            if rng.random() < 0.3:
                ty = rng.choice([65, 100, 131, 191])
                to = rng.choice([node >> 3, (node << 3 | 2) & 0xFFF]) if node else rng.choice([1, 2, 3])
            tys = f"i{ty}" if rng.random() < 0.95 else rng.choice(["s84", "s"])
            body = rng.randbytes(n).hex() or "-"
            out.append((f"write {node} {ml} {fe} 9/{to}/{rng.choice(IDS)}/{tys}/{rng.choice([0, 9])}/{body}", "write-misc"))
        # "after sending, the caller's header shows its original type again" on real nodes over simulated radios, incl. routed
        # messages whose NETWORK_ACK is awaited (frames received during the wait must not reach the caller's frame)
        from harness import gen_net
        for _ in range(40 if tier == "quick" else 600):
            tree = gen_net.rand_tree(rng, rng.randint(2, 5))
            ops = [f"new n{i} network {i} {gen_net.addr_of(t)}" for i, t in enumerate(tree)]
            for _ in range(rng.randint(1, 3)):
                si = rng.randrange(len(tree))
                di = rng.choice([i for i in range(len(tree)) if i != si])
                ops.append(f"n{si} write {gen_net.addr_of(tree[di])} {rng.choice([1, 64, 65, 100, 127, 191, 192, 200])} "
                           f"{rng.randbytes(rng.choice([0, 3, 24, 25, 60, 144])).hex() or '-'} 56")
                ops.append(f"n{rng.randrange(len(tree))} update")
            out.append((f"net {len(tree)} 1 " + " ; ".join(ops), "caller-frame-after-write"))
        return out

    def nontrivial(self, line, io):
        return not io.startswith("exc=")

    # ---------------------------------------------------------------- judge
    def judge(self, triples):
        out = []
        q, plan = [], []          # spec queries and what to do with the answers

        def ask(line, then):
            q.append(line)
            plan.append(then)

        for l, io, mo in triples:
            if l.startswith("net "):
                # the caller's frame after write(): original type, destination, message; origin = the node's address
                for k, (name, part) in enumerate(zip(l.split(" ; "), io.split(" ; "))):
                    t = name.split()
                    if len(t) > 1 and t[1] == "write" and "frame=" in part:
                        fr = part.split("frame=")[1].split(" ")[0]
                        hdr, body = fr.rsplit(":", 1)
                        typ = hdr.split(":")[1].split("/")[0]
                        to = hdr.split(">")[1].split("#")[0]
                        if typ != str(int(t[3]) & 0xFF) or to != str(int(t[2]) & 0xFFF) or body != t[4][:288] and len(t[4]) <= 288:
                            out.append(Finding(l, f"op {k} `{name[:60]}`: after write() the caller's frame reads {fr[:60]} "
                                                  f"(written: to {t[2]} type {t[3]})", {"op_index": k}))
                            break
                continue
            op, *a = l.split()
            det = {"impl": io[:1500], "model": (mo or "")[:1500]}
            if op == "hpack" and in_range(*a):
                f, t, i, ty, r = a
                ask(f"specheader {f}/{t}/{i}/{ty[1:]}/{r}/-",
                    lambda s, l=l, io=io, det=det: None if io == s else Finding(
                        l, f"pack() gave {io}, the wire format prescribes {s}", det))
            elif op == "fpack":
                f, t, i, ty, r, m = a[0].split("/")
                if in_range(f, t, i, ty, r):
                    ask(f"specheader {f}/{t}/{i}/{ty[1:]}/{r}/{m}",
                        lambda s, l=l, io=io, det=det: None if io == s else Finding(
                            l, f"frame.pack() gave {io}, header+message prescribes {s}", det))
            elif op in ("hunpack", "funpack"):
                if op == "hunpack":
                    before, buf = "/".join(a[:5]), a[5]
                else:
                    before, buf = a[0], a[1]

                def then(s, l=l, io=io, det=det, op=op, before=before, buf=buf):
                    if io.startswith("exc="):
                        return Finding(l, f"unpack() of a {len(SI.unhex(buf))}-byte buffer raised {io[4:]}; it "
                                          "must return False (< 8 bytes) or True", det)
                    flag, after = io.split(" ")[0], io.split(" ")[1]
                    if s == "none":      # shorter than 8 bytes: refused, nothing touched
                        if flag != "0" or after != before:
                            return Finding(l, f"a {len(SI.unhex(buf))}-byte buffer must be refused with the fields "
                                              f"untouched; got flag {flag}, fields {after}", det)
                        return None
                    f, t, i, ty, r, m = s.split("/")
                    want = f"{f}/{t}/{i}/i{ty}/{r}" + (f"/{m}" if op == "funpack" else "")
                    if flag != "1" or after != want:
                        return Finding(l, f"unpack gave flag {flag}, fields {after}; the layout prescribes {want}", det)
                    if op == "funpack" and f"len={8 + len(SI.unhex(m))}" != io.split(" ")[2]:
                        return Finding(l, f"len(frame) is {io.split(' ')[2]} for a message of {len(SI.unhex(m))} bytes", det)
                    return None
                ask(f"specparse {buf}", then)
            elif op == "hinit":
                f = self.judge_init(l, a, io, det)
                if f:
                    out.append(f)
            elif op == "write":
                self.judge_write(l, a, io, det, ask)
        if q:
            for s, then in zip(run_driver(q), plan):
                f = then(s)
                if f:
                    out.append(f)
        return out

    @staticmethod
    def judge_init(l, a, io, det):
        n, to, ty = a
        n = int(n)
        if not 0 <= n < 65536:
            return None
        if ty == "none":
            want_t = 0
        elif ty[0] == "i" and 0 <= int(ty[1:]) < 256:
            want_t = int(ty[1:])
        elif ty[0] == "s" and ty[1:] and "_" not in ty and int(ty[1:]) < 256:
            want_t = int(ty[1:])          # one-character string: its code
        else:
            return None                     # outside the property's domain
        if to == "none":
            want_to = 0
        elif 0 <= int(to) < 4096:
            want_to = int(to)
        else:
            return None
        want = f"4095/{want_to}/{n}/i{want_t}/0 next={(n + 1) % 65536} len=8"
        if io != want:
            return Finding(l, f"RF24NetworkHeader({to}, {ty}) at counter {n} gave {io}; expected {want} "
                              "(fields as given, id = counter, counter + 1 mod 2^16, len(header) = 8)", det)
        return None

    @staticmethod
    def judge_write(l, a, io, det, ask):
        node, ml, fe, fr = a
        f, t, i, ty, r, m = fr.split("/")
        body = SI.unhex(m)
        if ty[0] != "i" or not in_range(node, t, i, ty, "0"):
            return
        if io.startswith("exc="):
            if len(body) <= int(ml):      # a valid destination and an admissible length must not raise
                ask(f"specvalid {t}", lambda s, l=l, io=io, det=det: Finding(
                    l, f"write() of an admissible frame raised {io[4:]}", det) if s == "1" else None)
            return
        mfr = re.match(r"(\S+) lb=(\d) hdr=(\S+) msg=(\S+)$", io)
        if not mfr or mfr.group(2) == "1":
            return
        frames, hdr, msg_after = mfr.group(1), mfr.group(3), mfr.group(4)
        if frames == "none":
            return
        if hdr.split("/")[3] != ty:
            ask("specparse -", lambda s, l=l, hdr=hdr, ty=ty, det=det: Finding(
                l, f"after write() the caller's header shows type {hdr.split('/')[3]}, it was {ty}", det))
        if int(fe) == 0 and len(body) > 24:
            return                      # fragmentation off: the documented truncation, not this property
        if len(body) > 255 * 24:
            return                      # more fragments than the counter byte can number (C11_fragments' bound)
        msg = f"{node}/{t}/{i}/{ty[1:]}/{m}"
        ask(f"specfrags {msg} {int(r) % 256}",
            lambda s, l=l, frames=frames, det=det, n=len(body): None if s == frames else Finding(
                l, f"a {n}-byte message went on the air as [{frames}]; the reference encoder gives [{s}]", det))
        if len(body) > 24:
            want = f"{node}/{t}/{i}/{ty[1:]}/{ty[1:]}/{m}"
            ask(f"spectmrh {frames}",
                lambda s, l=l, want=want, det=det: None if s == want else Finding(
                    l, f"a TMRh20-style receiver reassembles [{s}] from the emitted frames, expected [{want}]", det))
            for p in frames.split(","):
                if len(SI.unhex(p)) > 32:
                    ask("specparse -", lambda s, l=l, p=p, det=det: Finding(
                        l, f"an emitted frame has {len(SI.unhex(p))} bytes (> 32)", det))


def run(tier):
    return run_check(C11(), tier)


def replay(path):
    return replay_generic(C11(), path)
