"""C10 — FIFO and status accessors report the radio's true state."""
from harness.framework import *
from harness.rfsession import run_line, parse_out
from harness.gen_rf import rbytes

ADDR = "3132333435"


def session(rng, nops):
    dyn = rng.random() < 0.6
    ack = dyn and rng.random() < 0.4
    ops = ["new a rf24 0", "new b rf24 1", "a enter", "b enter"]
    for o in "ab":
        if dyn:
            ops.append(f"{o} set dynamic_payloads T")
        else:
            lens = [rng.randint(1, 32) for _ in range(6)]
            ops += [f"{o} set dynamic_payloads F", f"{o} set payload_length [{','.join(map(str, lens))}]"]
        if ack:
            ops.append(f"{o} set ack T")
    ops += [f"a set_auto_retries 250 {rng.choice([0, 1, 3])}", f"b open_rx_pipe 1 {ADDR}", "b set listen T",
            "a open_rx_pipe 1 a1a2a3a4a5", "a open_rx_pipe 2 a2", "a open_rx_pipe 4 a4", "a open_rx_pipe 5 a5",
            f"a open_tx_pipe {ADDR}"]
    listening = False
    for _ in range(nops):
        x = rng.random()
        if x < 0.08:
            listening = not listening
            ops.append(f"a set listen {'T' if listening else 'F'}")
        elif x < 0.3:
            if not listening and rng.random() < 0.5:
                listening = True
                ops.append("a set listen T")
            p = rng.choice([0, 1, 2, 4, 5, 5]) if listening else 1
            n = rng.randint(1, 32) if dyn else (lens[p] if rng.random() < 0.9 else rng.randint(1, 32))
            ops.append(f"env inject 0 {p} {rbytes(rng, n)}")
        elif x < 0.45 and not listening:
            ops.append("env faults " + rng.choice(["-", "L" * 4, "LD", "A", "LLLLLLLL"]))
            if ack and rng.random() < 0.6:
                ops.append(f"b load_ack {rbytes(rng, rng.randint(1, 5))} 1")
            ops.append(rng.choice([f"a send i:{rbytes(rng, rng.randint(1, 32))} F 0 T", f"a write i:{rbytes(rng, rng.randint(1, 32))} F {rng.choice('TF')}"]))
            ops.append("b flush_rx")
        elif x < 0.5:
            ops.append(f"a interrupt_config {rng.choice('TF')} {rng.choice('TF')} {rng.choice('TF')}")
        elif x < 0.55:
            ops.append(f"a clear_status_flags {rng.choice('TF')} {rng.choice('TF')} {rng.choice('TF')}")
        elif x < 0.58:
            ops.append("a flush_rx")
        elif x < 0.61:
            ops.append("a flush_tx")
        elif x < 0.64:
            # the CE pin driven by the application ("advanced usage": starts what write(write_only=True) queued, stops /
            # resumes listening) and the received-power detector
            ops.append(rng.choice(["a set ce_pin 1", "a set ce_pin 0", "a get ce_pin", "a get rpd", "b get rpd"]))
        elif x < 0.7:
            ops.append("a read N")
        else:
            ops.append("a update")
        # accessor burst
        k = rng.random()
        if k < 0.5:
            ops += ["a update", "a get pipe", "a get tx_full", "a get irq_dr", "a get irq_ds", "a get irq_df"]
        elif k < 0.65:
            # "... or any other transaction": the cached accessors directly after the call, without an update()
            ops += rng.sample(["a get pipe", "a get tx_full", "a get irq_dr", "a get irq_ds", "a get irq_df"], 3)
        if k < 0.8:
            ops += [rng.choice(["a available", "a any", "a fifo T N", "a fifo F N", "a fifo T T", "a fifo T F", "a fifo F T",
                                "a fifo F F", "a get last_tx_arc"])]
    return "rf 2 1 " + " ; ".join(ops)


def flist(s):
    return [x for x in s[1:-1].split(",") if x]


class C10(PropCheck):
    prop = "C10"
    rule = ("traffic histories on a real RF24 (arrivals on pipes 0/1/2/4/5 of different lengths, 0..3 queued per FIFO, ACK payloads, "
            "failed and successful transmissions, write-only payloads) interleaved with every accessor, static and dynamic "
            "payload modes; each accessor result is compared with the simulated radio's actual FIFOs/flags; non-trivial = some "
            "accessor was called with a non-empty FIFO or a latched flag")
    assumptions = ["STATUS is clocked out as it was before the command (product specification): cached attributes describe the radio "
                   "at the start of the last transaction; they are judged right after update()"]

    def impl(self, line):
        return run_line(line)

    def cases(self, res, tier, rng):
        n, d = (250, 40) if tier == "quick" else (4000, 60)
        return [(session(rng, d), "traffic-random") for _ in range(n)]

    def nontrivial(self, line, io):
        return any(f"rxf=[{p}:" in io for p in (0, 1, 2, 4, 5))

    def judge(self, triples):
        out = []
        for l, io, mo in triples:
            if not l.startswith("rf 2 1 new a rf24 0 ; new b rf24 1 ; a enter ; b enter"):
                continue
            names, ops = l.split(" ; "), parse_out(io)
            what = None
            stale, last_tx = None, None
            fresh = False   # the cached status byte describes the current state (right after update())
            irq_mask = 0    # ghost: CONFIG bits 6..4 as the last interrupt_config() left them (0 = all events enabled)
            for k, (name, o) in enumerate(zip(names, ops)):
                t = name.split()
                if k == 0 or not o["radios"] or not ops[k - 1]["radios"]:
                    continue
                r, pr = o["radios"][0], ops[k - 1]["radios"][0]
                if t[0] == "a" and t[1] == "interrupt_config" and not o["res"].startswith("exc="):
                    irq_mask = (0 if t[2] == "T" else 0x40) | (0 if t[3] == "T" else 0x20) | (0 if t[4] == "T" else 0x10)
                elif t[0] == "a" and len(names[1].split()) > 1:
                    # the IRQ line asserts for exactly the events enabled by the last interrupt_config() — also after role
                    # changes, power toggles and traffic (none of the calls of these sessions may change the mask)
                    if int(r["cfg"]) & 0x70 != irq_mask:
                        what = (f"CONFIG={r['cfg']}: the IRQ mask set by the last interrupt_config() ({irq_mask:#04x}) was changed by "
                                f"`{name}`: the IRQ line asserts for a disabled event / stays silent for an enabled one")
                        break
                    if (r["irq"] == "1") != bool(int(r["fl"]) & 0x70 & ~irq_mask):
                        what = f"IRQ line is {r['irq']} with flags {r['fl']} and enabled events {0x70 & ~irq_mask:#04x}"
                        break
                rxf, txf, prxf, ptxf = flist(r["rxf"]), flist(r["txf"]), flist(pr["rxf"]), flist(pr["txf"])
                fl, pfl = int(r["fl"]), int(pr["fl"])
                res = o["res"]
                if t[0] != "a":
                    fresh = False
                    last_tx = None      # the environment / the peer moved: nothing cached can be expected to know
                    continue
                m = t[1] if t[1] not in ("get", "set") else t[1] + " " + t[2]
                if m == "update":
                    fresh = True
                    last_tx = None
                    continue
                if m in ("get pipe", "get tx_full", "get irq_dr", "get irq_ds", "get irq_df"):
                    if not fresh and last_tx in ("read", "clear_status_flags", "flush_rx", "flush_tx") and stale is None:
                        # "after update() OR ANY OTHER TRANSACTION": the cached accessors right after one of the calls that
                        # change what they describe (known finding: the cache holds the STATUS byte clocked out BEFORE the
                        # call's own effect; recorded, not repaired - see known_findings.json)
                        exp = {"get pipe": (rxf[0].split(":")[0] if rxf else "N"), "get tx_full": "T" if len(txf) >= 3 else "F",
                               "get irq_dr": "T" if fl & 0x40 else "F", "get irq_ds": "T" if fl & 0x20 else "F",
                               "get irq_df": "T" if fl & 0x10 else "F"}[m]
                        # which accessors the recorded finding covers: exactly those whose subject the call itself changes
                        # (the STATUS byte kept is the one clocked out before the call's LAST transaction took effect).
                        # Everything else is accurate right after these calls on the code as it is - e.g. `pipe` after
                        # read() (the flag is cleared AFTER the payload was popped) - and a mismatch there is a new violation
                        # (seeded change C10-s23 cleared the flag before the pop).
                        known = {"read": ("get irq_dr",), "clear_status_flags": ("get irq_dr", "get irq_ds", "get irq_df"),
                                 "flush_rx": ("get pipe",), "flush_tx": ("get tx_full",)}[last_tx]
                        resumed = last_tx == "clear_status_flags" and pr["ce"] == "1" and int(pr["cfg"]) & 1 == 0
                        if res != exp and (m in known or resumed):
                            stale = (k, f"right after {last_tx}(), {t[2]} is {res} but the radio's state says {exp} (stale until the "
                                        "next update())")
                        elif res != exp:
                            what = f"right after {last_tx}(), {t[2]} is {res} but the radio's state says {exp}"
                            break
                    if fresh:
                        exp = {"get pipe": (rxf[0].split(":")[0] if rxf else "N"), "get tx_full": "T" if len(txf) >= 3 else "F",
                               "get irq_dr": "T" if fl & 0x40 else "F", "get irq_ds": "T" if fl & 0x20 else "F",
                               "get irq_df": "T" if fl & 0x10 else "F"}[m]
                        if res != exp:
                            what = f"after update(), {t[2]} is {res} but the radio's state says {exp}"
                            break
                    continue  # cached accessors do not touch the radio; `fresh` stays
                fresh = False
                last_tx = m
                if m == "available":
                    if res != ("T" if prxf else "F"):
                        what = f"available() is {res} with {len(prxf)} payload(s) in the RX FIFO"
                elif m == "any":
                    exp = str(len(bytes.fromhex(prxf[0].split(":")[1]))) if prxf else "0"
                    if res != exp:
                        what = f"any() is {res}, the next payload has {exp} bytes"
                elif m == "fifo":
                    f = ptxf if t[2] == "T" else prxf
                    if t[3] == "N":
                        exp = str((2 if len(f) >= 3 else 0) | (1 if not f else 0))
                    elif t[3] == "T":
                        exp = "T" if not f else "F"
                    else:
                        exp = "T" if len(f) >= 3 else "F"
                    if res != exp:
                        what = f"fifo({t[2]},{t[3]}) is {res}, the {'TX' if t[2] == 'T' else 'RX'} FIFO holds {len(f)}: expected {exp}"
                elif m == "get last_tx_arc":
                    if res != pr["arc"]:
                        what = f"last_tx_arc is {res}, the radio counted {pr['arc']} retransmissions"
                elif m == "read":
                    if not prxf:
                        if res != "N" or rxf or fl != pfl:
                            what = f"read() on an empty FIFO returned {res} / changed the radio"
                    else:
                        if res != prxf[0].split(":")[1] or rxf != prxf[1:]:
                            what = f"read() returned {res} and left {rxf}; the FIFO was {prxf}"
                        elif fl != pfl & ~0x40 or txf != ptxf:
                            what = f"read() changed flags {pfl}->{fl} (only RX_DR may be cleared) or the TX FIFO"
                elif m == "clear_status_flags":
                    mask = (0x40 if t[2] == "T" else 0) | (0x20 if t[3] == "T" else 0) | (0x10 if t[4] == "T" else 0)
                    # clearing MAX_RT with CE high lets the radio retransmit at once: flags may be set again by that cycle
                    if o["air"] == "[]" and fl != pfl & ~mask:
                        what = f"clear_status_flags({t[2]},{t[3]},{t[4]}) turned flags {pfl} into {fl}"
                    elif o["air"] == "[]" and (rxf != prxf or txf != ptxf):
                        what = "clear_status_flags() changed a FIFO"
                elif m == "flush_rx":
                    if rxf or txf != ptxf or fl != pfl:
                        what = "flush_rx() did not empty exactly the RX FIFO"
                elif m == "flush_tx":
                    if txf or rxf != prxf or fl != pfl:
                        what = "flush_tx() did not empty exactly the TX FIFO"
                elif m == "interrupt_config":
                    cfg = int(r["cfg"])
                    exp = (0 if t[2] == "T" else 0x40) | (0 if t[3] == "T" else 0x20) | (0 if t[4] == "T" else 0x10)
                    if cfg & 0x70 != exp or (cfg ^ int(pr["cfg"])) & 0x0F:
                        what = f"interrupt_config({t[2]},{t[3]},{t[4]}) programmed CONFIG={cfg}: IRQ would not assert for exactly the enabled events"
                if what:
                    break
            if what:
                out.append(Finding(l, f"op {k} `{name}`: {what}", {"op_index": k}))
            elif stale:
                out.append(Finding(l, f"op {stale[0]} `{names[stale[0]]}`: {stale[1]}", {"op_index": stale[0], "class": "stale-status-cache"}))
        return out


def run(tier):
    return run_check(C10(), tier)


def replay(path):
    return replay_generic(C10(), path)
