"""C02 — send()/resend() report the true fate of the payload and always terminate."""
import itertools
import re
from harness.framework import *
from harness.rfsession import run_line, parse_out
from harness.gen_rf import rbytes

ADDR = "3132333435"


def setup(rng, cfg):
    ops = ["new a rf24 0", "new b rf24 1", "a enter", "b enter"]
    for o in "ab":
        if cfg["ack"]:
            ops.append(f"{o} set ack T")
        if not cfg["aa"]:
            ops.append(f"{o} set auto_ack F")
        ops.append(f"{o} set allow_ask_no_ack {'T' if cfg['dynack'] else 'F'}")
    ops += [f"a set_auto_retries {cfg['ard']} {cfg['arc']}", f"b open_rx_pipe 1 {ADDR}"]
    if cfg["peer"]:
        ops.append("b set listen T")
    ops += ["a set listen F", f"a open_tx_pipe {ADDR}"]
    return ops


def rand_cfg(rng):
    ack = rng.random() < 0.4
    return {"ack": ack, "aa": True if ack else rng.random() < 0.85, "dynack": rng.random() < 0.6,
            "ard": rng.choice([250, 500, 1500, 4000, rng.randint(250, 4000)]), "arc": rng.choice([0, 1, 2, 3, 5, 15, rng.randint(0, 15)]),
            "peer": rng.random() < 0.85}


def rand_faults(rng, n):
    x = rng.random()
    if x < 0.15:
        return "-"
    if x < 0.3:
        return "L" * n or "-"
    w = rng.choice(["DLA", "DDLA", "LLLA", "LLLLLLD"])
    return "".join(rng.choice(w) for _ in range(n)) or "-"


def session(rng, cfg, nops):
    ops = setup(rng, cfg)
    for _ in range(nops):
        budget = (1 + cfg["arc"]) * 4
        ops.append("env faults " + rand_faults(rng, rng.randint(0, budget + 3)))
        if cfg["ack"] and rng.random() < 0.7:
            ops.append(f"b load_ack {rbytes(rng, rng.randint(1, 8))} 1")
        x = rng.random()
        if x < 0.7:
            ops.append(f"a send {rng.choice('mi')}:{rbytes(rng, rng.randint(1, 32))} {rng.choice('FFFT')} {rng.choice([0, 0, 1, 2, 3])} {rng.choice('FT')}")
        elif x < 0.8:
            k = rng.randint(1, 3)
            ops.append(f"a sendl {rng.choice('FFT')} {rng.choice([0, 1])} {rng.choice('FT')} " + " ".join(f"i:{rbytes(rng, rng.randint(1, 32))}" for _ in range(k)))
        else:
            ops.append(f"a resend {rng.choice('FT')}")
        # the peer drains its FIFO so that "peer listening" means "peer has room"
        ops += ["b flush_rx"]
    return "rf 2 1 " + " ; ".join(ops)


def stale_ack_sessions(rng, n):
    """ACK-payload mode: send_only transmissions leave ACK payloads in the RX FIFO, a transmission fails,
    resend()/send() without send_only must answer with the *new* ACK payload"""
    out = []
    for _ in range(n):
        cfg = {"ack": True, "aa": True, "dynack": rng.random() < 0.5, "ard": 250, "arc": rng.choice([0, 1, 2]), "peer": True}
        ops = setup(rng, cfg)
        for _ in range(rng.randint(0, 2)):
            ops += [f"b load_ack {rbytes(rng, rng.randint(1, 6))} 1", f"a send i:{rbytes(rng, 3)} F 0 T", "b flush_rx"]
        ops += ["env faults " + "L" * ((1 + cfg["arc"]) * rng.choice([1, 2])), f"b load_ack {rbytes(rng, 4)} 1",
                f"a send i:{rbytes(rng, 5)} F {rng.choice([0, 0, 1])} {rng.choice('TTF')}", "b flush_rx"]
        for _ in range(rng.randint(1, 3)):
            ops += ["env faults " + rng.choice(["-", "L", "A", "LL", "AD", "LLLLLL"]), f"a resend {rng.choice('FFT')}", "b flush_rx"]
        ops += [f"b load_ack {rbytes(rng, 2)} 1", f"a send i:{rbytes(rng, 2)} F 0 F"]
        out.append("rf 2 1 " + " ; ".join(ops))
    return out


def exhaustive_patterns(maxlen):
    """all fault patterns up to a length, arc=1, force_retry 0..1: send then resend"""
    out = []
    for n in range(maxlen + 1):
        for pat in itertools.product("DLA", repeat=n):
            f = "".join(pat) or "-"
            for fr in (0, 1):
                cfg = {"ack": False, "aa": True, "dynack": True, "ard": 250, "arc": 1, "peer": True}
                ops = setup(None, cfg) + [f"env faults {f}", f"a send i:aa01 F {fr} F", "b flush_rx", "a resend F", "b flush_rx",
                                          "a send i:bb02 F 0 F", "b flush_rx", "a resend F"]
                out.append("rf 2 1 " + " ; ".join(ops))
    return out


UNKNOWN = object()   # the peer's ACK payload for the pending packet cannot be attributed from the observations


class C02(PropCheck):
    prop = "C02"
    rule = ("sessions of consecutive send()/resend() calls on a real RF24 against a peer radio, with generated loss patterns "
            "(D delivered / L packet lost / A ack lost) over the attempts, arc 0..15, ard 250..4000, force_retry 0..3, auto-ack / "
            "ask_no_ack (with/without EN_DYN_ACK) / ACK-payload modes, send_only on/off, peer listening or absent; exhaustive: "
            "all loss patterns up to length 6 (quick: 5) for arc=1 x force_retry 0/1; non-trivial = at least one failed and one "
            "successful transmission in the session")
    assumptions = ["Enhanced ShockBurst cycle as lean/NrfModel/Air.lean (1+ARC attempts, MAX_RT keeps the payload, PID rule)",
                   "the radio is in TX mode (the property's precondition); virtual time with jump semantics"]

    def impl(self, line):
        return run_line(line)

    def cases(self, res, tier, rng):
        m = 5 if tier == "quick" else 6
        ex = exhaustive_patterns(m)
        res.exhaustive_blocks.append(f"all loss patterns up to length {m} x force_retry 0/1 (arc=1): {len(ex)} sessions")
        cs = [(l, "patterns-exhaustive") for l in ex]
        n = 250 if tier == "quick" else 4000
        cs += [(session(rng, rand_cfg(rng), rng.randint(2, 10)), "random") for _ in range(n)]
        cs += [(l, "ack-payload-stale") for l in stale_ack_sessions(rng, n // 2)]
        # the same kinds of sessions with send()/resend() called without their optional parameters (judge_defaults:
        # must behave like ask_no_ack=False, force_retry=0, send_only=False written out)
        for l in [session(rng, rand_cfg(rng), rng.randint(2, 10)) for _ in range(n // 4)] + stale_ack_sessions(rng, n // 8):
            l2 = re.sub(r" a send (\S+) F 0 F( ;|$)", r" a dflt send \1\2", l)
            l2 = re.sub(r" a resend F( ;|$)", r" a dflt resend\1", l2)
            if l2 != l:
                cs.append((l2, "documented-defaults"))
        return cs

    def nontrivial(self, line, io):
        return ":0]" in io.replace(":0,", ":0]") and ":1" in io

    def judge(self, triples):
        out = []
        for l, io, mo in triples:
            if not l.startswith("rf 2 1 new a rf24 0 ; new b rf24 1 ; a enter ; b enter") or " dflt " in l:
                continue
            names, ops = l.split(" ; "), parse_out(io)
            what = None
            failed = None      # payload (hex) left in the TX FIFO by a failed transmission
            pending_ack = []   # ACK payloads loaded at the peer, oldest first
            peer_last = None   # ACK payload the peer attached when it first accepted the packet that is still failing
            for k, (name, o) in enumerate(zip(names, ops)):
                t = name.split()
                if k == 0 or not o["radios"]:
                    continue
                ra, rb = o["radios"][0], o["radios"][1]
                air = [x for x in o["air"][1:-1].split(",") if x]
                recs = []
                for x in air:
                    head, tail = x.rsplit("x", 1)
                    recs.append({"data": head.split("/")[-1], "noack": head.split("/")[-2] == "n1", "pid": head.split("/")[-3],
                                 "attempts": int(tail.split(":")[0]), "ok": tail.split(":")[1] == "1", "sender": x[0]})
                if o["res"] == "exc=DIVERGE":
                    what = "the call does not terminate"
                    break
                if t[0] == "b" and t[1] == "load_ack" and o["res"] == "T":
                    pending_ack.append(t[2])
                if t[0] == "b" and t[1] == "set" and t[2] == "ack":
                    pass
                if t[0] != "a" or t[1] not in ("send", "sendl", "resend"):
                    continue
                arc = int(ra["retr"]) & 15
                aa0 = int(ra["aa"]) & 1 == 1
                ackmode = int(ra["feat"]) & 2 == 2 and int(ra["feat"]) & 4 == 4 and int(ra["dyn"]) & 1 == 1 and aa0
                if t[1] == "resend":
                    send_only = t[2] == "T"
                    res = o["res"]
                    if failed is None:
                        if res != "F" or recs:
                            what = f"resend() with nothing to resend returned {res} / transmitted {len(recs)} packet(s)"
                            break
                        continue
                    if not recs or any(r["data"] != failed for r in recs):
                        what = f"resend() did not retransmit exactly the failed payload {failed}: air={air}"
                        break
                    ok = recs[-1]["ok"]
                    results, bufs = [res], [failed]
                    expected_budget = None
                else:
                    if t[1] == "send":
                        bufs, noack, fr, send_only = [t[2][2:]], t[3] == "T", int(t[4]), t[5] == "T"
                        results = [o["res"].split()[0]]
                    else:
                        noack, fr, send_only = t[2] == "T", int(t[3]), t[4] == "T"
                        bufs = [b[2:] for b in t[5:]]
                        results = o["res"].split()[0][1:-1].split(",")
                    if len(results) != len(bufs):
                        what = f"{len(bufs)} payloads but {len(results)} results"
                        break
                    if any(r["data"] not in bufs for r in recs):
                        what = f"send() transmitted a payload that is not its own (leak from an earlier call): air={air}"
                        break
                was_failed = failed
                for b, res in zip(bufs, results):
                    mine = [r for r in recs if r["data"] == b]
                    if t[1] != "resend" and len(bufs) > 1:
                        # several payloads may be equal; take records in order
                        pass
                    done = any(r["ok"] for r in mine)
                    awaited = aa0 and not (mine and mine[0]["noack"]) if mine else None
                    if res == "F":
                        if done:
                            what = f"returned False but the radio completed the transmission of {b}"
                            break
                        if t[1] != "resend" and mine and awaited:
                            total = sum(r["attempts"] for r in mine)
                            if total != (1 + arc) * (1 + fr):
                                what = f"returned False after {total} attempts, budget is (1+{arc})*(1+{fr})"
                                break
                        failed = b
                    else:
                        if not done:
                            what = f"returned {res} but no transmission of {b} was completed"
                            break
                        if failed == b or t[1] == "resend":
                            failed = None
                        if res != "T":
                            # an ACK payload (or None) was returned
                            if not (ackmode and not send_only):
                                what = f"returned {res} instead of True (ACK payloads off or send_only)"
                                break
                        if ackmode and not send_only and mine and not mine[0]["noack"] and len(bufs) == 1 and k > 0 and ops[k - 1]["radios"]:
                            before = [x.split(":")[1] for x in ops[k - 1]["radios"][1]["txf"][1:-1].split(",") if x.startswith("A1:")]
                            after = [x.split(":")[1] for x in rb["txf"][1:-1].split(",") if x.startswith("A1:")]
                            consumed = before[: len(before) - len(after)] if after == before[len(before) - len(after):] else None
                            if consumed is not None and int(rb["feat"]) & 2:
                                exp = consumed[0] if consumed else (peer_last if (t[1] == "resend" or was_failed == b) and peer_last else "T")
                                if exp is not UNKNOWN and res != exp:
                                    what = f"returned {res}, the peer's ACK payload for this packet was {exp}"
                                    break
                    if t[1] != "resend" and res == "F":
                        failed = b
                if what:
                    break
                if k > 0 and ops[k - 1]["radios"]:
                    before = [x.split(":")[1] for x in ops[k - 1]["radios"][1]["txf"][1:-1].split(",") if x.startswith("A1:")]
                    after = [x.split(":")[1] for x in rb["txf"][1:-1].split(",") if x.startswith("A1:")]
                    nconsumed = len(before) - len(after)
                    # which payload is still failing after this call, and which ACK payload did the peer attach when it
                    # first accepted *that* packet?  The peer consumes one pending ACK payload per newly accepted packet,
                    # in order; the packets it newly accepted in this call are the new entries of its RX FIFO.
                    left_now = [x.split(":")[1] for x in ra["txf"][1:-1].split(",") if x]
                    still = left_now[0] if left_now else None
                    rx_before = [x.split(":")[1] for x in ops[k - 1]["radios"][1]["rxf"][1:-1].split(",") if x]
                    rx_after = [x.split(":")[1] for x in rb["rxf"][1:-1].split(",") if x]
                    newly = rx_after[len(rx_before):] if rx_after[: len(rx_before)] == rx_before else None
                    if still is None:
                        peer_last = None
                    elif newly is None:
                        peer_last = UNKNOWN            # the peer's RX FIFO was flushed/overflowed inside the call: not attributable
                    elif still in newly:
                        i = newly.index(still)
                        peer_last = before[i] if i < nconsumed else None
                    elif t[1] != "resend" and was_failed != still:
                        peer_last = None               # a new payload that the peer has not accepted yet
                    # else: the same packet keeps failing and was accepted earlier: peer_last stays
                # after a successful (or flushed) call nothing of an older payload may remain queued
                if t[1] != "resend":
                    left = [x.split(":")[1] for x in ra["txf"][1:-1].split(",") if x]
                    if any(x not in bufs for x in left):
                        what = f"an older payload is still in the TX FIFO after send(): {left}"
                        break
                    failed = left[0] if left else None
            if what:
                out.append(Finding(l, f"op {k} `{name}`: {what}", {"op_index": k}))
        seen = {f.case for f in out}
        out += [f for f in judge_defaults(triples, self.impl) if f.case not in seen]
        return out


def run(tier):
    return run_check(C02(), tier)


def replay(path):
    return replay_generic(C02(), path)
