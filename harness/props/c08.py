"""C08 — RX/TX switching preserves the user's pipe-0 address and ACK reception."""
import itertools
from harness.framework import *
from harness.rfsession import run_line, parse_out

T1, T2 = "3132333435", "3232333435"          # peer listens on these (pipes 1 and 2)
A_FULL, A_SHORT, A_SHARE = "a1a2a3a4a5", "b1b2b3", "3132333499"
PEER = ("new b rf24 1 ; b enter ; b open_rx_pipe 1 " + T1 + " ; b open_rx_pipe 2 32 ; b set listen T")
PREFIX = "rf 2 1 new a rf24 0 ; a enter ; " + PEER

ALPHA = [
    f"a open_rx_pipe 0 {A_FULL}", f"a open_rx_pipe 0 {T1}", f"a open_rx_pipe 0 {A_SHORT}", f"a open_rx_pipe 1 {A_SHARE}",
    "a close_rx_pipe 0", "a close_rx_pipe 1",
    f"a open_tx_pipe {T1}", f"a open_tx_pipe {T2}", f"a open_tx_pipe {A_FULL}",
    "a set auto_ack F", "a set auto_ack T", "a set_auto_ack F 0", "a set_auto_ack T 0",
    "a set listen T", "a set listen F",
]
PROBE = "a send i:70 F 0 F ; b flush_rx"


def with_probes(ops):
    out = []
    for o in ops:
        out.append(o)
        if o.startswith("a open_tx_pipe") and (T1 in o or T2 in o):
            out.append(PROBE)
    return out


def rand_session(rng, depth):
    ops = []
    for _ in range(depth):
        x = rng.random()
        if x < 0.85:
            ops.append(rng.choice(ALPHA))
        elif x < 0.9:
            ops.append(f"a set address_length {rng.choice([3, 4, 5])}")
        elif x < 0.95:
            n = rng.choice([1, 2, 3, 4, 5])
            ops.append(f"a open_rx_pipe 0 {bytes(rng.randrange(256) for _ in range(n)).hex()}")
        else:
            n = rng.choice([3, 4, 5])
            ops.append(f"a open_tx_pipe {bytes(rng.randrange(256) for _ in range(n)).hex()}")
    return PREFIX + " ; " + " ; ".join(with_probes(ops))


class C08(PropCheck):
    prop = "C08"
    rule = ("every sequence up to the explored depth over a 15-call alphabet (3 reading addresses incl. a short and a "
            "TX-equal one, pipes 0/1, 3 TX addresses, auto-ack on/off globally and for pipe 0, listen on/off), random "
            "longer sequences with random addresses and address lengths; after each open_tx_pipe to an address the peer "
            "radio listens on, a probe send(); non-trivial = the session toggles listen at least once")
    assumptions = ["peer radio b and the loss-free air behave as lean/NrfModel/Air.lean",
                   "an address shorter than 5 bytes overwrites only the low bytes of the register (documented partial write): "
                   "the user's address is compared as a prefix"]

    def impl(self, line):
        return run_line(line)

    def cases(self, res, tier, rng):
        depth = 3 if tier == "quick" else 4
        cs = []
        for seq in itertools.product(ALPHA, repeat=depth):
            cs.append((PREFIX + " ; " + " ; ".join(with_probes(seq)), f"bfs-depth{depth}"))
        res.exhaustive_blocks.append(f"all {len(cs)} call sequences of length {depth} over the 15-call alphabet")
        # the eight calls that interact through pipe 0 (one address used for reading and transmitting), every sequence of
        # 4 (thorough: 5) of them followed by each of the two observation points
        core = [f"a open_rx_pipe 0 {T1}", "a close_rx_pipe 0", f"a open_tx_pipe {T1}", f"a open_tx_pipe {T2}",
                "a set_auto_ack F 0", "a set_auto_ack T 0", "a set listen T", "a set listen F"]
        cd = 4 if tier == "quick" else 5
        for seq in itertools.product(core, repeat=cd):
            for last in ("a set listen T", f"a open_tx_pipe {T1}"):
                cs.append((PREFIX + " ; " + " ; ".join(with_probes(list(seq) + [last])), f"core-depth{cd + 1}"))
        res.exhaustive_blocks.append(f"all {2 * len(core) ** cd} sequences of {cd} pipe-0 calls + an observation point")
        if tier == "quick":
            # sample of depth 4 and 5
            for d, n in ((4, 600), (5, 600)):
                for _ in range(n):
                    seq = [rng.choice(ALPHA) for _ in range(d)]
                    cs.append((PREFIX + " ; " + " ; ".join(with_probes(seq)), f"sample-depth{d}"))
        n, dep = (150, 40) if tier == "quick" else (2000, 60)
        cs += [(rand_session(rng, dep), "random") for _ in range(n)]
        return cs

    def nontrivial(self, line, io):
        return "set listen" in line

    # ---- the Lean spec (lean/NrfModel/Spec/Pipe0.lean) evaluated on the implementation's observations
    @staticmethod
    def _obs(r):
        return (f"{r['cfg']} {r['aa']} {r['rxen']} {r['a0']} {r['tx']} {r['ce']} "
                f"{'1' if 'CE:role-change-with-CE-high' in r.get('viol', '') else '0'}")

    @staticmethod
    def _spec_op(t):
        if t[:2] == ["a", "open_rx_pipe"]:
            return f"open_rx {t[2]} {t[3]}"
        if t[:2] == ["a", "close_rx_pipe"]:
            return f"close_rx {t[2]}"
        if t[:2] == ["a", "open_tx_pipe"]:
            return f"open_tx {t[2]}"
        if t[:3] == ["a", "set", "auto_ack"] and t[3] in ("T", "F"):
            return f"auto_ack {t[3]}"
        if t[:2] == ["a", "set_auto_ack"] and t[3] != "N":
            return f"set_auto_ack {t[2]} {t[3]}"
        if t[:3] == ["a", "set", "listen"]:
            return f"listen {t[3]}"
        return "other"

    def spec_lines(self, triples):
        """one `specc08` line per session; returns [(triple index, line, [op index of each step])]"""
        skip = len(PREFIX.split(" ; "))
        out = []
        for n, (l, io, mo) in enumerate(triples):
            if not l.startswith(PREFIX):
                continue
            names, ops = l.split(" ; "), parse_out(io)
            if len(ops) < skip or not ops[skip - 1]["radios"]:
                continue
            steps, idx = [], []
            for k in range(skip, min(len(names), len(ops))):
                t = names[k].split()
                if t[0] != "a" or not ops[k]["radios"]:
                    continue
                res = "exc" if ops[k]["res"].startswith("exc=") else "ok"
                steps.append(f"{self._spec_op(t)} ~ {res} ~ {self._obs(ops[k]['radios'][0])}")
                idx.append(k)
            out.append((n, "specc08 - " + self._obs(ops[skip - 1]["radios"][0]) + " ; " + " ; ".join(steps), idx))
        return out

    WHAT = {"rx-entry": "entering RX mode: pipe 0 is not on the address the user last opened it with / not closed "
                        "although the user never opened or has closed it (Spec.RxEntryOk)",
            "tx-ready": "after open_tx_pipe() in TX mode with auto-ack on pipe 0, pipe 0 is not open on the TX address "
                        "(Spec.TxReady): ACKs cannot be received",
            "ce-rule": "CE was moved by a call other than `listen =`, or `listen = v` did not leave CE at v (Spec.CeRule)",
            "role-changed-with-ce-high": "the role (PRIM_RX) was changed while CE was high",
            "rx-role-with-ce-low": "radio is in RX mode but CE is low",
            "ce-high-in-tx-role": "CE is high in the TX role although only calls of the alphabet were made (Spec.CeMatchesRole)",
            "raised-but-changed-the-radio": "the call raised but changed the radio"}

    def judge(self, triples):
        out = self.judge_py(triples)
        seen = {f.case for f in out}
        try:
            sl = self.spec_lines(triples)
            answers = run_driver([x[1] for x in sl]) if sl else []
        except Infra:
            return out          # driver not available: the Python rendering of the spec alone
        for (n, line, idx), ans in zip(sl, answers):
            if ans == "ok":
                continue
            l = triples[n][0]
            if ans.startswith("fail ") and l not in seen:
                _, k, what = ans.split(" ", 2)
                k = idx[int(k)]
                out.append(Finding(l, f"op {k} `{l.split(' ; ')[k]}`: {self.WHAT.get(what, what)}",
                                   {"op_index": k, "spec": what}))
            elif not ans.startswith("fail "):
                raise Infra(f"specc08 rejected its input: {ans}: {line[:300]}")
        return out

    def judge_py(self, triples):
        out = []
        for l, io, mo in triples:
            if not l.startswith("rf 2 1 new a rf24 0 ; a enter ; " + PEER):
                continue
            names = l.split(" ; ")
            ops = parse_out(io)
            user0 = None      # ghost: address the user last opened pipe 0 with
            skip = len(PREFIX.split(" ; "))
            what = None
            for k, (name, a) in enumerate(zip(names, ops)):
                if k < skip or not a["radios"]:
                    continue
                r = a["radios"][0]
                t = name.split()
                ok = not a["res"].startswith("exc=")
                if t[:2] == ["a", "open_rx_pipe"] and t[2] == "0" and ok:
                    user0 = t[3]
                if t[:3] == ["a", "close_rx_pipe", "0"] and ok:
                    user0 = None
                if "CE:role-change-with-CE-high" in r.get("viol", ""):
                    what = "the role (PRIM_RX) was changed while CE was high"
                rx_role = int(r["cfg"]) & 1 == 1 and int(r["cfg"]) & 2 == 2
                if what is None and rx_role and t[0] == "a" and r["ce"] != "1":
                    what = "radio is in RX mode but CE is low"
                if what is None and t[:3] == ["a", "set", "listen"] and t[3] == "T":
                    is_open = int(r["rxen"]) & 1 == 1
                    if user0 is None and is_open:
                        what = "entering RX mode: pipe 0 is open although the user never opened / has closed it"
                    elif user0 is not None and not is_open:
                        what = f"entering RX mode: pipe 0 is closed although the user opened it with {user0}"
                    elif user0 is not None and not r["a0"].startswith(user0):
                        what = f"entering RX mode: RX_ADDR_P0={r['a0']} is not the user's address {user0}"
                if what is None and t[:2] == ["a", "open_tx_pipe"] and ok:
                    tx_mode = int(r["cfg"]) & 1 == 0
                    if tx_mode and int(r["aa"]) & 1:
                        if not (int(r["rxen"]) & 1):
                            what = "after open_tx_pipe() in TX mode with auto-ack on pipe 0, pipe 0 is closed (ACKs cannot be received)"
                        elif not (r["a0"].startswith(t[2]) and r["tx"].startswith(t[2])):
                            what = f"after open_tx_pipe({t[2]}) RX_ADDR_P0={r['a0']} TX_ADDR={r['tx']}: ACKs cannot be received"
                        elif k + 1 < len(names) and names[k + 1].startswith("a send") and int(r["aw"]) == 3 \
                                and (int(r["cfg"]) & 2) and int(r["retr"]) & 15 >= 0:
                            res = ops[k + 1]["res"].split()[0]
                            if res != "T":
                                what = f"send() to the listening peer after open_tx_pipe({t[2]}) returned {res}"
                if what:
                    out.append(Finding(l, f"op {k} `{name}`: {what}", {"op_index": k}))
                    break
        return out


def run(tier):
    return run_check(C08(), tier)


def replay(path):
    return replay_generic(C08(), path)
