"""C14 — a multicast reaches exactly the chosen network level, unacknowledged."""
from harness.framework import *
from harness import gen_net, netsession
from harness.gen_rf import rbytes


_SPEC = {}


def spec(q):
    """evaluate an executable spec of lean/NrfModel/Spec/Multicast.lean through the driver (memoised)"""
    if q not in _SPEC:
        r = run_driver([q])[0]
        if r == "bad-op":
            raise Infra("spec op failed: " + q)
        _SPEC[q] = r
    return _SPEC[q]


def level_of(addr):
    l = 0
    while addr:
        addr >>= 3
        l += 1
    return l


def session(rng, nnodes, nmsgs):
    tree = gen_net.rand_tree(rng, nnodes)
    names = [f"n{i}" for i in range(len(tree))]
    ops, relay, allow = [], {}, {}
    for i, t in enumerate(tree):
        ops.append(f"new {names[i]} {rng.choice(['network', 'network', 'routing'])} {i} {gen_net.addr_of(t)}")
    for i in range(len(tree)):
        allow[i] = True
        relay[i] = False
        if rng.random() < 0.15:
            allow[i] = False
            # allow_multicast must be set before the addresses are programmed: re-assign the address afterwards
            ops += [f"{names[i]} set allow_multicast F", f"{names[i]} set node_address {gen_net.addr_of(tree[i])}"]
        elif rng.random() < 0.3:
            relay[i] = True
            ops.append(f"{names[i]} set multicast_relay T")
    kinds = {i: ops[i].split()[2] for i in range(len(tree))}
    fragoff = set()
    for _ in range(nmsgs):
        s = rng.choice([i for i in range(len(tree)) if allow[i] and not relay[i]] or [0])
        if relay[s] or not allow[s]:
            continue
        if rng.random() < 0.3:
            # unicast traffic BEFORE the multicast: a routed message of an acknowledged type to an absent node times out
            # waiting for its NETWORK_ACK (or is answered); the writer must be back to "multicasts are not acknowledged"
            # when the multicast arrives (seeded change C14-s22 left auto-ack on for pipe 0 after the time-out)
            writers = [i for i in range(1, len(tree)) if kinds[i] == "network"]
            absent = [d for d in range(1, 6) if (d,) not in tree]
            if writers:
                w = rng.choice(writers)
                dst = rng.choice(absent + [gen_net.addr_of(rng.choice(tree))]) if absent else gen_net.addr_of(rng.choice(tree))
                ops.append(f"{names[w]} write {dst} {rng.choice([65, 70, 127, 1])} {rbytes(rng, rng.choice([1, 24, 30]))} 56")
                for i in range(len(tree)):
                    ops += [f"{names[i]} update", f"{names[i]} read", f"{names[i]} read"]
        lvl = rng.choice(["N", 0, 1, 2, 3, 4])
        n = rng.choice([0, 1, 10, 24, 24, 25, 60, 144])
        if rng.random() < 0.15:
            # a sender without fragmentation: a message longer than one frame is documented to be truncated to 24 bytes
            fv = rng.choice('FFT')
            ops.append(f"{names[s]} set fragmentation {fv}")
            (fragoff.add if fv == "F" else fragoff.discard)(s)
            # max_message_length is a plain attribute that the fragmentation switch sets to 24 / 144; an application that
            # raises it again on a node without fragmentation gets its long messages truncated instead of rejected
            if rng.random() < 0.6:
                ops.append(f"{names[s]} set max_message_length 144")
        if fragoff - {s}:
            n = min(n, 24)   # a receiver without fragmentation takes fragments as separate frames: outside the property
        ops.append(f"{names[s]} multicast {rbytes(rng, n)} {rng.randint(0, 127)} {lvl}")
        ops.append(f"{names[rng.randrange(len(tree))]} update")
        ops.append(f"{names[rng.randrange(len(tree))]} update")
        for i in range(len(tree)):
            ops += [f"{names[i]} read", f"{names[i]} read", f"{names[i]} read"]
    return f"net {len(tree)} 1 " + " ; ".join(ops)


def during_wait_session(rng):
    """implementation only (no Lean twin: `net n 2`): a multicast frame for the node's level arrives ON THE AIR, from a
    transmitter outside the session, WHILE the node is inside write() waiting for the NETWORK_ACK of a routed message
    (sent to an absent node, so the wait lasts the whole route_timeout); `env acklog` then lists the radio-level
    acknowledgements the node's radio sent for such packets: there must be none (seeded change C14-s23 switched auto-ack
    off on pipe 0 only after the wait)."""
    a = rng.choice([0o1, 0o2, 0o3, 0o4])
    absent = rng.choice([d for d in (0o1, 0o2, 0o3, 0o4, 0o5) if d != a])
    frm = gen_net.frame_bytes(rng.choice([d for d in (1, 2, 3, 4, 5) if d not in (a, absent)]), 0o100,
                              rng.randrange(1, 65536), rng.randint(0, 127), 0, bytes(rng.randrange(256) for _ in range(rng.randint(0, 24))))
    ops = ["new n0 network 0 0", f"new n1 network 1 {a}",
           f"env arrive_air n1 {rng.choice([5, 20, 40, 60]) * 1000000} cc3ccccccc {frm}",
           f"n1 write {absent} {rng.choice([65, 70, 127])} {rbytes(rng, rng.choice([1, 24]))} 56", "env acklog",
           "n1 update", "n1 read", "n1 read"]
    return "net 2 2 " + " ; ".join(ops)


class C14(PropCheck):
    prop = "C14"
    rule = ("sampled populated trees of real nodes; multicast() from every sender class (master, 0o1, other level-1, deeper) to level "
            "0..4 and the default level, relay on/off per node, allow_multicast off on some nodes, message lengths 0..144; afterwards "
            "every node's queue is read out and the air log inspected; non-trivial = at least one other node is on the target level")
    assumptions = ["closed-system schedule of harness/netsession.py; simultaneous relays of several receivers do not collide on the simulated air"]

    def impl(self, line):
        return netsession.run_line(line)

    def cases(self, res, tier, rng):
        n = 150 if tier == "quick" else 2500
        return ([(session(rng, rng.randint(2, 9), rng.randint(1, 3)), "multicast-trees") for _ in range(n)]
                + [(during_wait_session(rng), "multicast-during-ack-wait (implementation only)") for _ in range(n // 6)])

    def impl_only(self, line):
        return line.startswith("net ") and line.split()[2] == "2"

    def nontrivial(self, line, io):
        return ">64#" in io

    def judge(self, triples):
        out = []
        for l, io, mo in triples:
            if l.startswith("net ") and " ; env acklog" in l:
                names, parts = l.split(" ; "), io.split(" ; ")
                for k, (name, part) in enumerate(zip(names, parts)):
                    if name == "env acklog" and part.split(" ~ ")[0] not in ("-", ""):
                        out.append(Finding(l, f"op {k}: a frame sent to the multicast address of the node's level was acknowledged by "
                                              f"the node's radio while the node waited for a NETWORK_ACK ({part.split(' ~ ')[0]}): "
                                              "multicasts are never acknowledged", {"class": "multicast-acked"}))
                continue
            if not l.startswith("net ") or " multicast " not in l:
                continue
            names, parts = l.split(" ; "), io.split(" ; ")
            addr, allow, relay, frag, maxlen = {}, {}, {}, {}, {}
            what, cur, got = None, None, {}
            airs = []
            rid_of, last_radios = {}, None

            def settle():
                if cur is None:
                    return None
                s, lvl, typ, msg, result, kk = cur
                src = addr[s]
                target = int(spec(f"spectarget {level_of(src)} {lvl}"))   # Spec.Multicast.targetLevel
                # receivers on the target level; relays push it one level further (levels 1..3 only)
                expect = {}
                frontier = [(target, s)]
                seen_levels = set()
                while frontier:
                    L, origin = frontier.pop()
                    if L in seen_levels or L > 4:
                        continue
                    seen_levels.add(L)
                    nxt = spec(f"specrelay {L}")                               # Spec.Multicast.relayLevel(s)
                    for n, a in addr.items():
                        # Spec.Multicast.holdsLevel: allow_multicast and on level L (or: master without it, L = 0)
                        if n != origin and n != s and spec(f"spechold {1 if allow[n] else 0} {a} {L}") == "1":
                            expect[n] = expect.get(n, 0) + 1
                            if relay[n] and allow[n] and nxt != "N":
                                frontier.append((int(nxt), n))
                for n in addr:
                    if n == s:
                        continue   # the sender itself: a relayed copy may or may not come back to it (half duplex)
                    real = [f for f in got.get(n, []) if f != "N"]
                    want = 1 if n in expect else 0
                    if len(real) != want:
                        return (f"multicast from {oct(src)} to level {target} (op {kk}): node {n} ({oct(addr[n])}, level {level_of(addr[n])}, "
                                f"allow_multicast={allow[n]}) received {len(real)} copies, expected {want}")
                    for f in real:
                        hdr, body = f.rsplit(":", 1)
                        if body != msg or not hdr.startswith(f"{src}>64#") or hdr.split(":")[1].split("/")[0] != str(typ):
                            return f"multicast from {oct(src)} (op {kk}): node {n} received {f}, sent type {typ} bytes {msg}"
                return None

            for k, (name, part) in enumerate(zip(names, parts)):
                t = name.split()
                if k == 0:
                    t = t[3:]
                f = part.split(" ~ ")
                res = f[0].split(" all=")[0]
                if t[0] == "new":
                    addr[t[1]] = int(t[4])
                    rid_of[t[1]] = int(t[3])
                    allow[t[1]], relay[t[1]] = True, False
                    if len(f) == 4:
                        last_radios = f[2]
                    continue
                if t[1] == "multicast" and last_radios is not None:
                    # "unacknowledged": when the multicast goes out, no listening node has auto-ack enabled on pipe 0,
                    # the pipe that carries the level address (it would answer the frame with a radio ACK)
                    rs = [dict(tok.split("=", 1) for tok in r.split(" ") if "=" in tok) for r in last_radios.split(" || ")]
                    for n2, a2 in addr.items():
                        r2 = rs[rid_of[n2]] if rid_of[n2] < len(rs) else None
                        if n2 != t[0] and r2 and "aa" in r2 and int(r2["aa"]) & 1 and int(r2["cfg"]) & 3 == 3 and r2["ce"] == "1":
                            what = (f"op {k}: when {t[0]} multicasts, node {n2} ({oct(a2)}) listens with auto-ack enabled on pipe 0 "
                                    f"(EN_AA={r2['aa']}): it acknowledges multicast frames")
                            break
                    if what:
                        break
                if len(f) == 4:
                    last_radios = f[2]
                if t[1] == "set" and t[2] == "allow_multicast":
                    allow[t[0]] = t[3] == "T"
                if t[1] == "set" and t[2] == "fragmentation" and frag.get(t[0], True) != (t[3] == "T"):
                    frag[t[0]] = t[3] == "T"
                    maxlen[t[0]] = 144 if frag[t[0]] else 24
                if t[1] == "set" and t[2] == "max_message_length":
                    maxlen[t[0]] = int(t[3])
                if t[1] == "set" and t[2] == "multicast_relay":
                    relay[t[0]] = t[3] == "T" and allow[t[0]]
                if len(f) == 4 and f[3] != "[]":
                    # every multicast frame on the air: a single unacknowledged attempt
                    for rec in f[3][1:-1].split(","):
                        head, tail = rec.rsplit("x", 1)
                        data = head.split("/")[-1]
                        if len(data) >= 16 and data[4:8] == "4000":   # to_node == 0o100
                            if tail.split(":")[0] != "1":
                                what = f"op {k}: a multicast frame was transmitted {tail.split(':')[0]} times (radio acknowledgement requested)"
                if what:
                    break
                if t[1] == "write":
                    # unicast traffic between two multicasts: the reads that follow belong to no multicast
                    what = settle()
                    if what:
                        break
                    cur, got = None, {}
                if t[1] == "multicast":
                    what = settle()
                    if what:
                        break
                    got = {}
                    if res.startswith("exc=ValueError") and len(t[2]) // 2 > maxlen.get(t[0], 144):
                        cur = None   # documented: a message longer than max_message_length is rejected
                        continue
                    if res.startswith("exc="):
                        what = f"multicast() raised {res}"
                        break
                    # the bytes that go out: truncated to one frame on a sender without fragmentation (as of this call)
                    sent = t[2] if frag.get(t[0], True) or len(t[2]) <= 48 else t[2][:48]
                    cur = (t[0], t[4], int(t[3]), sent, res, k)
                elif t[1] == "read" and cur is not None:
                    got.setdefault(t[0], []).append(res if res == "N" else res.split()[0])
            if what is None:
                what = settle()
            if what:
                out.append(Finding(l, what, {}))
        return out


def run(tier):
    return run_check(C14(), tier)


def replay(path):
    return replay_generic(C14(), path)
