"""C09 — `with` restores an object's complete radio configuration."""
from harness.framework import *
from harness import gen_rf
from harness.rfsession import run_line, parse_out, CFG_KEYS
from harness import netsession


def ble_op(rng, o):
    k = rng.randrange(16)
    if k == 0:
        return f"{o} set channel {rng.choice([2, 26, 80, 80, 26, 5, 76, 200])}"
    if k == 1:
        return f"{o} hop_channel"
    if k == 2:
        return f"{o} set pa_level {rng.choice([-18, -12, -6, 0])}"
    if k == 3:
        return f"{o} set payload_length {rng.randint(1, 32)}"
    if k == 4:
        return f"{o} set arc {rng.randint(0, 15)}"
    if k == 5:
        return f"{o} set ard {rng.randint(250, 4000)}"
    if k == 6:
        return f"{o} interrupt_config {rng.choice('TF')} {rng.choice('TF')} {rng.choice('TF')}"
    if k == 7:
        return f"{o} set listen {rng.choice('TF')}"
    if k == 8:
        return f"{o} set allow_ask_no_ack {rng.choice('TF')}"
    if k == 9:
        return f"{o} close_rx_pipe {rng.choice([0, 1, 3])}"
    if k == 10:
        return f"{o} set power {rng.choice('TF')}"
    if k == 11:
        return rng.choice([f"{o} set crc 2", f"{o} set auto_ack T", f"{o} set dynamic_payloads T", f"{o} set data_rate 2",
                           f"{o} set address_length 5", f"{o} set ack T", f"{o} open_rx_pipe 1 3132333435", f"{o} open_tx_pipe 3132333435"])
    if k == 12:
        return f"{o} set_auto_ack {rng.choice('TF')} {rng.randint(0, 5)}"
    if k == 13:
        return f"{o} set_dynamic_payloads {rng.choice('TF')} {rng.randint(0, 5)}"
    if k == 14:
        return f"{o} set_payload_length {rng.randint(1, 32)} {rng.randint(0, 5)}"
    return f"{o} get channel"


def session(rng, nblocks, depth, overlap=False):
    """`overlap`: some blocks are not left before another object enters (outside the property's
    hypothesis; `__enter__` must still restore everything and find CE low — C09_enter holds in every
    world — so these sessions tie that part of the model to the code)"""
    nobj = rng.choice([2, 3])
    names = ["a", "b", "c"][:nobj]
    kinds = {n: rng.choice(["rf24", "rf24", "ble"]) for n in names}
    ops = [f"new {n} {kinds[n]} 0" for n in names]
    for _ in range(nblocks):
        n = rng.choice(names)
        ops.append(f"{n} enter")
        for _ in range(rng.randint(0, depth)):
            if kinds[n] == "ble":
                ops.append(ble_op(rng, n))
            else:
                op = gen_rf.config_op(rng, n)
                if "carrier_wave" in op or "load_ack" in op:
                    continue
                ops.append(op)
        if rng.random() < 0.08 and kinds[n] != "ble":
            ops.append(f"{n} exit")
            ops.append(f"{n} withraise")     # a block left by an exception: it propagates, the radio is powered down
            continue
        if overlap and rng.random() < 0.5:
            if kinds[n] != "ble" or rng.random() < 0.5:
                ops.append(f"{n} set listen T")     # leave CE high behind
        else:
            ops.append(f"{n} exit")
    plus = rng.random() < 0.8
    return f"rf 1 {1 if plus else 0} " + " ; ".join(ops)


def node_op(rng, n, kind="network"):
    """configuration calls a user can make on a network / mesh node inside its block: the RadioMixin
    pass-throughs, the node's own setters that touch the radio, and traffic that borrows pipe 0"""
    k = rng.randrange(16)
    if k == 0:
        return f"{n} rf set channel {rng.choice([0, 5, 76, 97, 125])}"
    if k == 1:
        return f"{n} rf set pa_level {rng.choice([-18, -12, -6, 0])}"
    if k == 2:
        return f"{n} rf set data_rate {rng.choice([1, 2, 250])}"
    if k == 3:
        return f"{n} rf set crc {rng.choice([0, 1, 2])}"
    if k == 4:
        return f"{n} rf set_auto_retries {rng.choice([250, 1000, 1500, 4000])} {rng.randint(0, 15)}"
    if k == 5:
        return f"{n} rf set_dynamic_payloads {rng.choice('TF')} {rng.choice(['N', '0', '1', '3', '5'])}"
    if k == 6:
        return f"{n} rf interrupt_config {rng.choice('TF')} {rng.choice('TF')} {rng.choice('TF')}"
    if k == 7:
        return f"{n} rf set power {rng.choice('TF')}"
    if k == 8:
        return f"{n} rf set listen {rng.choice('TF')}"
    if k == 9:
        return f"{n} set multicast_level {rng.randint(0, 4)}"
    if k == 10:
        if kind in ("network", "routing"):    # mesh nodes get their address from the master
            return f"{n} set node_address {rng.choice([1, 2, 0o13, 0o25, 0o124, 0o4321])}"
        return f"{n} get node_address"
    if k == 11:
        return f"{n} multicast aa55 {rng.randint(0, 127)} {rng.choice(['N', '0', '1', '2', '3', '4'])}"
    if k == 12:
        if kind == "network":
            return f"{n} write {rng.choice([0, 1, 0o12, 0o3])} {rng.randint(0, 127)} 01 56"
        if kind in ("mesh", "master"):
            return f"{n} mwrite {rng.choice([0, 1, 0o12, 0o3])} {rng.randint(0, 127)} 01"
        return f"{n} update"       # routing-only nodes have no write()
    if k == 13:
        return rng.choice([f"{n} rf flush_rx", f"{n} rf flush_tx", f"{n} update", f"{n} rf get channel"])
    if k == 14:
        return f"{n} set allow_multicast {rng.choice('TF')}"
    return f"{n} rf get_auto_retries"


def net_session(rng, nblocks, depth):
    """network / mesh nodes sharing ONE radio, each used inside its own `with` block (open system: nobody else
    is on the air, transmissions fail after their time-outs)"""
    nobj = rng.choice([2, 3])
    names = ["a", "b", "c"][:nobj]
    ops, kinds = [], {}
    for n in names:
        kind = kinds[n] = rng.choice(["network", "network", "routing", "mesh", "master"])
        arg = {"network": rng.choice([0, 1, 0o12, 0o345]), "routing": rng.choice([0, 2, 0o23]),
               "mesh": rng.randint(1, 200), "master": 0}[kind]
        ops.append(f"new {n} {kind} 0 {arg}")
        ops.append(f"{n} exit")
    for _ in range(nblocks):
        n = rng.choice(names)
        ops.append(f"{n} enter")
        ops += [node_op(rng, n, kinds[n]) for _ in range(rng.randint(0, depth))]
        ops.append(f"{n} exit")
    return "net 1 0 " + " ; ".join(ops)


USED_HEADS = ("rf 1 1 new z rf24 0 ; z enter ; ", "rf 1 0 new z rf24 0 ; z enter ; ")   # plus / non-plus chip
_FRESH = {}


def used_radio_session(rng, depth):
    """an object constructed (and entered) on a radio that another object has configured arbitrarily before"""
    ops = []
    for _ in range(rng.randint(3, depth)):
        op = gen_rf.config_op(rng, "z")
        if "carrier_wave" not in op:
            ops.append(op)
    kind = rng.choice(["rf24", "rf24", "ble"])
    return USED_HEADS[0 if rng.random() < 0.7 else 1] + " ; ".join(ops + ["z exit", f"new a {kind} 0", "a enter", "a get channel"])


def constructor_chain_sessions():
    """every chain of up to three constructors (RF24 / FakeBLE) on one chip, plus and non-plus, then a block of every
    object in construction order and again in reverse order: the prior chip states a constructor can meet through the
    library (feature registers locked / unlocked, FEATURE 0 / 5) - the family of the former finding K1"""
    import itertools
    out = []
    for p in ("1", "0"):
        for k in (1, 2, 3):
            for chain in itertools.product(["rf24", "ble"], repeat=k):
                names = ["a", "b", "c"][:k]
                ops = [f"new {n} {kd} 0" for n, kd in zip(names, chain)]
                for n in names + names[::-1]:
                    ops += [f"{n} enter", f"{n} exit"]
                out.append(f"rf 1 {p} " + " ; ".join(ops))
    return out


def judge_used_radio(l, io):
    """settings made through one object never leak into another object's configuration: the registers after the new
    object's first `__enter__` are those it has on a fresh chip"""
    names, ops = l.split(" ; "), parse_out(io)
    kind = next(n.split()[2] for n in names if n.startswith("new a ")) + "/" + l.split()[2]    # class / chip variant
    if kind not in _FRESH:
        r = parse_out(run_line(f"rf 1 {kind.split('/')[1]} new a {kind.split('/')[0]} 0 ; a enter"))[1]["radios"][0]
        # the pipe and TX addresses are *adopted* from the radio by RF24.__init__ (it reads them into its shadows: the driver
        # has no default addresses of its own), so they are whatever the radio held - by design, not a leak
        _FRESH[kind] = {k: r.get(k) for k in CFG_KEYS if k not in ("a0", "a1", "an", "tx")}
        # the same registers on either chip variant (the non-plus chip's feature registers are unlocked by the constructor)
        want = {"rf24": {"dyn": "63", "feat": "5"}, "ble": {"dyn": "0", "feat": "0"}}[kind.split("/")[0]]
        for key, v in want.items():
            if _FRESH[kind].get(key) != v:
                return Finding(f"rf 1 {kind.split('/')[1]} new a {kind.split('/')[0]} 0 ; a enter",
                               f"op 1: a fresh {kind.split('/')[0]} object enters its block with register {key}={_FRESH[kind].get(key)}; "
                               f"its configuration says {v}", {"op_index": 1})
    for k, (name, o) in enumerate(zip(names, ops)):
        if name == "a enter" and o["radios"]:
            if o["res"].startswith("exc="):
                return Finding(l, f"op {k}: entering the new object's block raised {o['res'][4:]}", {"op_index": k})
            r = o["radios"][0]
            for key, want in _FRESH[kind].items():
                if r.get(key) != want:
                    return Finding(l, f"op {k}: a {kind.split('/')[0]} object constructed after another object had configured the radio enters its "
                                      f"block with register {key}={r.get(key)}; on a fresh chip it is {want}", {"op_index": k})
    return None


class C09(PropCheck):
    prop = "C09"
    rule = ("interleavings of `with` blocks of 2-3 objects (RF24 and FakeBLE; in a second block network / mesh nodes of every class, "
            "driven through the RadioMixin pass-throughs, node_address / multicast_level and traffic) sharing one simulated radio, each block a random "
            "sequence over the C03 alphabet (FakeBLE: its permitted subset, hop_channel, the calls it rejects); at every "
            "__enter__ the whole register file is compared with what the object had established at its previous __exit__; "
            "non-trivial = some object re-enters after another object changed a register")
    assumptions = ["objects are used only inside their own `with` block (the property's hypothesis)",
                   "a node that transmits inside its block finds nobody on the air (open system): the transmissions fail after "
                   "their time-outs, which is what exercises the pipe-0 borrowing and its restoration"]

    def impl(self, line):
        return netsession.run_line(line) if line.startswith("net ") else run_line(line)

    def cases(self, res, tier, rng):
        n, nb, d = (200, 8, 10) if tier == "quick" else (3000, 14, 16)
        cs = [(session(rng, nb, d), "with-interleavings") for _ in range(n)]
        cs += [(session(rng, nb, 4, overlap=True), "overlapping-blocks") for _ in range(n // 4)]
        cs += [(net_session(rng, nb, max(3, d // 2)), "node-with-interleavings") for _ in range(n // 2)]
        cs += [(used_radio_session(rng, d), "constructed-on-used-radio") for _ in range(n // 2)]
        chains = constructor_chain_sessions()
        cs += [(c, "constructor-chains") for c in chains]
        res.exhaustive_blocks.append(f"all {len(chains)} chains of <= 3 RF24 / FakeBLE constructors on a plus and a non-plus chip, "
                                     "every object's block entered twice")
        return cs

    def nontrivial(self, line, io):
        return line.count(" enter") >= 3

    def judge(self, triples):
        """the Python rendering of the spec, cross-checked by the Lean one (Spec.Restored / Spec.PoweredDown
        through the driver ops `specc09 …`): a re-entry / exit the Lean spec rejects is a finding, too"""
        out = self.judge_py(triples)
        out += [f for f in (judge_used_radio(l, io) for l, io, mo in triples if l.startswith(USED_HEADS) and " ; new a " in l) if f]
        seen = {f.case for f in out}
        lines, where = [], []
        for l, io, mo in triples:
            if " enter" not in l or not l.startswith(("rf 1 ", "net 1 0 ")) or l in seen:
                continue
            names, ops = l.split(" ; "), parse_out(io)
            est = {}
            for k, (name, o) in enumerate(zip(names, ops)):
                t = name.split()
                if k == 0:
                    t = t[3:]
                if not o["radios"]:
                    continue
                r = o["radios"][0]
                obj = t[1] if t[0] == "new" else t[0]
                cur = " ".join(str(r.get(ck)) for ck in CFG_KEYS)
                if t[-1] == "enter" and obj in est:
                    lines.append(f"specc09 enter {est[obj]} ~ {cur}")
                    where.append((l, k, obj))
                if t[-1] == "exit":
                    lines.append(f"specc09 exit {r['cfg']} {r['ce']}")
                    where.append((l, k, obj))
                est[obj] = cur
        try:
            answers = run_driver(lines) if lines else []
        except Infra:
            return out
        for (l, k, obj), line, ans in zip(where, lines, answers):
            if ans == "ok" or l in seen:
                continue
            if not ans.startswith("fail"):
                raise Infra(f"specc09 rejected its input: {ans}: {line[:300]}")
            seen.add(l)
            what = (f"entering {obj}'s block: register {ans[5:]} differs from what the object had established (Spec.Restored)"
                    if line.startswith("specc09 enter") else f"leaving {obj}'s block: not powered down with CE low (Spec.PoweredDown)")
            out.append(Finding(l, f"op {k}: {what}", {"op_index": k}))
        return out

    def judge_py(self, triples):
        out = []
        for l, io, mo in triples:
            if " enter" not in l or not l.startswith(("rf 1 ", "net 1 0 ")):
                continue
            names, ops = l.split(" ; "), parse_out(io)
            est = {}     # object -> registers it last established
            what = None
            for k, (name, o) in enumerate(zip(names, ops)):
                t = name.split()
                if k == 0:
                    t = t[3:]
                if not o["radios"]:
                    continue
                r = o["radios"][0]
                obj = t[1] if t[0] == "new" else t[0]
                cur = {ck: r.get(ck) for ck in CFG_KEYS}
                if t[-1] == "enter" and obj in est:
                    for ck in CFG_KEYS:
                        a, b = cur[ck], est[obj][ck]
                        if ck == "cfg":
                            a, b = int(a) & ~2, int(b) & ~2
                        if a != b:
                            what = f"entering {obj}'s block: register {ck}={cur[ck]}, the object had established {est[obj][ck]}"
                            break
                    if what is None and (int(cur["cfg"]) & 2) == 0:
                        what = "entering the block did not power the radio up"
                if t[-1] == "withraise" and o["res"] != "raised":
                    what = f"an exception raised inside {obj}'s `with` block did not come out of it ({o['res']})"
                if t[-1] in ("exit", "withraise") and what is None and (r["ce"] != "0" or int(cur["cfg"]) & 2):
                    what = f"leaving {obj}'s block: CE={r['ce']} CONFIG={cur['cfg']} (expected CE low, powered down)"
                if what:
                    break
                est[obj] = cur
            if what:
                out.append(Finding(l, f"op {k} `{' '.join(t)}`: {what}", {"op_index": k}))
        return out


def run(tier):
    return run_check(C09(), tier)


def replay(path):
    return replay_generic(C09(), path)
