"""C13 — NETWORK_ACK: awaited only when needed, sent once, believed only if received."""
import re
import struct
from harness.framework import *
from harness import gen_net, netsession
from harness.gen_rf import rbytes

CONSUMED = {128, 130, 131, 148, 149, 150, 193, 194, 195}


def digits(a):
    d = []
    while a:
        d.append(a & 7)
        a >>= 3
    return d


def hops(a, b):
    da, db = digits(a), digits(b)
    k = 0
    while k < len(da) and k < len(db) and da[k] == db[k]:
        k += 1
    return len(da) + len(db) - 2 * k


def adjacent(a, b):
    return hops(a, b) == 1


def two_branch(rng):
    """master with two descending chains: routes of 1..8 hops"""
    la, lb = rng.randint(1, 4), rng.randint(0, 4)
    da, db = rng.randint(1, 5), rng.randint(1, 5)
    while db == da:
        db = rng.randint(1, 5)
    nodes = [()]
    cur = ()
    for i in range(la):
        cur = cur + ((da if i == 0 else rng.randint(1, 5)),)
        nodes.append(cur)
    cur = ()
    for i in range(lb):
        cur = cur + ((db if i == 0 else rng.randint(1, 5)),)
        nodes.append(cur)
    return nodes


def session(rng, lossy):
    tree = two_branch(rng)
    absent = set()
    if lossy and rng.random() < 0.4 and len(tree) > 2:
        absent.add(rng.randrange(1, len(tree)))
    names, ops, rid = {}, [], 0
    for i, t in enumerate(tree):
        if i in absent:
            continue
        names[i] = f"n{i}"
        ops.append(f"new n{i} {'network' if rng.random() < 0.7 or i in (0,) else 'routing'} {rid} {gen_net.addr_of(t)}")
        rid += 1
    writers = [i for i in names if " network " in ops[list(names).index(i)]]
    for _ in range(rng.randint(1, 4)):
        if rng.random() < 0.25:
            w = rng.choice(writers)
            ops.append(f"n{w} set route_timeout {rng.choice([10, 75, 200])}")
            ops.append(f"n{w} set tx_timeout {rng.choice([5, 25, 60])}")
        s = rng.choice(writers)
        d = rng.choice([i for i in range(len(tree)) if i != s])
        typ = rng.choice([t for t in range(256) if t not in CONSUMED]) if rng.random() < 0.5 else rng.choice([64, 65, 66, 100, 127, 129, 190, 191, 192])
        if lossy and rng.random() < 0.6:
            k = rng.randint(0, 2 * hops(gen_net.addr_of(tree[s]), gen_net.addr_of(tree[d])))
            ops.append("env faults " + "D" * k + rng.choice(["L" * 60, "A" * 60, "L" * 7, "LLLLLLD"]))
        ops.append(f"n{s} write {gen_net.addr_of(tree[d])} {typ} {rbytes(rng, rng.choice([0, 1, 10, 24]))} 56")
        ops.append("env faults -")
        ops.append(f"n{rng.choice(list(names))} update")
        for i in names:
            ops.append(f"n{i} read")
    return f"net {rid} 1 " + " ; ".join(ops)


def timed_ack_session(rng):
    """open system: the sender 0o11 and its parent 0o1 (whose radio acknowledges the first hop; the node itself
    never runs), and a NETWORK_ACK for the sender scripted to arrive `delay` after the write began - clearly inside
    or clearly outside route_timeout.  This is the only block in which the ACK does not arrive at the first poll."""
    rt = rng.choice([20, 75, 200])
    inside = rng.random() < 0.5
    delay_ms = rng.choice([rt * 0.25, rt * 0.5, rt * 0.8]) if inside else rng.choice([rt * 1.5 + 10, rt * 3 + 10])
    typ = rng.randint(65, 127)
    ack = struct.pack("<HHHBB", 2, 0o11, rng.randrange(65536), 193, 0)
    ops = ["new n0 network 0 9", "new n1 network 1 1", f"n0 set route_timeout {rt}",
           f"n0 set tx_timeout {rng.choice([5, 25])}",
           f"env arrive n0 {int(delay_ms * 1000000)} {rng.choice([0, 1])} {ack.hex()}",
           f"n0 write 2 {typ} {rbytes(rng, rng.choice([0, 1, 24]))} 56", "n0 read", "n0 update", "n0 read"]
    return "net 2 0 " + " ; ".join(ops)


CYCLE_MS_N9 = 6 * (0.3 + 3.0)  # node 0o11: ARC 5 -> 6 attempts of T_TX 0.3 ms + ARD 3.0 ms (250*(((9%6)+1)*2+3)+250 us)


def timed_ack_slow_hop_session(rng):
    """as `timed_ack_session`, but the FIRST HOP is slow: its first k transmit cycles (6 attempts each) are lost, so the
    frame is accepted about k * 19.8 ms after the call began, and the NETWORK_ACK is scripted relative to THAT moment:
    clearly inside route_timeout counted from the acceptance (although possibly outside when counted from the start of
    the call: the property counts 'after the frame was accepted by the first hop'; seeded change C13-s22 counted from
    the start), or clearly outside."""
    k = rng.choice([1, 2, 2])
    rt = rng.choice([30, 50, 75])
    a_ms = k * CYCLE_MS_N9
    inside = rng.random() < 0.6
    delay_ms = a_ms + 3 + (rng.choice([0.3, 0.6]) * rt if inside else 1.5 * rt + 15)
    ack = struct.pack("<HHHBB", 2, 0o11, rng.randrange(65536), 193, 0)
    ops = ["new n0 network 0 9", "new n1 network 1 1", f"n0 set route_timeout {rt}", "n0 set tx_timeout 30",
           "env faults " + "L" * (6 * k),
           f"env arrive n0 {int(delay_ms * 1000000)} {rng.choice([0, 1])} {ack.hex()}",
           f"n0 write 2 {rng.randint(65, 127)} {rbytes(rng, rng.choice([0, 1, 24]))} 56", "n0 read", "n0 update", "n0 read"]
    return "net 2 0 " + " ; ".join(ops)


def multicast_session(rng):
    line = session(rng, False)
    ops = line.split(" ; ")
    out = []
    for o in ops:
        t = o.split()
        if len(t) > 1 and t[1] == "write":
            out.append(f"{t[0]} multicast {t[4]} {t[3]} {rng.choice(['N', 1, 2])}")
        else:
            out.append(o)
    return " ; ".join(out)


class C13(PropCheck):
    prop = "C13"
    rule = ("two-branch trees of real nodes giving routes of 1..8 hops; single-frame unicast messages of all types 0..255 except "
            "those the network consumes (and multicasts), loss-free and with the k-th transmission cycle (a data hop or a "
            "NETWORK_ACK relay) killed by a loss pattern or an absent node, tx_timeout / route_timeout varied; judge on the air "
            "log: who transmitted NETWORK_ACK frames, whether one reached the sender; non-trivial = the route has an intermediate node "
            "and the type is in 65..191")
    assumptions = ["closed-system schedule of harness/netsession.py; the race 'ACK arrives just after route_timeout' is decided by virtual "
                   "per-node clocks, not explored over schedules"]

    def impl(self, line):
        return netsession.run_line(line)

    def cases(self, res, tier, rng):
        n = 150 if tier == "quick" else 2500
        cs = [(session(rng, False), "routes-lossfree") for _ in range(n)]
        cs += [(session(rng, True), "routes-with-failures") for _ in range(n)]
        cs += [(multicast_session(rng), "multicasts") for _ in range(n // 5)]
        cs += [(timed_ack_session(rng), "timed-ack") for _ in range(n // 3)]
        cs += [(timed_ack_slow_hop_session(rng), "timed-ack-slow-first-hop") for _ in range(n // 5)]
        return cs

    def nontrivial(self, line, io):
        return "c100" in io or "/c1" in io and ("00c1" in io)

    def judge(self, triples):
        out = []
        for l, io, mo in triples:
            if not l.startswith("net "):
                continue
            if " ; env arrive n0 " in l:
                f = self.judge_timed(l, io)
                if f:
                    out.append(f)
                continue
            names, parts = l.split(" ; "), io.split(" ; ")
            addr = {}
            what = None
            lossy = ack_loss = False
            for k, (name, part) in enumerate(zip(names, parts)):
                t = name.split()
                if k == 0:
                    t = t[3:]
                f = part.split(" ~ ")
                res = f[0].split(" all=")[0]
                if t[0] == "new":
                    addr[t[1]] = int(t[4])
                    continue
                if t[:2] == ["env", "faults"]:
                    lossy = t[2] != "-"
                    ack_loss = "A" in t[2]   # a packet whose radio-level ACK is lost *is* received
                    continue
                if len(t) >= 2 and t[1] == "read" and res != "N" and not res.startswith("exc="):
                    # `from>to#id:type/reserved:hex` — update() must return a NETWORK_ACK, never queue it
                    m_ = re.match(r"\d+>\d+#\d+:(\d+)/", res)
                    if m_ and int(m_.group(1)) == 193:
                        what = f"op {k}: a NETWORK_ACK frame was handed to the application of {t[0]} ({res})"
                        break
                if len(t) < 2 or t[1] not in ("write", "multicast") or len(f) != 4:
                    continue
                allv = f[1].split(" all=")[1].strip() if " all=" in f[1] else ""
                rid_addr = {}
                for ent in allv.split(","):
                    if ent and ent != "?":
                        rid_addr[int(ent.split("/")[0])] = int(ent.split("/")[1])
                src = addr[t[0]]
                recs = []
                for rec in (f[3][1:-1].split(",") if f[3] != "[]" else []):
                    head, tail = rec.rsplit("x", 1)
                    data = head.split("/")[-1]
                    sender = rid_addr.get(int(rec.split(">")[0]))
                    if len(data) >= 16:
                        b = bytes.fromhex(data)
                        recs.append({"sender": sender, "from": b[0] | b[1] << 8, "to": b[2] | b[3] << 8, "type": b[6],
                                     "ok": tail.split(":")[1] == "1"})
                acks = [r for r in recs if r["type"] == 193]
                r0 = res.split()[0]
                if r0.startswith("exc="):
                    continue
                if t[1] == "multicast":
                    if acks:
                        what = f"op {k}: a multicast caused a NETWORK_ACK ({len(acks)} frames of type 193 on the air)"
                    continue
                dst, typ = int(t[2]), int(t[3])
                if dst not in addr.values():
                    continue   # destination absent (failure injection)
                present = set(addr.values())
                closed = all((a & ((1 << (3 * (len(digits(a)) - 1))) - 1)) in present for a in present if a)
                lossy_here = lossy or not closed   # an absent router is failure injection, too
                h = hops(src, dst)
                needs = 64 < typ < 192 and h >= 2
                reached_src = any((r["ok"] or ack_loss) and r["to"] == src and r["sender"] is not None and adjacent(r["sender"], src) for r in acks)
                if not needs:
                    if acks:
                        what = (f"op {k}: message {oct(src)}->{oct(dst)} type {typ} over {h} hop(s) caused {len(acks)} NETWORK_ACK frame(s) "
                                "(only types 65..191 over a route with an intermediate node may)")
                    elif not lossy_here and r0 == "F" and typ not in CONSUMED:
                        # awaited only when needed: nothing is due here, so a loss-free write() must not come back False
                        what = (f"op {k}: loss-free message {oct(src)}->{oct(dst)} type {typ} over {h} hop(s): write() returned F "
                                "(a NETWORK_ACK that is not due was awaited, or the link verdict was lost)")
                else:
                    if r0 == "T" and not reached_src:
                        what = f"op {k}: write() {oct(src)}->{oct(dst)} type {typ} returned True but no NETWORK_ACK reached the sender"
                    elif r0 == "F" and reached_src and not lossy_here:
                        what = f"op {k}: write() {oct(src)}->{oct(dst)} type {typ} returned False although the NETWORK_ACK reached the sender"
                    origins = {r["sender"] for r in acks if r["sender"] is not None and adjacent(r["sender"], dst)}
                    # the node that delivers the frame to the destination originates the ACK: it is adjacent to dst;
                    # every other transmitter of a 193 frame merely forwards it (it is on the route, closer to src)
                    first_tx = [r for r in acks if r["sender"] is not None and adjacent(r["sender"], dst)]
                    if not lossy_here and len(first_tx) != 1:
                        what = (f"op {k}: message {oct(src)}->{oct(dst)} type {typ}: the delivering node transmitted {len(first_tx)} NETWORK_ACKs, "
                                "expected exactly one")
                    # ground truth of delivery: a NETWORK_ACK is the claim "the frame reached its destination"
                    delivered = any(r["type"] == typ and r["to"] == dst and r["from"] == src and (r["ok"] or ack_loss)
                                    and r["sender"] is not None and adjacent(r["sender"], dst) for r in recs)
                    if first_tx and not delivered:
                        what = (f"op {k}: message {oct(src)}->{oct(dst)} type {typ}: node {oct(first_tx[0]['sender'])} sent a "
                                "NETWORK_ACK although its transmission to the destination was not received")
                    elif r0 == "T" and not delivered:
                        what = (f"op {k}: write() {oct(src)}->{oct(dst)} type {typ} returned True but the frame never "
                                "reached the destination's radio")
                    if not lossy_here and r0 != "T":
                        what = f"op {k}: loss-free routed message {oct(src)}->{oct(dst)} type {typ}: write() returned {r0}"
                if what:
                    break
            if what:
                out.append(Finding(l, what, {}))
        return out


def _judge_timed(self, l, io):
    """believed only if received *in time*: the scripted NETWORK_ACK arrives clearly inside / outside route_timeout"""
    names, parts = l.split(" ; "), io.split(" ; ")
    rt = delay = accepted = None
    for name, part in zip(names, parts):
        t = name.split()
        if t[-3:-1] == ["set", "route_timeout"]:
            rt = int(t[-1])
        elif t[:2] == ["env", "faults"] and set(t[2]) == {"L"}:
            # slow first hop: the frame is accepted no earlier than after these lost attempts (lower bound), and the
            # block leaves 3 ms for the SPI traffic of the retries
            accepted = len(t[2]) // 6 * CYCLE_MS_N9
        elif t[:2] == ["env", "arrive"] and accepted is not None:
            delay = int(t[3]) / 1e6 - accepted
            if delay <= 3:
                return None
        elif t[:2] == ["env", "arrive"]:
            delay = int(t[3]) / 1e6
        elif len(t) > 1 and t[1] == "write":
            r0 = part.split(" ~ ")[0].split()[0]
            if r0.startswith("exc="):
                return None
            if delay <= 0.8 * rt and r0 != "T":
                return Finding(l, f"write() returned {r0} although the NETWORK_ACK for the sender arrived {delay:.1f} ms after "
                                  f"the frame was accepted by the first hop (at the earliest), inside route_timeout = {rt} ms", {"class": "timed-ack"})
            if delay >= 1.5 * rt + 10 and r0 != "F":
                return Finding(l, f"write() returned {r0} although the only NETWORK_ACK arrived {delay:.1f} ms after the call "
                                  f"began, outside route_timeout = {rt} ms", {"class": "timed-ack"})
    return None


C13.judge_timed = _judge_timed


def run(tier):
    return run_check(C13(), tier)


def replay(path):
    return replay_generic(C13(), path)
