"""C18 — every advertisement is a well-formed BLE packet for the channel it is sent on."""
import itertools

from harness.framework import *
from harness.ble_common import impl_line, split_session, pad32, hx, unhx, BLE_FREQ

PA_LEVELS = (0, -6, -12, -18)


def rnd_bytes(rng, n):
    return bytes(rng.randrange(256) for _ in range(n))


def split_chunks(rng, total):
    """a list-form argument whose items have `total` bytes altogether"""
    if total == 0:
        return rng.choice(["[]", "-"])
    k = rng.choice([1, 1, 2, 3])
    cuts = sorted(rng.randrange(total + 1) for _ in range(k - 1))
    parts, prev = [], 0
    for c in cuts + [total]:
        parts.append(rnd_bytes(rng, c - prev))
        prev = c
    return ",".join(hx(p) for p in parts)


def adv_ops(rng, cap):
    """advertise / len_available probes around the capacity `cap` (free bytes)"""
    ops = []
    for delta in (-3, -2, -1, 0, 1, 2):
        total = cap + delta
        if total < 0:
            continue
        ops.append("lenav " + hx(rnd_bytes(rng, total)))
        ops.append("advl " + split_chunks(rng, total))
        if total >= 4 and delta in (-3, 0):
            ch = split_chunks(rng, total)
            if "," in ch and "[]" not in ch:
                ops.append("advlm " + ch)      # the same list of bytearrays advertised twice
        if total >= 3 or total == 0:
            n = max(0, total - 2)
            ops.append(f"adv {hx(rnd_bytes(rng, n))} {rng.choice([0xFF, 0x16, 0x09, 0x1FF, 0])}")
    return ops


class C18(PropCheck):
    prop = "C18"
    rule = ("a case is one session (fresh FakeBLE on a fake radio) or one helper-function call; "
            "non-trivial = at least one operation of the session returned normally with an "
            "observable effect (all sessions do); distinct = distinct protocol lines")
    assumptions = [
        "the radio is reduced to registers 5 (RF_CH) and 6 (RF_SETUP); the bytes handed to "
        "send() are taken as the W_TX_PAYLOAD content (send/write padding to 32 bytes with zeros "
        "is C01's business and is applied by the judge)",
        "bytes arguments hold values < 256; data_type is a non-negative int",
        "MAC has 6 bytes (the mac setter accepts longer byte strings unchecked: then the packet "
        "no longer matches len_available(); reported as an observation, outside the property's "
        "'any MAC')",
        "another object sharing the radio touches register 5 only (full context save/restore is C09)",
    ]
    exhaustive = False

    def impl(self, line):
        if line.startswith("rf "):
            from harness.rfsession import run_line
            return run_line(line)
        return impl_line(line)

    # ------------------------------------------------------------------ generators
    def cases(self, res, tier, rng):
        out = []
        thorough = tier == "thorough"
        # --- on-air framing: a FakeBLE object over the simulated radio; after any history of the calls it permits, what
        #     leaves the antenna is a raw 1 Mbps packet on the advertising access address, without hardware CRC or
        #     Enhanced-ShockBurst framing, on one of the three advertising channels
        from harness.props.c09 import ble_op
        for _ in range(300 if thorough else 60):
            ops = ["new a ble 0", "a enter"]
            for _ in range(rng.randint(0, 10)):
                op = ble_op(rng, "a")
                if " set power " not in op and " set listen " not in op:
                    ops.append(op)
                if rng.random() < 0.3:
                    ops.append(f"a send i:{hx(rnd_bytes(rng, rng.randint(1, 32)))} F 0 F")
            ops.append(f"a send i:{hx(rnd_bytes(rng, 32))} F 0 F")
            out.append(("rf 1 1 " + " ; ".join(ops), "on-air-framing"))
        # --- helper functions
        out += [(f"swap {n}", "swap-exhaustive") for n in range(0, 1024)]
        res.exhaustive_blocks.append("swap_bits over 0..1023")
        for coef in range(0, 256):
            out.append((f"whitener {hx(rnd_bytes(rng, rng.choice([1, 2, 5, 32])))} {coef}",
                        "whitener-all-coef"))
        res.exhaustive_blocks.append("whitener over every coefficient 0..255 (random buffers)")
        for b in range(256):
            out.append((f"whitener {hx(bytes([b]))} {101 + (b % 3)}", "whitener-all-bytes"))
        for n in list(range(0, 40)) * (4 if thorough else 1):
            out.append((f"crc24 {hx(rnd_bytes(rng, n))}", "crc24-random"))
        for b in range(256):
            out.append((f"crc24 {hx(bytes([b]))}", "crc24-all-bytes"))
        out.append(("crc24 000102030405060708090a0b0c0d0e0f1011121314151617", "crc24-vector"))
        for n in (0, 1, 2, 17, 253, 254, 255, 256, 300):
            for t in (0, 1, 0x16, 0xFF, 0x100, 0x1FF):
                out.append((f"chunk {hx(rnd_bytes(rng, n))} {t}", "chunk-boundary"))
        for n in (0, 1, 7, 32):
            out.append((f"revbits {hx(rnd_bytes(rng, n))}", "revbits"))
        out.append((f"revbits {hx(bytes(range(256)))}", "revbits"))
        # --- capacity boundary: name length × PA flag × PA level × setter order × chunk forms
        names = [None] + list(range(0, 21))
        for nl, dbm, order in itertools.product(names, (0, 1), (0, 1)):
            for pa in (PA_LEVELS if dbm else (rng.choice(PA_LEVELS),)):
                name_op = "name none" if nl is None else "name " + hx(
                    bytes(rng.choice(b"abcXYZ019 _-") if nl % 2 == 0 else rng.randrange(256)
                          for _ in range(nl)))
                pre = [f"mac {hx(rnd_bytes(rng, 6))}", f"pa {pa}"]
                pre += [name_op, f"showpa {dbm}"] if order == 0 else [f"showpa {dbm}", name_op]
                # effective state after the setters (documented limits) to aim at the boundary
                eff_nl, eff_dbm = self._effective(nl, dbm, order)
                cap = 18 - (0 if eff_nl is None else eff_nl + 2) - 3 * eff_dbm
                ops = pre + adv_ops(rng, cap)
                ops += ["hop"] + adv_ops(rng, cap)[-3:] + ["hop"] + adv_ops(rng, cap)[-6:-3]
                out.append(("ble " + " ; ".join(ops), "capacity-boundary"))
        res.exhaustive_blocks.append(
            "name None/0..20 bytes × show_pa_level off/on × 4 PA levels × both setter orders × "
            "user sizes capacity-3..capacity+2 (bytes, list, tuple forms) on all three channels")
        # --- channel histories, exhaustive
        alpha = ["hop", "chan 2", "chan 26", "chan 80", "chan 3", "exit ; foreign 76 ; enter"]
        depth = 6
        small = ["hop", "chan 26", "chan 80", "chan 3", "exit ; foreign 76 ; enter"]
        for h in itertools.product(alpha, repeat=depth):
            out.append(("ble " + " ; ".join(h) + " ; adv 01 255", "channel-hist-6x6"))
        res.exhaustive_blocks.append("every history of length 6 over " + repr(alpha) +
                                     ", each followed by an advertisement")
        if thorough:
            for h in itertools.product(small, repeat=7):
                out.append(("ble " + " ; ".join(h) + " ; adv 01 255", "channel-hist-5x7"))
            res.exhaustive_blocks.append("every history of length 7 over " + repr(small))
        fine = ["hop", "chan 2", "chan 26", "chan 80", "chan 0", "chan 125", "chan 79", "exit",
                "enter", "foreign 76", "foreign 2", "foreign 26", "foreign 80", "name 6162",
                "showpa 1", "showpa 0", "pa -12", "mac none", "adv 0102 255", "advl 0201aa"]
        for h in itertools.product(fine[:13], repeat=3):
            out.append(("ble " + " ; ".join(h) + " ; enter ; adv 01 255", "channel-hist-fine3"))
        res.exhaustive_blocks.append("every history of length 3 over exit/enter/foreign/hop/channel= separately")
        for _ in range(6000 if thorough else 1200):
            n = rng.randrange(4, 16)
            out.append(("ble " + " ; ".join(rng.choice(fine) for _ in range(n)), "channel-hist-random"))
        # --- malformed / boundary stream for the setters and advertise
        bad = []
        for n in (0, 1, 15, 16, 17, 18, 19, 40):
            bad.append(f"showpa 1 ; name {hx(rnd_bytes(rng, n))} ; lenav - ; adv 01 255")
            bad.append(f"name {hx(rnd_bytes(rng, n))} ; showpa 1 ; lenav - ; adv 01 255 ; showpa 0 ; showpa 1")
        bad += ["name other ; lenav -", "advbad", "name 6162 ; name other ; adv - 255",
                "name 6162 ; name none ; adv - 255 ; advl []", "advl -,-,-", "advl -",
                f"adv {hx(rnd_bytes(rng, 254))} 255", f"adv {hx(rnd_bytes(rng, 255))} 255",
                f"adv {hx(rnd_bytes(rng, 300))} 22", f"advl {hx(rnd_bytes(rng, 300))}",
                "pa 3 ; pa -18 ; showpa 1 ; adv - 255 ; pa 0 ; adv - 255 ; pa 1",
                "mac none ; adv - 255", "mac i0 ; adv - 255", "mac i281474976710655 ; adv - 255",
                "mac i281474976710656", "mac i-1", "mac - ; adv - 255", "mac 01 ; adv - 255",
                "mac 0102030405 ; adv - 255", "mac 010203040506 ; adv - 255",
                "name 6162 ; showpa 1 ; exit ; lenav - ; adv 01 255 ; enter ; adv 01 255"]
        for d in (0, 1, 0x16, 0xFF, 0x100, 0x116, 70000):
            bad.append(f"adv 0102 {d}")
        out += [("ble " + b, "malformed-and-boundary") for b in bad]
        return out

    @staticmethod
    def _effective(nl, dbm, order):
        """documented limits: name ≤ 18 − 3·show_pa; show_pa needs name ≤ 16"""
        if order == 0:  # name first (show_pa off), then show_pa
            eff_nl = nl if (nl is None or nl <= 18) else None
            eff_dbm = dbm if not (dbm and eff_nl is not None and eff_nl > 16) else 0
        else:
            eff_dbm = dbm
            eff_nl = nl if (nl is None or nl <= 18 - 3 * dbm) else None
        return eff_nl, eff_dbm

    def nontrivial(self, line, io):
        return " ok " in (" " + io) or "sent=" in io or not io.startswith("exc=")

    # ------------------------------------------------------------------ judge
    @staticmethod
    def _judge_framing(line, io):
        names, parts = line.split(" ; "), io.split(" ; ")
        ble_chan = True     # the object's own channel choices are advertising channels unless the user set another
        for k, (name, part) in enumerate(zip(names, parts)):
            t = name.split()
            if t[-3:-1] == ["set", "channel"] and part.startswith("ok"):
                ble_chan = int(t[-1]) in BLE_FREQ
            if "hop_channel" in name:
                ble_chan = True
            f = part.split(" ~ ")
            if len(f) != 4 or f[3] == "[]":
                continue
            for rec in f[3][1:-1].split(","):
                if not rec.startswith("0>"):
                    continue
                ch, rate, crc, esb, dpl, addr = rec[2:].split("/")[:6]
                bad = None
                if rate != "r0":
                    bad = f"data rate code {rate[1:]} (BLE advertising is 1 Mbps)"
                elif crc != "c0":
                    bad = f"the radio appends its own {crc[1:]}-byte CRC (the BLE CRC24 is part of the payload)"
                elif esb != "e0" or dpl != "d0":
                    bad = "Enhanced-ShockBurst framing (auto-ack / dynamic payloads) is on"
                elif addr != "71917d6b":
                    bad = f"address {addr} (the advertising access address 0x8E89BED6 is 71917d6b on this radio)"
                elif ble_chan and int(ch[2:]) not in BLE_FREQ:
                    bad = f"RF channel {ch[2:]} is none of the advertising channels {BLE_FREQ}"
                if bad:
                    return Finding(line, f"op {k} `{' '.join(t[-6:])[:60]}`: the packet on the air is not a BLE advertisement: {bad}",
                                   {"class": "on-air-framing", "op_index": k})
        return None

    def judge(self, triples):
        """Spec-based: every payload handed to send() must be received by the bit-serial BLE
        receiver (driver op `specrecv`, Nrf.Spec.BleLL.bleReceive) on the channel of RF_CH as
        the PDU the property describes; ValueError ⇔ the packet needs more than 32 bytes;
        len_available = 32 − packet size; BLE_FREQ[_curr_freq] = RF_CH whenever this object
        was the last to program register 5."""
        finds = []
        spec_q = []  # (line, description, specrecv line, expected dict)
        for line, io, mo in triples:
            if line.startswith("rf 1 1 new a ble 0"):
                f = self._judge_framing(line, io)
                if f:
                    finds.append(f)
                continue
            if not line.startswith("ble "):
                f = self._judge_pure(line, io, mo)
                if f:
                    finds.append(f)
                continue
            steps = split_session(line, io)
            st = ["0", "2", "2", "0", "none", "a0a1a2a3a4a5", "0"]  # after __init__
            owner, pa = True, 0
            for i, (op, r, ns) in enumerate(steps):
                if r is None or ns is None:
                    break
                o = op[0]
                where = f"op #{i + 1} `{' '.join(op)}`"
                if o in ("hop", "chan") and r != "ok":
                    finds.append(Finding(line, f"{where} raised {r}; hop_channel()/channel= must "
                                               "return normally", {"class": "channel-raises"}))
                    break
                if o == "foreign":
                    owner = False
                elif o in ("hop", "enter") or (o == "chan" and int(op[1]) in BLE_FREQ):
                    owner = True
                if o == "pa" and r == "ok":
                    pa = int(op[1])
                cf, rf = int(ns[0]), int(ns[2])
                if owner and not (0 <= cf < 3 and BLE_FREQ[cf] == rf):
                    finds.append(Finding(
                        line, f"after {where}: radio tuned to RF_CH={rf} but _curr_freq={cf} "
                              f"(whitening for BLE channel {37 + cf}, i.e. RF_CH "
                              f"{BLE_FREQ[cf] if 0 <= cf < 3 else '?'})",
                        {"class": "whitening-channel-mismatch", "impl": io[:300]}))
                    break
                mac, name, dbm = unhx(st[5]), (None if st[4] == "none" else unhx(st[4])), st[3] == "1"
                if o == "advlm":
                    res, _, lst = r.partition(" list=")
                    if lst != op[1]:
                        finds.append(Finding(line, f"{where}: advertise() modified the caller's list of chunks: {op[1]} became {lst}",
                                             {"class": "caller-list-modified"}))
                        break
                    if res.startswith("sent=") and len(set(res[5:].split(","))) != 1:
                        finds.append(Finding(line, f"{where}: advertising the same list twice sent two different packets: {res[5:]}",
                                             {"class": "caller-list-modified"}))
                        break
                    continue
                if o in ("adv", "advl", "lenav"):
                    if o == "adv":
                        buf = unhx(op[1])
                        user = bytes([(len(buf) + 1) & 0xFF, int(op[2]) & 0xFF]) + buf if buf else b""
                        ulen = len(buf) + 2 if buf else 0
                    elif o == "advl":
                        user = b"" if op[1] == "[]" else b"".join(unhx(x) for x in op[1].split(","))
                        ulen = len(user)
                    else:
                        user = unhx(op[1])
                        ulen = len(user)
                    size = 2 + len(mac) + 3 + (3 if dbm else 0) + (0 if name is None else 2 + len(name)) + ulen + 3
                    if o == "lenav":
                        if len(mac) == 6 and r != str(32 - size):
                            finds.append(Finding(line, f"{where}: len_available() = {r}, but the packet "
                                                       f"needs {size} of 32 bytes (free: {32 - size})",
                                                 {"class": "len-available"}))
                            break
                    elif len(mac) == 6:
                        if r.startswith("exc="):
                            if r != "exc=ValueError" or size <= 32:
                                finds.append(Finding(line, f"{where} raised {r} although the packet needs "
                                                           f"{size} ≤ 32 bytes" if size <= 32 else
                                                           f"{where} raised {r}, not ValueError",
                                                     {"class": "advertise-raises"}))
                                break
                        elif size > 32:
                            finds.append(Finding(line, f"{where} did not raise ValueError although the packet "
                                                       f"needs {size} > 32 bytes", {"class": "advertise-oversize"}))
                            break
                        elif owner:
                            sent = unhx(r[5:])
                            body = mac + b"\x02\x01\x05"
                            if dbm:
                                body += bytes([2, 0x0A, pa & 0xFF])
                            if name is not None:
                                body += bytes([len(name) + 1, 8]) + name
                            body += user
                            spec_q.append((line, where, f"specrecv {rf} {hx(pad32(sent))}",
                                           {"len": len(body), "payload": hx(body), "sentlen": len(sent),
                                            "size": size}))
                st = ns
        if spec_q:
            outs = run_driver([q[2] for q in spec_q])
            seen = set()
            for (line, where, sl, exp), so in zip(spec_q, outs):
                if line in seen:
                    continue
                want = f"hdr=66 len={exp['len']} payload={exp['payload']} "
                if exp["sentlen"] != exp["size"]:
                    what = (f"{where}: {exp['sentlen']} bytes handed to send(), the packet has {exp['size']}")
                elif so == "none":
                    what = (f"{where}: the BLE receiver on the channel of RF_CH={sl.split()[1]} rejects the "
                            f"payload (whitening / CRC / length wrong)")
                elif not so.startswith(want):
                    what = f"{where}: received PDU differs: got `{so[:160]}`, demanded `{want[:160]}`"
                else:
                    continue
                seen.add(line)
                finds.append(Finding(line, what, {"class": "malformed-advertisement", "spec": so[:400],
                                                  "specline": sl}))
        finds.sort(key=lambda f: len(f.case))  # report the shortest failing input first
        return finds

    def _judge_pure(self, line, io, mo):
        """helper functions: judged against directly computable facts from the documentation"""
        op, *a = line.split()
        if op == "swap":
            n = int(a[0]) & 0xFF
            want = str(int(f"{n:08b}"[::-1], 2))
            if io != want:
                return Finding(line, f"swap_bits({a[0]}) = {io}, bit reversal of the low byte is {want}", {})
        if op == "revbits":
            want = hx(bytes(int(f"{b:08b}"[::-1], 2) for b in unhx(a[0])))
            if io != want:
                return Finding(line, f"reverse_bits gives {io}, demanded {want}", {})
        if op == "chunk":
            buf, t = unhx(a[0]), int(a[1])
            want = hx(bytes([len(buf) + 1, t & 0xFF]) + buf) if len(buf) + 1 < 256 else "exc=ValueError"
            if io != want:
                return Finding(line, f"chunk gives {io[:80]}, demanded {want[:80]}", {})
        if op in ("whitener", "crc24"):
            # judged end to end through the advertisements; a bare difference is reported by the
            # framework as correspondence-broken
            return None
        return None


def run(tier):
    return run_check(C18(), tier)


def replay(path):
    return replay_generic(C18(), path)
