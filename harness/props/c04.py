"""C04 — tree routing connects all 781 addresses; pipe addresses never collide.

Correspondence: real `RF24Network` / `RF24NetworkRoutingOnly` objects (one per source address, built
on the fake SPI of `harness.shim_c04.py`) against the Lean model ops `begin`, `l2p`, `pipeaddr`,
`rxaddrs`, `txaddr`, `lvl2addr`, `lvladdr`, `setmclvl`, `mcast`, `route`.
Judge: the property itself, evaluated on the implementation's behaviour — the chained next-hop
choices against the spec's tree path (driver op `specpath`), and the implementation's own table of
listening addresses (all 781 nodes x 6 pipes of one configuration) for membership / uniqueness /
level sharing / hardware byte sharing.
"""
import signal
from contextlib import contextmanager

from harness.framework import *
from harness import shim_c04 as shim_basic


class SimTimeout(Exception):
    """the implementation did not return within the watchdog's budget (a loop that the model proves
    terminating does not terminate)"""


class Skipped(Exception):
    """not attempted: the watchdog already fired MAX_TIMEOUTS times in this run (says nothing about
    the case itself; never judged)"""


_WD = {"depth": 0, "fired": 0, "t0": 0.0, "armed": False}
MAX_TIMEOUTS = 4  # after that many hangs the remaining calls are not attempted any more
BUDGET = 5.0      # CPU seconds (process time: immune to a loaded machine) a single call into the library may take


def _tick(*_):
    if _WD["depth"] and time.process_time() - _WD["t0"] > BUDGET:
        _WD["fired"] += 1
        _WD["depth"] = 0
        raise SimTimeout()


def disarm():
    if _WD["armed"]:
        signal.setitimer(signal.ITIMER_REAL, 0)
        signal.signal(signal.SIGALRM, signal.SIG_DFL)
        _WD["armed"] = False


@contextmanager
def deadline():
    """Watchdog around calls into the library.  One periodic timer for the whole run (no system call
    per case); re-entrant: the outermost level starts the clock."""
    if _WD["fired"] >= MAX_TIMEOUTS:
        raise Skipped()
    if not _WD["armed"]:
        signal.signal(signal.SIGALRM, _tick)
        signal.setitimer(signal.ITIMER_REAL, 0.5, 0.5)
        _WD["armed"] = True
    if _WD["depth"] == 0:
        _WD["t0"] = time.process_time()
    _WD["depth"] += 1
    try:
        yield
    finally:
        if _WD["depth"]:
            _WD["depth"] -= 1


DEF_PFX = 0xCC
DEF_SFX = "c33c33ce3ee3"
RESERVED = (0o100, 0o10, 0o1000)


def all_nodes():
    out, level = [0], [0]
    for k in range(4):
        level = [n + (d << (3 * k)) for n in level for d in range(1, 6)]
        out += level
    return out


NODES = all_nodes()
NODESET = set(NODES)


def level_of(n):
    k = 0
    while n:
        n >>= 3
        k += 1
    return k


LEVEL_PIPE0 = {L: sorted((n, 0) for n in NODES if level_of(n) == L) for L in range(5)}


def descends(d, s):
    """d lies strictly below s in the address tree (octal digits of s are the low digits of d)"""
    k = 3 * level_of(s)
    return d != s and (d & ((1 << k) - 1)) == s


def cfg_ok(pfx, sfx):
    b = bytes.fromhex(sfx) if sfx != "-" else b""
    return len(b) == 6 and len(set(b)) == 6 and pfx not in b and 0 <= pfx < 256


def hx(b):
    return bytes(b).hex() if len(b) else "-"


class Objects:
    """real network objects, one per (configuration, node address)"""

    def __init__(self):
        shim_basic.patch_time()
        from circuitpython_nrf24l01.rf24_network import RF24Network, RF24NetworkRoutingOnly
        from circuitpython_nrf24l01.network import mixins, structs
        self.classes = (RF24Network, RF24NetworkRoutingOnly)
        self.mixins, self.structs = mixins, structs
        self.default = {}
        self.cache = {}
        self.reused = None

    def fresh(self, node, cls=None):
        spi = shim_basic.BasicSpiDev()
        cls = cls or self.classes[node % 2]
        with deadline():
            obj = cls(spi, shim_basic.BasicPin(), shim_basic.BasicPin(), node)
        obj._spi_shim = spi
        return obj

    def at(self, node):
        """object with the default configuration (never modified)"""
        o = self.default.get(node)
        if o is None:
            o = self.default[node] = self.fresh(node)
        return o

    def configure(self, obj, pfx, sfx, am):
        obj.address_prefix = bytearray([pfx])
        obj.address_suffix = bytearray.fromhex(sfx) if sfx != "-" else bytearray()
        obj.allow_multicast = bool(am)

    def scratch(self, pfx, sfx, am):
        return self.with_cfg(pfx, sfx, am, None)

    def with_cfg(self, pfx, sfx, am, node, fresh=False):
        """object of `node` (None: a scratch object at 0o123) whose attributes carry the
        configuration and whose pipes were (re)opened under it through the `node_address` setter"""
        if (pfx, sfx, am) == (DEF_PFX, DEF_SFX, 1) and node is not None and not fresh:
            return self.at(node)  # the constructor already ran _begin under exactly this configuration
        key = (pfx, sfx, am, node)
        if not fresh and node is not None and (pfx * 31 + len(sfx) + am + node) % 4 == 0:
            # one long-lived object re-configured IN PLACE (address_suffix[:] = …, address_prefix[0] = …) and re-begun: an
            # application that edits the documented bytearray attributes instead of replacing them.  Whatever the object
            # computed under earlier configurations must not survive.
            r = getattr(self, "recycled", None)
            if r is None:
                r = self.recycled = self.fresh(0o123)
            # first the SAME node under another configuration (so that everything about this node has been computed
            # once), then the requested configuration, both edited in place
            r.address_prefix[:] = bytes([pfx ^ 0x5A])
            r.address_suffix[:] = bytes(reversed(bytes.fromhex(DEF_SFX)))
            r.allow_multicast = bool(am)
            try:
                with deadline():
                    r.node_address = node
            except (SimTimeout, Skipped):
                raise
            except Exception:  # noqa: BLE001 - an unusable first configuration is of no interest here
                pass
            r.address_prefix[:] = bytes([pfx])
            r.address_suffix[:] = bytes.fromhex(sfx) if sfx != "-" else b""
            r.allow_multicast = bool(am)
            with deadline():
                r.node_address = node
            return r
        if len(self.cache) > 8000:
            self.cache = {}
        o = None if fresh else self.cache.get(key)
        if o is None:
            o = self.fresh(0o123 if node is None else node)
            self.configure(o, pfx, sfx, am)
            if node is not None:
                with deadline():
                    o.node_address = node  # the public way to re-run _begin under the new attributes
            if not fresh:
                self.cache[key] = o
        return o


class C04(PropCheck):
    prop = "C04"
    rule = ("every case is a distinct (operation, configuration, node, argument) tuple; a case counts as "
            "non-trivial when the implementation returns a result (not an exception); the l2p / pipeaddr / "
            "begin / rxaddrs blocks enumerate their whole finite domain")
    assumptions = [
        "all nodes of one network use the same address_prefix (1 byte) / address_suffix / allow_multicast",
        "address_suffix has 6 pairwise distinct bytes, none equal to the prefix byte (the property's hypothesis)",
        "radio rule for pipes 2..5 (one own byte, bytes 1..4 from pipe 1) as in the nRF24L01+ product "
        "specification; it is written once in Lean (hwListen) and once in harness.shim_c04.py",
        "multicast(level=4) (clamped to 3 by the code, D13) and the local loop-back of a multicast whose "
        "level address equals the sender's own address (D14) are modelled as the code has them; the "
        "property's demand on them is judged under C14",
    ]
    exhaustive = True
    extra_trusted = ["harness.shim_c04.py: a register-dict SPI stand-in (STATUS constant, TX_DS set)"]

    def __init__(self):
        self.o = None
        self._tables = {}

    def objs(self):
        if self.o is None:
            self.o = Objects()
        return self.o

    # ------------------------------------------------------------------ implementation adapter
    def impl(self, line):
        op, *a = line.split()
        o = self.objs()
        if op == "l2p":  # no loop in _logi_2_phys; object construction has its own watchdog
            node, pipe, mc = o.at(int(a[0]))._logi_2_phys(int(a[1]), int(a[2]))
            return f"{node} {pipe} {1 if mc else 0}"
        with deadline():
            return self._impl(o, op, a)

    def _impl(self, o, op, a):
        if op == "begin":
            n = int(a[0])
            obj = o.fresh(n)
            s1 = self._attrs(obj)
            if o.reused is None:
                o.reused = o.fresh(0o5555)
            with deadline():
                o.reused.node_address = n  # _begin() on an object that already had another address
            s2 = self._attrs(o.reused)
            return s1 if s1 == s2 else f"fresh:{s1} reused:{s2}"
        if op == "pipeaddr":
            obj = o.scratch(int(a[0]), a[1], int(a[2]))
            return hx(obj._pipe_address(int(a[3]), int(a[4])))
        if op == "rxaddrs":
            obj = o.with_cfg(int(a[0]), a[1], int(a[2]), int(a[3]))
            return self._listen(obj)
        if op == "txaddr":
            pfx, sfx, am, node, to, st = int(a[0]), a[1], int(a[2]), int(a[3]), int(a[4]), int(a[5])
            obj = o.with_cfg(pfx, sfx, am, node, fresh=len(a) > 6)
            if len(a) > 6:       # the user re-assigned this node's multicast level first
                obj.multicast_level = int(a[6])
            spi = obj._spi_shim
            spi.regs[0x10] = None
            hdr = o.structs.RF24NetworkHeader(to, 1)
            frame = o.structs.RF24NetworkFrame(hdr, b"c04")
            if st == 0 and hasattr(obj, "write"):
                obj.queue = type(obj.queue)()
                obj.write(frame)
            else:
                hdr.from_node = 0o5 if node != 0o5 else 0o4
                obj.frame_buf = frame
                obj.queue = type(obj.queue)()
                obj._write(to, st)
            t = spi.regs[0x10]
            spi.regs[0x10] = [0xE7] * 5
            return "self" if t is None else hx(t)
        if op == "lvl2addr":
            return str(o.mixins._lvl_2_addr(int(a[0])))
        if op == "lvladdr":
            obj = o.scratch(int(a[0]), a[1], int(a[2]))
            return hx(obj._pipe_address(o.mixins._lvl_2_addr(int(a[3])), 0))
        if op == "setmclvl":  # `setmclvl <pfx> <sfx> <am> <node> <lvl>`; legacy form without <node>: node 0o123
            node = int(a[3]) if len(a) > 4 else 0o123
            obj = o.with_cfg(int(a[0]), a[1], int(a[2]), node, fresh=True)
            obj.multicast_level = int(a[-1])
            la = shim_basic.listen_addresses(obj._spi_shim)[0]
            return f"{obj.multicast_level} {'closed' if la is None else hx(la)}"
        if op == "mcast":
            pfx, sfx, am, node, nl, lvl = int(a[0]), a[1], int(a[2]), int(a[3]), a[4], a[5]
            obj = o.with_cfg(pfx, sfx, am, node, fresh=True)
            if nl != "-":
                obj.multicast_level = int(nl)
            spi = obj._spi_shim
            spi.regs[0x10] = None
            obj.multicast(b"m", 1, None if lvl == "none" else int(lvl))
            t = spi.regs[0x10]
            return "self" if t is None else hx(t)
        if op == "route":
            return ",".join(map(str, self._chain(int(a[0]), int(a[1]))))
        raise Infra("unknown op " + op)

    @staticmethod
    def _attrs(obj):
        return (f"lvl={obj._net_lvl} mask={obj._mask} maskinv={obj._mask_inv} "
                f"parent={obj._parent} ppipe={obj._parent_pipe}")

    @staticmethod
    def _listen(obj):
        la = shim_basic.listen_addresses(obj._spi_shim)
        return " ".join("closed" if x is None else hx(x) for x in la)

    def _chain(self, s, d, limit=9):
        """addresses visited when every node applies its own `_logi_2_phys` (default configuration)"""
        o = self.objs()
        cur, st, seen = s, 0, [s]
        for _ in range(limit):
            if cur == d:
                break
            if cur not in NODESET and cur not in RESERVED:
                seen.append("invalid")
                break
            cur = o.at(cur)._logi_2_phys(d, st)[0]
            st = 1
            seen.append(cur)
        return seen

    # ------------------------------------------------------------------ generators
    def cases(self, res, tier, rng):
        thorough = tier == "thorough"
        c = []
        dflt = f"{DEF_PFX} {DEF_SFX}"

        def rnd_cfg():
            b = rng.sample(range(256), 7)
            return f"{b[0]} {bytes(b[1:]).hex()}"

        cfgs = [rnd_cfg() for _ in range(32 if thorough else 6)]

        # _begin: every node + the three reserved addresses a node object accepts
        c += [(f"begin {n}", "begin-exhaustive") for n in NODES + list(RESERVED)]
        res.exhaustive_blocks.append("_begin attributes for all 781 nodes and the 3 reserved addresses "
                                     "(fresh object and re-begun object)")
        # _logi_2_phys: every ordered pair, originated frames; forwarded frames all / sampled
        c += [(f"l2p {s} {d} 0", "l2p-normal-exhaustive") for s in NODES for d in NODES]
        res.exhaustive_blocks.append("_logi_2_phys(d, TX_NORMAL) for all 781x781 (source, destination) pairs")
        if thorough:
            c += [(f"l2p {s} {d} 1", "l2p-routed-exhaustive") for s in NODES for d in NODES]
            res.exhaustive_blocks.append("_logi_2_phys(d, TX_ROUTED) for all 781x781 pairs")
        else:
            c += [(f"l2p {rng.choice(NODES)} {rng.choice(NODES)} 1", "l2p-routed") for _ in range(60000)]
        for _ in range(6000):
            c.append((f"l2p {rng.choice(NODES)} {rng.choice(NODES)} {rng.choice([2, 3, 4, 5])}", "l2p-direct"))
        for _ in range(40000 if thorough else 15000):  # destinations that are not tree nodes
            c.append((f"l2p {rng.choice(NODES + list(RESERVED))} {rng.randrange(65536)} {rng.choice([0, 1])}",
                      "l2p-any16"))
        # _pipe_address: every (node, pipe), multicast on/off, default + random configurations
        for cf in [dflt] + cfgs:
            for am in (1, 0):
                c += [(f"pipeaddr {cf} {am} {n} {p}", "pipeaddr-exhaustive") for n in NODES for p in range(6)]
        res.exhaustive_blocks.append(f"_pipe_address for all 781x6 (node, pipe), multicast on/off, default and "
                                     f"{len(cfgs)} random prefix/suffix sets")
        bad_sfx = ["c33c33", "-", "c33c33ce3e", "c33c33ce3ee3aa", "c3c3c3c3c3c3", "cccccccccccc"]
        for _ in range(20000 if thorough else 6000):  # malformed: pipes 6.., non-nodes, odd suffix tables
            cf = rng.choice([dflt] + cfgs) if rng.random() < 0.7 else f"{rng.randrange(256)} {rng.choice(bad_sfx)}"
            n = rng.choice([rng.randrange(65536), rng.randrange(0o100000), rng.choice(NODES), rng.choice(RESERVED),
                            rng.choice(NODES) * 8 + rng.randrange(8)])
            c.append((f"pipeaddr {cf} {rng.randrange(2)} {n} {rng.randrange(9)}", "pipeaddr-malformed"))
        # registers after _begin
        for cf in [dflt] + cfgs[: (8 if thorough else 2)]:
            for am in (1, 0):
                c += [(f"rxaddrs {cf} {am} {n}", "rxaddrs-exhaustive") for n in NODES + list(RESERVED)]
        res.exhaustive_blocks.append("RX_ADDR_P0..5 / EN_RXADDR after construction for all 781 nodes, multicast "
                                     "on/off, default and random configurations")
        # TX address of the first transmission of write() / a forwarded _write()
        for _ in range(60000 if thorough else 6000):
            cf = rng.choice([dflt] + cfgs[:4])
            s, d = rng.choice(NODES), rng.choice(NODES)
            c.append((f"txaddr {cf} {rng.randrange(2)} {s} {d} {rng.choice([0, 0, 1])}", "txaddr"))
        for s in (0, 0o1, 0o5, 0o15, 0o123, 0o4321, 0o5555):
            c += [(f"txaddr {dflt} 1 {s} {d} 0", "txaddr-exhaustive-sources") for d in NODES]
        # routing is by tree position: a node whose multicast_level was re-assigned still picks the tree hop
        mls = (-1, 0, 1, 2, 3, 4, 6)
        for s in (0, 0o1, 0o5, 0o15, 0o123, 0o4321, 0o5555):
            subtree = [d for d in NODES if d != s and (s == 0 or descends(d, s))]
            for ml in mls:
                ds = subtree if (thorough or len(subtree) < 40) else rng.sample(subtree, 40)
                c += [(f"txaddr {dflt} 1 {s} {d} {rng.choice([0, 1])} {ml}", "txaddr-after-multicast_level") for d in ds]
                c += [(f"txaddr {dflt} 1 {s} {rng.choice(NODES)} 0 {ml}", "txaddr-after-multicast_level")
                      for _ in range(10)]
        res.exhaustive_blocks.append("TX address of write()/_write() toward (a sample of, thorough: all) descendants "
                                     f"after multicast_level = {list(mls)} on 7 sources of every depth")
        # levels
        c += [(f"lvl2addr {l}", "levels") for l in range(9)]
        for cf in [dflt] + cfgs:
            for am in (1, 0):
                c += [(f"lvladdr {cf} {am} {l}", "levels") for l in range(7)]
                # the setter on nodes of every depth: the level's address with multicast, the node's own without
                for n in [0, 0o1, 0o11, 0o123, 0o5555] + rng.sample(NODES, 3):
                    c += [(f"setmclvl {cf} {am} {n} {l}", "levels") for l in range(-2, 8)]
        for am in (1, 0):
            c += [(f"setmclvl {dflt} {am} {l}", "levels") for l in range(-2, 8)]  # legacy form: node 0o123
            # reserved addresses (accepted by the constructor), invalid addresses, odd suffix tables: tie only
            for n in list(RESERVED) + [0o6, 0o10, 0o111111, 0o12345]:
                c += [(f"setmclvl {dflt} {am} {n} {l}", "levels-malformed") for l in (0, 2, 5)]
            for sfx in ["c33c33", "-", "c33c33ce3e", "c33c33ce3ee3aa", "c3c3c3c3c3c3", "cccccccccccc"]:
                c += [(f"setmclvl {rng.randrange(256)} {sfx} {am} {rng.choice(NODES)} {l}", "levels-malformed")
                      for l in (-1, 1, 4)]
        mc_nodes = [0, 1, 2, 3, 4, 5, 0o11, 0o21, 0o15, 0o123, 0o111, 0o5555, 0o1111] + rng.sample(NODES, 20)
        for cf in [dflt] + cfgs[:3]:
            for n in mc_nodes:
                for lvl in ("none", -1, 0, 1, 2, 3, 4, 5, 9):
                    c.append((f"mcast {cf} 1 {n} - {lvl}", "multicast"))
                for nl in (-1, 0, 1, 2, 3, 4, 7):
                    c.append((f"mcast {cf} 1 {n} {nl} none", "multicast"))
            c.append((f"mcast {cf} 0 {rng.choice(NODES)} - none", "multicast"))
        # chained routes (the composition the theorem C04_route_model is about)
        if thorough:
            c += [(f"route {s} {d}", "route-exhaustive") for s in NODES for d in NODES]
            res.exhaustive_blocks.append("chained next-hop choices for all 781x781 pairs")
        else:
            c += [(f"route {rng.choice(NODES)} {rng.choice(NODES)}", "route") for _ in range(30000)]
        return c

    def search_lines(self, res, tier, rng):
        """the failing-input search uses the quick generator (it is exhaustive on the finite blocks)"""
        r2 = Result(self.prop, tier, res.seed)
        return [l for l, _ in self.cases(r2, "quick", rng)]

    # ------------------------------------------------------------------ judge (property, not model)
    def _table(self, pfx, sfx, am):
        """the implementation's own listening addresses for all nodes under one configuration:
        address -> [(node, pipe)], and node -> [six addresses or error]"""
        key = (pfx, sfx, am)
        t = self._tables.get(key)
        if t is None:
            if len(self._tables) > 150:
                self._tables.clear()
            o = self.objs()
            by_addr, by_node = {}, {}
            for n in NODES:
                try:
                    obj = o.with_cfg(pfx, sfx, am, n, fresh=True)
                    la = shim_basic.listen_addresses(obj._spi_shim)
                except (SimTimeout, Skipped):
                    return None  # the table cannot be completed: nothing is judged against it
                except Exception as e:  # noqa
                    la = "exc=" + exc_name(e)
                by_node[n] = la
                if isinstance(la, list):
                    for p, a in enumerate(la):
                        if a is not None:
                            by_addr.setdefault(bytes(a), []).append((n, p))
            t = self._tables[key] = (by_addr, by_node)
        return t

    def _judge_listen(self, line, pfx, sfx, am, node, pipes):
        """node must listen on 6 five-byte addresses; pipes 1..5 (and 0 without multicast) unique in the
        whole address space; pipe 0 with multicast shared by exactly the node's level; pipes 1..5 share
        bytes 1..4"""
        t = self._table(pfx, sfx, am)
        if t is None:
            return None
        by_addr, by_node = t
        la = by_node[node]
        if not isinstance(la, list):
            return Finding(line, f"constructing node {oct(node)} raises {la}", {"node": node})
        if any(a is None or len(a) != 5 for a in la):
            return Finding(line, f"node {oct(node)} does not listen on six 5-byte addresses: {la}", {"node": node})
        for p in pipes:
            who = by_addr[bytes(la[p])]
            if p == 0 and am:
                want = LEVEL_PIPE0[level_of(node)]
                if sorted(who) != want:
                    odd = sorted(set(who) ^ set(want))[:4]
                    return Finding(line, f"pipe-0 address {hx(la[0])} of node {oct(node)} (level {level_of(node)}) "
                                         f"is not shared by exactly the nodes of that level; differing (node,pipe): "
                                         f"{[(oct(n), q) for n, q in odd]}", {"node": node, "pipe": 0})
            elif who != [(node, p)]:
                other = [(oct(n), q) for n, q in who if (n, q) != (node, p)][:4]
                return Finding(line, f"address {hx(la[p])} of node {oct(node)} pipe {p} is also listened on by "
                                     f"(node, pipe) {other}", {"node": node, "pipe": p})
        if len({bytes(a[1:]) for a in la[1:]}) != 1:
            return Finding(line, f"pipes 1-5 of node {oct(node)} do not share bytes 1..4: {[hx(a) for a in la]}",
                           {"node": node})
        return None

    def _judge_hop(self, line, pfx, sfx, am, s, d, tx, spec_next):
        """the address node s transmits to for destination d must be listened on by the tree neighbour the
        spec names, and by nobody else"""
        t = self._table(pfx, sfx, am)
        if t is None or tx in ("exc=Skipped", "exc=SimTimeout"):
            return None
        by_addr, _ = t
        if tx == "self" or tx.startswith("exc="):
            return Finding(line, f"node {oct(s)} does not transmit a frame for {oct(d)} ({tx})", {"s": s, "d": d})
        who = by_addr.get(bytes.fromhex(tx), [])
        if [n for n, _ in who] != [spec_next]:
            return Finding(line, f"node {oct(s)} sends a frame for {oct(d)} to address {tx}; listening there: "
                                 f"{[(oct(n), p) for n, p in who][:5]}; the tree neighbour towards the destination "
                                 f"is {oct(spec_next)}", {"s": s, "d": d, "tx": tx})
        return None

    MAX_FINDINGS = 25  # one is enough for the verdict; the rest only illustrates

    def judge(self, triples):
        out = []
        o = self.objs()
        pairs = []  # (line, s, d) whose chained route is to be judged
        for l, io, mo in triples:
            if len(out) >= self.MAX_FINDINGS:
                break
            op, *a = l.split()
            f = None
            if io == "exc=Skipped":
                continue
            if io == "exc=SimTimeout":
                out.append(Finding(l, f"the library call behind `{l}` does not return within {BUDGET:.0f} s on the "
                                      f"fake radio (a loop that terminates in the model does not terminate)",
                                   {"class": "hang"}))
                continue
            try:
                if op in ("l2p", "route"):
                    s, d = int(a[0]), int(a[1])
                    if s in NODESET and d in NODESET and s != d and (op == "route" or int(a[2]) <= 1):
                        pairs.append((l, s, d, DEF_PFX, DEF_SFX, 1, None))
                elif op == "txaddr":
                    pfx, sfx, am, s, d, st = int(a[0]), a[1], int(a[2]), int(a[3]), int(a[4]), int(a[5])
                    if cfg_ok(pfx, sfx) and s in NODESET and d in NODESET and s != d and st <= 1:
                        pairs.append((l, s, d, pfx, sfx, am, io))  # io = the TX_ADDR observed on the radio
                elif op == "begin":
                    n = int(a[0])
                    if n in NODESET:
                        f = self._judge_listen(l, DEF_PFX, DEF_SFX, 1, n, range(6))
                        pairs += [(l, n, d, DEF_PFX, DEF_SFX, 1, None) for d in (0, 0o1, 0o5432, 0o1234) if d != n]
                elif op in ("pipeaddr", "rxaddrs"):
                    pfx, sfx, am, n = int(a[0]), a[1], int(a[2]), int(a[3])
                    if cfg_ok(pfx, sfx) and n in NODESET:
                        if op == "rxaddrs":
                            f = self._judge_listen(l, pfx, sfx, am, n, range(6))
                            t = self._table(pfx, sfx, am)
                            if f is None and t is not None and isinstance(t[1][n], list) and not io.startswith("exc="):
                                # what THIS object's radio listens on (it may have lived through other configurations
                                # before) against a freshly constructed node of the same configuration
                                want = " ".join("closed" if x is None else hx(x) for x in t[1][n])
                                if io != want:
                                    f = Finding(l, f"node {oct(n)} re-begun under this configuration listens on [{io}], a freshly "
                                                   f"constructed node with the same settings on [{want}]", {"node": n, "class": "stale"})
                        elif int(a[4]) <= 5:
                            if io.startswith("exc=") or len(io) != 10:
                                f = Finding(l, f"_pipe_address({oct(n)}, {a[4]}) gives {io}, not a 5-byte address",
                                            {"node": n})
                            else:
                                f = self._judge_listen(l, pfx, sfx, am, n, [int(a[4])])
                elif op in ("lvladdr", "setmclvl", "mcast"):
                    f = self._judge_level(l, op, a, io)
            except Infra:
                raise
            except (SimTimeout, Skipped):
                f = None
            except Exception as e:  # an exception out of the implementation while judging is a finding
                f = Finding(l, f"implementation raised {exc_name(e)} while the property was evaluated", {})
            if f:
                out.append(f)
        if pairs:
            spec = run_driver([f"specpath {s} {d}" for _, s, d, *_ in pairs])
            for (l, s, d, pfx, sfx, am, tx_obs), sp in zip(pairs, spec):
                if len(out) >= self.MAX_FINDINGS:
                    break
                want = [int(x) for x in sp.split(",")]
                try:
                    got = self._chain(s, d)
                except (SimTimeout, Skipped):
                    continue
                except Exception as e:  # noqa
                    got = ["exc=" + exc_name(e)]
                if got != want or len(want) - 1 > 8:
                    out.append(Finding(l, f"frame from {oct(s)} to {oct(d)}: the nodes' own next-hop choices visit "
                                          f"{[oct(x) if isinstance(x, int) else x for x in got]}, the tree path is "
                                          f"{[oct(x) for x in want]}", {"s": s, "d": d, "class": "route"}))
                    continue
                # the first hop's transmission: address and who listens there
                try:
                    obj = o.with_cfg(pfx, sfx, am, s)
                    node, pipe, mc = obj._logi_2_phys(d, 0)
                    with deadline():
                        tx = "self" if node == s else hx(obj._pipe_address(node, pipe))
                except Exception as e:  # noqa
                    mc, tx = False, "exc=" + exc_name(e)
                if tx_obs is not None:
                    tx = tx_obs  # what write()/_write() really programmed into TX_ADDR
                f = None
                if mc:
                    f = Finding(l, f"unicast hop {oct(s)} -> {oct(d)} is flagged multicast", {"s": s, "d": d})
                f = f or self._judge_hop(l, pfx, sfx, am, s, d, tx, want[1])
                if f:
                    out.append(f)
        return out

    def _judge_level(self, l, op, a, io):
        pfx, sfx, am = int(a[0]), a[1], int(a[2])
        if not (cfg_ok(pfx, sfx) and (am or op == "setmclvl")):
            return None
        t = self._table(pfx, sfx, am)
        if t is None:
            return None
        by_addr, by_node = t
        if op == "lvladdr":
            L, got = int(a[3]), io
        elif op == "setmclvl":
            node = int(a[3]) if len(a) > 4 else 0o123
            if node not in NODESET:
                return None
            L, got = min(4, max(int(a[-1]), 0)), io.split()[-1]
            if io.split()[0] != str(L):
                return Finding(l, f"multicast_level = {a[-1]} leaves level {io.split()[0]}, expected {L}", {})
            if not am:
                # without multicasting pipe 0 is not a level's shared pipe: after the assignment the node must
                # (still) listen there on its own pipe-0 address, which nobody else listens on
                la = by_node[node]
                if not isinstance(la, list) or la[0] is None:
                    return Finding(l, f"node {oct(node)} has no pipe-0 address ({la})", {})
                if got != hx(la[0]):
                    who = [(oct(n), p) for n, p in by_addr.get(bytes.fromhex(got), [])][:4] if len(got) == 10 else []
                    return Finding(l, f"multicast_level = {a[-1]} on node {oct(node)} (multicasting off) leaves pipe 0 on "
                                      f"{got} ({'the address of (node, pipe) ' + str(who) if who else 'no address of this node'}); "
                                      f"the node's own pipe-0 address is {hx(la[0])}", {"node": node, "pipe": 0})
                return self._judge_listen(l, pfx, sfx, am, node, [0])
        else:
            node, nl, lvl = int(a[3]), a[4], a[5]
            if node not in NODESET:
                return None
            own = level_of(node) if nl == "-" else min(4, max(int(nl), 0))
            if lvl == "none":
                L = own
            elif 0 <= int(lvl) <= 3:
                L = int(lvl)
            else:
                return None  # level 4 (D13) and out-of-range levels: judged under C14
            got = io
            if got == "self":
                return None  # local loop-back (D14): judged under C14
        if L > 4:
            return None
        rep = next(n for n in NODES if level_of(n) == L)
        la = by_node[rep]
        if not isinstance(la, list) or la[0] is None:
            return Finding(l, f"level-{L} node {oct(rep)} has no pipe-0 address ({la})", {})
        if got != hx(la[0]):
            return Finding(l, f"{l.split()[0]}: level {L} is addressed as {got}, but the nodes of level {L} "
                              f"(e.g. {oct(rep)}) listen for multicasts on {hx(la[0])}", {"level": L})
        return self._judge_listen(l, pfx, sfx, am, rep, [0])


def run(tier):
    try:
        return run_check(C04(), tier)
    finally:
        disarm()


def replay(path):
    try:
        return replay_generic(C04(), path)
    finally:
        disarm()
