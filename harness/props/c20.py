"""C20 — rf24_lite honours the same link-level contract as RF24.

The generators and spec judges of C01 / C02 / C08 / C10 are reused, restricted to the lite API, with
the lite driver as transmitter, as receiver and on both ends (so lite<->full interoperability is
exercised in both directions); C03's part is judged by a small spec of the *documented* encodings
of the lite attributes (docs/troubleshooting.rst "About the lite version" + the data sheet), and
`load_ack()` has an exhaustive block (every length 0..33 x pipe -1..6).

Every two-radio session starts with the 5 ops
    new a <cls> 0 ; new b <cls> 1 ; a <nop> ; b <nop> ; env sleep <K>
(<nop> = `enter` for the full driver, which powers the radio up, `update` for the lite driver);
K tells the judge which property's spec applies.  The imported judges are class-agnostic (they look at
radio dumps, results and air records); they get the line with the canonical 4-op prefix they expect.
"""
import itertools
from harness.framework import *
from harness.rfsession import run_line, parse_out, CFG_KEYS
from harness.gen_rf import rbytes, r_int, r_bool, r_addr, r_pipe
from harness.props.c01 import C01
from harness.props.c02 import C02, rand_faults
from harness.props.c10 import C10

ADDR = "3132333435"
PAIRS = [("lite", "lite"), ("lite", "rf24"), ("rf24", "lite")]
K_C01, K_C02, K_C10 = 1, 2, 3
CANON = ["rf 2 1 new a rf24 0", "new b rf24 1", "a enter", "b enter"]


def nop(cls):
    return "enter" if cls == "rf24" else "update"


def head(ca, cb, k):
    return [f"new a {ca} 0", f"new b {cb} 1", f"a {nop(ca)}", f"b {nop(cb)}", f"env sleep {k}"]


def kind_of(line):
    """(K, ca, cb) of a two-radio session of this file, else None"""
    p = line.split(" ; ")
    if len(p) < 5 or not p[0].startswith("rf 2 1 new a ") or not p[4].startswith("env sleep "):
        return None
    ca, cb = p[0].split()[5], p[1].split()[2]
    if p[2] != f"a {nop(ca)}" or p[3] != f"b {nop(cb)}" or "lite" not in (ca, cb):
        return None
    return int(p[4].split()[2]), ca, cb


def canon(line):
    p = line.split(" ; ")
    return " ; ".join(CANON + p[4:])


# ------------------------------------------------------------------------------------------------
# C01 part: payload integrity
# ------------------------------------------------------------------------------------------------
def c01_setup(rng, cfg, ca, cb):
    aw, pipe = cfg["aw"], cfg["pipe"]
    base = bytes(rng.randrange(1, 255) for _ in range(aw))
    ops = head(ca, cb, K_C01)
    for o in "ab":
        ops += [f"{o} set channel {cfg['ch']}", f"{o} set data_rate {cfg['rate']}", f"{o} set address_length {aw}"]
        if cfg["dyn"]:
            ops.append(f"{o} set dynamic_payloads T")
        else:
            ops += [f"{o} set dynamic_payloads F", f"{o} set payload_length {cfg['plen']}"]
    if pipe >= 2:
        other = bytes([base[0] ^ 0x55]) + base[1:]
        ops.append(f"b open_rx_pipe 1 {other.hex()}")
    ops.append(f"b open_rx_pipe {pipe} {base.hex()}")
    ops += ["b set listen T", "a set listen F", f"a open_tx_pipe {base.hex()}"]
    return ops


def c01_cfg(rng):
    return {"aw": rng.choice([3, 4, 5]), "pipe": rng.randrange(6), "ch": rng.randint(0, 125),
            "rate": rng.choice([1, 2, 250]), "dyn": rng.random() < 0.5, "plen": rng.randint(1, 32)}


def c01_session(rng, cfg, ca, cb, nsend):
    ops = c01_setup(rng, cfg, ca, cb)
    unread = 0
    overflow = rng.random() < 0.15
    for _ in range(nsend):
        n = rng.choice([0, 1, 2, 7, 24, 31, 32, 33, 40, rng.randint(1, 32), rng.randint(1, 32)])
        kind = rng.choice("mi")
        noack = rng.choice("FFT")
        x = rng.random()
        k = rng.randint(1, 3) if 0.75 <= x < 0.9 and not overflow else 1
        if not overflow:
            while unread + k > 3:
                ops += ["b available", "b get pipe", "b read N"]
                unread -= 1
        if x < 0.75 or overflow:
            ops.append(f"a send {kind}:{rbytes(rng, n)} {noack} 0 {rng.choice('FT')}")
        elif x < 0.9:
            ops.append(f"a sendl {noack} 0 F " + " ".join(f"{rng.choice('mi')}:{rbytes(rng, rng.randint(1, 32))}" for _ in range(k)))
        else:
            ops.append(f"a write {kind}:{rbytes(rng, n)} {noack} F ; a update")
        unread = min(3, unread + k)
        while unread > 0 and rng.random() < (0.2 if overflow else 0.4):
            ops += ["b available", "b get pipe", "b read N"]
            unread -= 1
    for _ in range(4):
        ops += ["b available", "b get pipe", "b read N"]
    return "rf 2 1 " + " ; ".join(ops)


def c01_lengths(rng, ca, cb):
    out = []
    for dyn, plen in ((False, 8), (False, 32), (True, 0)):
        for mut in (False, True):
            cfg = {"aw": 5, "pipe": 1, "ch": 76, "rate": 1, "dyn": dyn, "plen": plen}
            ops = c01_setup(rng, cfg, ca, cb)
            for n in range(41):
                ops += [f"a send {'m' if mut else 'i'}:{rbytes(rng, n)} F 0 F", "b available", "b get pipe", "b read N", "b read N"]
            out.append("rf 2 1 " + " ; ".join(ops))
    return out


# ------------------------------------------------------------------------------------------------
# C02 part: send()/resend() truthful and terminating
# ------------------------------------------------------------------------------------------------
def c02_setup(cfg, ca, cb):
    ops = head(ca, cb, K_C02)
    for o in "ab":
        if cfg["ack"]:
            ops.append(f"{o} set ack T")
    ops += [f"a set ard {cfg['ard']}", f"a set arc {cfg['arc']}", f"b open_rx_pipe 1 {ADDR}"]
    if cfg["peer"]:
        ops.append("b set listen T")
    ops += ["a set listen F", f"a open_tx_pipe {ADDR}"]
    return ops


def c02_cfg(rng):
    return {"ack": rng.random() < 0.4, "ard": rng.choice([250, 500, 1500, 4000, rng.randint(250, 4000)]),
            "arc": rng.choice([0, 1, 2, 3, 5, 15, rng.randint(0, 15)]), "peer": rng.random() < 0.85}


def c02_session(rng, cfg, ca, cb, nops):
    ops = c02_setup(cfg, ca, cb)
    for _ in range(nops):
        budget = (1 + cfg["arc"]) * 4
        ops.append("env faults " + rand_faults(rng, rng.randint(0, budget + 3)))
        if cfg["ack"] and rng.random() < 0.7:
            ops.append(f"b load_ack {rbytes(rng, rng.randint(1, 8))} 1")
        x = rng.random()
        if x < 0.7:
            ops.append(f"a send {rng.choice('mi')}:{rbytes(rng, rng.randint(1, 32))} {rng.choice('FFFT')} {rng.choice([0, 0, 1, 2, 3])} {rng.choice('FT')}")
        elif x < 0.8:
            # (with ACK payloads a list consumes several of the peer's payloads in one op; C02's judge tracks one per op)
            k = 1 if cfg["ack"] else rng.randint(1, 3)
            ops.append(f"a sendl {rng.choice('FFT')} {rng.choice([0, 1])} {rng.choice('FT')} " + " ".join(f"i:{rbytes(rng, rng.randint(1, 32))}" for _ in range(k)))
        else:
            ops.append(f"a resend {rng.choice('FT')}")
        ops += ["b flush_rx"]
    return "rf 2 1 " + " ; ".join(ops)


def c02_stale_ack(rng, ca, cb):
    cfg = {"ack": True, "ard": 250, "arc": rng.choice([0, 1, 2]), "peer": True}
    ops = c02_setup(cfg, ca, cb)
    for _ in range(rng.randint(0, 2)):
        ops += [f"b load_ack {rbytes(rng, rng.randint(1, 6))} 1", f"a send i:{rbytes(rng, 3)} F 0 T", "b flush_rx"]
    ops += ["env faults " + "L" * ((1 + cfg["arc"]) * rng.choice([1, 2])), f"b load_ack {rbytes(rng, 4)} 1",
            f"a send i:{rbytes(rng, 5)} F {rng.choice([0, 0, 1])} {rng.choice('TTF')}", "b flush_rx"]
    for _ in range(rng.randint(1, 3)):
        ops += ["env faults " + rng.choice(["-", "L", "A", "LL", "AD", "LLLLLL"]), f"a resend {rng.choice('FFT')}", "b flush_rx"]
    ops += [f"b load_ack {rbytes(rng, 2)} 1", f"a send i:{rbytes(rng, 2)} F 0 F"]
    return "rf 2 1 " + " ; ".join(ops)


def c02_patterns(maxlen, ca, cb):
    out = []
    for n in range(maxlen + 1):
        for pat in itertools.product("DLA", repeat=n):
            f = "".join(pat) or "-"
            for fr in (0, 1):
                cfg = {"ack": False, "ard": 250, "arc": 1, "peer": True}
                ops = c02_setup(cfg, ca, cb) + [f"env faults {f}", f"a send i:aa01 F {fr} F", "b flush_rx", "a resend F", "b flush_rx",
                                                "a send i:bb02 F 0 F", "b flush_rx", "a resend F"]
                out.append("rf 2 1 " + " ; ".join(ops))
    return out


# ------------------------------------------------------------------------------------------------
# C10 part: accessors
# ------------------------------------------------------------------------------------------------
def c10_session(rng, ca, cb, nops):
    dyn = rng.random() < 0.6
    ack = dyn and rng.random() < 0.4
    ln = rng.randint(1, 32)
    ops = head(ca, cb, K_C10)
    for o in "ab":
        if dyn:
            ops.append(f"{o} set dynamic_payloads T")
        else:
            ops += [f"{o} set dynamic_payloads F", f"{o} set payload_length {ln}"]
        if ack:
            ops.append(f"{o} set ack T")
    ops += ["a set ard 250", f"a set arc {rng.choice([0, 1, 3])}", f"b open_rx_pipe 1 {ADDR}", "b set listen T",
            "a open_rx_pipe 1 a1a2a3a4a5", "a open_rx_pipe 2 a2", "a open_rx_pipe 4 a4", "a set listen F", f"a open_tx_pipe {ADDR}"]
    listening = False
    for _ in range(nops):
        x = rng.random()
        if x < 0.08:
            listening = not listening
            ops.append(f"a set listen {'T' if listening else 'F'}")
            if not listening:
                ops.append(f"a open_tx_pipe {ADDR}")
        elif x < 0.3:
            if not listening and rng.random() < 0.5:
                listening = True
                ops.append("a set listen T")
            p = rng.choice([0, 1, 2, 4]) if listening else 1
            n = rng.randint(1, 32) if dyn else (ln if rng.random() < 0.9 else rng.randint(1, 32))
            ops.append(f"env inject 0 {p} {rbytes(rng, n)}")
        elif x < 0.45 and not listening:
            ops.append("env faults " + rng.choice(["-", "L" * 4, "LD", "A", "LLLLLLLL"]))
            if ack and rng.random() < 0.6:
                ops.append(f"b load_ack {rbytes(rng, rng.randint(1, 5))} 1")
            ops.append(rng.choice([f"a send i:{rbytes(rng, rng.randint(1, 32))} F 0 T", f"a write i:{rbytes(rng, rng.randint(1, 32))} F {rng.choice('TF')}"]))
            ops.append("b flush_rx")
        elif x < 0.5:
            ops.append(f"a interrupt_config {rng.choice('TF')} {rng.choice('TF')} {rng.choice('TF')}")
        elif x < 0.55:
            ops.append(f"a clear_status_flags {rng.choice('TF')} {rng.choice('TF')} {rng.choice('TF')}")
        elif x < 0.58:
            ops.append("a flush_rx")
        elif x < 0.61:
            ops.append("a flush_tx")
        elif x < 0.7:
            ops.append("a read N")
        else:
            ops.append("a update")
        k = rng.random()
        if k < 0.5:
            ops += ["a update", "a get pipe", "a get tx_full", "a get irq_dr", "a get irq_ds", "a get irq_df"]
        if k < 0.8:
            ops += [rng.choice(["a available", "a any", "a fifo T N", "a fifo F N", "a fifo T T", "a fifo T F", "a fifo F T", "a fifo F F"])]
    return "rf 2 1 " + " ; ".join(ops)


# ------------------------------------------------------------------------------------------------
# C08 part: the pipe-0 rule on entering RX mode (lite object `a`, a peer `b` of either class)
# ------------------------------------------------------------------------------------------------
T1, T2 = "3132333435", "3232333435"
A_FULL, A_SHORT, A_SHARE = "a1a2a3a4a5", "b1b2b3", "3132333499"
ALPHA8 = [
    f"a open_rx_pipe 0 {A_FULL}", f"a open_rx_pipe 0 {T1}", f"a open_rx_pipe 0 {A_SHORT}", f"a open_rx_pipe 1 {A_SHARE}",
    "a close_rx_pipe 0", "a close_rx_pipe 1",
    f"a open_tx_pipe {T1}", f"a open_tx_pipe {T2}", f"a open_tx_pipe {A_FULL}",
    "a set listen T", "a set listen F",
]


def c08_prefix(cb):
    return (f"rf 2 1 new a lite 0 ; a update ; new b {cb} 1 ; b {nop(cb)} ; b open_rx_pipe 1 {T1} ; b open_rx_pipe 2 32 ; "
            "b set listen T")


def c08_random(rng, cb, depth):
    ops = []
    for _ in range(depth):
        x = rng.random()
        if x < 0.8:
            ops.append(rng.choice(ALPHA8))
        elif x < 0.85:
            ops.append(f"a set address_length {rng.choice([3, 4, 5])}")
        elif x < 0.9:
            ops.append(f"a open_rx_pipe 0 {bytes(rng.randrange(256) for _ in range(rng.choice([1, 2, 3, 4, 5]))).hex()}")
        elif x < 0.94:
            ops.append(f"a open_tx_pipe {bytes(rng.randrange(256) for _ in range(rng.choice([3, 4, 5]))).hex()}")
        elif x < 0.97:
            ops.append(f"a close_rx_pipe {rng.choice([0, 0, 1, 5, 6, -1])}")
        else:
            ops.append("a send i:70 F 0 F ; b flush_rx")
    return c08_prefix(cb) + " ; " + " ; ".join(ops)


def judge_c08(l, io):
    names, ops = l.split(" ; "), parse_out(io)
    user0 = None      # ghost: the address the user last opened pipe 0 with
    for k, (name, a) in enumerate(zip(names, ops)):
        if k < 7 or not a["radios"]:
            continue
        r, t = a["radios"][0], name.split()
        ok = not a["res"].startswith("exc=")
        if t[:2] == ["a", "open_rx_pipe"] and t[2] == "0" and ok:
            user0 = t[3]
        if t[:3] == ["a", "close_rx_pipe", "0"] and ok:
            user0 = None
        what = None
        if t[0] == "a" and t[1] in ("set", "open_rx_pipe", "close_rx_pipe", "open_tx_pipe"):
            if "CE:role-change-with-CE-high" in r.get("viol", ""):
                what = "the role (PRIM_RX) was changed while CE was high"
            elif int(r["cfg"]) & 3 == 3 and r["ce"] != "1":
                what = "radio is in RX mode but CE is low"
        if what is None and t[:3] == ["a", "set", "listen"] and t[3] == "T" and ok:
            is_open = int(r["rxen"]) & 1 == 1
            if user0 is None and is_open:
                what = "entering RX mode: pipe 0 is open although the user never opened / has closed it"
            elif user0 is not None and not is_open:
                what = f"entering RX mode: pipe 0 is closed although the user opened it with {user0}"
            elif user0 is not None and not r["a0"].startswith(user0):
                what = f"entering RX mode: RX_ADDR_P0={r['a0']} is not the user's address {user0}"
        if what:
            return Finding(l, f"op {k} `{name}`: {what}", {"op_index": k, "part": "C08"})
    return None


# ------------------------------------------------------------------------------------------------
# C03 part: documented encodings of the lite attributes (spec written from the docs / data sheet)
# ------------------------------------------------------------------------------------------------
def clamp(v, lo, hi):
    return max(lo, min(hi, v))


def cfg_op(rng, o="a"):
    k = rng.randrange(30)
    if k == 0:
        return f"{o} set channel {r_int(rng, 0, 125)}"
    if k == 1:
        return f"{o} set data_rate {rng.choice([1, 2, 250, 250, 1, 2, 0, 3, -1, 1000])}"
    if k == 2:
        return f"{o} set pa_level {rng.choice([-18, -12, -6, 0, -18, -12, -6, 0, -5, 6, 1, -24, 'T', 'F', 'X', '[-6]'])}"
    if k == 3:
        return f"{o} set address_length {rng.choice([3, 4, 5, 3, 4, 5, 2, 6, 0, -1, 100])}"
    if k == 4:
        return f"{o} set ard {r_int(rng, 250, 4000)}"
    if k == 5:
        return f"{o} set arc {r_int(rng, 0, 15)}"
    if k == 6:
        return f"{o} set dynamic_payloads {r_bool(rng)}"
    if k == 7:
        return f"{o} set payload_length {r_int(rng, 1, 32)}"
    if k == 8:
        return f"{o} set ack {r_bool(rng)}"
    if k == 9:
        return f"{o} interrupt_config {r_bool(rng)} {r_bool(rng)} {r_bool(rng)}"
    if k == 10:
        return f"{o} set power {r_bool(rng)}"
    if k == 11:
        return f"{o} open_rx_pipe {r_pipe(rng)} {r_addr(rng) if rng.random() < 0.95 else '-'}"
    if k == 12:
        return f"{o} close_rx_pipe {r_pipe(rng)}"
    if k == 13:
        return f"{o} open_tx_pipe {r_addr(rng)}"
    if k == 14:
        return f"{o} set listen {r_bool(rng)}"
    if k == 15:
        return f"{o} load_ack {rbytes(rng, rng.choice([0, 1, 5, 31, 32, 33]))} {r_pipe(rng)}"
    if k == 16:
        return f"{o} set ce_pin {rng.choice('01')}"
    return f"{o} get " + rng.choice(["channel", "data_rate", "pa_level", "address_length", "ard", "arc", "dynamic_payloads",
                                     "payload_length", "ack", "power", "listen", "rpd", "ce_pin"])


def traffic_op(rng, o="a", rid=0):
    k = rng.randrange(23)
    if k == 0:
        return f"{o} available"
    if k == 1:
        return f"{o} any"
    if k == 2:
        return f"{o} read N"
    if k == 3:
        return f"{o} get pipe"
    if k == 4:
        return f"{o} update"
    if k == 5:
        return f"{o} fifo {r_bool(rng)} {rng.choice('NTF')}"
    if k == 6:
        return f"{o} get tx_full"
    if k == 7:
        return f"{o} get irq_{rng.choice(['dr', 'ds', 'df'])}"
    if k == 8:
        return f"{o} clear_status_flags {r_bool(rng)} {r_bool(rng)} {r_bool(rng)}"
    if k == 9:
        return f"{o} flush_rx"
    if k == 10:
        return f"{o} flush_tx"
    if k in (12, 13, 14):
        n = rng.choice([1, 1, 2, 5, 8, 31, 32, 32, 0, 33, 40])
        return f"{o} send {rng.choice('mi')}:{rbytes(rng, n)} {rng.choice('FFFT')} {rng.choice([0, 0, 0, 1, 2, 3])} {rng.choice('FFT')}"
    if k == 15:
        n = rng.choice([1, 4, 32, 0, 33])
        return f"{o} write {rng.choice('mi')}:{rbytes(rng, n)} {rng.choice('FFT')} {rng.choice('FFT')}"
    if k == 16:
        return f"{o} resend {rng.choice('FFT')}"
    if k in (17, 18, 19):
        n = rng.choice([1, 2, 5, 32, 32, 8])
        return f"env inject {rid} {rng.randint(0, 5)} {rbytes(rng, n)}"
    if k == 20:
        return "env faults " + ("".join(rng.choice("DDDLLA") for _ in range(rng.randint(0, 24))) or "-")
    if k == 21:
        return f"{o} read {rng.choice([1, 5, 32])}"
    return f"{o} set listen {r_bool(rng)}"


def cfg_session(rng, depth, plus=True):
    return f"rf 1 {1 if plus else 0} new a lite 0 ; a update ; " + " ; ".join(cfg_op(rng) for _ in range(depth))


def mixed_session(rng, depth, plus=True):
    ops = [cfg_op(rng) if rng.random() < 0.4 else traffic_op(rng) for _ in range(depth)]
    return f"rf 1 {1 if plus else 0} new a lite 0 ; a update ; " + " ; ".join(ops)


def cfg_pairs():
    alpha = ["set pa_level -18", "set pa_level 0", "set data_rate 250", "set data_rate 2", "set data_rate 1",
             "set power F", "set power T", "set listen T", "set listen F", "interrupt_config F T F", "interrupt_config T T T",
             "set dynamic_payloads F", "set dynamic_payloads T", "set ack T", "set ack F", "set ard 250", "set ard 2999",
             "set arc 0", "set arc 15", "set payload_length 8", "set payload_length 40", "set address_length 3",
             "set address_length 7", "set channel 125", "open_rx_pipe 0 3132333435", "open_rx_pipe 3 aa", "close_rx_pipe 0",
             "close_rx_pipe 3", "open_tx_pipe aabbccddee", "load_ack 0102 1"]
    getters = " ; ".join("a get " + g for g in ["pa_level", "data_rate", "power", "listen", "dynamic_payloads", "ack", "ard", "arc",
                                                  "payload_length", "address_length", "channel"])
    return [f"rf 1 1 new a lite 0 ; a update ; a {x} ; a {y} ; {getters}" for x in alpha for y in alpha]


def regs(r):
    d = {k: r[k] for k in CFG_KEYS}
    return d


def spec_cfg(t, p):
    """documented effect of call `t` on the configuration registers `p` (a dict of dump strings):
    returns (expected result or None = not judged, expected registers) or None when the call is outside this spec"""
    e = dict(p)
    cfg, feat, dyn, retr, rf = int(p["cfg"]), int(p["feat"]), int(p["dyn"]), int(p["retr"]), int(p["rf"])
    if t[0] == "get":
        a = t[1]
        val = {
            "channel": p["ch"], "arc": str(retr & 15), "ard": str(((retr >> 4) + 1) * 250),
            "payload_length": p["pw"].split(",")[0], "dynamic_payloads": "1" if feat & 4 else "0",
            "data_rate": "250" if rf & 0x20 else ("2" if rf & 8 else "1"),
            "pa_level": str(-18 + 6 * ((rf >> 1) & 3)), "power": "T" if cfg & 2 else "F",
            "address_length": str(int(p["aw"]) + 2), "ack": "T" if (feat & 6 == 6 and dyn) else "F",
            "listen": "T" if cfg & 3 == 3 else "F",
        }.get(a)
        return (val, e) if val is not None else None
    if t[0] == "interrupt_config":
        m = (0 if t[1] == "T" else 0x40) | (0 if t[2] == "T" else 0x20) | (0 if t[3] == "T" else 0x10)
        e["cfg"] = str((cfg & 0x0F) | m)
        return "ok", e
    if t[0] != "set":
        return None
    a, v = t[1], t[2]
    if a in ("dynamic_payloads", "ack", "power"):
        b = v == "T"
        if a == "dynamic_payloads":
            e["feat"], e["dyn"] = str((feat & 3) | (4 if b else 0)), str(0x3F if b else 0)
        elif a == "ack":
            if b:
                e["feat"], e["dyn"] = str(feat | 6), "63"
            else:
                e["feat"] = str(feat & 5)
        else:
            e["cfg"] = str((cfg & 0x7D) | (2 if b else 0))
        return "ok", e
    try:
        n = int(v)
    except ValueError:
        n = None
    if a == "channel":
        if n is None or not 0 <= n <= 125:
            return "exc=ValueError", e
        e["ch"] = str(n)
    elif a == "arc":
        e["retr"] = str((retr & 0xF0) | clamp(n, 0, 15))
    elif a == "ard":
        e["retr"] = str((retr & 0x0F) | (((clamp(n, 250, 4000) - 250) // 250) << 4))
    elif a == "payload_length":
        e["pw"] = ",".join([str(clamp(n, 1, 32))] * 6)
    elif a == "address_length":
        e["aw"] = str(n - 2 if 3 <= n <= 5 else 0)
    elif a == "data_rate":
        if n not in (1, 2, 250):
            return None   # outside the documented domain (the lite setter takes anything: an observation, not judged)
        e["rf"] = str((rf & 0xD7) | {1: 0, 2: 8, 250: 0x20}[n])
    elif a == "pa_level":
        if v == "F":
            n = 0           # False == 0
        if n not in (-18, -12, -6, 0):
            return "exc=ValueError", e
        e["rf"] = str((rf & 0xF8) | (((n + 18) // 6) << 1) | 1)
    else:
        return None
    return "ok", e


def judge_cfg(l, io):
    names, ops = l.split(" ; "), parse_out(io)
    for k, (name, a) in enumerate(zip(names, ops)):
        if k < 2 or not a["radios"] or not ops[k - 1]["radios"]:
            continue
        t = name.split()[1:]
        r, pr = a["radios"][0], ops[k - 1]["radios"][0]
        what = None
        viol = [v for v in r.get("viol", "[]")[1:-1].split("|") if v and v != "SETUP_AW:illegal:0" and not v.startswith("CE:")]
        if viol:
            what = f"reserved/out-of-range register write logged by the radio: {viol[-1]}"
        else:
            sp = spec_cfg(t, regs(pr))
            if sp is not None:
                res, e = sp
                if res is not None and a["res"] != res:
                    what = f"returns {a['res']}, documented behaviour gives {res}"
                else:
                    for ck in CFG_KEYS:
                        if r[ck] != e[ck]:
                            what = f"register {ck}={r[ck]} after the call, documented encoding gives {e[ck]} (before: {pr[ck]})"
                            break
        if what:
            return Finding(l, f"op {k} `{' '.join(t)}`: {what}", {"op_index": k, "part": "C03"})
    return None


# ------------------------------------------------------------------------------------------------
# load_ack(): exhaustive block
# ------------------------------------------------------------------------------------------------
LOADACK_TAG = "rf 1 1 new a lite 0 ; a get rpd ; "


def loadack_sessions(rng):
    out = []
    for pre in ("", "a set ack T ; ", "a set ack T ; a set listen T ; ", "a set dynamic_payloads F ; ",
                "a load_ack 01 0 ; a load_ack 02 1 ; a load_ack 03 5 ; "):
        for n in range(34):
            for p in range(-1, 7):
                out.append(LOADACK_TAG + pre + f"a load_ack {rbytes(rng, n)} {p} ; a get tx_full")
    return out


_FRESH_LITE = {}


def judge_used_radio(l, io):
    """a constructed object starts from the documented defaults whatever the radio held before: right after
    `new a lite 0` every register the constructor configures equals its value after construction on a fresh chip"""
    from harness.rfsession import run_line as _run
    if not _FRESH_LITE:
        r = parse_out(_run("rf 1 1 new a lite 0"))[0]["radios"][0]
        _FRESH_LITE.update({k: r.get(k) for k in ("cfg", "aa", "rxen", "aw", "retr", "ch", "rf", "dyn", "feat", "pw", "ce")})
    names, ops = l.split(" ; "), parse_out(io)
    for k, (name, o) in enumerate(zip(names, ops)):
        if name == "new a lite 0" and o["radios"]:
            if o["res"].startswith("exc="):
                return Finding(l, f"op {k}: constructing the lite driver on a used radio raised {o['res'][4:]}", {"op_index": k})
            r = o["radios"][0]
            for key, want in _FRESH_LITE.items():
                if r.get(key) != want:
                    return Finding(l, f"op {k}: after constructing the lite driver on a radio another object had configured, register "
                                      f"{key}={r.get(key)}; constructed on a fresh chip it is {want}", {"op_index": k})
    return None


def judge_loadack(l, io):
    names, ops = l.split(" ; "), parse_out(io)
    for k, (name, a) in enumerate(zip(names, ops)):
        t = name.split()
        if k < 2 or t[1] != "load_ack" or not a["radios"] or not ops[k - 1]["radios"]:
            continue
        r, pr = a["radios"][0], ops[k - 1]["radios"][0]
        data, p = t[2], int(t[3])
        n = 0 if data == "-" else len(data) // 2
        txf = [x for x in r["txf"][1:-1].split(",") if x]
        ptxf = [x for x in pr["txf"][1:-1].split(",") if x]
        valid = 0 <= p <= 5 and 1 <= n <= 32
        what = None
        if a["res"] not in ("T", "F"):
            what = f"load_ack() returned {a['res']} (documented: no exception, True/False)"
        elif valid and len(ptxf) < 3:
            if a["res"] != "T" or txf != ptxf + [f"A{p}:{data}:none"]:
                what = f"a {n}-byte payload for pipe {p} with room in the TX FIFO: returned {a['res']}, TX FIFO {ptxf} -> {txf}"
            elif not (int(r["feat"]) & 6 == 6 and int(r["dyn"]) & (1 << p)):
                what = "accepted an ACK payload but the ACK-payload feature is not enabled"
        elif valid:
            if a["res"] != "F" or txf != ptxf:
                what = f"TX FIFO full: returned {a['res']}, TX FIFO {ptxf} -> {txf}"
        else:
            if a["res"] != "F":
                what = f"invalid arguments (length {n}, pipe {p}) accepted: returned {a['res']}"
            elif {x: r[x] for x in r if x != "irq"} != {x: pr[x] for x in pr if x != "irq"}:
                what = f"invalid arguments (length {n}, pipe {p}) changed the radio"
        if what:
            return Finding(l, f"op {k} `{name}`: {what}", {"op_index": k, "part": "load_ack"})
    return None


def judge_noack(l, io):
    """`ask_no_ack` is what decides the packet's NO_ACK flag (with EN_DYN_ACK set, as the lite driver always has it)"""
    names, ops = l.split(" ; "), parse_out(io)
    for k, (name, o) in enumerate(zip(names, ops)):
        t = name.split()
        if k < 5 or t[0] != "a" or t[1] not in ("send", "write") or not o["radios"] or o["res"].startswith("exc="):
            continue
        want = "n1" if (t[3] == "T" and int(o["radios"][0]["feat"]) & 1) else "n0"
        data = t[2][2:]
        for x in [x for x in o["air"][1:-1].split(",") if x]:
            head = x.rsplit("x", 1)[0].split("/")
            # (a padded / truncated payload still starts with the given bytes or is a prefix of them)
            if x[0] == "0" and head[-2] != want and (head[-1].startswith(data) or data.startswith(head[-1])):
                return Finding(l, f"op {k} `{name}`: ask_no_ack={t[3]} but the packet went out with NO_ACK flag {head[-2]}",
                               {"op_index": k, "part": "C02"})
    return None


class C20(PropCheck):
    prop = "C20"
    exhaustive = False
    rule = ("real rf24_lite.RF24 objects through adafruit SPIDevice on a simulated busio-style bus; the C01 / C02 / C10 session "
            "generators restricted to the lite API in the pairings lite->lite, lite->full, full->lite (payload lengths 0..40 x "
            "static/dynamic x bytes/bytearray exhaustively, all loss patterns up to length 4/5 x force_retry 0/1, ACK payloads, "
            "traffic histories with every accessor), C08's pipe-0 rule breadth-first over an 11-call alphabet, configuration "
            "sessions judged by the documented encodings (all ordered pairs of 30 register-sharing calls + random with "
            "out-of-domain arguments), load_ack() for every length 0..33 x pipe -1..6 in five FIFO/feature states; "
            "non-trivial = a payload was read by a peer / a transmission failed and one succeeded / a register changed")
    assumptions = ["radio, air and virtual time as lean/NrfModel/Radio.lean + Air.lean (= harness/simradio.py)",
                   "adafruit SPIDevice's extra clock byte is sent with CSN high and ignored by the radio",
                   "documented reductions of the lite version (docs/troubleshooting.rst): global dynamic payloads and payload "
                   "length, auto-ack and 2-byte CRC always on, plus variant only, load_ack() never raises",
                   "C02's precondition: the transmitter was put into TX mode with `listen = False`"]

    def impl(self, line):
        return run_line(line)

    def cases(self, res, tier, rng):
        q = tier == "quick"
        cs = []
        # line coverage of the anchored file during the correspondence run (evidence only)
        self._res, self._cov = res, None
        try:
            import coverage
            self._cov = coverage.Coverage(include=["*/circuitpython_nrf24l01/rf24_lite.py"], data_file=None)
            self._cov.start()
        except Exception:
            self._cov = None
        for ca, cb in PAIRS:
            tag = f"{ca}->{cb}"
            cs += [(l, f"c01-lengths {tag}") for l in c01_lengths(rng, ca, cb)]
            for _ in range(40 if q else 800):
                cs.append((c01_session(rng, c01_cfg(rng), ca, cb, rng.randint(3, 12)), f"c01-random {tag}"))
            for pipe in range(6):
                for aw in (3, 4, 5):
                    cfg = c01_cfg(rng)
                    cfg.update(pipe=pipe, aw=aw)
                    cs.append((c01_session(rng, cfg, ca, cb, 4), f"c01-pipes-x-widths {tag}"))
            m = 4 if q else 5
            cs += [(l, f"c02-patterns {tag}") for l in c02_patterns(m, ca, cb)]
            for _ in range(60 if q else 1200):
                cs.append((c02_session(rng, c02_cfg(rng), ca, cb, rng.randint(2, 10)), f"c02-random {tag}"))
            for _ in range(40 if q else 600):
                cs.append((c02_stale_ack(rng, ca, cb), f"c02-ack-payload {tag}"))
            for _ in range(50 if q else 1000):
                cs.append((c10_session(rng, ca, cb, 40 if q else 60), f"c10-traffic {tag}"))
        res.exhaustive_blocks.append("payload lengths 0..40 x {static 8, static 32, dynamic} x {bytes, bytearray} x 3 pairings")
        res.exhaustive_blocks.append(f"all loss patterns up to length {4 if q else 5} x force_retry 0/1 (arc=1) x 3 pairings")
        depth = 3 if q else 4
        for seq in itertools.product(ALPHA8, repeat=depth):
            cs.append((c08_prefix("lite") + " ; " + " ; ".join(seq), f"c08-bfs-depth{depth}"))
        res.exhaustive_blocks.append(f"all {len(ALPHA8) ** depth} call sequences of length {depth} over the 11-call pipe-0 alphabet")
        if q:
            for _ in range(2500):
                seq = [rng.choice(ALPHA8) for _ in range(rng.choice([4, 4, 5]))]
                cs.append((c08_prefix(rng.choice(["lite", "rf24"])) + " ; " + " ; ".join(seq), "c08-sample-depth4-5"))
        for _ in range(150 if q else 2500):
            cs.append((c08_random(rng, rng.choice(["lite", "rf24"]), 30 if q else 60), "c08-random"))
        ps = cfg_pairs()
        res.exhaustive_blocks.append(f"all {len(ps)} ordered pairs over the 30-call configuration alphabet")
        cs += [(p, "cfg-pairs") for p in ps]
        for _ in range(80 if q else 1200):
            cs.append((cfg_session(rng, 40 if q else 60), "cfg-random"))
        for _ in range(80 if q else 1500):
            cs.append((mixed_session(rng, 40 if q else 60, plus=rng.random() < 0.85), "mixed-random"))
        la = loadack_sessions(rng)
        res.exhaustive_blocks.append(f"load_ack: every length 0..33 x pipe -1..6 x 5 states = {len(la)} sessions")
        cs += [(l, "load_ack-exhaustive") for l in la]
        # the lite driver constructed on a radio that another object configured before (its __init__ must not
        # depend on reset values), then a few of its own calls
        from harness import gen_rf
        for _ in range(60 if q else 800):
            ops = ["new z rf24 0", "z enter"]
            for _ in range(rng.randint(3, 12)):
                op = gen_rf.config_op(rng, "z")
                if "carrier_wave" not in op:
                    ops.append(op)
            ops += ["new a lite 0", "a update"] + [cfg_op(rng) for _ in range(rng.randint(0, 6))]
            cs.append(("rf 1 1 " + " ; ".join(ops), "lite-on-used-radio"))
        # every method with optional parameters, called with them omitted (documented defaults)
        cs += [(gen_rf.defaults_session(rng, "lite", cfg_op), "documented-defaults") for _ in range(100 if q else 1000)]
        return cs

    def nontrivial(self, line, io):
        k = kind_of(line)
        if k is None:
            return " ok ~ " in io or io.count("T ~ ") > 0
        c = canon(line)
        return {K_C01: C01(), K_C02: C02(), K_C10: C10()}[k[0]].nontrivial(c, io)

    def judge(self, triples):
        out = []
        j01, j02, j10 = C01(), C02(), C10()
        for l, io, mo in triples:
            f = None
            k = kind_of(l)
            if k is not None:
                c = canon(l)
                js = {K_C01: [j01], K_C02: [j02], K_C10: [j10]}[k[0]]
                for j in js:
                    fs = j.judge([(c, io, None)])
                    if fs:
                        f = Finding(l, fs[0].what, dict(fs[0].detail, part=j.prop, pairing=f"{k[1]}->{k[2]}"))
                        break
                if f is None and k[0] in (K_C01, K_C02) and k[1] == "lite":
                    f = judge_noack(l, io)
            elif l.startswith("rf 2 1 new a lite 0 ; a update ; new b "):
                f = judge_c08(l, io)
            elif l.startswith(LOADACK_TAG):
                f = judge_loadack(l, io)
            elif l.startswith("rf 1 1 new a lite 0 ; a update ; "):
                f = judge_cfg(l, io)
            elif l.startswith("rf 1 1 new z rf24 0 ; z enter ; "):
                f = judge_used_radio(l, io)
            if f:
                out.append(f)
        seen = {f.case for f in out}
        out += [f for f in judge_defaults(triples, self.impl) if f.case not in seen]
        if getattr(self, "_cov", None) is not None:
            try:
                self._cov.stop()
                files = list(self._cov.get_data().measured_files())
                if files:
                    _, stmts, _, missing, _ = self._cov.analysis2(files[0])
                    self._res.extra.update(anchored_lines_total=len(stmts), anchored_lines_hit=len(stmts) - len(missing),
                                           unhit=[f"rf24_lite.py:{n}" for n in missing],
                                           unhit_note="line 14 = RuntimeError for a chip that does not answer: unreachable on a responding simulator")
            except Exception:
                pass
            self._cov = None
        return out


def run(tier):
    return run_check(C20(), tier)


def replay(path):
    return replay_generic(C20(), path)
