"""C05 — a network message reaches its destination exactly once, intact, over any tree."""
from harness.framework import *
from harness import gen_net, netsession
from harness.gen_rf import rbytes


def session(rng, nnodes, nmsgs, frag_off=False, closed=True):
    tree = gen_net.rand_tree(rng, nnodes)
    names = [f"n{i}" for i in range(len(tree))]
    kinds = []
    ops = []
    for i, t in enumerate(tree):
        k = rng.choice(["network", "network", "routing"])
        kinds.append(k)
        ops.append(f"new {names[i]} {k} {i} {gen_net.addr_of(t)}")
    writers = [i for i, k in enumerate(kinds) if k == "network"]
    if not writers:
        kinds[0] = "network"
        ops[0] = ops[0].replace(" routing ", " network ")
        writers = [0]
    nofrag = set()
    if frag_off:
        for i in range(len(tree)):
            if rng.random() < 0.5:
                nofrag.add(i)
                ops.append(f"{names[i]} set fragmentation F")
    for _ in range(nmsgs):
        s = rng.choice(writers)
        d = rng.choice([i for i in range(len(tree)) if i != s])
        typ = rng.randint(0, 127)
        maxlen = 24 if (frag_off and (s in nofrag or True)) else 144
        n = rng.choice([0, 1, 8, 23, 24, 24] + ([25, 47, 48, 49, 72, 73, 100, 143, 144, rng.randint(25, 144)] if maxlen > 24 else []))
        if rng.random() < 0.25:     # RF24Network.send(header, message) = write(RF24NetworkFrame(header, message))
            ops.append(f"{names[s]} nsend {gen_net.addr_of(tree[d])} {typ} {rbytes(rng, n)}")
        else:
            ops.append(f"{names[s]} write {gen_net.addr_of(tree[d])} {typ} {rbytes(rng, n)} 56")
        ops.append(f"{names[rng.randrange(len(tree))]} update")   # flushes the whole network (closed system)
        ops.append(f"{names[rng.randrange(len(tree))]} update")
        for i in range(len(tree)):
            if rng.random() < 0.4:      # the application polls the documented way: available(), peek(), then read()
                ops += [f"{names[i]} available", f"{names[i]} peek"]
            ops += [f"{names[i]} read", f"{names[i]} read"]
    return f"net {len(tree)} {1 if closed else 0} " + " ; ".join(ops)


def lazy_session(rng):
    """schedule 2 of harness/netsession.py (implementation only, no Lean twin): the other nodes run at the running node's
    resend() / read() polls but not at its send() - a router's RX FIFO fills up before the router runs, the sender stalls
    on the full FIFO, the router retries its NETWORK_ACK while fragments wait in its own FIFO.  Chains of 3..4 nodes,
    fragment trains of 4..6 frames and single frames (seeded change C05-s23: `_tx_standby` flushed the RX FIFO)."""
    chain = [0, 0o1, 0o11, 0o111][: rng.choice([3, 3, 4])]
    ops = [f"new n{i} {'network' if i in (0, len(chain) - 1) else rng.choice(['network', 'routing'])} {i} {a}"
           for i, a in enumerate(chain)]
    for _ in range(rng.randint(1, 2)):
        s, d = rng.choice([(0, len(chain) - 1), (len(chain) - 1, 0)])
        n = rng.choice([24, 73, 96, 100, 120, 144])
        ops.append(f"n{s} write {chain[d]} {rng.choice([0, 5, 64, 65, 100, 127])} {rbytes(rng, n)} 56")
        for _ in range(3):
            ops += [f"n{i} update" for i in range(len(chain))]
        for i in range(len(chain)):
            ops += [f"n{i} read", f"n{i} read"]
    return f"net {len(chain)} 2 " + " ; ".join(ops)


def reuse_session(rng):
    """an application that builds its header once and re-uses it: consecutive messages of one sender carry the same
    frame id and type; each is read out at the destination before the next is written, so each is a new message"""
    tree = gen_net.rand_tree(rng, rng.randint(2, 6))
    names = [f"n{i}" for i in range(len(tree))]
    ops = [f"new {names[i]} network {i} {gen_net.addr_of(t)}" for i, t in enumerate(tree)]
    s = rng.randrange(len(tree))
    d = rng.choice([i for i in range(len(tree)) if i != s])
    typ, fid = rng.randint(0, 127), rng.randrange(1, 65536)
    for k in range(rng.randint(3, 9)):          # more than the queue holds, too
        if rng.random() < 0.2:
            d = rng.choice([i for i in range(len(tree)) if i != s])
        # every message differs from the others in its first byte: a frame that is byte-identical to the one the
        # destination's radio accepted last (same header, same body) and happens to carry the same 2-bit PID is
        # acknowledged and DISCARDED by the radio itself (Enhanced ShockBurst duplicate rule, §0.4b) - nothing the
        # network layer could deliver
        n = rng.choice([0, 7, 23, 23, 24, 59])
        ops.append(f"{names[s]} writeid {gen_net.addr_of(tree[d])} {typ} {bytes([k]).hex()}{rbytes(rng, n).replace('-', '')} {fid}")
        ops += [f"{names[rng.randrange(len(tree))]} update", f"{names[rng.randrange(len(tree))]} update"]
        for i in range(len(tree)):
            ops += [f"{names[i]} read", f"{names[i]} read"]
    return f"net {len(tree)} 1 " + " ; ".join(ops)


class C05(PropCheck):
    prop = "C05"
    rule = ("sampled parent-closed trees (2..8 nodes, depth <= 4) of real routing-only / full nodes on simulated radios, loss-free; "
            "one message at a time from a full node to any other node, user types 0..127 (incl. NETWORK_ACK-awaited 65..127), "
            "lengths 0..144 (0..24 in sessions with fragmentation switched off on some nodes), random contents; afterwards every "
            "node's queue is read out; non-trivial = the route has at least one intermediate node or the message is fragmented")
    assumptions = ["closed-system schedule of harness/netsession.py: every other idle node with received data runs update() to completion at "
                   "each read()/send()/resend() of the running node (no collisions, no real-time races, receivers drain between fragments)",
                   "no packet is lost (the property's hypothesis)"]

    def impl(self, line):
        return netsession.run_line(line)

    def cases(self, res, tier, rng):
        n = 120 if tier == "quick" else 2000
        cs = [(session(rng, rng.randint(2, 8), rng.randint(1, 4)), "tree-messages") for _ in range(n)]
        cs += [(session(rng, rng.randint(2, 6), rng.randint(1, 3), frag_off=True), "tree-messages-frag-off") for _ in range(n // 3)]
        cs += [(reuse_session(rng), "header-reused") for _ in range(n // 4)]
        cs += [(lazy_session(rng), "lazy-schedule (implementation only)") for _ in range(n // 4)]
        return cs

    def impl_only(self, line):
        return line.startswith("net ") and line.split()[2] == "2"

    def nontrivial(self, line, io):
        return ":148/" in io or "x2:" in io or io.count("x1:1") > 2

    def judge(self, triples):
        out = []
        for l, io, mo in triples:
            if not l.startswith("net ") or (" write " not in l and " nsend " not in l and " writeid " not in l):
                continue
            names = l.split(" ; ")
            parts = io.split(" ; ")
            addr_of_name = {}
            what = None
            cur = None          # message in flight: (src addr, dst addr, type, msg hex, result, op index)
            got = {}            # name -> frames read since the message was written
            polled = {}         # name -> (available(), peek()) seen just before its next read()
            for k, (name, part) in enumerate(zip(names, parts)):
                t = name.split()
                if k == 0:
                    t = t[3:]
                res = part.split(" ~ ")[0]
                if t[0] == "new":
                    addr_of_name[t[1]] = int(t[4])
                    continue

                def settle():
                    if cur is None:
                        return None
                    src, dst, typ, msg, result, kk = cur
                    dname = next(n for n, a in addr_of_name.items() if a == dst)
                    exp = f"{src}>{dst}#"
                    for n, frames in got.items():
                        real = [f for f in frames if f != "N"]
                        if n != dname and real:
                            return f"message {oct(src)}->{oct(dst)} (op {kk}): node {n} ({oct(addr_of_name[n])}) handed {real} to its application"
                    real = [f for f in got.get(dname, []) if f != "N"]
                    if len(real) != 1:
                        return f"message {oct(src)}->{oct(dst)} type {typ} len {len(msg) // 2 if msg != '-' else 0} (op {kk}): destination queue delivered {len(real)} frames {real[:2]}"
                    f = real[0]
                    hdr, body = f.rsplit(":", 1)
                    if not hdr.startswith(exp) or body != msg or hdr.split(":")[1].split("/")[0] != str(typ):
                        return f"message {oct(src)}->{oct(dst)} (op {kk}): delivered {f}, sent type {typ} bytes {msg}"
                    if result != "T":
                        return f"message {oct(src)}->{oct(dst)} (op {kk}) was delivered but write() returned {result}"
                    return None

                if t[1] in ("write", "nsend", "writeid"):
                    what = settle()
                    if what:
                        break
                    got = {}
                    r = res.split()[0]
                    if r.startswith("exc="):
                        what = f"write() raised {r}"
                        break
                    cur = (addr_of_name[t[0]], int(t[2]), int(t[3]), t[4], r, k)
                elif t[1] == "read" and cur is not None:
                    fr = res.split(" all=")[0].split()[0] if res != "N" else "N"
                    got.setdefault(t[0], []).append(fr)
                    pk = polled.pop(t[0], None)
                    if pk is not None and pk != (("T" if fr != "N" else "F"), fr):
                        what = (f"op {k}: node {t[0]}: available()/peek() reported {pk} but read() then returned {fr}")
                        break
                elif t[1] == "available":
                    polled[t[0]] = (res.split()[0],)
                elif t[1] == "peek" and t[0] in polled and len(polled[t[0]]) == 1:
                    polled[t[0]] += (res.split(" all=")[0].split()[0] if res != "N" else "N",)
                elif t[1] == "update" and res.startswith("exc="):
                    what = f"update() raised {res}"
                    break
            if what is None:
                what = settle()
            if what:
                out.append(Finding(l, what, {}))
        return out


def run(tier):
    return run_check(C05(), tier)


def replay(path):
    return replay_generic(C05(), path)
