"""Runs a `net …` session line (lean/NrfModel/Drv/NetS.lean) on the real network / mesh classes.

Environment choices mirrored from lean/NrfModel/Net/Node.lean: per-node virtual clocks, scripted
arrivals delivered at the node's `_rf24.read()` polls, and (closed system) every other idle node
with received data runs `update()` to completion at each poll of the running node.
"""
from __future__ import annotations

from harness.framework import exc_name, Infra
from harness import simradio
from harness.simradio import SimWorld, SimSpiDev, SimPin, SimTimeout
from harness.rfsession import hx, unhex, sb, b01, show_radio, show_air, split_ops, pb, opt_int, rf24_call

# one public call of a node: 6 virtual seconds of SPI traffic (the longest legitimate call of any generator is a
# 2.5 s renew_address()); a call that needs more does not terminate (`exc=DIVERGE`)
NET_CALL_BUDGET = 600_000


# the application's message buffer: ONE bytearray per session, rewritten in place before each RF24Network.write() /
# send() (which copy the frame, D12).  multicast() and the mesh classes' write()/send() keep the caller's object in
# frame_buf.message by design (nothing reads it after the call returns); they get fresh immutable bytes, otherwise the
# node digest would show the application's later edits of its own buffer.
_MSG = bytearray()


def pooled(b: bytes) -> bytearray:
    _MSG[:] = b
    return _MSG


def show_frame(f) -> str:
    h = f.header
    t = h.message_type
    if isinstance(t, str):
        t = ord(t[0]) if t else 0
    return f"{h.from_node}>{h.to_node}#{h.frame_id}:{t}/{h.reserved}:{hx(f.message)}"


def show_node(n) -> str:
    q = n.queue
    dhcp = getattr(n, "dhcp_dict", {})
    return (
        f"addr={n._addr} lvl={n._net_lvl} mask={n._mask} minv={n._mask_inv} par={n._parent} pp={n._parent_pipe} "
        f"relay={b01(n._relay_enabled)} frag={b01(n._frag_enabled)} maxlen={n.max_message_length} "
        f"q=[{','.join(show_frame(f) for f in q._queue)}] qmax={q.max_queue_size} "
        f"fb={show_frame(n.frame_buf)} id={getattr(n, '_id', 0)} "
        f"dhcp=[{','.join(f'{i}:{a}' for i, a in dhcp.items())}] dodhcp={b01(getattr(n, '_do_dhcp', False))} "
        f"st={n._rf24._in[0]}"
    )


class NetSession:
    def __init__(self, nradios: int, closed: bool):
        from circuitpython_nrf24l01.network.structs import RF24NetworkHeader

        self.world = SimWorld(nradios, True)
        from harness import rfsession as _rfs
        _rfs._CUR_WORLD[0] = self.world
        simradio.patch_time(self.world)
        RF24NetworkHeader._RF24NetworkHeader__next_id = 0
        self.closed = closed
        # schedule 2 ("lazy", implementation-only: it has no Lean twin): the other nodes do NOT run at the running node's
        # send(); they run at its resend() and read() polls only - so a router's RX FIFO fills up (3 frames) before the
        # router runs, a sender stalls on a full FIFO, and a node retries a transmission while frames wait in its own FIFO
        self.lazy = False
        self.nodes = []      # node objects in creation order
        self.names = []
        self.clocks = []
        self.arrivals = []   # per node: list of (due, pipe, payload)
        # implementation-only environment (no Lean twin; lines `net n 2 ...`): packets from a transmitter outside the
        # session that arrive ON THE AIR at a node's radio at a scripted time - while the node is inside a blocking call,
        # say - and go through the radio's own reception rules (address match, FIFO room, auto-ack): (due, address, data)
        self.air_arrivals = {}
        self.acklog = []     # radio-level acknowledgements sent for such packets: "<node>:<address hex>"
        self.cur = 0
        self.active = []
        self.air_seen = 0

    # ----- scheduling --------------------------------------------------------------------------
    def _hook_read(self, idx: int, node):
        real_read = node._rf24.read

        def read(length=None):
            w = self.world
            # scripted arrivals that are due
            arr = self.arrivals[idx]
            while arr and arr[0][0] <= w.clock:
                _, pipe, data = arr.pop(0)
                w.inject(node._rf24_rid, pipe, data)
            air = self.air_arrivals.get(idx, [])
            while air and air[0][0] <= w.clock:
                _, addr, data = air.pop(0)
                r = w.radios[node._rf24_rid]
                k = {"ch": r.rf_ch, "rate": r.rate(), "crc": r.crc_len(), "esb": True, "dpl": True, "addr": bytes(addr),
                     "pid": 3, "noack": False, "data": bytes(data)}
                if r.receive(k) is not None:
                    self.acklog.append(f"{self.names[idx]}:{bytes(addr).hex()}")
            if self.closed:
                self._run_others()
            return real_read(length)

        node._rf24.read = read
        real_send, real_resend = node._rf24.send, node._rf24.resend

        def send(buf, ask_no_ack=False, force_retry=0, send_only=False):
            if self.closed and not self.lazy:
                self._run_others()
            with self.world.polling():
                return real_send(buf, ask_no_ack, force_retry, send_only)

        def resend(send_only=False):
            if self.closed:
                self._run_others()
            with self.world.polling():
                return real_resend(send_only)

        node._rf24.send = send
        node._rf24.resend = resend

    def _run_others(self):
        w = self.world
        for i, other in enumerate(self.nodes):
            if other is None or i == self.cur or i in self.active:
                continue
            r = w.radios[other._rf24_rid]
            if not r.rx_fifo or not r.rx_mode():
                continue
            me = self.cur
            self.clocks[me] = w.clock
            self.cur = i
            self.active.insert(0, i)
            w.clock = self.clocks[i]
            try:
                other.update()
            except Exception:
                pass
            self.clocks[i] = w.clock
            self.cur = me
            self.active.remove(i)
            w.clock = self.clocks[me]

    def run_as(self, i: int, fn):
        w = self.world
        self.cur, self.active = i, [i]
        w.clock = self.clocks[i]
        w.call_budget = NET_CALL_BUDGET
        try:
            res = fn()
        except SimTimeout:
            res = "exc=DIVERGE"
        except Infra:
            raise
        except Exception as e:
            res = "exc=" + exc_name(e)
        self.clocks[i] = w.clock
        self.active = []
        return res

    # ----- ops ---------------------------------------------------------------------------------
    def construct(self, kind: str, rid: int, arg: int):
        from circuitpython_nrf24l01.rf24_network import RF24Network, RF24NetworkRoutingOnly
        from circuitpython_nrf24l01.rf24_mesh import RF24Mesh, RF24MeshNoMaster

        klass = {"routing": RF24NetworkRoutingOnly, "network": RF24Network, "mesh": RF24MeshNoMaster,
                 "master": RF24Mesh}[kind]
        w = self.world
        node = klass.__new__(klass)
        i = len(self.nodes)
        self.nodes.append(None)
        self.clocks.append(0)
        self.arrivals.append([])

        def build():
            node._rf24_rid = rid
            csn = SimPin()
            klass.__init__(node, SimSpiDev(w, rid, csn), csn, SimPin(w, rid, ce=True), arg)
            return "ok"

        # the constructor itself polls nothing; hook read() right after RF24 exists
        orig_init = klass.__init__
        res = self.run_as(i, build)
        if hasattr(node, "_rf24"):
            self._hook_read(i, node)
            self.nodes[i] = node
        return res, node

    def node_call(self, node, t):
        from circuitpython_nrf24l01.network.structs import RF24NetworkHeader, RF24NetworkFrame

        m = t[0]
        if m == "dflt":          # the call with its optional parameters omitted
            m = t[1]
            if m == "write":
                frame = RF24NetworkFrame(RF24NetworkHeader(int(t[2]), int(t[3])), pooled(unhex(t[4])))
                return f"{sb(node.write(frame))} frame={show_frame(frame)}"
            if m == "multicast":
                return sb(node.multicast(unhex(t[2]), int(t[3])))
            if m == "check_connection":
                return sb(node.check_connection())
            if m in ("lookup_node_id", "lookup_address"):
                return str(int(getattr(node, m)()))
            if m == "release_address":
                return sb(node.release_address())
            raise Infra("no default form of " + m)
        if m == "update":
            return str(int(node.update()))
        if m == "read":
            f = node.read()
            return "N" if f is None else show_frame(f)
        if m == "write":
            hdr = RF24NetworkHeader(int(t[1]), int(t[2]))
            frame = RF24NetworkFrame(hdr, pooled(unhex(t[3])))
            r = node.write(frame, int(t[4]))
            return f"{sb(r)} frame={show_frame(frame)}"
        if m == "writeid":       # a frame whose header (hence frame_id) the caller re-uses
            frame = RF24NetworkFrame(RF24NetworkHeader(int(t[1]), int(t[2])), pooled(unhex(t[3])))
            frame.header.frame_id = int(t[4])
            r = node.write(frame)
            return f"{sb(r)} frame={show_frame(frame)}"
        if m == "multicast":
            return sb(node.multicast(unhex(t[1]), int(t[2]), opt_int(t[3])))
        if m == "rf":            # the RadioMixin pass-throughs, called on the node object itself
            return rf24_call(node, t[1:])
        if m in ("enter", "exit"):
            return rf24_call(node, [m])
        if m == "available":
            return sb(node.available())
        if m == "peek":
            f = node.peek()
            return "N" if f is None else show_frame(f)
        if m == "get":
            v = getattr(node, t[1])
            return sb(v) if isinstance(v, bool) else str(int(v))
        if m == "nsend":
            return sb(node.send(RF24NetworkHeader(int(t[1]), int(t[2])), pooled(unhex(t[3]))))
        if m == "set":
            a, v = t[1], t[2]
            if a == "node_address":
                node.node_address = int(v)
            elif a == "multicast_level":
                node.multicast_level = int(v)
            elif a == "fragmentation":
                node.fragmentation = pb(v)
            elif a == "multicast_relay":
                node.multicast_relay = pb(v)
            elif a == "allow_multicast":
                node.allow_multicast = pb(v)
            elif a == "max_queue_size":
                node.queue.max_queue_size = int(v)
            elif a == "tx_timeout":
                node.tx_timeout = int(v)
            elif a == "route_timeout":
                node.route_timeout = int(v)
            elif a == "max_message_length":
                node.max_message_length = int(v)
            elif a == "ret_sys_msg":
                node.ret_sys_msg = pb(v)
            elif a == "node_id":
                node.node_id = int(v)
            elif a == "allow_children":
                node.allow_children = pb(v)
            elif a == "address_suffix":
                node.address_suffix = bytearray(unhex(v))
            elif a == "address_prefix":
                node.address_prefix = bytearray([int(v)])
            else:
                raise Infra("unknown attribute " + a)
            return "ok"
        if m == "renew":
            r = node.renew_address(int(t[1]) / 1000)
            return "N" if r is None else str(int(r))
        if m == "release":
            from circuitpython_nrf24l01.rf24_mesh import RF24MeshNoMaster
            return sb(RF24MeshNoMaster.release_address(node))
        if m == "lookup_address":
            return str(int(node.lookup_address(int(t[1]))))
        if m == "lookup_node_id":
            return str(int(node.lookup_node_id(opt_int(t[1]))))
        if m == "check_connection":
            return sb(node.check_connection(int(t[1]), pb(t[2])))
        if m == "send":
            return sb(node.send(int(t[1]), int(t[2]), unhex(t[3])))
        if m == "mwrite":
            return sb(node.write(int(t[1]), int(t[2]), unhex(t[3])))
        if m == "setaddr":
            node.set_address(int(t[1]), int(t[2]))
            return "ok"
        if m == "release_address":
            return sb(node.release_address(int(t[1])))
        raise Infra("unknown node op " + m)

    def step(self, toks):
        w = self.world
        if toks[0] == "new":
            res, node = self.construct(toks[2], int(toks[3]), int(toks[4]))
            self.names.append(toks[1])
            try:
                return res + " ~ " + show_node(node)
            except AttributeError:
                return res + " ~ partial-object"
        if toks[0] == "env":
            if toks[1] == "arrive":
                i = self.names.index(toks[2])
                self.arrivals[i].append((self.clocks[i] + int(toks[3]), int(toks[4]), unhex(toks[5])))
            elif toks[1] == "arrive_air":
                i = self.names.index(toks[2])
                self.air_arrivals.setdefault(i, []).append((self.clocks[i] + int(toks[3]), unhex(toks[4]), unhex(toks[5])))
            elif toks[1] == "acklog":
                out, self.acklog = ",".join(self.acklog) or "-", []
                return out + " ~ -"
            elif toks[1] == "faults":
                w.faults = [] if toks[2] == "-" else list(toks[2])
            elif toks[1] == "inject":
                w.inject(int(toks[2]), int(toks[3]), unhex(toks[4]))
            else:
                raise Infra("bad env op")
            return "ok ~ -"
        i = self.names.index(toks[0])
        node = self.nodes[i]
        if node is None:
            raise Infra("node was not constructed")
        res = self.run_as(i, lambda: self.node_call(node, toks[1:]))
        return res + " ~ " + show_node(node)

    def run(self, ops):
        outs = []
        for op in ops:
            res = self.step(op)
            new_air = self.world.air[self.air_seen:]
            self.air_seen = len(self.world.air)
            allv = ",".join(
                f"{n._rf24_rid}/{n._addr}/{n._net_lvl}/{b01(n.allow_multicast)}/{n.address_prefix[0]}/{hx(n.address_suffix)}"
                if n is not None else "?" for n in self.nodes)
            outs.append(res + " all=" + allv + " ~ " + " || ".join(show_radio(r) for r in self.world.radios)
                        + " ~ [" + ",".join(show_air(a) for a in new_air) + "]")
            if res.startswith("exc=DIVERGE"):
                # a call that never returns ends the history (no node-level call of the model diverges, so the
                # line is a disagreement already; running on would cost a whole budget per further call)
                break
        return " ; ".join(outs)


def run_line(line: str) -> str:
    toks = line.split()
    if toks[0] != "net":
        raise Infra("not a net line")
    s = NetSession(int(toks[1]), toks[2] in ("1", "2"))
    s.lazy = toks[2] == "2"
    try:
        return s.run(split_ops(toks[3:]))
    finally:
        simradio.unpatch_time()
