import NrfProps.C01
import NrfProps.C02
import NrfProps.C03
import NrfProps.C08
import NrfProps.C09
import NrfProps.C10
import NrfProps.C15
