/-
`nrfdrv` — line-protocol driver around the model.  One self-contained case per input line:
`<op> <args…>`; one result line per input line.  Unknown op or unparsable arguments → `bad-op`
(never a default).
-/
import NrfModel.Drv.Net
import NrfModel.Drv.Rf
import NrfModel.Drv.NetS
import NrfModel.Drv.Mesh
import NrfModel.Drv.Ble
import NrfModel.Drv.Structs
import NrfModel.Drv.Spec0809
import NrfModel.Drv.Cfg
import NrfModel.Drv.SpecK
import NrfModel.Drv.SpiDev

open Nrf.Drv

def allHandlers : List (String × Handler) := netHandlers ++ rfHandlers ++ netSHandlers ++ meshHandlers ++ bleHandlers ++ structsHandlers ++ spec0809Handlers ++ cfgHandlers ++ specKHandlers ++ spidevHandlers

def dispatch (line : String) : String :=
  match (line.splitOn " ").filter (· ≠ "") with
  | [] => "bad-op"
  | op :: args =>
    match allHandlers.lookup op with
    | none => "bad-op"
    | some h => (h args).getD "bad-op"

partial def loop (hin hout : IO.FS.Stream) : IO Unit := do
  let line ← hin.getLine
  if line.isEmpty then return ()
  let l := String.ofList (line.toList.filter (fun c => c != (Char.ofNat 10) && c != (Char.ofNat 13)))
  hout.putStrLn (dispatch l)
  loop hin hout

def main : IO Unit := do
  let hin ← IO.getStdin
  let hout ← IO.getStdout
  loop hin hout
  hout.flush
