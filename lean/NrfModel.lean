import NrfModel.Basic
import NrfModel.Net.Addr
import NrfModel.Drv.Util
import NrfModel.Drv.Net
