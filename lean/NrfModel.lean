import NrfModel.Basic
import NrfModel.Net.Addr
import NrfModel.Drv.Util
import NrfModel.Drv.Net
import NrfModel.Radio
import NrfModel.Air
import NrfModel.Rf24
import NrfModel.Drv.Rf
