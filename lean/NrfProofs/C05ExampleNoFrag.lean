/-
The chain `0o0 — 0o1 — 0o11` of C05Example3 with FRAGMENTATION DISABLED at every node, i.e. each node as
`fragmentation = False` (`apiSetFragmentation false`, NrfModel/Net/Api.lean) leaves it: `max_message_length = 24`,
the plain frame queue (`queue.frag = false`), `fragEnabled = false`.  For the non-vacuity example of
`C05_route_fragoff_closed_partial`.
-/
import NrfProofs.C05Example3

namespace Nrf.Net.Example
open Nrf Nrf.Net Nrf.Spec Nrf.Proofs Nrf.Props.C04

/-- what `fragmentation = False` changes of a node whose fragmentation is on -/
def noFrag (n : Node) : Node :=
  { n with maxMessageLength := MAX_FRAG_SIZE, queue := { n.queue with frag := false }, fragEnabled := false }

def threeNoFrag : NetState := { three with nodes := three.nodes.map noFrag }

/-- the setter of the model produces exactly these fields (checked on the three observable fields it touches,
    for the current node of `three`) -/
example : let n := (nexec (apiSetFragmentation false) three).2.nodeAt 2
    (n.maxMessageLength, n.queue, n.fragEnabled) =
      ((threeNoFrag.nodeAt 2).maxMessageLength, (threeNoFrag.nodeAt 2).queue, (threeNoFrag.nodeAt 2).fragEnabled) := by
  decide

theorem threeNoFrag_lt (i : Nat) (hi : i < threeNoFrag.nodes.length) : i = 0 ∨ i = 1 ∨ i = 2 := by
  have : i < 3 := hi
  omega

theorem threeNoFrag_ok : NetOk {} L tree3 threeNoFrag := by
  refine ⟨rfl, rfl, ?_, ?_, ?_, ?_⟩
  · intro i hi
    rcases threeNoFrag_lt i hi with rfl | rfl | rfl <;> decide
  · intro i j hi hj hij
    rcases threeNoFrag_lt i hi with rfl | rfl | rfl <;> rcases threeNoFrag_lt j hj with rfl | rfl | rfl <;>
      first | exact absurd rfl hij | decide
  · intro i hi
    rcases threeNoFrag_lt i hi with rfl | rfl | rfl
    · exact ⟨P0, two_pipes0, by decide⟩
    · exact ⟨P1, two_pipes1, by decide⟩
    · exact ⟨P2, three_pipes2, by decide⟩
  · intro r k hr
    have h0 : r ≠ 0 := fun e => hr 0 (by decide) (by rw [e]; rfl)
    have h1 : r ≠ 1 := fun e => hr 1 (by decide) (by rw [e]; rfl)
    have h2 : r ≠ 2 := fun e => hr 2 (by decide) (by rw [e]; rfl)
    have : threeNoFrag.w.radio r = default := by
      unfold World.radio
      have : threeNoFrag.w.radios.length ≤ r := by
        show 3 ≤ r
        omega
      rw [List.getD_eq_getElem?_getD, List.getElem?_eq_none this]
      rfl
    rw [this]
    exact Radio.listensTo_not_rx _ _ (by decide)

/-- fragmentation is off everywhere -/
theorem threeNoFrag_off : ∀ i, i < threeNoFrag.nodes.length →
    (threeNoFrag.nodeAt i).fragEnabled = false ∧ (threeNoFrag.nodeAt i).queue.frag = false ∧
    (threeNoFrag.nodeAt i).maxMessageLength = 24 := by
  intro i hi
  rcases threeNoFrag_lt i hi with rfl | rfl | rfl <;> decide

end Nrf.Net.Example
