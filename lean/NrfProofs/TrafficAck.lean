/-
Traffic lemmas, part 4 — acknowledgements.

* `Radio.receive` case by case (`receive_none / _full / _dup / _new`),
* receiving the same packet again yields the same acknowledgement (`receive_receive_snd`): a
  retransmission is acknowledged exactly like the original, with the same ACK payload,
* hence who acknowledges a packet, and with what, is constant during a transmit cycle and across
  retransmissions of the same packet (`World.ackMap`),
* the closed form of `attemptLoop` for every fault pattern (`attemptLoop_spec`).
-/
import NrfProofs.TrafficInv
import NrfModel.Spec.Link

namespace Nrf
open Spec.Link

namespace Radio

/-- the packet repeats the last one accepted (stand-in for the PID + CRC rule) -/
def isDup (r : Radio) (k : Packet) : Bool :=
  k.esb && r.lastRx == some { pid := k.pid, addr := k.addr, data := k.data }

/-- the receiver acknowledges a packet accepted on pipe `p` -/
def acksOn (r : Radio) (k : Packet) (p : Nat) : Bool := k.esb && bit r.enAA p && !k.noAck

/-- … and attaches a pending ACK payload -/
def ackPayOn (r : Radio) (k : Packet) (p : Nat) : Bool := r.acksOn k p && (r.feature &&& 2 ≠ 0) && r.dplOn p

/-- the receiver after storing packet `k` on pipe `p` -/
def stored (r : Radio) (k : Packet) (p : Nat) : Radio :=
  { r with rxFifo := r.rxFifo ++ [{ pipe := p, data := k.data }], flags := r.flags ||| 0x40, rpd := true,
           lastRx := if k.esb then some { pid := k.pid, addr := k.addr, data := k.data } else r.lastRx }

theorem receive_none (r : Radio) (k : Packet) (h : r.listensTo k = none) : r.receive k = (r, none) := by
  unfold receive; rw [h]

theorem receive_full (r : Radio) (k : Packet) (p : Nat) (hl : r.listensTo k = some p) (hd : r.isDup k = false)
    (hf : r.rxFifo.length ≥ 3) : r.receive k = (r, none) := by
  unfold receive
  rw [hl]
  unfold isDup at hd
  simp only [hd, Bool.not_false, Bool.true_and, decide_eq_true_eq, hf, ↓reduceIte]

theorem receive_dup (r : Radio) (k : Packet) (p : Nat) (hl : r.listensTo k = some p) (hd : r.isDup k = true) :
    r.receive k = (r, if r.acksOn k p then some (if r.ackPayOn k p then r.lastAck else none) else none) := by
  unfold receive
  rw [hl]
  unfold isDup at hd
  unfold ackPayOn acksOn
  simp only [hd, Bool.not_true, Bool.false_and, Bool.false_eq_true, ↓reduceIte]

theorem receive_new_noack (r : Radio) (k : Packet) (p : Nat) (hl : r.listensTo k = some p) (hd : r.isDup k = false)
    (hroom : r.rxFifo.length < 3) (ha : r.acksOn k p = false) : r.receive k = (r.stored k p, none) := by
  unfold receive
  rw [hl]
  unfold isDup at hd
  unfold acksOn at ha
  have hnf : ¬ (r.rxFifo.length ≥ 3) := by omega
  simp only [hd, Bool.not_false, Bool.true_and, decide_eq_true_eq, hnf, ↓reduceIte, Bool.false_eq_true, ha]
  rfl

theorem receive_new_plain (r : Radio) (k : Packet) (p : Nat) (hl : r.listensTo k = some p) (hd : r.isDup k = false)
    (hroom : r.rxFifo.length < 3) (ha : r.acksOn k p = true) (hp : r.ackPayOn k p = false) :
    r.receive k = ({ r.stored k p with lastAck := none }, some none) := by
  unfold receive
  rw [hl]
  unfold isDup at hd
  unfold ackPayOn at hp
  unfold acksOn at ha hp
  have hp' : (decide (r.feature &&& 2 ≠ 0) && r.dplOn p) = false := by
    rw [ha] at hp; simpa using hp
  have hnf : ¬ (r.rxFifo.length ≥ 3) := by omega
  simp only [hd, Bool.not_false, Bool.true_and, decide_eq_true_eq, hnf, ↓reduceIte, Bool.false_eq_true, ha, hp',
    Bool.not_true]
  rfl

theorem receive_new_nopay (r : Radio) (k : Packet) (p : Nat) (hl : r.listensTo k = some p) (hd : r.isDup k = false)
    (hroom : r.rxFifo.length < 3) (ha : r.acksOn k p = true) (hp : r.ackPayOn k p = true) (ht : takeAck r.txFifo p = none) :
    r.receive k = ({ r.stored k p with lastAck := none }, some none) := by
  unfold receive
  rw [hl]
  unfold isDup at hd
  unfold ackPayOn at hp
  unfold acksOn at ha hp
  have hp' : (decide (r.feature &&& 2 ≠ 0) && r.dplOn p) = true := by
    rw [ha] at hp; simpa using hp
  have hnf : ¬ (r.rxFifo.length ≥ 3) := by omega
  simp only [hd, Bool.not_false, Bool.true_and, decide_eq_true_eq, hnf, ↓reduceIte, Bool.false_eq_true, ha, hp',
    Bool.not_true, ht]
  rfl

theorem receive_new_pay (r : Radio) (k : Packet) (p : Nat) (hl : r.listensTo k = some p) (hd : r.isDup k = false)
    (hroom : r.rxFifo.length < 3) (ha : r.acksOn k p = true) (hp : r.ackPayOn k p = true) (d : Bytes) (rest : List TxEntry)
    (ht : takeAck r.txFifo p = some (d, rest)) :
    r.receive k = ({ r.stored k p with txFifo := rest, lastAck := some d }, some (some d)) := by
  unfold receive
  rw [hl]
  unfold isDup at hd
  unfold ackPayOn at hp
  unfold acksOn at ha hp
  have hp' : (decide (r.feature &&& 2 ≠ 0) && r.dplOn p) = true := by
    rw [ha] at hp; simpa using hp
  have hnf : ¬ (r.rxFifo.length ≥ 3) := by omega
  simp only [hd, Bool.not_false, Bool.true_and, decide_eq_true_eq, hnf, ↓reduceIte, Bool.false_eq_true, ha, hp',
    Bool.not_true, ht]
  rfl

theorem isDup_stored (r : Radio) (k : Packet) (p : Nat) (he : k.esb = true) : (r.stored k p).isDup k = true := by
  unfold isDup stored
  simp [he]

/-- **a retransmission is acknowledged exactly like the original** -/
theorem receive_receive_snd (r : Radio) (k : Packet) : ((r.receive k).1.receive k).2 = (r.receive k).2 := by
  cases hl : r.listensTo k with
  | none => rw [receive_none r k hl, receive_none r k hl]
  | some p =>
    have hl' : ∀ r' : Radio, r'.cfgOf = r.cfgOf → r'.listensTo k = some p := fun r' h => by
      rw [listensTo_cfg r r' k h]; exact hl
    cases hd : r.isDup k with
    | true =>
      have h1 := receive_dup r k p hl hd
      have e1 : (r.receive k).1 = r := by rw [h1]
      rw [e1]
    | false =>
      by_cases hf : r.rxFifo.length ≥ 3
      · have h1 := receive_full r k p hl hd hf
        have e1 : (r.receive k).1 = r := by rw [h1]
        rw [e1]
      · have hroom : r.rxFifo.length < 3 := by omega
        cases ha : r.acksOn k p with
        | false =>
          have h1 := receive_new_noack r k p hl hd hroom ha
          rw [h1]
          dsimp only
          -- not acknowledged now, not acknowledged when repeated
          have hl1 := hl' (r.stored k p) rfl
          have ha1 : (r.stored k p).acksOn k p = false := ha
          cases hd1 : (r.stored k p).isDup k with
          | true => rw [receive_dup _ k p hl1 hd1, ha1]; rfl
          | false =>
            by_cases hf1 : (r.stored k p).rxFifo.length ≥ 3
            · rw [receive_full _ k p hl1 hd1 hf1]
            · rw [receive_new_noack _ k p hl1 hd1 (by omega) ha1]
        | true =>
          have he : k.esb = true := by
            unfold acksOn at ha; simp only [Bool.and_eq_true] at ha; exact ha.1.1
          cases hp : r.ackPayOn k p with
          | false =>
            rw [receive_new_plain r k p hl hd hroom ha hp]
            dsimp only
            have hl1 := hl' ({ r.stored k p with lastAck := none }) rfl
            have hd1 : Radio.isDup { r.stored k p with lastAck := none } k = true := isDup_stored r k p he
            rw [receive_dup _ k p hl1 hd1]
            have ha1 : Radio.acksOn { r.stored k p with lastAck := none } k p = true := ha
            have hp1 : Radio.ackPayOn { r.stored k p with lastAck := none } k p = false := hp
            rw [ha1, hp1]; rfl
          | true =>
            cases ht : takeAck r.txFifo p with
            | none =>
              rw [receive_new_nopay r k p hl hd hroom ha hp ht]
              dsimp only
              have hl1 := hl' ({ r.stored k p with lastAck := none }) rfl
              have hd1 : Radio.isDup { r.stored k p with lastAck := none } k = true := isDup_stored r k p he
              rw [receive_dup _ k p hl1 hd1]
              have ha1 : Radio.acksOn { r.stored k p with lastAck := none } k p = true := ha
              have hp1 : Radio.ackPayOn { r.stored k p with lastAck := none } k p = true := hp
              rw [ha1, hp1]; rfl
            | some dr =>
              obtain ⟨d, rest⟩ := dr
              rw [receive_new_pay r k p hl hd hroom ha hp d rest ht]
              dsimp only
              have hl1 := hl' ({ r.stored k p with txFifo := rest, lastAck := some d }) rfl
              have hd1 : Radio.isDup { r.stored k p with txFifo := rest, lastAck := some d } k = true :=
                isDup_stored r k p he
              rw [receive_dup _ k p hl1 hd1]
              have ha1 : Radio.acksOn { r.stored k p with txFifo := rest, lastAck := some d } k p = true := ha
              have hp1 : Radio.ackPayOn { r.stored k p with txFifo := rest, lastAck := some d } k p = true := hp
              rw [ha1, hp1]; rfl

end Radio

namespace World

/-! ### who acknowledges, and with what -/

/-- per radio: the acknowledgement it would send for packet `k` from radio `s` (`none` = none) -/
def ackMap (w : World) (s : Nat) (k : Packet) : List (Option (Option Bytes)) := (w.deliverEach s k).map (·.2)

theorem deliver_snd_ackMap (w : World) (s : Nat) (k : Packet) :
    (w.deliver s k).2 = ((w.ackMap s k).filterMap id).head? := by
  unfold deliver ackMap
  simp only [List.filterMap_map]
  rfl

theorem ackMap_getElem? (w : World) (s : Nat) (k : Packet) (j : Nat) :
    (w.ackMap s k)[j]? = (w.radios[j]?).map fun r => if j = s then none else (r.receive k).2 := by
  unfold ackMap
  rw [List.getElem?_map, deliverEach_getElem?]
  cases w.radios[j]? with
  | none => rfl
  | some r => simp only [Option.map_some]; split <;> rfl

/-- the acknowledgements do not depend on the sender's own radio, the clock, the faults … -/
theorem ackMap_congr (w w' : World) (s : Nat) (k : Packet) (hl : w'.radios.length = w.radios.length)
    (h : ∀ j, j < w.radios.length → j ≠ s → w'.radio j = w.radio j) : w'.ackMap s k = w.ackMap s k := by
  apply List.ext_getElem?
  intro j
  rw [ackMap_getElem?, ackMap_getElem?]
  by_cases hj : j < w.radios.length
  · have hj' : j < w'.radios.length := by omega
    rw [List.getElem?_eq_getElem hj, List.getElem?_eq_getElem hj']
    simp only [Option.map_some]
    by_cases hjs : j = s
    · simp [hjs]
    · have := h j hj hjs
      unfold radio at this
      simp only [List.getD_eq_getElem?_getD, List.getElem?_eq_getElem hj, List.getElem?_eq_getElem hj',
        Option.getD_some] at this
      rw [this]
  · rw [List.getElem?_eq_none (by omega), List.getElem?_eq_none (by omega)]

/-- … and are the same after the packet has been delivered once more -/
theorem ackMap_deliver (w : World) (s : Nat) (k : Packet) : (w.deliver s k).1.ackMap s k = w.ackMap s k := by
  apply List.ext_getElem?
  intro j
  rw [ackMap_getElem?, ackMap_getElem?]
  have hr : (w.deliver s k).1.radios[j]? = (w.radios[j]?).map fun r => if j = s then r else (r.receive k).1 := by
    unfold deliver
    simp only [List.getElem?_map, deliverEach_getElem?]
    cases w.radios[j]? with
    | none => rfl
    | some r => simp only [Option.map_some]; split <;> rfl
  rw [hr]
  cases w.radios[j]? with
  | none => rfl
  | some r =>
    simp only [Option.map_some]
    by_cases hjs : j = s
    · simp [hjs]
    · simp only [hjs, ↓reduceIte]
      rw [Radio.receive_receive_snd]

theorem ackMap_nextFault (w : World) (s : Nat) (k : Packet) : w.nextFault.1.ackMap s k = w.ackMap s k := by
  unfold ackMap deliverEach; rw [nextFault_radios]

theorem deliver_snd_stable (w : World) (s : Nat) (k : Packet) : ((w.deliver s k).1.deliver s k).2 = (w.deliver s k).2 := by
  rw [deliver_snd_ackMap, deliver_snd_ackMap, ackMap_deliver]

theorem attemptLoop_ackMap (s : Nat) (k : Packet) (n made : Nat) (w : World) :
    (attemptLoop s k n made w).1.ackMap s k = w.ackMap s k :=
  attemptLoop_inv (fun w' => w'.ackMap s k = w.ackMap s k) s k
    (fun w' h => by rw [ackMap_nextFault]; exact h) (fun w' h => by rw [ackMap_deliver]; exact h) n made w rfl

/-! ### the fault pattern -/

theorem hasDeliveredB_iff (fs : List Outcome) (b : Nat) : hasDeliveredB fs b = true ↔ hasDelivered fs b := by
  unfold hasDelivered
  induction b generalizing fs with
  | zero => simp [hasDeliveredB]
  | succ b ih =>
    cases fs with
    | nil =>
      simp only [hasDeliveredB, true_iff]
      exact ⟨0, by omega, rfl⟩
    | cons o t =>
      cases o with
      | delivered =>
        simp only [hasDeliveredB, true_iff]
        exact ⟨0, by omega, rfl⟩
      | packetLost =>
        simp only [hasDeliveredB]
        rw [ih]
        constructor
        · rintro ⟨i, hi, h⟩; exact ⟨i + 1, by omega, by simpa [outcomeAt] using h⟩
        · rintro ⟨i, hi, h⟩
          cases i with
          | zero => simp [outcomeAt] at h
          | succ i => exact ⟨i, by omega, by simpa [outcomeAt] using h⟩
      | ackLost =>
        simp only [hasDeliveredB]
        rw [ih]
        constructor
        · rintro ⟨i, hi, h⟩; exact ⟨i + 1, by omega, by simpa [outcomeAt] using h⟩
        · rintro ⟨i, hi, h⟩
          cases i with
          | zero => simp [outcomeAt] at h
          | succ i => exact ⟨i, by omega, by simpa [outcomeAt] using h⟩

theorem attemptsUsed_le (fs : List Outcome) (b : Nat) : attemptsUsed fs b ≤ b := by
  induction b generalizing fs with
  | zero => cases fs <;> simp [attemptsUsed]
  | succ b ih =>
    cases fs with
    | nil => simp [attemptsUsed]
    | cons o t => cases o <;> simp only [attemptsUsed] <;> have := ih t <;> omega

/-- no attempt among the budget gets through: all of it is used -/
theorem attemptsUsed_of_not (fs : List Outcome) (b : Nat) (h : hasDeliveredB fs b = false) : attemptsUsed fs b = b := by
  induction b generalizing fs with
  | zero => cases fs <;> simp [attemptsUsed]
  | succ b ih =>
    cases fs with
    | nil => simp [hasDeliveredB] at h
    | cons o t =>
      cases o with
      | delivered => simp [hasDeliveredB] at h
      | packetLost => simp only [hasDeliveredB] at h; simp only [attemptsUsed]; rw [ih t h]; omega
      | ackLost => simp only [hasDeliveredB] at h; simp only [attemptsUsed]; rw [ih t h]; omega

/-- splitting a budget: the first `a` attempts, then `b` more on what is left of the pattern -/
theorem hasDeliveredB_add (fs : List Outcome) (a b : Nat) :
    hasDeliveredB fs (a + b) = (hasDeliveredB fs a || hasDeliveredB (fs.drop a) b) := by
  induction a generalizing fs with
  | zero => simp [hasDeliveredB]
  | succ a ih =>
    have e : a + 1 + b = (a + b) + 1 := by omega
    rw [e]
    cases fs with
    | nil =>
      simp only [hasDeliveredB, Bool.true_or]
    | cons o t =>
      cases o with
      | delivered => simp only [hasDeliveredB, Bool.true_or]
      | packetLost => simp only [hasDeliveredB, List.drop_succ_cons]; exact ih t
      | ackLost => simp only [hasDeliveredB, List.drop_succ_cons]; exact ih t

/-! ### the closed form of the attempt loop -/

/-- can the transmitter hear an acknowledgement: pipe 0 open with the TX address -/
def canHear (r : Radio) : Bool := Radio.bit r.enRxAddr 0 && r.rxAddr0.take r.aw == r.txAddr.take r.aw

/-- somebody acknowledges packet `k` of radio `s`, and `s` can hear it -/
def acked (w : World) (s : Nat) (k : Packet) : Bool := canHear (w.radio s) && (w.deliver s k).2.isSome

theorem acked_congr (w w' : World) (s : Nat) (k : Packet) (hs : w'.radio s = w.radio s)
    (ha : w'.ackMap s k = w.ackMap s k) : w'.acked s k = w.acked s k := by
  unfold acked; rw [hs, deliver_snd_ackMap, deliver_snd_ackMap, ha]

/-- **The Enhanced ShockBurst attempt loop, for every fault pattern.**  With budget `n`:
    it returns an acknowledgement iff somebody acknowledges the packet, the sender can hear it, and
    one of the first `n` outcomes is `delivered`; the acknowledgement is the one the first
    acknowledging radio sends; the attempts made are those up to the first `delivered` one (all `n`
    if there is none, or nobody to acknowledge); exactly that many outcomes are consumed. -/
theorem attemptLoop_spec (s : Nat) (k : Packet) (n made : Nat) (w : World) :
    (attemptLoop s k n made w).2.2 = (if w.acked s k && hasDeliveredB w.faults n then (w.deliver s k).2 else none) ∧
    (attemptLoop s k n made w).2.1 = made + (if w.acked s k then attemptsUsed w.faults n else n) ∧
    (attemptLoop s k n made w).1.faults = w.faults.drop (if w.acked s k then attemptsUsed w.faults n else n) := by
  induction n generalizing made w with
  | zero =>
    unfold attemptLoop
    cases hf : w.faults <;> simp [hasDeliveredB, attemptsUsed]
  | succ n ih =>
    have hA1 : w.nextFault.1.acked s k = w.acked s k :=
      acked_congr _ _ _ _ (nextFault_radio _ _) (ackMap_nextFault _ _ _)
    have hA2 : (w.nextFault.1.deliver s k).1.acked s k = w.acked s k := by
      rw [← hA1]
      exact acked_congr _ _ _ _ (deliver_radio_self _ _ _) (ackMap_deliver _ _ _)
    have hD1 : (w.nextFault.1.deliver s k).2 = (w.deliver s k).2 := by
      rw [deliver_snd_ackMap, deliver_snd_ackMap, ackMap_nextFault]
    have hD2 : ((w.nextFault.1.deliver s k).1.deliver s k).2 = (w.deliver s k).2 := by
      rw [deliver_snd_stable, hD1]
    have hF2 : (w.nextFault.1.deliver s k).1.faults = w.nextFault.1.faults := rfl
    unfold attemptLoop
    simp only
    have ho := nextFault_outcome w
    have hfl := nextFault_faults w
    cases hfs : w.faults with
    | nil =>
      -- undisturbed air: `delivered`
      rw [hfs] at ho hfl
      simp only [List.getD_nil] at ho
      simp only [List.drop_nil] at hfl
      rw [ho]
      simp only [hasDeliveredB, attemptsUsed, Bool.and_true, List.drop_nil]
      cases hdl : (w.nextFault.1.deliver s k).2 with
      | none =>
        simp only
        have hA : w.acked s k = false := by
          unfold acked; rw [← hD1, hdl]; simp
        obtain ⟨i1, i2, i3⟩ := ih (made + 1) (w.nextFault.1.deliver s k).1
        rw [hA2, hA] at i1 i2 i3
        rw [hF2, hfl] at i3
        simp only [Bool.false_and, Bool.false_eq_true, ↓reduceIte, List.drop_nil] at i1 i2 i3
        rw [hA]
        simp only [Bool.false_eq_true, ↓reduceIte]
        exact ⟨i1, by rw [i2]; omega, i3⟩
      | some a =>
        simp only
        have hch : (Radio.bit ((w.nextFault.1.deliver s k).1.radio s).enRxAddr 0 &&
            ((w.nextFault.1.deliver s k).1.radio s).rxAddr0.take ((w.nextFault.1.deliver s k).1.radio s).aw ==
              ((w.nextFault.1.deliver s k).1.radio s).txAddr.take ((w.nextFault.1.deliver s k).1.radio s).aw)
            = canHear (w.radio s) := by
          rw [deliver_radio_self, nextFault_radio]; rfl
        rw [hch]
        cases hc : canHear (w.radio s) with
        | true =>
          have hA : w.acked s k = true := by
            unfold acked; rw [hc, ← hD1, hdl]; rfl
          rw [hA]
          simp only [↓reduceIte]
          refine ⟨by rw [← hD1, hdl], by first | rfl | trivial, ?_⟩
          rw [hF2, hfl]
        | false =>
          have hA : w.acked s k = false := by unfold acked; rw [hc]; rfl
          simp only [Bool.false_eq_true, ↓reduceIte]
          obtain ⟨i1, i2, i3⟩ := ih (made + 1) (w.nextFault.1.deliver s k).1
          rw [hA2, hA] at i1 i2 i3
          rw [hF2, hfl] at i3
          simp only [Bool.false_and, Bool.false_eq_true, ↓reduceIte, List.drop_nil] at i1 i2 i3
          rw [hA]
          simp only [Bool.false_eq_true, ↓reduceIte]
          exact ⟨i1, by rw [i2]; omega, i3⟩
    | cons o t =>
      rw [hfs] at ho hfl
      simp only [List.getD_cons_zero] at ho
      simp only [List.drop_succ_cons, List.drop_zero] at hfl
      rw [ho]
      cases o with
      | packetLost =>
        simp only [hasDeliveredB, attemptsUsed]
        obtain ⟨i1, i2, i3⟩ := ih (made + 1) w.nextFault.1
        rw [hA1, hfl] at i1 i2 i3
        have hD0 : (w.nextFault.1.deliver s k).2 = (w.deliver s k).2 := hD1
        rw [hD0] at i1
        refine ⟨i1, ?_, ?_⟩
        · rw [i2]; split <;> omega
        · rw [i3]; split
          · rw [Nat.add_comm 1, List.drop_succ_cons]
          · rw [List.drop_succ_cons]
      | ackLost =>
        simp only [hasDeliveredB, attemptsUsed]
        obtain ⟨i1, i2, i3⟩ := ih (made + 1) (w.nextFault.1.deliver s k).1
        rw [hA2] at i1 i2 i3
        rw [hF2, hfl] at i1 i2 i3
        rw [hD2] at i1
        refine ⟨i1, ?_, ?_⟩
        · rw [i2]; split <;> omega
        · rw [i3]; split
          · rw [Nat.add_comm 1, List.drop_succ_cons]
          · rw [List.drop_succ_cons]
      | delivered =>
        simp only [hasDeliveredB, attemptsUsed, Bool.and_true]
        cases hdl : (w.nextFault.1.deliver s k).2 with
        | none =>
          simp only
          have hA : w.acked s k = false := by
            unfold acked; rw [← hD1, hdl]; simp
          obtain ⟨i1, i2, i3⟩ := ih (made + 1) (w.nextFault.1.deliver s k).1
          rw [hA2, hA] at i1 i2 i3
          rw [hF2, hfl] at i3
          simp only [Bool.false_and, Bool.false_eq_true, ↓reduceIte] at i1 i2 i3
          rw [hA]
          simp only [Bool.false_eq_true, ↓reduceIte]
          exact ⟨i1, by rw [i2]; omega, by rw [i3, List.drop_succ_cons]⟩
        | some a =>
          simp only
          have hch : (Radio.bit ((w.nextFault.1.deliver s k).1.radio s).enRxAddr 0 &&
              ((w.nextFault.1.deliver s k).1.radio s).rxAddr0.take ((w.nextFault.1.deliver s k).1.radio s).aw ==
                ((w.nextFault.1.deliver s k).1.radio s).txAddr.take ((w.nextFault.1.deliver s k).1.radio s).aw)
              = canHear (w.radio s) := by
            rw [deliver_radio_self, nextFault_radio]; rfl
          rw [hch]
          cases hc : canHear (w.radio s) with
          | true =>
            have hA : w.acked s k = true := by
              unfold acked; rw [hc, ← hD1, hdl]; rfl
            rw [hA]
            simp only [↓reduceIte]
            refine ⟨by rw [← hD1, hdl], by first | rfl | trivial, ?_⟩
            rw [hF2, hfl]; rfl
          | false =>
            have hA : w.acked s k = false := by unfold acked; rw [hc]; rfl
            simp only [Bool.false_eq_true, ↓reduceIte]
            obtain ⟨i1, i2, i3⟩ := ih (made + 1) (w.nextFault.1.deliver s k).1
            rw [hA2, hA] at i1 i2 i3
            rw [hF2, hfl] at i3
            simp only [Bool.false_and, Bool.false_eq_true, ↓reduceIte] at i1 i2 i3
            rw [hA]
            simp only [Bool.false_eq_true, ↓reduceIte]
            exact ⟨i1, by rw [i2]; omega, by rw [i3, List.drop_succ_cons]⟩

end World
end Nrf
