/-
Symbolic execution of `NetM` computations (the node layer): `nexec m s = (result, final state)` and
the rewrite rules that push `nexec` through the monad operations and the primitives of
`NrfModel/Net/Node.lean`.  Generic rules only (pure / bind / throw / get / set / modify / ite /
tryCatch / liftRf / liftPy / getNode / modNode / setHdr / sleep / clock / takeId).
-/
import NrfModel.Net.Api
import NrfProofs.Exec

namespace Nrf.NetK
open Nrf Nrf.Net

/-- run a node-layer computation from state `s` -/
def nexec {α} (m : NetM α) (s : NetState) : Except PyErr α × NetState := (m.run).run s

/-- the node the computation runs as -/
def curNode (s : NetState) : Node := s.nodes.getD s.cur default

/-- the state with the current node replaced by `f` of it -/
def updCur (s : NetState) (f : Node → Node) : NetState := { s with nodes := s.nodes.modify s.cur f }

theorem nexec_def {α} (m : NetM α) (s : NetState) : nexec m s = m s := rfl

@[simp] theorem nexec_pure {α} (a : α) (s : NetState) : nexec (pure a : NetM α) s = (.ok a, s) := rfl

@[simp] theorem nexec_bind {α β} (x : NetM α) (f : α → NetM β) (s : NetState) :
    nexec (x >>= f) s =
      match nexec x s with
      | (.ok a, s') => nexec (f a) s'
      | (.error e, s') => (.error e, s') := by
  unfold nexec
  simp only [ExceptT.run_bind]
  show (x.run >>= _).run s = _
  rw [StateT.run_bind]
  show (match x.run.run s with | (a, s') => _) = _
  rcases h : x.run.run s with ⟨r, s'⟩
  cases r <;> rfl

@[simp] theorem nexec_map {α β} (g : α → β) (x : NetM α) (s : NetState) :
    nexec (g <$> x) s =
      match nexec x s with
      | (.ok a, s') => (.ok (g a), s')
      | (.error e, s') => (.error e, s') := by
  rw [map_eq_pure_bind, nexec_bind]
  rcases nexec x s with ⟨r, s'⟩
  cases r <;> rfl

@[simp] theorem nexec_throw {α} (e : PyErr) (s : NetState) : nexec (throw e : NetM α) s = (.error e, s) := rfl
@[simp] theorem nexec_get (s : NetState) : nexec (get : NetM NetState) s = (.ok s, s) := rfl
@[simp] theorem nexec_set (s' s : NetState) : nexec (set s' : NetM Unit) s = (.ok (), s') := rfl
@[simp] theorem nexec_modify (f : NetState → NetState) (s : NetState) :
    nexec (modify f : NetM Unit) s = (.ok (), f s) := rfl

@[simp] theorem nexec_ite {α} (c : Prop) [Decidable c] (a b : NetM α) (s : NetState) :
    nexec (if c then a else b) s = if c then nexec a s else nexec b s := by
  split <;> rfl

@[simp] theorem nexec_dite {α} (c : Prop) [Decidable c] (a : c → NetM α) (b : ¬ c → NetM α) (s : NetState) :
    nexec (dite c a b) s = if h : c then nexec (a h) s else nexec (b h) s := by
  split <;> rfl

/-- `try m catch e => h e` -/
@[simp] theorem nexec_tryCatch {α} (m : NetM α) (h : PyErr → NetM α) (s : NetState) :
    nexec (tryCatch m h) s =
      match nexec m s with
      | (.ok a, s') => (.ok a, s')
      | (.error e, s') => nexec (h e) s' := by
  unfold nexec
  show (ExceptT.tryCatch m h).run.run s = _
  unfold ExceptT.tryCatch
  simp only [ExceptT.run_mk]
  show (m.run >>= _).run s = _
  rw [StateT.run_bind]
  show (match m.run.run s with | (a, s') => _) = _
  rcases hm : m.run.run s with ⟨r, s'⟩
  cases r <;> rfl

@[simp] theorem nexec_getNode (s : NetState) : nexec getNode s = (.ok (curNode s), s) := rfl
@[simp] theorem nexec_modNode (f : Node → Node) (s : NetState) : nexec (modNode f) s = (.ok (), updCur s f) := rfl
@[simp] theorem nexec_setHdr (f : Header → Header) (s : NetState) :
    nexec (setHdr f) s =
      (.ok (), updCur s fun n => { n with frameBuf := { n.frameBuf with header := f n.frameBuf.header } }) := rfl
@[simp] theorem nexec_nowNs (s : NetState) : nexec nowNs s = (.ok s.w.clock, s) := rfl
@[simp] theorem nexec_sleepNs (n : Nat) (s : NetState) :
    nexec (sleepNs n) s = (.ok (), { s with w := s.w.sleep n }) := rfl
@[simp] theorem nexec_takeId (s : NetState) :
    nexec takeId s = (.ok s.nextId, { s with nextId := (s.nextId + 1) &&& 0xFFFF }) := rfl

@[simp] theorem nexec_liftPy_ok {α} (a : α) (s : NetState) : nexec (liftPy (.ok a)) s = (.ok a, s) := rfl
@[simp] theorem nexec_liftPy_error {α} (e : PyErr) (s : NetState) :
    nexec (liftPy (.error e : PyM α)) s = (.error e, s) := rfl

theorem nexec_liftPy {α} (x : PyM α) (s : NetState) :
    nexec (liftPy x) s = (match x with | .ok a => (.ok a, s) | .error e => (.error e, s)) := by
  cases x <;> rfl

/-- the driver state the current node's `_rf24` calls start from -/
def drvOf (s : NetState) : DrvState := { d := (curNode s).rf, w := s.w }

/-- the node-layer state after an `_rf24` call that ended in driver state `t` -/
def putDrv (s : NetState) (t : DrvState) : NetState :=
  { s with nodes := s.nodes.modify s.cur (fun n => { n with rf := t.d }), w := t.w }

theorem nexec_liftRf {α} (m : DrvM α) (s : NetState) :
    nexec (liftRf m) s = ((exec m (drvOf s)).1, putDrv s (exec m (drvOf s)).2) := rfl

/-! ### the current node after the primitive state changes -/

@[simp] theorem updCur_cur (s : NetState) (f : Node → Node) : (updCur s f).cur = s.cur := rfl
@[simp] theorem updCur_w (s : NetState) (f : Node → Node) : (updCur s f).w = s.w := rfl
@[simp] theorem updCur_closed (s : NetState) (f : Node → Node) : (updCur s f).closed = s.closed := rfl
@[simp] theorem updCur_active (s : NetState) (f : Node → Node) : (updCur s f).active = s.active := rfl
@[simp] theorem updCur_nextId (s : NetState) (f : Node → Node) : (updCur s f).nextId = s.nextId := rfl
@[simp] theorem updCur_length (s : NetState) (f : Node → Node) :
    (updCur s f).nodes.length = s.nodes.length := by simp [updCur]

/-- the current node exists -/
def HasCur (s : NetState) : Prop := s.cur < s.nodes.length

theorem curNode_updCur (s : NetState) (f : Node → Node) (h : HasCur s) :
    curNode (updCur s f) = f (curNode s) := by
  unfold curNode updCur HasCur at *
  simp [List.getD_eq_getElem?_getD, h]

@[simp] theorem hasCur_updCur (s : NetState) (f : Node → Node) : HasCur (updCur s f) ↔ HasCur s := by
  simp [HasCur]

theorem updCur_updCur (s : NetState) (f g : Node → Node) :
    updCur (updCur s f) g = updCur s (g ∘ f) := by
  unfold updCur
  simp [List.modify_modify_eq]

@[simp] theorem putDrv_cur (s : NetState) (t : DrvState) : (putDrv s t).cur = s.cur := rfl
@[simp] theorem putDrv_w (s : NetState) (t : DrvState) : (putDrv s t).w = t.w := rfl
@[simp] theorem putDrv_closed (s : NetState) (t : DrvState) : (putDrv s t).closed = s.closed := rfl
@[simp] theorem putDrv_active (s : NetState) (t : DrvState) : (putDrv s t).active = s.active := rfl
@[simp] theorem putDrv_nextId (s : NetState) (t : DrvState) : (putDrv s t).nextId = s.nextId := rfl
@[simp] theorem hasCur_putDrv (s : NetState) (t : DrvState) : HasCur (putDrv s t) ↔ HasCur s := by
  simp [HasCur, putDrv]

theorem putDrv_eq_updCur (s : NetState) (t : DrvState) :
    putDrv s t = { updCur s (fun n => { n with rf := t.d }) with w := t.w } := rfl

theorem curNode_putDrv (s : NetState) (t : DrvState) (h : HasCur s) :
    curNode (putDrv s t) = { curNode s with rf := t.d } := by
  unfold curNode putDrv HasCur at *
  simp [List.getD_eq_getElem?_getD, h]

theorem drvOf_putDrv (s : NetState) (t : DrvState) (h : HasCur s) : drvOf (putDrv s t) = t := by
  unfold drvOf
  rw [curNode_putDrv s t h]
  rfl

theorem putDrv_putDrv (s : NetState) (t t' : DrvState) : putDrv (putDrv s t) t' = putDrv s t' := by
  unfold putDrv
  simp [List.modify_modify_eq]
  congr 1

@[simp] theorem drvOf_w (s : NetState) : (drvOf s).w = s.w := rfl
@[simp] theorem drvOf_d (s : NetState) : (drvOf s).d = (curNode s).rf := rfl

end Nrf.NetK
