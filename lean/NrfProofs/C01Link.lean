/-
C01 helper lemmas: a compatible receiver accepts the packet `send()` transmits on the intended
pipe, with the expected payload; what it stores; rejection of bad lengths; the caller's buffer.
-/
import NrfProofs.C02Hist

namespace Nrf
open Rf24 Spec.Link

theorem staticPayload_eq (buf : Bytes) (n : Nat) : staticPayload buf n = (buf ++ List.replicate n 0).take n := by
  unfold staticPayload zeros
  split
  · rename_i h
    rw [List.take_append]
    rw [List.take_of_length_le (by omega), List.take_replicate]
    congr 2; omega
  · split
    · rename_i h1 h2
      rw [List.take_append_of_le_length (by omega)]
    · rename_i h1 h2
      have : buf.length = n := by omega
      rw [List.take_append_of_le_length (by omega), List.take_of_length_le (by omega)]

theorem staticPayload_length (buf : Bytes) (n : Nat) : (staticPayload buf n).length = n := by
  rw [staticPayload_eq]
  simp only [List.length_take, List.length_append, List.length_replicate]
  omega

/-- the payload `send()` loads is the expected one -/
theorem sendEntry_data (s : DrvState) (j p : Nat) (dyn : Bool) (askNoAck : Bool) (buf : Bytes)
    (hc : Compatible s j p dyn) (hlen : dyn = true → buf.length ≤ 32) :
    (s.sendEntry askNoAck buf).data = expectedPayload dyn (s.d.plLen.getD 0 0) buf := by
  unfold DrvState.sendEntry txEntryOf writeBytes expectedPayload
  simp only
  have hm := hc.modeDrv
  cases dyn with
  | true =>
    have h1 : s.d.dynPl &&& 1 ≠ 0 := by simpa using hm
    have h1' : ¬ (s.d.dynPl &&& 1 = 0) := h1
    simp only [h1', ↓reduceIte]
    exact List.take_of_length_le (hlen rfl)
  | false =>
    have h1 : s.d.dynPl &&& 1 = 0 := by simpa using hm
    simp only [h1, ↓reduceIte, Bool.false_eq_true]
    rw [List.take_of_length_le (by rw [staticPayload_length]; exact (hc.width rfl).2.2)]
    exact staticPayload_eq _ _

/-- **a compatible receiver accepts the packet on pipe `p`** -/
theorem compat_listens (s : DrvState) (j p : Nat) (dyn : Bool) (askNoAck : Bool) (buf : Bytes)
    (hc : Compatible s j p dyn) (hlen : dyn = true → buf.length ≤ 32) :
    (s.w.radio j).listensTo (s.sendPacket askNoAck buf) = some p := by
  rw [Radio.listensTo_eq_some]
  have hk : s.sendPacket askNoAck buf = s.rad.packetFor (s.sendEntry askNoAck buf) := rfl
  have hdata := sendEntry_data s j p dyn askNoAck buf hc hlen
  refine ⟨?_, ?_, ?_⟩
  · unfold Radio.tuned
    rw [hk]
    unfold Radio.packetFor
    simp only [hc.listening, hc.ch, hc.rate, hc.esb, hc.crc, hc.aw, Bool.true_and, beq_self_eq_true]
    have := hc.awLen
    unfold DrvState.rad
    rw [this]
    simp
  · rw [hk]; exact hc.pipe
  · unfold Radio.lenRule
    rw [hk]
    unfold Radio.packetFor
    simp only [hc.modeRx]
    have hmt : (s.rad.esb && s.rad.dplOn 0) = dyn := hc.modeTx
    rw [hmt]
    cases dyn with
    | true => simp
    | false =>
      simp only [beq_self_eq_true, Bool.false_eq_true, ↓reduceIte, Bool.true_and, Bool.and_eq_true, beq_iff_eq,
        decide_eq_true_eq]
      rw [hdata]
      obtain ⟨h1, h2, h3⟩ := hc.width rfl
      unfold expectedPayload
      simp only [Bool.false_eq_true, ↓reduceIte, List.length_take, List.length_append, List.length_replicate]
      rw [h1]
      omega

/-- a new packet accepted with room is stored at the tail of the RX FIFO, tagged with its pipe,
    and latches RX_DR; nothing already stored is touched -/
theorem receive_new_rx (r : Radio) (k : Packet) (p : Nat) (hl : r.listensTo k = some p) (hd : r.isDup k = false)
    (hroom : r.rxFifo.length < 3) :
    (r.receive k).1.rxFifo = r.rxFifo ++ [⟨p, k.data⟩] ∧ (r.receive k).1.flags = r.flags ||| 0x40 ∧
    (r.receive k).1.lastRx = (if k.esb then some ⟨k.pid, k.addr, k.data⟩ else r.lastRx) := by
  cases ha : r.acksOn k p with
  | false => rw [Radio.receive_new_noack r k p hl hd hroom ha]; exact ⟨rfl, rfl, rfl⟩
  | true =>
    cases hp : r.ackPayOn k p with
    | false => rw [Radio.receive_new_plain r k p hl hd hroom ha hp]; exact ⟨rfl, rfl, rfl⟩
    | true =>
      cases ht : Radio.takeAck r.txFifo p with
      | none => rw [Radio.receive_new_nopay r k p hl hd hroom ha hp ht]; exact ⟨rfl, rfl, rfl⟩
      | some dr =>
        obtain ⟨d, rest⟩ := dr
        rw [Radio.receive_new_pay r k p hl hd hroom ha hp d rest ht]; exact ⟨rfl, rfl, rfl⟩

/-- the receivers after `send()` when the air is undisturbed: each has received the packet (once, or
    — Enhanced ShockBurst — several times with all repetitions recognised as duplicates) -/
theorem send_receiver (s : DrvState) (buf : Bytes) (m askNoAck : Bool) (n : Nat) (sendOnly : Bool)
    (h : SendPre s buf sendOnly) (henv : AckEnv s.rad (s.sendPacket askNoAck buf) s) (hf : s.w.faults = [])
    (j : Nat) (hj : j < s.w.radios.length) (hjs : j ≠ s.d.rid) :
    (exec (send buf m askNoAck (n : Int) sendOnly) s).2.w.radio j =
      ((s.w.radio j).receive (s.sendPacket askNoAck buf)).1 := by
  obtain ⟨_, ⟨att, h1, _, haw1, hrun⟩, _, _⟩ := send_final s buf m askNoAck n sendOnly h henv
  rw [hrun.sent.others j hjs hj, hf, deliveries_nil]
  obtain ⟨a, rfl⟩ : ∃ a, att = a + 1 := ⟨att - 1, by omega⟩
  cases he : (s.sendPacket askNoAck buf).esb with
  | true => exact recvN_esb _ he a _
  | false =>
    have : s.sendAwaits askNoAck buf = false := by
      unfold DrvState.sendAwaits Radio.awaitsAck
      have : s.rad.esb = false := he
      rw [this]; rfl
    have := haw1 this
    have ha0 : a = 0 := by omega
    subst ha0
    rfl

/-! ### rejection, and the caller's buffer -/

/-- `write()` in dynamic mode with an empty or oversize buffer: `ValueError` and **nothing at all**
    happens — the state (driver, every radio, air, time) is identical -/
theorem write_reject (s : DrvState) (buf : Bytes) (m askNoAck : Bool) (hd : s.d.dynPl &&& 1 ≠ 0)
    (hb : buf = [] ∨ buf.length > 32) :
    exec (write buf m askNoAck) s = (.error .valueError, s) := by
  rw [write_eq]
  have hc : s.d.dynPl &&& 1 ≠ 0 ∧ (buf.isEmpty = true ∨ buf.length > 32) := by
    refine ⟨hd, ?_⟩
    rcases hb with hb | hb
    · left; rw [hb]; rfl
    · right; exact hb
  rw [exec_bind, exec_getD]
  simp only
  rw [if_pos hc, exec_raise]

/-- the caller's buffer as returned by `write()` is the buffer passed in — whatever happens -/
theorem write_buffer (s : DrvState) (buf : Bytes) (m askNoAck : Bool) (r : Bool × Bytes)
    (h : (exec (write buf m askNoAck) s).1 = .ok r) : r.2 = buf := by
  rw [write_eq, exec_bind, exec_getD] at h
  simp only at h
  split at h
  · rw [exec_raise] at h; cases h
  · unfold writeTail at h
    simp only [exec_bind, exec_clearStatusFlags, exec_getD] at h
    split at h
    · cases h; rfl
    · simp only [exec_bind, exec_regWriteBytes, exec_setCE, exec_pure] at h; cases h; rfl

theorem exec_bind_fst_ok {α β} {m : DrvM α} {f : α → DrvM β} {s : DrvState} {r : β}
    (h : (exec (m >>= f) s).1 = .ok r) : ∃ a, (exec m s).1 = .ok a ∧ (exec (f a) (exec m s).2).1 = .ok r := by
  rw [exec_bind] at h
  rcases hh : exec m s with ⟨res, s'⟩
  rw [hh] at h
  cases res with
  | error e => cases h
  | ok a => exact ⟨a, rfl, h⟩

/-- whatever `send()` does after `write()`, the buffer it returns is the one `write()` returned -/
theorem sendFinish_snd (c : Bytes) (forceRetry : Int) (sendOnly : Bool) (s : DrvState) (r : SendRes × Bytes)
    (h : (exec (sendFinish c forceRetry sendOnly) s).1 = .ok r) : r.2 = c := by
  rw [sendFinish_eq] at h
  obtain ⟨_, _, h⟩ := exec_bind_fst_ok h
  unfold sendRest at h
  obtain ⟨_, _, h⟩ := exec_bind_fst_ok h
  obtain ⟨res, _, h⟩ := exec_bind_fst_ok h
  obtain ⟨d, _, h⟩ := exec_bind_fst_ok h
  split at h
  · obtain ⟨p, _, h⟩ := exec_bind_fst_ok h
    rw [exec_pure] at h; cases h; rfl
  · rw [exec_pure] at h; cases h; rfl

theorem sendTail_snd (buf : Bytes) (m a : Bool) (forceRetry : Int) (sendOnly : Bool) (s : DrvState) (r : SendRes × Bytes)
    (h : (exec (sendTail buf m a forceRetry sendOnly) s).1 = .ok r) : r.2 = buf := by
  unfold sendTail at h
  obtain ⟨x, hx, h⟩ := exec_bind_fst_ok h
  rw [sendFinish_snd _ _ _ _ _ h]
  exact write_buffer s buf m a x hx

theorem sendMid_snd (buf : Bytes) (m a : Bool) (forceRetry : Int) (sendOnly : Bool) (s : DrvState) (r : SendRes × Bytes)
    (h : (exec (sendMid buf m a forceRetry sendOnly) s).1 = .ok r) : r.2 = buf := by
  unfold sendMid at h
  obtain ⟨d, _, h⟩ := exec_bind_fst_ok h
  split at h
  · obtain ⟨_, _, h⟩ := exec_bind_fst_ok h
    exact sendTail_snd _ _ _ _ _ _ _ h
  · exact sendTail_snd _ _ _ _ _ _ _ h

/-- **the buffer `send()` hands back is the buffer it was given** — in every state, for every
    argument, whatever the outcome -/
theorem send_buffer (buf : Bytes) (m a : Bool) (forceRetry : Int) (sendOnly : Bool) (s : DrvState) (r : SendRes × Bytes)
    (h : (exec (send buf m a forceRetry sendOnly) s).1 = .ok r) : r.2 = buf := by
  rw [send_eq] at h
  obtain ⟨_, _, h⟩ := exec_bind_fst_ok h
  obtain ⟨d, _, h⟩ := exec_bind_fst_ok h
  split at h
  · obtain ⟨_, _, h⟩ := exec_bind_fst_ok h
    exact sendMid_snd _ _ _ _ _ _ _ h
  · exact sendMid_snd _ _ _ _ _ _ _ h

/-- **`send()` in dynamic mode with an empty or oversize buffer: `ValueError`, and the payload never
    reaches the radio**: no W_TX_PAYLOAD is issued — the TX FIFO is as before or flushed, never
    longer; nothing goes on the air; the fault pattern, every other radio are untouched (what has
    happened before `write()` raised is `send()`'s preamble: CE low and the flushes the cached status
    byte asks for) -/
theorem send_reject (s : DrvState) (buf : Bytes) (m askNoAck : Bool) (forceRetry : Int) (sendOnly : Bool)
    (hw : s.Wf) (hd : s.d.dynPl &&& 1 ≠ 0) (hb : buf = [] ∨ buf.length > 32) :
    (exec (send buf m askNoAck forceRetry sendOnly) s).1 = .error .valueError ∧
    ((exec (send buf m askNoAck forceRetry sendOnly) s).2.rad.txFifo = s.rad.txFifo ∨
     (exec (send buf m askNoAck forceRetry sendOnly) s).2.rad.txFifo = []) ∧
    (exec (send buf m askNoAck forceRetry sendOnly) s).2.w.air = s.w.air ∧
    (exec (send buf m askNoAck forceRetry sendOnly) s).2.w.faults = s.w.faults ∧
    (∀ j, j ≠ s.d.rid → (exec (send buf m askNoAck forceRetry sendOnly) s).2.w.radio j = s.w.radio j) := by
  have k : Packet := default
  rw [send_eq]
  simp only [exec_bind, exec_setCE_false s hw, exec_getD]
  obtain ⟨hrel1, hr1, hd1⟩ := step_ce k s false hw
  generalize hs1 : s.ceQ false = s1 at *
  have tail : ∀ (s3 : DrvState) (n : Nat), Rel k s s3 n → (s3.rad.txFifo = s.rad.txFifo ∨ s3.rad.txFifo = []) →
      (exec (sendTail buf m askNoAck forceRetry sendOnly) s3).1 = .error .valueError ∧
      ((exec (sendTail buf m askNoAck forceRetry sendOnly) s3).2.rad.txFifo = s.rad.txFifo ∨
       (exec (sendTail buf m askNoAck forceRetry sendOnly) s3).2.rad.txFifo = []) ∧
      (exec (sendTail buf m askNoAck forceRetry sendOnly) s3).2.w.air = s.w.air ∧
      (exec (sendTail buf m askNoAck forceRetry sendOnly) s3).2.w.faults = s.w.faults ∧
      (∀ j, j ≠ s.d.rid → (exec (sendTail buf m askNoAck forceRetry sendOnly) s3).2.w.radio j = s.w.radio j) := by
    intro s3 n hrel3 htx3
    have hd3 : s3.d.dynPl &&& 1 ≠ 0 := by rw [hrel3.d]; exact hd
    unfold sendTail
    rw [exec_bind, write_reject s3 buf m askNoAck hd3 hb]
    exact ⟨rfl, htx3, hrel3.kept.air, hrel3.kept.faults, hrel3.kept.others⟩
  have mid : ∀ (s2 : DrvState) (n : Nat), Rel k s s2 n → (s2.rad.txFifo = s.rad.txFifo ∨ s2.rad.txFifo = []) →
      s2.rad.ce = false →
      (exec (sendMid buf m askNoAck forceRetry sendOnly) s2).1 = .error .valueError ∧
      ((exec (sendMid buf m askNoAck forceRetry sendOnly) s2).2.rad.txFifo = s.rad.txFifo ∨
       (exec (sendMid buf m askNoAck forceRetry sendOnly) s2).2.rad.txFifo = []) ∧
      (exec (sendMid buf m askNoAck forceRetry sendOnly) s2).2.w.air = s.w.air ∧
      (exec (sendMid buf m askNoAck forceRetry sendOnly) s2).2.w.faults = s.w.faults ∧
      (∀ j, j ≠ s.d.rid → (exec (sendMid buf m askNoAck forceRetry sendOnly) s2).2.w.radio j = s.w.radio j) := by
    intro s2 n hrel2 htx2 hce2
    unfold sendMid
    simp only [exec_bind, exec_getD]
    by_cases hc : (!sendOnly) = true ∧ rxPipeField s2.d < 6
    · simp only [hc, and_self, ↓reduceIte, exec_flushRx]
      have hi : (s2.rad.xfer [0xE2]).1.Idle := by
        rw [Radio.xfer_flushRx]; exact Radio.idle_of_ce _ hce2
      obtain ⟨hrel3, hr3, _⟩ := step_spi k s2 0xE2 [] hrel2.wf hi
      refine tail (s2.spiStep [0xE2]) (n + 1) (hrel2.trans hrel3) ?_
      rw [hr3, Radio.xfer_flushRx]; exact htx2
    · simp only [hc, ↓reduceIte]
      exact tail s2 n hrel2 htx2
  by_cases hc : s1.d.status &&& 0x10 ≠ 0 ∨ s1.d.status &&& 1 ≠ 0
  · simp only [hc, ↓reduceIte, exec_flushTx]
    have hx2 : (s1.rad.xfer [0xE1]).1 = { s.rad with ce := false, txFifo := [] } := by
      rw [Radio.xfer_flushTx, hr1]
    obtain ⟨hrel2, hr2, _⟩ := step_spi k s1 0xE1 [] hrel1.wf (by rw [hx2]; exact Radio.idle_of_ce _ rfl)
    rw [hx2] at hr2
    exact mid (s1.spiStep [0xE1]) (0 + 1) (hrel1.trans hrel2) (Or.inr (by rw [hr2])) (by rw [hr2])
  · simp only [hc, ↓reduceIte]
    exact mid s1 0 hrel1 (Or.inl (by rw [hr1])) (by rw [hr1])

/-- the first index below `n` satisfying `f` -/
theorem find_range (f : Nat → Bool) (n p : Nat) :
    (List.range n).find? f = some p ↔ p < n ∧ f p = true ∧ ∀ q, q < p → f q = false := by
  induction n with
  | zero => simp
  | succ n ih =>
    rw [List.range_succ, List.find?_append]
    constructor
    · intro h
      cases hfn : (List.range n).find? f with
      | some p' =>
        rw [hfn] at h
        simp only [Option.some_or, Option.some.injEq] at h
        subst h
        obtain ⟨a, b, c⟩ := ih.1 hfn
        exact ⟨by omega, b, c⟩
      | none =>
        rw [hfn] at h
        simp only [Option.none_or] at h
        have hall := List.find?_eq_none.1 hfn
        have hfn' : f n = true := by
          cases hh : f n with
          | true => rfl
          | false => simp [List.find?, hh] at h
        have hpn : p = n := by simp [List.find?, hfn'] at h; exact h.symm
        subst hpn
        refine ⟨by omega, hfn', fun q hq => ?_⟩
        have := hall q (List.mem_range.2 hq)
        simpa using this
    · rintro ⟨h1, h2, h3⟩
      by_cases hp : p < n
      · rw [ih.2 ⟨hp, h2, h3⟩]; rfl
      · have hpn : p = n := by omega
        subst hpn
        have : (List.range p).find? f = none := by
          rw [List.find?_eq_none]
          intro x hx
          have := h3 x (List.mem_range.1 hx)
          simp [this]
        rw [this]
        simp [List.find?, h2]

end Nrf
