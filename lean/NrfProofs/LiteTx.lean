/-
What a transmit cycle does to the *transmitting* radio, in any world and for any fault pattern:
`World.cycle` / `World.tryTransmit` seen from radio `s` itself.  Used for termination of the polling
loops: once CE goes high in TX mode with a payload at the head of the TX FIFO, TX_DS or MAX_RT is
latched — whatever the air does.
-/
import NrfProofs.LiteInterop

namespace Nrf

def TxKind.isAckPayload : TxKind → Bool
  | .ackFor _ => true
  | _ => false

/-- the TX FIFO holds at most three entries, none of them an ACK payload -/
structure Radio.LiteTxInv (r : Radio) : Prop where
  noAck : ∀ e ∈ r.txFifo, e.kind.isAckPayload = false
  len : r.txFifo.length ≤ 3

/-- nothing is waiting to be transmitted -/
def Radio.LiteStable (r : Radio) : Prop := r.txMode = false ∨ r.flags &&& 0x10 ≠ 0 ∨ r.txFifo = []

theorem lite_or_and_ne_zero (a x m : Nat) (h : a &&& m ≠ 0) : (a ||| x) &&& m ≠ 0 := by
  rw [Nat.and_or_distrib_right]
  intro h0
  exact h (Nat.or_eq_zero_iff.mp h0).1

theorem lite_or_and_ne_zero' (a x m : Nat) (h : x &&& m ≠ 0) : (a ||| x) &&& m ≠ 0 := by
  rw [Nat.and_or_distrib_right]
  intro h0
  exact h (Nat.or_eq_zero_iff.mp h0).2

namespace World

theorem radio_setRadio_self_l (w : World) (s : Nat) (r : Radio) (hs : s < w.radios.length) :
    (w.setRadio s r).radio s = r := by
  rw [radio_setRadio]; simp [hs]

theorem setRadio_length_l (w : World) (s : Nat) (r : Radio) : (w.setRadio s r).radios.length = w.radios.length := by
  simp [setRadio]

theorem deliver_length_l (w : World) (s : Nat) (k : Packet) : (w.deliver s k).1.radios.length = w.radios.length :=
  (deliver_cfgEq w s k).1

/-- the sender is not among its own receivers -/
theorem deliver_radio_self_l (w : World) (s : Nat) (k : Packet) : (w.deliver s k).1.radio s = w.radio s := by
  unfold deliver deliverEach radio
  simp only [List.getD_eq_getElem?_getD, List.map_map, List.getElem?_map, List.getElem?_zipIdx]
  cases h : w.radios[s]? with
  | none => simp
  | some r => simp

theorem nextFault_radios_l (w : World) : w.nextFault.1.radios = w.radios := by
  unfold nextFault; split <;> rfl

theorem nextFault_radio_l (w : World) (i : Nat) : w.nextFault.1.radio i = w.radio i := by
  unfold radio; rw [nextFault_radios_l]

theorem attemptLoop_self_l (s : Nat) (k : Packet) (n made : Nat) (w : World) :
    (attemptLoop s k n made w).1.radio s = w.radio s ∧
    (attemptLoop s k n made w).1.radios.length = w.radios.length := by
  induction n generalizing made w with
  | zero => exact ⟨rfl, rfl⟩
  | succ n ih =>
    unfold attemptLoop
    simp only
    have h1 := nextFault_radio_l w s
    have l1 : w.nextFault.1.radios.length = w.radios.length := by rw [nextFault_radios_l]
    have h2 := deliver_radio_self_l w.nextFault.1 s k
    have l2 := deliver_length_l w.nextFault.1 s k
    split
    · exact ⟨(ih _ _).1.trans h1, (ih _ _).2.trans l1⟩
    · exact ⟨(ih _ _).1.trans (h2.trans h1), (ih _ _).2.trans (l2.trans l1)⟩
    · split
      · split
        · exact ⟨h2.trans h1, l2.trans l1⟩
        · exact ⟨(ih _ _).1.trans (h2.trans h1), (ih _ _).2.trans (l2.trans l1)⟩
      · exact ⟨(ih _ _).1.trans (h2.trans h1), (ih _ _).2.trans (l2.trans l1)⟩

theorem updRadio_self_l (w : World) (s : Nat) (f : Radio → Radio) (hs : s < w.radios.length) :
    (w.updRadio s f).radio s = f (w.radio s) ∧ (w.updRadio s f).radios.length = w.radios.length :=
  ⟨radio_setRadio_self_l _ _ _ hs, setRadio_length_l _ _ _⟩

theorem stamp_radio_l (w : World) (s t : Nat) (a : AirRec) (i : Nat) : (w.stamp s t a).radio i = w.radio i := rfl

end World

/-- what one transmit cycle leaves of the transmitting radio `r` (head `e`, other entries `rest`) -/
structure Radio.LiteCycled (r r' : Radio) (e : TxEntry) (rest : List TxEntry) : Prop where
  config : r'.config = r.config
  ce : r'.ce = r.ce
  flags : ∃ x, r'.flags = r.flags ||| x
  outcome : (r'.txFifo = rest ∧ r'.flags &&& 0x20 ≠ 0) ∨
            (∃ p, r'.txFifo = { e with pid := some p } :: rest ∧ r'.flags &&& 0x10 ≠ 0)

namespace World

/-- one cycle, seen from the sender: CONFIG and CE are untouched, flags are only added, and either
    the head entry is gone with TX_DS latched, or it stays (with its PID) with MAX_RT latched -/
theorem cycle_self_l (w : World) (s : Nat) (e : TxEntry) (rest : List TxEntry) (hs : s < w.radios.length) :
    (w.cycle s e rest).radios.length = w.radios.length ∧
    Radio.LiteCycled (w.radio s) ((w.cycle s e rest).radio s) e rest := by
  unfold cycle
  dsimp only
  obtain ⟨u1, ul⟩ := updRadio_self_l w s (·.takePid e) hs
  have hs1 : s < (w.updRadio s (·.takePid e)).radios.length := by rw [ul]; exact hs
  split
  · -- no acknowledgement awaited
    have n1 := nextFault_radio_l (w.updRadio s (·.takePid e)) s
    have nl : (w.updRadio s (·.takePid e)).nextFault.1.radios.length = w.radios.length := by
      rw [nextFault_radios_l]; exact ul
    have key : ∀ w2 : World, w2.radio s = (w.radio s).takePid e → w2.radios.length = w.radios.length →
        ((w2.updRadio s (·.txDoneNoAck rest)).stamp s
          (max w.clock (w.busyUntil.getD s 0) + T_TX_NS)
          { sender := s, pkt := (w.radio s).packetFor e, attempts := 1, ok := true }).radios.length = w.radios.length ∧
        Radio.LiteCycled (w.radio s) (((w2.updRadio s (·.txDoneNoAck rest)).stamp s
          (max w.clock (w.busyUntil.getD s 0) + T_TX_NS)
          { sender := s, pkt := (w.radio s).packetFor e, attempts := 1, ok := true }).radio s) e rest := by
      intro w2 h2 l2
      obtain ⟨a1, a2⟩ := updRadio_self_l w2 s (·.txDoneNoAck rest) (by rw [l2]; exact hs)
      refine ⟨a2.trans l2, ?_⟩
      rw [stamp_radio_l, a1, h2]
      exact ⟨rfl, rfl, ⟨0x20, rfl⟩, Or.inl ⟨rfl, lite_or_and_ne_zero' _ _ _ (by decide)⟩⟩
    split
    · exact key _ (n1.trans u1) nl
    · exact key _ ((deliver_radio_self_l _ _ _).trans (n1.trans u1)) ((deliver_length_l _ _ _).trans nl)
  · -- acknowledged cycle
    obtain ⟨a1, al⟩ := attemptLoop_self_l s ((w.radio s).packetFor e) (((w.radio s).setupRetr &&& 0x0F) + 1) 0
      (w.updRadio s (·.takePid e))
    have hs2 : s < (attemptLoop s ((w.radio s).packetFor e) (((w.radio s).setupRetr &&& 0x0F) + 1) 0
        (w.updRadio s (·.takePid e))).1.radios.length := by rw [al, ul]; exact hs
    split
    · rename_i a hres
      obtain ⟨b1, b2⟩ := updRadio_self_l _ s (·.txDoneAcked rest _ a) hs2
      refine ⟨b2.trans (al.trans ul), ?_⟩
      rw [stamp_radio_l, b1, a1, u1]
      refine ⟨rfl, rfl, ⟨_, Nat.or_assoc _ _ _⟩, Or.inl ⟨rfl, ?_⟩⟩
      simp only [Radio.txDoneAcked]
      exact lite_or_and_ne_zero _ _ _ (lite_or_and_ne_zero' _ _ _ (by decide))
    · obtain ⟨b1, b2⟩ := updRadio_self_l _ s (·.txFailed e ((w.radio s).pidFor e) rest) hs2
      refine ⟨b2.trans (al.trans ul), ?_⟩
      rw [stamp_radio_l, b1, a1, u1]
      exact ⟨rfl, rfl, ⟨0x10, rfl⟩, Or.inr ⟨_, rfl, lite_or_and_ne_zero' _ _ _ (by decide)⟩⟩

/-- MAX_RT blocks the transmitter -/
theorem tryTransmit_blocked_l (s f : Nat) (w : World) (h : (w.radio s).flags &&& 0x10 ≠ 0) : tryTransmit s f w = w := by
  cases f with
  | zero => rfl
  | succ f => unfold tryTransmit; simp [h]

/-- a radio with nothing to transmit stays as it is -/
theorem tryTransmit_stable_l (s f : Nat) (w : World) (h : (w.radio s).LiteStable) : tryTransmit s f w = w := by
  rcases h with h | h | h
  · exact tryTransmit_idle_l s f w h
  · exact tryTransmit_blocked_l s f w h
  · cases f with
    | zero => rfl
    | succ f => unfold tryTransmit; simp [h]

/-- everything `tryTransmit` guarantees about the transmitting radio itself -/
theorem tryTransmit_self_l (s f : Nat) (w : World) (hs : s < w.radios.length) (hinv : (w.radio s).LiteTxInv) :
    (tryTransmit s f w).radios.length = w.radios.length ∧
    ((tryTransmit s f w).radio s).LiteTxInv ∧
    ((tryTransmit s f w).radio s).config = (w.radio s).config ∧
    ((tryTransmit s f w).radio s).ce = (w.radio s).ce ∧
    (∀ m, (w.radio s).flags &&& m ≠ 0 → ((tryTransmit s f w).radio s).flags &&& m ≠ 0) ∧
    ((w.radio s).txFifo.length ≤ f → ((tryTransmit s f w).radio s).LiteStable) ∧
    (1 ≤ f → (w.radio s).txMode = true → (w.radio s).flags &&& 0x10 = 0 → (w.radio s).txFifo ≠ [] →
      ((tryTransmit s f w).radio s).flags &&& 0x30 ≠ 0) := by
  induction f generalizing w with
  | zero =>
    refine ⟨rfl, hinv, rfl, rfl, fun _ h => h, fun hl => ?_, fun h => by omega⟩
    right; right
    exact List.eq_nil_of_length_eq_zero (by unfold tryTransmit; omega)
  | succ f ih =>
    unfold tryTransmit
    dsimp only
    by_cases hc : ((w.radio s).txMode && decide ((w.radio s).flags &&& 0x10 = 0)) = true
    · rw [if_pos hc]
      have htx : (w.radio s).txMode = true := by
        simp only [Bool.and_eq_true, decide_eq_true_eq] at hc; exact hc.1
      split
      · rename_i hq
        exact ⟨rfl, hinv, rfl, rfl, fun _ h => h, fun _ => Or.inr (Or.inr hq), fun _ _ _ hne => absurd hq hne⟩
      · rename_i e rest hq
        have hna : e.kind.isAckPayload = false := hinv.noAck e (by rw [hq]; exact List.mem_cons_self)
        split
        · rename_i p hk; rw [hk] at hna; cases hna
        · obtain ⟨cl, cy⟩ := cycle_self_l w s e rest hs
          have hinv' : ((w.cycle s e rest).radio s).LiteTxInv := by
            rcases cy.outcome with ⟨h1, _⟩ | ⟨p, h1, _⟩
            · refine ⟨fun x hx => hinv.noAck x ?_, ?_⟩
              · rw [hq]; rw [h1] at hx; exact List.mem_cons_of_mem _ hx
              · rw [h1]; have := hinv.len; rw [hq] at this; simp at this; omega
            · refine ⟨fun x hx => ?_, ?_⟩
              · rw [h1] at hx
                rcases List.mem_cons.mp hx with rfl | hx
                · exact hna
                · exact hinv.noAck x (by rw [hq]; exact List.mem_cons_of_mem _ hx)
              · rw [h1]; have := hinv.len; rw [hq] at this; simpa using this
          obtain ⟨i1, i2, i3, i4, i5, i6, _⟩ := ih (w.cycle s e rest) (by rw [cl]; exact hs) hinv'
          obtain ⟨x, hx⟩ := cy.flags
          have hmono : ∀ m, (w.radio s).flags &&& m ≠ 0 → ((w.cycle s e rest).radio s).flags &&& m ≠ 0 := by
            intro m hm; rw [hx]; exact lite_or_and_ne_zero _ _ _ hm
          have h30 : ((w.cycle s e rest).radio s).flags &&& 0x30 ≠ 0 := by
            rcases cy.outcome with ⟨_, h2⟩ | ⟨_, _, h2⟩
            · intro h0
              apply h2
              have : ((w.cycle s e rest).radio s).flags &&& 0x20 = (((w.cycle s e rest).radio s).flags &&& 0x30) &&& 0x20 := by
                have e48 : (0x30 : Nat) &&& 0x20 = 0x20 := by decide
                rw [Nat.and_assoc, e48]
              rw [this, h0]; rfl
            · intro h0
              apply h2
              have : ((w.cycle s e rest).radio s).flags &&& 0x10 = (((w.cycle s e rest).radio s).flags &&& 0x30) &&& 0x10 := by
                have e48 : (0x30 : Nat) &&& 0x10 = 0x10 := by decide
                rw [Nat.and_assoc, e48]
              rw [this, h0]; rfl
          refine ⟨i1.trans cl, i2, i3.trans cy.config, i4.trans cy.ce, fun m hm => i5 m (hmono m hm), fun hl => ?_,
            fun _ _ _ _ => i5 _ h30⟩
          rcases cy.outcome with ⟨h1, _⟩ | ⟨p, _, h2⟩
          · apply i6; rw [h1]; rw [hq] at hl; simp at hl; omega
          · rw [tryTransmit_blocked_l s f _ h2]
            exact Or.inr (Or.inl h2)
    · rw [if_neg hc]
      refine ⟨rfl, hinv, rfl, rfl, fun _ h => h, fun _ => ?_, fun _ htx hfl _ => ?_⟩
      · simp only [Bool.and_eq_true, decide_eq_true_eq, not_and] at hc
        by_cases ht : (w.radio s).txMode = true
        · exact Or.inr (Or.inl (hc ht))
        · exact Or.inl (by simpa using ht)
      · exfalso; apply hc; simp [htx, hfl]

end World

end Nrf
