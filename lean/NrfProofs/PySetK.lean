/-
C17: the model of CPython's `set` of small ints used by `_make_contact` (`pySetProbe`, `pySetAdd`,
`pySetItems` in `NrfModel/Net/Api.lean`): an open-addressing table of 8 slots, probe sequence
`i ← (5·i + 1 + perturb) & 7`, `perturb ← perturb >> 5`, no deletions, no resize below 5 entries.
Every inserted value is stored exactly once and iteration (slot order) yields each exactly once.
-/
import NrfModel.Net.Api

namespace Nrf.Proofs.PySetK
open Nrf Nrf.Net

/-- outcome of a probe: the key was found in slot `i`, an empty slot `i` was reached, or the fuel
    ran out -/
inductive Probe where
  | found (i : Nat) | empty (i : Nat) | out
  deriving DecidableEq, Repr

/-- next slot of the probe sequence -/
def nextSlot (i perturb : Nat) : Nat := (i * 5 + 1 + (perturb >>> 5)) &&& 7

def probe3 (slots : List (Option Nat)) (h : Nat) : Nat → Nat → Nat → Probe
  | 0, _, _ => .out
  | f + 1, i, perturb =>
    match slots.getD i none with
    | none => .empty i
    | some k => if k = h then .found i else probe3 slots h f (nextSlot i perturb) (perturb >>> 5)

theorem pySetProbe_eq (slots : List (Option Nat)) (h : Nat) : ∀ f i p,
    pySetProbe slots h f i p = match probe3 slots h f i p with
      | .empty e => some e
      | _ => none := by
  intro f
  induction f with
  | zero => intro i p; rfl
  | succ f ih =>
    intro i p
    rw [pySetProbe, probe3]
    cases hs : slots.getD i none with
    | none => rfl
    | some k =>
      simp only
      by_cases hk : k = h
      · simp [hk]
      · simp only [hk, ↓reduceIte]
        exact ih _ _

/-- an `empty e` outcome names an empty slot -/
theorem probe3_empty {slots : List (Option Nat)} {h : Nat} : ∀ {f i p e},
    probe3 slots h f i p = .empty e → slots.getD e none = none := by
  intro f
  induction f with
  | zero => intro i p e he; cases he
  | succ f ih =>
    intro i p e he
    rw [probe3] at he
    cases hs : slots.getD i none with
    | none => rw [hs] at he; cases he; exact hs
    | some k =>
      rw [hs] at he
      simp only at he
      by_cases hk : k = h
      · simp [hk] at he
      · simp only [hk, ↓reduceIte] at he
        exact ih he

theorem getD_set_ne (slots : List (Option Nat)) (e i : Nat) (v : Option Nat) (h : i ≠ e) :
    (slots.set e v).getD i none = slots.getD i none := by
  simp only [List.getD_eq_getElem?_getD, List.getElem?_set]
  have : ¬ e = i := fun x => h x.symm
  simp [this]

theorem getD_set_self (slots : List (Option Nat)) (e : Nat) (v : Option Nat) (h : e < slots.length) :
    (slots.set e v).getD e none = v := by
  simp [List.getD_eq_getElem?_getD, List.getElem?_set, h]

/-- filling an empty slot does not disturb the probe of a key that is found -/
theorem probe3_found_set {slots : List (Option Nat)} {k : Nat} (e x : Nat)
    (he : slots.getD e none = none) : ∀ {f i p j},
    probe3 slots k f i p = .found j → probe3 (slots.set e (some x)) k f i p = .found j := by
  intro f
  induction f with
  | zero => intro i p j h; cases h
  | succ f ih =>
    intro i p j h
    rw [probe3] at h ⊢
    by_cases hie : i = e
    · subst hie; rw [he] at h; cases h
    · rw [getD_set_ne _ _ _ _ hie]
      cases hs : slots.getD i none with
      | none => rw [hs] at h; cases h
      | some y =>
        rw [hs] at h
        simp only at h ⊢
        by_cases hy : y = k
        · simp only [hy, ↓reduceIte] at h ⊢; exact h
        · simp only [hy, ↓reduceIte] at h ⊢; exact ih h

/-- storing the key in the empty slot its probe ended in makes the probe find it there -/
theorem probe3_empty_set {slots : List (Option Nat)} {h : Nat} : ∀ {f i p e},
    probe3 slots h f i p = .empty e → e < slots.length →
      probe3 (slots.set e (some h)) h f i p = .found e := by
  intro f
  induction f with
  | zero => intro i p e he; cases he
  | succ f ih =>
    intro i p e he hlt
    have hempty := probe3_empty he
    rw [probe3] at he ⊢
    by_cases hie : i = e
    · subst hie
      rw [getD_set_self _ _ _ hlt]
      simp
    · rw [getD_set_ne _ _ _ _ hie]
      cases hs : slots.getD i none with
      | none => rw [hs] at he; cases he; exact absurd rfl hie
      | some y =>
        rw [hs] at he
        simp only at he ⊢
        by_cases hy : y = h
        · simp [hy] at he
        · simp only [hy, ↓reduceIte] at he ⊢
          exact ih he hlt

/-! ### the probe never runs out of fuel -/

/-- running out of fuel means the previous round went on -/
theorem probe3_out_step {slots : List (Option Nat)} {h f i p : Nat}
    (ho : probe3 slots h (f + 1) i p = .out) :
    (∃ k, slots.getD i none = some k ∧ k ≠ h) ∧
      probe3 slots h f (nextSlot i p) (p >>> 5) = .out := by
  rw [probe3] at ho
  cases hs : slots.getD i none with
  | none => rw [hs] at ho; cases ho
  | some k =>
    rw [hs] at ho
    simp only at ho
    by_cases hk : k = h
    · simp [hk] at ho
    · simp only [hk, ↓reduceIte] at ho
      exact ⟨⟨k, rfl, hk⟩, ho⟩

/-- the slot reached after `n` rounds with a zero perturbation -/
def orbit (i : Nat) : Nat → Nat
  | 0 => i
  | n + 1 => orbit (nextSlot i 0) n

/-- `i ← (5·i + 1) & 7` visits all eight slots within eight rounds, from any start -/
theorem orbit_covers : ∀ i, i < 8 → ∀ e, e < 8 → ∃ m, m < 8 ∧ orbit i m = e := by decide

theorem probe3_out_orbit {slots : List (Option Nat)} {h : Nat} : ∀ n f i,
    probe3 slots h (n + f) i 0 = .out → ∀ m, m < n → slots.getD (orbit i m) none ≠ none := by
  intro n
  induction n with
  | zero => intro f i _ m hm; omega
  | succ n ih =>
    intro f i ho m hm
    have e : n + 1 + f = (n + f) + 1 := by omega
    rw [e] at ho
    obtain ⟨⟨k, hk, _⟩, hnext⟩ := probe3_out_step ho
    cases m with
    | zero => simp only [orbit]; rw [hk]; simp
    | succ m =>
      simp only [orbit]
      have : (0 : Nat) >>> 5 = 0 := by simp
      rw [this] at hnext
      exact ih f _ hnext m (by omega)

/-- with a zero perturbation and an empty slot somewhere, eight rounds suffice -/
theorem probe3_zero_not_out {slots : List (Option Nat)} {h : Nat} (hl : slots.length = 8)
    {e : Nat} (he8 : e < 8) (he : slots.getD e none = none) (i : Nat) (hi : i < 8) (f : Nat) :
    probe3 slots h (8 + f) i 0 ≠ .out := by
  intro ho
  obtain ⟨m, hm, hme⟩ := orbit_covers i hi e he8
  have := probe3_out_orbit 8 f i ho m hm
  rw [hme] at this
  exact this he

/-- state of the probe after `n` rounds -/
def advance (i p : Nat) : Nat → Nat × Nat
  | 0 => (i, p)
  | n + 1 => advance (nextSlot i p) (p >>> 5) n

theorem advance_perturb (i p : Nat) : ∀ n, (advance i p n).2 = p >>> (5 * n) := by
  intro n
  induction n generalizing i p with
  | zero => simp [advance]
  | succ n ih =>
    rw [advance, ih, ← Nat.shiftRight_add]
    congr 1; omega

theorem advance_slot_lt (i p : Nat) (hi : i < 8) : ∀ n, (advance i p n).1 < 8 := by
  intro n
  induction n generalizing i p with
  | zero => simpa [advance] using hi
  | succ n ih =>
    rw [advance]
    apply ih
    unfold nextSlot
    exact Nat.lt_of_le_of_lt Nat.and_le_right (by omega)

theorem probe3_out_advance {slots : List (Option Nat)} {h : Nat} : ∀ n f i p,
    probe3 slots h (n + f) i p = .out →
      probe3 slots h f (advance i p n).1 (advance i p n).2 = .out := by
  intro n
  induction n with
  | zero => intro f i p ho; simpa [advance] using ho
  | succ n ih =>
    intro f i p ho
    have e : n + 1 + f = (n + f) + 1 := by omega
    rw [e] at ho
    rw [advance]
    exact ih f _ _ (probe3_out_step ho).2

/-- **the probe of `set.add` ends** (fuel 64): for a key below 2^40 (the hash of an `int` that small
    is the `int` itself) in a table of 8 slots with an empty slot -/
theorem probe3_not_out {slots : List (Option Nat)} {h : Nat} (hl : slots.length = 8)
    {e : Nat} (he8 : e < 8) (he : slots.getD e none = none) (hh : h < 2 ^ 40) :
    probe3 slots h 64 (h &&& 7) h ≠ .out := by
  intro ho
  have h1 := probe3_out_advance 8 56 (h &&& 7) h ho
  have hp : (advance (h &&& 7) h 8).2 = 0 := by
    rw [advance_perturb]
    exact Nat.shiftRight_eq_zero _ _ hh
  have hi : (advance (h &&& 7) h 8).1 < 8 :=
    advance_slot_lt _ _ (Nat.lt_of_le_of_lt Nat.and_le_right (by omega)) 8
  rw [hp] at h1
  exact probe3_zero_not_out hl he8 he _ hi 48 h1

/-! ### the table invariant -/

/-- the table has 8 slots, no value is stored twice, and every stored value is found by its own
    probe (it is reachable from its hash without crossing an empty slot) -/
structure SetInv (slots : List (Option Nat)) : Prop where
  len : slots.length = 8
  nodup : (pySetItems slots).Nodup
  reach : ∀ j k, slots.getD j none = some k → probe3 slots k 64 (k &&& 7) k = .found j

theorem setInv_empty : SetInv (List.replicate 8 none) := by
  refine ⟨rfl, by decide, ?_⟩
  intro j k h
  have : (List.replicate 8 (none : Option Nat)).getD j none = none := by
    rw [List.getD_eq_getElem?_getD, List.getElem?_replicate]
    split <;> rfl
  rw [this] at h; cases h

theorem mem_items {slots : List (Option Nat)} {x : Nat} :
    x ∈ pySetItems slots ↔ ∃ j, slots.getD j none = some x := by
  unfold pySetItems
  rw [List.mem_filterMap]
  constructor
  · rintro ⟨a, ha, hx⟩
    simp only [id] at hx
    subst hx
    obtain ⟨j, hj, hget⟩ := List.mem_iff_getElem.mp ha
    exact ⟨j, by simp [List.getD_eq_getElem?_getD, List.getElem?_eq_getElem hj, hget]⟩
  · rintro ⟨j, hj⟩
    refine ⟨some x, ?_, rfl⟩
    rw [List.getD_eq_getElem?_getD] at hj
    cases hg : slots[j]? with
    | none => rw [hg] at hj; cases hj
    | some v =>
      rw [hg] at hj
      simp only [Option.getD_some] at hj
      subst hj
      exact List.mem_of_getElem? hg

/-- a present key is found by its probe, an absent one is not -/
theorem probe3_found_iff {slots : List (Option Nat)} {h : Nat} : ∀ {f i p j},
    probe3 slots h f i p = .found j → slots.getD j none = some h := by
  intro f
  induction f with
  | zero => intro i p j hf; cases hf
  | succ f ih =>
    intro i p j hf
    rw [probe3] at hf
    cases hs : slots.getD i none with
    | none => rw [hs] at hf; cases hf
    | some k =>
      rw [hs] at hf
      simp only at hf
      by_cases hk : k = h
      · simp only [hk, ↓reduceIte] at hf; cases hf; rw [hs, hk]
      · simp only [hk, ↓reduceIte] at hf; exact ih hf

/-- items of a table after storing into an empty slot -/
theorem items_set {slots : List (Option Nat)} {e : Nat} (he : slots.getD e none = none)
    (hlt : e < slots.length) (h : Nat) :
    ∃ l1 l2, pySetItems slots = l1 ++ l2 ∧ pySetItems (slots.set e (some h)) = l1 ++ h :: l2 := by
  refine ⟨pySetItems (slots.take e), pySetItems (slots.drop (e + 1)), ?_, ?_⟩
  · have hn : slots[e] = none := by
      have := he
      rw [List.getD_eq_getElem?_getD, List.getElem?_eq_getElem hlt] at this
      simpa using this
    conv => lhs; rw [← List.take_append_drop e slots, List.drop_eq_getElem_cons hlt, hn]
    simp [pySetItems, List.filterMap_append]
  · rw [List.set_eq_take_append_cons_drop, if_pos hlt]
    simp [pySetItems, List.filterMap_append]

theorem exists_empty {slots : List (Option Nat)} (hl : slots.length = 8)
    (hc : (pySetItems slots).length < 8) : ∃ e, e < 8 ∧ slots.getD e none = none := by
  apply Classical.byContradiction
  intro hne
  have hall : ∀ x ∈ slots, x ≠ none := by
    intro x hx hxn
    obtain ⟨j, hj, hget⟩ := List.mem_iff_getElem.mp hx
    exact hne ⟨j, by omega, by simp [List.getD_eq_getElem?_getD, List.getElem?_eq_getElem hj, hget, hxn]⟩
  have : ∀ l : List (Option Nat), (∀ x ∈ l, x ≠ none) → (l.filterMap id).length = l.length := by
    intro l
    induction l with
    | nil => intro _; rfl
    | cons a l ih =>
      intro h
      cases a with
      | none => exact absurd rfl (h none (by simp))
      | some v =>
        simp only [List.filterMap_cons, id, List.length_cons]
        rw [ih (fun x hx => h x (by simp [hx]))]
  have := this slots hall
  unfold pySetItems at hc
  omega

/-- **C17, `set.add`.**  On a table satisfying the invariant, with fewer than 8 members, adding a
    key below 2^40: the invariant is kept; the members are the old ones plus the key; a key already
    present changes nothing, a new one makes the set one larger. -/
theorem setInv_add {slots : List (Option Nat)} (hi : SetInv slots)
    (hc : (pySetItems slots).length < 8) {h : Nat} (hh : h < 2 ^ 40) :
    SetInv (pySetAdd slots h) ∧
    (∀ x, x ∈ pySetItems (pySetAdd slots h) ↔ x = h ∨ x ∈ pySetItems slots) ∧
    (h ∈ pySetItems slots → pySetAdd slots h = slots) ∧
    (h ∉ pySetItems slots → (pySetItems (pySetAdd slots h)).length = (pySetItems slots).length + 1) := by
  obtain ⟨e0, he0, hempty⟩ := exists_empty hi.len hc
  have hnot := probe3_not_out hi.len he0 hempty hh
  unfold pySetAdd
  rw [pySetProbe_eq]
  cases hp : probe3 slots h 64 (h &&& 7) h with
  | out => exact absurd hp hnot
  | found j =>
    have hmem : h ∈ pySetItems slots := mem_items.mpr ⟨j, probe3_found_iff hp⟩
    refine ⟨hi, ?_, fun _ => rfl, fun hn => absurd hmem hn⟩
    intro x
    constructor
    · exact fun hx => Or.inr hx
    · rintro (rfl | hx)
      · exact hmem
      · exact hx
  | empty e =>
    have hen : slots.getD e none = none := probe3_empty hp
    have helt : e < slots.length := by
      apply Classical.byContradiction
      intro hge
      -- the probe only looks at slots `< 8`
      have : ∀ f i p e, i < 8 → probe3 slots h f i p = .empty e → e < 8 := by
        intro f
        induction f with
        | zero => intro i p e _ hx; cases hx
        | succ f ih =>
          intro i p e hi8 hx
          rw [probe3] at hx
          cases hs : slots.getD i none with
          | none => rw [hs] at hx; cases hx; exact hi8
          | some k =>
            rw [hs] at hx
            simp only at hx
            by_cases hk : k = h
            · simp [hk] at hx
            · simp only [hk, ↓reduceIte] at hx
              exact ih _ _ _ (Nat.lt_of_le_of_lt Nat.and_le_right (by omega)) hx
      have := this 64 (h &&& 7) h e (Nat.lt_of_le_of_lt Nat.and_le_right (by omega)) hp
      rw [hi.len] at hge
      exact hge this
    have hnotmem : h ∉ pySetItems slots := by
      intro hm
      obtain ⟨j, hj⟩ := mem_items.mp hm
      have := hi.reach j h hj
      rw [hp] at this
      cases this
    obtain ⟨l1, l2, hold, hnew⟩ := items_set hen helt h
    simp only
    have hmemiff : ∀ x, x ∈ pySetItems (slots.set e (some h)) ↔ x = h ∨ x ∈ pySetItems slots := by
      intro x
      rw [hnew, hold]
      simp only [List.mem_append, List.mem_cons]
      constructor
      · rintro (h1 | h1 | h1)
        · exact Or.inr (Or.inl h1)
        · exact Or.inl h1
        · exact Or.inr (Or.inr h1)
      · rintro (h1 | h1 | h1)
        · exact Or.inr (Or.inl h1)
        · exact Or.inl h1
        · exact Or.inr (Or.inr h1)
    refine ⟨⟨by simp [hi.len], ?_, ?_⟩, hmemiff, fun hm => absurd hm hnotmem, fun _ => ?_⟩
    · rw [hnew]
      have hnd := hi.nodup
      rw [hold] at hnd hnotmem
      rw [List.nodup_append] at hnd ⊢
      obtain ⟨n1, n2, n3⟩ := hnd
      simp only [List.mem_append, not_or] at hnotmem
      refine ⟨n1, ?_, ?_⟩
      · rw [List.nodup_cons]; exact ⟨hnotmem.2, n2⟩
      · intro a ha b hb
        rw [List.mem_cons] at hb
        rcases hb with rfl | hb
        · intro hab; subst hab; exact hnotmem.1 ha
        · exact n3 a ha b hb
    · intro j k hj
      by_cases hje : j = e
      · subst hje
        rw [getD_set_self _ _ _ helt] at hj
        cases hj
        exact probe3_empty_set hp helt
      · rw [getD_set_ne _ _ _ _ hje] at hj
        exact probe3_found_set e h hen (hi.reach j k hj)
    · rw [hnew, hold]; simp; omega

theorem nodup_subset_length : ∀ (l1 l2 : List Nat), l1.Nodup → (∀ x ∈ l1, x ∈ l2) → l1.length ≤ l2.length := by
  intro l1
  induction l1 with
  | nil => intro _ _ _; simp
  | cons a t ih =>
    intro l2 hnd hsub
    rw [List.nodup_cons] at hnd
    have ha : a ∈ l2 := hsub a (by simp)
    have := ih (l2.erase a) hnd.2 (by
      intro x hx
      have hne : x ≠ a := fun h => hnd.1 (h ▸ hx)
      exact (List.mem_erase_of_ne hne).mpr (hsub x (by simp [hx])))
    rw [List.length_erase_of_mem ha] at this
    have hpos : 0 < l2.length := List.length_pos_of_mem ha
    simp only [List.length_cons]
    omega

/-- the way `_make_contact` uses the set: a value is added only while fewer than 4 are held -/
def guardedAdd (slots : List (Option Nat)) (h : Nat) : List (Option Nat) :=
  if (pySetItems slots).length < 4 then pySetAdd slots h else slots

/-- **C17, iteration order.**  After any sequence of (guarded) insertions of keys below 2^40 into
    the empty set, iterating the set yields no value twice, only inserted values, at most four —
    and every inserted value if at most four different ones were inserted (more precisely: every
    value inserted while fewer than four were held). -/
theorem guardedAdd_fold (hs : List Nat) (hh : ∀ h ∈ hs, h < 2 ^ 40) :
    ∀ slots, SetInv slots → (pySetItems slots).length ≤ 4 →
      SetInv (hs.foldl guardedAdd slots) ∧ (pySetItems (hs.foldl guardedAdd slots)).length ≤ 4 ∧
      (∀ x, x ∈ pySetItems (hs.foldl guardedAdd slots) → x ∈ pySetItems slots ∨ x ∈ hs) ∧
      (∀ x, x ∈ pySetItems slots → x ∈ pySetItems (hs.foldl guardedAdd slots)) ∧
      ((pySetItems (hs.foldl guardedAdd slots)).length < 4 →
        ∀ x, x ∈ hs → x ∈ pySetItems (hs.foldl guardedAdd slots)) := by
  induction hs with
  | nil => intro slots hi hc; exact ⟨hi, hc, fun x hx => Or.inl hx, fun x hx => hx, fun _ x hx => by cases hx⟩
  | cons h hs ih =>
    intro slots hi hc
    simp only [List.foldl_cons]
    have hh' : ∀ x ∈ hs, x < 2 ^ 40 := fun x hx => hh x (by simp [hx])
    by_cases hg : (pySetItems slots).length < 4
    · have hadd := setInv_add hi (by omega) (hh h (by simp))
      have hlen : (pySetItems (pySetAdd slots h)).length ≤ 4 := by
        by_cases hm : h ∈ pySetItems slots
        · rw [hadd.2.2.1 hm]; exact hc
        · rw [hadd.2.2.2 hm]; omega
      have hga : guardedAdd slots h = pySetAdd slots h := by unfold guardedAdd; rw [if_pos hg]
      rw [hga]
      obtain ⟨r1, r2, r3, r4, r5⟩ := ih hh' _ hadd.1 hlen
      refine ⟨r1, r2, ?_, ?_, ?_⟩
      · intro x hx
        rcases r3 x hx with h1 | h1
        · rcases (hadd.2.1 x).mp h1 with rfl | h2
          · exact Or.inr (by simp)
          · exact Or.inl h2
        · exact Or.inr (by simp [h1])
      · intro x hx
        exact r4 x ((hadd.2.1 x).mpr (Or.inr hx))
      · intro hlt x hx
        rw [List.mem_cons] at hx
        rcases hx with rfl | hx
        · exact r4 _ ((hadd.2.1 _).mpr (Or.inl rfl))
        · exact r5 hlt x hx
    · have hga : guardedAdd slots h = slots := by unfold guardedAdd; rw [if_neg hg]
      rw [hga]
      obtain ⟨r1, r2, r3, r4, r5⟩ := ih hh' _ hi hc
      refine ⟨r1, r2, ?_, r4, ?_⟩
      · intro x hx
        rcases r3 x hx with h1 | h1
        · exact Or.inl h1
        · exact Or.inr (by simp [h1])
      · intro hlt
        -- the set already held four values: it cannot end with fewer
        have : (pySetItems slots).length ≤ (pySetItems (hs.foldl guardedAdd slots)).length := by
          exact nodup_subset_length _ _ hi.nodup r4
        omega

end Nrf.Proofs.PySetK
