/-
C17, end-to-end join, part 7: idle polling in the closed system, and the loop of `_make_contact`.

* `IdleSt` — the running node listens with an empty RX FIFO, no scripted arrivals, nobody else has
  anything to do (`Quiet`);
* `tick` — the state after one idle `_net_update()`: one SPI transaction later (`L3.idle_read`);
* `netUpdate_idle` — `_net_update()` in such a state returns 0 and the state is `tick s`;
* `contactLoop_idle` — the polling loop of `_make_contact` once nobody answers any more: it runs
  until the clock passes the deadline — at most `(deadline - clock) / SPI_COST_NS + 1` idle
  iterations — and returns the set of responders unchanged.
-/
import NrfProofs.C17Join2Clock

namespace Nrf.Net.Join
open Nrf Nrf.Net Nrf.Spec Nrf.Proofs

/-- the running node polls in vain: listening, RX FIFO empty, no scripted arrivals, the rest of
    the closed network quiet -/
structure IdleSt (L : LinkCfg) (P : List Bytes) (s : NetState) : Prop where
  cur : s.cur < s.nodes.length
  closed : s.closed = true
  quiet : Quiet s
  wf : s.drv.Wf
  radio : NodeRadio L P true true 0x3E s.node.rf s.drv.radio
  arr : s.node.arrivals = []
  fifo : s.drv.radio.rxFifo = []

/-- the state after one idle `read()`: the clock one SPI transaction later (after waiting for the
    radio), the cached STATUS byte refreshed -/
def tick (s : NetState) : NetState :=
  s.afterRf { d := { s.node.rf with status := s.drv.radio.status }, w := L3.World.ticked s.w s.node.rf.rid }

@[simp] theorem tick_cur (s : NetState) : (tick s).cur = s.cur := rfl
@[simp] theorem tick_active (s : NetState) : (tick s).active = s.active := rfl
@[simp] theorem tick_closed (s : NetState) : (tick s).closed = s.closed := rfl
@[simp] theorem tick_nextId (s : NetState) : (tick s).nextId = s.nextId := rfl
@[simp] theorem tick_len (s : NetState) : (tick s).nodes.length = s.nodes.length := by simp [tick]
theorem tick_radio (s : NetState) (r : Nat) : (tick s).w.radio r = s.w.radio r := rfl
theorem tick_radios (s : NetState) : (tick s).w.radios = s.w.radios := rfl
theorem tick_faults (s : NetState) : (tick s).w.faults = s.w.faults := rfl
theorem tick_clock (s : NetState) :
    (tick s).w.clock = max s.w.clock (s.w.busyUntil.getD s.node.rf.rid 0) + SPI_COST_NS := rfl

theorem tick_clock_le (s : NetState) : s.w.clock + SPI_COST_NS ≤ (tick s).w.clock := by
  rw [tick_clock]
  have := Nat.le_max_left s.w.clock (s.w.busyUntil.getD s.node.rf.rid 0)
  omega

theorem tick_nodeAt_ne (s : NetState) (i : Nat) (h : i ≠ s.cur) : (tick s).nodeAt i = s.nodeAt i :=
  nodeAt_afterRf_ne s _ i h

theorem tick_node (s : NetState) (h : s.cur < s.nodes.length) :
    (tick s).node = { s.node with rf := { s.node.rf with status := s.drv.radio.status } } :=
  afterRf_node s _ h

theorem tick_body (s : NetState) (i : Nat) : ((tick s).nodeAt i).body = (s.nodeAt i).body :=
  body_afterRf s _ i

theorem tick_ridAt (s : NetState) (i : Nat) : (tick s).ridAt i = s.ridAt i := by
  unfold NetState.ridAt tick
  rw [nodeAt_afterRf]
  split
  · rename_i h
    rw [h.1]; rfl
  · rfl

theorem tick_radioAt (s : NetState) (i : Nat) : (tick s).radioAt i = s.radioAt i := by
  unfold NetState.radioAt
  rw [tick_ridAt]; rfl

theorem IdleSt.tick {L : LinkCfg} {P : List Bytes} {s : NetState} (h : IdleSt L P s) : IdleSt L P (tick s) := by
  have hn := tick_node s h.cur
  have hr : (Join.tick s).drv.radio = s.drv.radio := by
    show (Join.tick s).w.radio (Join.tick s).node.rf.rid = _
    rw [hn]; rfl
  refine ⟨by simpa using h.cur, h.closed, ?_, ?_, ?_, ?_, ?_⟩
  · intro i hi hic hia
    rw [tick_radioAt]
    exact h.quiet i (by simpa using hi) hic hia
  · show (Join.tick s).node.rf.rid < (Join.tick s).w.radios.length
    rw [hn]; exact h.wf
  · rw [hr, hn]
    exact h.radio
  · rw [hn]; exact h.arr
  · rw [hr]; exact h.fifo

/-- **`self._rf24.read()` of a node polling in vain** -/
theorem rfRead_idle {L : LinkCfg} {P : List Bytes} {s : NetState} (h : IdleSt L P s) (f : Nat)
    (hf : s.nodes.length < f) : nexec (rfRead (f + 1)) s = (.ok none, tick s) := by
  have e := L3.idle_read s.drv L P true true 0x3E h.wf h.radio h.fifo
  rw [rfRead.eq_2, nexec_bind, deliverDue_nil s h.arr]
  simp only []
  rw [nexec_bind, nexec_get]
  simp only [h.closed, if_true]
  rw [nexec_bind, runOthers_quiet0 s h.quiet f hf]
  simp only []
  exact nexec_liftRf_ok _ s _ _ e

/-- **`_net_update()` of a node polling in vain**: returns its start value, one SPI transaction later -/
theorem netUpdate_idle {L : LinkCfg} {P : List Bytes} {s : NetState} (h : IdleSt L P s) (f rv : Nat)
    (hf : s.nodes.length < f) : nexec (netUpdate (f + 2) rv) s = (.ok rv, tick s) := by
  rw [show f + 2 = (f + 1) + 1 from rfl, netUpdate_step, rfRead_idle h f hf]

/-- `k` idle polls later -/
def tickN : Nat → NetState → NetState
  | 0, s => s
  | k + 1, s => tickN k (tick s)

theorem IdleSt.tickN {L : LinkCfg} {P : List Bytes} : ∀ (k : Nat) {s : NetState}, IdleSt L P s → IdleSt L P (tickN k s)
  | 0, _, h => h
  | k + 1, _, h => IdleSt.tickN k h.tick

/-- what idle polling leaves alone -/
structure SameButClock (s s' : NetState) : Prop where
  cur : s'.cur = s.cur
  active : s'.active = s.active
  closed : s'.closed = s.closed
  nextId : s'.nextId = s.nextId
  len : s'.nodes.length = s.nodes.length
  body : ∀ i, (s'.nodeAt i).body = (s.nodeAt i).body
  others : ∀ i, i ≠ s.cur → s'.nodeAt i = s.nodeAt i
  rid : ∀ i, s'.ridAt i = s.ridAt i
  radios : s'.w.radios = s.w.radios
  faults : s'.w.faults = s.w.faults
  clock : s.w.clock ≤ s'.w.clock

theorem SameButClock.refl (s : NetState) : SameButClock s s :=
  ⟨rfl, rfl, rfl, rfl, rfl, fun _ => rfl, fun _ _ => rfl, fun _ => rfl, rfl, rfl, Nat.le_refl _⟩

theorem SameButClock.trans {a b c : NetState} (h1 : SameButClock a b) (h2 : SameButClock b c) : SameButClock a c :=
  ⟨h2.cur.trans h1.cur, h2.active.trans h1.active, h2.closed.trans h1.closed, h2.nextId.trans h1.nextId,
    h2.len.trans h1.len, fun i => (h2.body i).trans (h1.body i),
    fun i hi => (h2.others i (by rw [h1.cur]; exact hi)).trans (h1.others i hi),
    fun i => (h2.rid i).trans (h1.rid i), h2.radios.trans h1.radios, h2.faults.trans h1.faults,
    Nat.le_trans h1.clock h2.clock⟩

theorem SameButClock.tick (s : NetState) : SameButClock s (tick s) :=
  ⟨rfl, rfl, rfl, rfl, tick_len s, tick_body s, tick_nodeAt_ne s, tick_ridAt s, rfl, rfl,
    Nat.le_trans (Nat.le_add_right _ _) (tick_clock_le s)⟩

theorem SameButClock.tickN : ∀ (k : Nat) (s : NetState), SameButClock s (tickN k s)
  | 0, s => SameButClock.refl s
  | k + 1, s => (SameButClock.tick s).trans (SameButClock.tickN k (Join.tick s))

theorem SameButClock.radioAt {s s' : NetState} (h : SameButClock s s') (i : Nat) : s'.radioAt i = s.radioAt i := by
  unfold NetState.radioAt World.radio
  rw [h.rid, h.radios]

/-- **The polling loop of `_make_contact` once nobody answers any more.**  From an idle state, with
    fewer than four responders collected: the loop polls until the clock has passed the deadline
    and returns the responders; `n` iterations of fuel suffice when `n` SPI transactions lead
    past the deadline.  (`F` is the fuel of each `_net_update()`.) -/
theorem contactLoop_idle {L : LinkCfg} {P : List Bytes} (deadline : Nat) (slots : List (Option Nat))
    (hslots : (pySetItems slots).length < 4) (g : Nat) (hF : F = g + 2) :
    ∀ (n : Nat) (s : NetState), IdleSt L P s → s.nodes.length < g → deadline ≤ s.w.clock + n * SPI_COST_NS →
      ∃ k, k ≤ n ∧ nexec (contactLoop deadline (n + 1) slots) s = (.ok slots, tickN k s) ∧
        deadline ≤ (tickN k s).w.clock := by
  intro n
  induction n with
  | zero =>
    intro s h hg hd
    refine ⟨0, Nat.le_refl _, ?_, by show deadline ≤ s.w.clock; simpa using hd⟩
    rw [contactLoop.eq_2, nexec_bind, nexec_nowNs]
    simp only []
    have : ¬ (s.w.clock < deadline ∧ (pySetItems slots).length < 4) := by
      rintro ⟨h1, _⟩
      simp at hd
      omega
    rw [nexec_ite, if_neg this]
    rfl
  | succ n ih =>
    intro s h hg hd
    by_cases hc : s.w.clock < deadline
    · have hlen : (Join.tick s).nodes.length < g := by simpa using hg
      have hd' : deadline ≤ (Join.tick s).w.clock + n * SPI_COST_NS := by
        have := tick_clock_le s
        rw [Nat.succ_mul] at hd
        omega
      obtain ⟨k, hk, e, hdl⟩ := ih (Join.tick s) h.tick hlen hd'
      refine ⟨k + 1, by omega, ?_, hdl⟩
      rw [contactLoop.eq_2, nexec_bind, nexec_nowNs]
      simp only []
      rw [nexec_ite, if_pos ⟨hc, hslots⟩, nexec_bind, hF, netUpdate_idle h g 0 hg]
      simp only []
      rw [nexec_bind, nexec_getNode]
      simp only []
      have hne : ¬ (0 = NETWORK_POLL) := by decide
      rw [if_neg hne]
      exact e
    · refine ⟨0, Nat.zero_le _, ?_, by show deadline ≤ s.w.clock; exact Nat.le_of_not_lt hc⟩
      rw [contactLoop.eq_2, nexec_bind, nexec_nowNs]
      simp only []
      have : ¬ (s.w.clock < deadline ∧ (pySetItems slots).length < 4) := fun hh => hc hh.1
      rw [nexec_ite, if_neg this]
      rfl

end Nrf.Net.Join
