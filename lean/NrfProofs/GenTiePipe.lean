/-
Tie between the GENERATED translation of `network/mixins.py: NetworkMixin._pipe_address`
(`NrfGen/Mixins.lean`; the reads of `self.allow_multicast`, `self.address_prefix`, `self.address_suffix`
are parameters) and the model function `Net.pipeAddress`.
-/
import NrfModel.Net.Addr
import NrfGen.Mixins
import NrfProofs.GenTieBle

namespace Nrf.Proofs.GenTie
open Nrf Nrf.Net

theorem toPyM_bind {α β} (x : Gen.M α) (f : α → Gen.M β) :
    toPyM (x >>= f) = toPyM x >>= fun a => toPyM (f a) := by
  cases x <;> rfl

theorem pyGet_nat {α} (l : List α) (n : Nat) :
    pyGet l (n : Int) = (match l[n]? with | some x => .ok x | none => .error .indexError) := by
  unfold pyGet
  have h0 : ¬ ((n : Int) < 0) := by omega
  simp only [h0, ↓reduceIte, Int.toNat_natCast]
  cases l[n]? <;> rfl

/-- `suffix[i]` then `result[j] = …`, generated vs model (`suffix` is a `bytes`: items `< 256`, so the
    value check of the store, which the model's `setByte` does not have, passes) -/
theorem get_set_eq (sfx : Bytes) (hs : sfx.wf) (res : Bytes) (i j : Nat) :
    toPyM (Gen.getItem sfx i >>= fun t => Gen.setItem res j t)
      = (pyGet sfx (i : Int) >>= fun s => setByte res j s) := by
  unfold Gen.getItem pyGet
  have h0 : ¬ ((i : Int) < 0) := by omega
  simp only [h0, ↓reduceIte, Int.toNat_natCast]
  cases hg : sfx[i]? with
  | none => rfl
  | some v =>
    have hv : v < 256 := hs v (List.mem_of_getElem? hg)
    simp only [bind, Except.bind, Gen.setItem, hv, ↓reduceIte, setByte]
    by_cases hj : j < res.length <;> simp [hj, toPyM, errToPy]

/-- the test both `if`s of `_pipe_address` start with, as the translator writes it and as the model does -/
theorem cond_eq (am : Bool) (pipe node : Nat) :
    ((!am) || (am && ((pipe != 0) || (!(node != 0)))))
      = (!am || (am && (decide (pipe ≠ 0) || decide (node = 0)))) := by
  cases am <;> by_cases hp : pipe = 0 <;> by_cases hn : node = 0 <;> simp [hp, hn]

theorem cond2_eq (am : Bool) (pipe node : Nat) :
    (am && ((!(pipe != 0)) || (node != 0)))
      = (am && (decide (pipe = 0) || decide (node ≠ 0))) := by
  cases am <;> by_cases hp : pipe = 0 <;> by_cases hn : node = 0 <;> simp [hp, hn]

/-- the generated `while dec:` loop with more fuel than `dec` = the model's well-founded loop (same
    `IndexError`s, same final `result` and `count`; `dec` ends at 0) -/
theorem pipe_loop (cfg : AddrCfg) (hs : Bytes.wf cfg.sfx) (pipe node : Nat) (store : Bool)
    (hst : (!cfg.allowMulticast || (cfg.allowMulticast && (decide (pipe ≠ 0) || decide (node = 0)))) = store)
    (dec : Nat) : ∀ (count : Nat) (result : Bytes) (fuel : Nat), dec < fuel →
    toPyM (Gen._pipe_address_while1 cfg.allowMulticast cfg.sfx pipe node fuel (result, dec, count))
      = (pipeAddrLoop cfg store dec count result >>= fun p => .ok (Sum.inr (p.1, 0, p.2))) := by
  induction dec using Nat.strongRecOn with
  | _ dec ih =>
    intro count result fuel hf
    obtain ⟨f, rfl⟩ : ∃ f, fuel = f + 1 := ⟨fuel - 1, by omega⟩
    rw [pipeAddrLoop]
    simp only [Gen._pipe_address_while1, cond_eq, hst]
    by_cases hd : dec = 0
    · subst hd; rfl
    · have hne : (dec != 0) = true := by simpa using hd
      have hlt : dec >>> 3 < dec := by simp only [Nat.shiftRight_eq_div_pow]; omega
      simp only [hne, hd, ↓reduceIte]
      cases store with
      | false =>
        simp only [Bool.false_eq_true, ↓reduceIte, pure_bind]
        exact ih _ hlt _ _ _ (by omega)
      | true =>
        simp only [↓reduceIte, pyGet_nat]
        cases hg : cfg.sfx[dec % 8]? with
        | none => simp [Gen.getItem, hg, toPyM, errToPy, bind, Except.bind]
        | some v =>
          have hv : v < 256 := hs v (List.mem_of_getElem? hg)
          by_cases hj : count < result.length
          · simp only [Gen.getItem, hg, Gen.setItem, hv, hj, setByte, ↓reduceIte, bind, Except.bind, pure,
              Except.pure]
            exact ih _ hlt _ _ _ (by omega)
          · simp [Gen.getItem, hg, Gen.setItem, hv, hj, setByte, toPyM, errToPy, bind, Except.bind]

/-- the model's loop only counts up -/
theorem pipeAddrLoop_count (cfg : AddrCfg) (store : Bool) (dec : Nat) :
    ∀ (count : Nat) (result r : Bytes) (c : Nat),
      pipeAddrLoop cfg store dec count result = .ok (r, c) → count ≤ c := by
  induction dec using Nat.strongRecOn with
  | _ dec ih =>
    intro count result r c h
    rw [pipeAddrLoop] at h
    by_cases hd : dec = 0
    · simp only [hd, ↓reduceIte, Except.ok.injEq, Prod.mk.injEq] at h; omega
    · have hlt : dec >>> 3 < dec := by simp only [Nat.shiftRight_eq_div_pow]; omega
      simp only [hd, ↓reduceIte] at h
      cases store with
      | false =>
        simp only [Bool.false_eq_true, ↓reduceIte, pure_bind] at h
        have := ih _ hlt _ _ _ _ h
        omega
      | true =>
        simp only [↓reduceIte] at h
        cases hp : pyGet cfg.sfx ((dec % 8 : Nat) : Int) with
        | error e => rw [hp] at h; cases h
        | ok sv =>
          rw [hp] at h
          cases hb : setByte result count sv with
          | error e => simp only [bind, Except.bind, hb] at h; cases h
          | ok r' =>
            simp only [bind, Except.bind, hb] at h
            have := ih _ hlt _ _ _ _ h
            omega

/-- **GenTie, `_pipe_address`**: for every addressing configuration whose `address_suffix` is a `bytes`
    (items `< 256`; ANY length — a short suffix gives the same `IndexError` on both sides) and a one-byte
    `address_prefix` (the model's representation), every `node_addr` and `pipe_number`: same five bytes or
    the same `IndexError`; the loop ends within its fuel and `count - 1` is never negative -/
theorem GenTie_pipe_address (cfg : AddrCfg) (hs : Bytes.wf cfg.sfx) (node pipe : Nat) :
    toPyM (Gen._pipe_address cfg.allowMulticast [cfg.pfx] cfg.sfx node pipe)
      = pipeAddress cfg node pipe := by
  have hinit : Gen.bytesRepeat [cfg.pfx] 5 = List.replicate 5 cfg.pfx := rfl
  have hl := pipe_loop cfg hs pipe node _ rfl node 1 (List.replicate 5 cfg.pfx) (node + 1)
    (Nat.lt_succ_self _)
  unfold Gen._pipe_address pipeAddress
  simp only [hinit, cond_eq, cond2_eq]
  cases hm : pipeAddrLoop cfg (!cfg.allowMulticast || (cfg.allowMulticast &&
      (decide (pipe ≠ 0) || decide (node = 0)))) node 1 (List.replicate 5 cfg.pfx) with
  | error e =>
    rw [hm] at hl
    cases hg : Gen._pipe_address_while1 cfg.allowMulticast cfg.sfx pipe node (node + 1)
        (List.replicate 5 cfg.pfx, node, 1) with
    | ok v => rw [hg] at hl; cases hl
    | error e' =>
      rw [hg] at hl
      simpa [toPyM, bind, Except.bind] using hl
  | ok p =>
    obtain ⟨r, c⟩ := p
    have hc : 1 ≤ c := pipeAddrLoop_count _ _ _ _ _ _ _ hm
    rw [hm] at hl
    cases hg : Gen._pipe_address_while1 cfg.allowMulticast cfg.sfx pipe node (node + 1)
        (List.replicate 5 cfg.pfx, node, 1) with
    | error e' => rw [hg] at hl; cases hl
    | ok v =>
      rw [hg] at hl
      have hv : v = Sum.inr (r, 0, c) := by simpa [toPyM, bind, Except.bind] using hl
      subst hv
      simp only [bind, Except.bind]
      by_cases h1 : (!cfg.allowMulticast || (cfg.allowMulticast &&
          (decide (pipe ≠ 0) || decide (node = 0)))) = true
      · simp only [h1, ↓reduceIte]
        have := get_set_eq cfg.sfx hs r pipe 0
        simp only [bind, Except.bind] at this
        rw [← this]
        cases hgi : Gen.getItem cfg.sfx pipe with
        | error e => rfl
        | ok t => cases hset : Gen.setItem r 0 t <;> simp [hset, pure, Except.pure]
      · simp only [h1, Bool.false_eq_true, ↓reduceIte]
        by_cases h2 : (cfg.allowMulticast && (decide (pipe = 0) || decide (node ≠ 0))) = true
        · have hsub : Gen.subNat c 1 = .ok (c - 1) := by simp [Gen.subNat, hc]
          have hci : ((c : Int) - 1) = ((c - 1 : Nat) : Int) := by omega
          simp only [h2, ↓reduceIte, hsub, hci]
          have := get_set_eq cfg.sfx hs r (c - 1) 1
          simp only [bind, Except.bind] at this
          rw [← this]
          cases hgi : Gen.getItem cfg.sfx (c - 1) with
          | error e => rfl
          | ok t => cases hset : Gen.setItem r 1 t <;> simp [hset, pure, Except.pure]
        · simp only [h2, Bool.false_eq_true, ↓reduceIte]
          rfl

/-- the hypothesis holds of the default configuration (suffix `C3 3C 33 CE 3E E3`, prefix `CC`), and the
    translated source computes the documented pipe addresses of node `0o12`: pipe 0 and pipe 3 -/
example : Bytes.wf ({} : AddrCfg).sfx
    ∧ Gen._pipe_address true [0xCC] [0xC3, 0x3C, 0x33, 0xCE, 0x3E, 0xE3] 0o12 3
        = .ok [0xCE, 0x33, 0x3C, 0xCC, 0xCC]
    ∧ Gen._pipe_address true [0xCC] [0xC3, 0x3C, 0x33, 0xCE, 0x3E, 0xE3] 0o12 0
        = .ok [0xCC, 0x33, 0xCC, 0xCC, 0xCC]
    ∧ Gen._pipe_address true [0xCC] [0xC3, 0x3C] 0o12 3 = .error .indexError := by
  refine ⟨by decide, rfl, rfl, rfl⟩

end Nrf.Proofs.GenTie
