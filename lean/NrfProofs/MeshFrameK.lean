/-
C17, consequences of the frame theorem for the mesh calls: the lookup loop of `send()` ends by its
deadline; answering a lookup never disturbs the master; what `_begin` leaves.
-/
import NrfProofs.MeshMasterK
import NrfProofs.NetFrameTxK

namespace Nrf.Proofs.MeshK
open Nrf Nrf.Net Nrf.NetK Nrf.Spec Nrf.Spec.MeshProtocol

section api
variable {s0 : NetState} (g : Good s0)
include g

theorem lookupWait_frame (deadline : Nat) : ∀ f, NPres (Frame anyNode clockLe s0) (lookupWait deadline f) := by
  have hst := frame_stable anyNode_rel clockLe_rel g
  intro f
  induction f with
  | zero => rw [lookupWait]; exact NPres.throw _
  | succ f ih =>
    rw [lookupWait]
    npres_any hst anyNode_all [(frameAll F s0 g).netUpdate _, ih]

theorem lookup2Master_frame (number : Int) (ty : Nat) :
    NPres (Frame anyNode clockLe s0) (lookup2Master number ty) := by
  have hst := frame_stable anyNode_rel clockLe_rel g
  unfold lookup2Master
  npres_any hst anyNode_all [(frameAll F s0 g).nodeWrite _ _, lookupWait_frame g _ _]

theorem meshLookupAddress_frame (id : Int) : NPres (Frame anyNode clockLe s0) (meshLookupAddress id) := by
  have hst := frame_stable anyNode_rel clockLe_rel g
  unfold meshLookupAddress
  npres_any hst anyNode_all [lookup2Master_frame g _ _]

theorem meshLookupNodeId_frame (a : Option Int) : NPres (Frame anyNode clockLe s0) (meshLookupNodeId a) := by
  have hst := frame_stable anyNode_rel clockLe_rel g
  unfold meshLookupNodeId
  npres_any hst anyNode_all [lookup2Master_frame g _ _]

theorem meshWrite_frame (to : Nat) (ty : Int) (msg : Bytes) :
    NPres (Frame anyNode clockLe s0) (meshWrite to ty msg) := by
  have hst := frame_stable anyNode_rel clockLe_rel g
  unfold meshWrite nodeValidateMsgLen
  npres_any hst anyNode_all [(frameAll F s0 g).nodeWrite _ _]

end api

/-- a call that respects the frame keeps the call well placed and does not move the clock back -/
theorem good_of_frame {α} {m : NetM α} (hm : ∀ s0, Good s0 → NPres (Frame anyNode clockLe s0) m)
    (s : NetState) (g : Good s) : Good (nexec m s).2 ∧ s.w.clock ≤ (nexec m s).2.w.clock := by
  have := (hm s g).run s (Frame.refl anyNode_rel clockLe_rel s)
  exact ⟨this.good g, this.world.1⟩

/-- **C17, the lookup loop of `send()` never runs out of fuel** (closed system included): started
    as an existing node on the call stack, with its 115 ms deadline, an exception out of the loop is
    one that a `lookup_address()` call raised — in particular the loop itself never reports
    non-termination. -/
theorem sendLookupLoop_ends (toId : Nat) (s : NetState) (g : Good s) (e : PyErr)
    (he : (nexec (sendLookupLoop toId (115 * 1000000 + s.w.clock) 1000 5) s).1 = .error e) :
    ∃ s', Good s' ∧ (nexec (meshLookupAddress toId) s').1 = .error e :=
  sendLookupLoop_terminates toId Good
    (fun s gs => good_of_frame (fun s0 g0 => meshLookupAddress_frame g0 _) s gs)
    (fun s _ gs => ⟨gs.onStack, gs.exists_⟩) s g e he

/-! ### the master is not disturbed by a lookup -/

theorem masterDhcp_idle (f : Nat) (s : NetState) (h : (curNode s).doDhcp = false) :
    (nexec (masterDhcp f) s).2 = s := by
  cases f with
  | zero => rw [masterDhcp.eq_1]; rfl
  | succ f =>
    rw [masterDhcp.eq_2]
    simp only [nexec_bind, nexec_getNode, h, Bool.not_false, ↓reduceIte, nexec_pure]

theorem good_lookupAnswered (s : NetState) (msgT : Nat) (g : Good s) : Good (lookupAnswered s msgT) :=
  ⟨g.onStack, by unfold lookupAnswered; rw [updCur_length]; exact g.exists_⟩

/-- **C17, asking never disturbs the master** (closed system included).  The master (class
    RF24Mesh, ID 0, no address request pending) handles a lookup frame: however the call ends —
    the reply delivered or not, an exception out of `_write` —, whatever other nodes do meanwhile:
    its lease table, `_do_dhcp`, its class, ID, address constants and addressing configuration are
    exactly what they were. -/
theorem masterPart_lookup_keeps (f msgT : Nat) (s : NetState) (g : Good s)
    (hk : (curNode s).kind = .meshMaster) (hid : (curNode s).nodeId = 0)
    (hm : msgT = MESH_ADDR_LOOKUP ∨ msgT = MESH_ID_LOOKUP)
    (hl : Mesh.lookupLongEnough msgT (curNode s).frameBuf.message = true)
    (ht : TableSmall (curNode s).dhcp) (hd : (curNode s).doDhcp = false) :
    TabKeeps (curNode s) (curNode (nexec (masterPart f msgT) s).2) ∧
    (nexec (masterPart f msgT) s).2.cur = s.cur := by
  rw [nexec_masterPart_lookup f msgT s g.exists_ hk hid hm hl ht]
  obtain ⟨h1, h2, -⟩ := lookupAnswered_node s msgT g.exists_
  have g1 := good_lookupAnswered s msgT g
  have hkeep1 : TabKeeps (curNode s) (curNode (lookupAnswered s msgT)) := by
    unfold lookupAnswered
    rw [curNode_updCur _ _ g.exists_]
    constructor <;> rfl
  have hw := ((writePres_tab clockLe_rel clockLe_restorable f _ g1).nodeWrite
    (curNode s).frameBuf.header.fromNode TX_NORMAL).run _ (Frame.refl tabKeeps_rel clockLe_rel _)
  simp only [nexec_bind]
  rcases hr : nexec (nodeWrite f (curNode s).frameBuf.header.fromNode TX_NORMAL) (lookupAnswered s msgT)
    with ⟨r, s2⟩
  rw [hr] at hw
  simp only at hw
  have hk2 : TabKeeps (curNode s) (curNode s2) := tabKeeps_rel.trans _ _ _ hkeep1 hw.me
  have hc2 : s2.cur = s.cur := hw.cur
  cases r with
  | error e => exact ⟨hk2, hc2⟩
  | ok b =>
    simp only
    have hidle := masterDhcp_idle f s2 (by rw [hk2.doDhcp]; exact hd)
    rcases hr2 : nexec (masterDhcp f) s2 with ⟨r2, s3⟩
    rw [hr2] at hidle
    simp only at hidle
    subst hidle
    cases r2 with
    | error e => exact ⟨hk2, hc2⟩
    | ok _ => exact ⟨hk2, hc2⟩

/-! ### `_begin` -/

theorem beginAddr_addr {x : Nat} {a : NodeAddr} (h : beginAddr x = some a) : a.addr = x := by
  unfold beginAddr at h
  simp only [Option.bind_eq_bind] at h
  cases h1 : maskInvLoop BEGIN_FUEL x 0xFFFF 0 with
  | none => rw [h1] at h; cases h
  | some p =>
    rw [h1] at h
    obtain ⟨mi, lvl⟩ := p
    simp only [Option.bind_some] at h
    cases h2 : maskLoop BEGIN_FUEL mi 0 with
    | none => rw [h2] at h; cases h
    | some m =>
      rw [h2] at h
      simp only [Option.bind_some] at h
      cases h3 : parentPipeLoop BEGIN_FUEL (m >>> 3) x with
      | none => rw [h3] at h; cases h
      | some pp =>
        rw [h3] at h
        simp only [Option.bind_some, Option.pure_def, Option.some.injEq] at h
        rw [← h]

/-- after a successful `_begin(x)` the node's address is `x` (and the call still runs as the same
    node) -/
theorem begin_ok_addr (x : Nat) (s s' : NetState) (g : Good s) (h : nexec (begin x) s = (.ok (), s')) :
    (curNode s').a.addr = x ∧ s'.cur = s.cur ∧ Good s' := by
  have hst := frame_stable anyNode_rel clockLe_rel g
  have hfr := (begin_pres hst anyNode_all x).run s (Frame.refl anyNode_rel clockLe_rel s)
  rw [h] at hfr
  refine ⟨?_, hfr.cur, hfr.good g⟩
  unfold begin at h
  simp only [nexec_bind] at h
  have hbr := (beginRadio_pres hst anyNode_all x).run s (Frame.refl anyNode_rel clockLe_rel s)
  rcases hr : nexec (beginRadio x) s with ⟨r, s1⟩
  rw [hr] at h hbr
  cases r with
  | error e => cases h
  | ok _ =>
    simp only at h hbr
    cases hb : beginAddr x with
    | none => rw [hb] at h; cases h
    | some a =>
      rw [hb] at h
      simp only [nexec_modNode] at h
      cases h
      rw [curNode_updCur _ _ (hbr.hasCur g)]
      exact beginAddr_addr hb

end Nrf.Proofs.MeshK
