/-
Simp set for the symbolic execution of driver methods (C08 / C09 proofs).
-/
import Lean.Meta.Tactic.Simp.RegisterCommand

/-- rewrite rules that execute a `DrvM` computation step by step and compute the shadows and the
    configuration part of the radio after each step -/
register_simp_attr drvx
