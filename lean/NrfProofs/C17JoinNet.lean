/-
C17, end-to-end join, part 2: one unacknowledged transmission in the closed system.

`_write(wd, st)` with `st ∈ {TX_PHYSICAL, TX_LOGICAL, TX_MULTICAST}`: `_logi_2_phys` names pipe 0 of
`wd` and "multicast"; `_write_to_pipe` sets `auto_ack = 0x3E`, stops listening, opens the TX pipe,
sends once without waiting for an acknowledgement; `_write` listens again.  In a quiet closed
loss-free network: the result is `True`; **every** other radio has `receive`d the packet; a listening
node radio whose pipe-0 address is the packet's stores it on pipe 0 (no acknowledgement).
-/
import NrfProofs.C17JoinDrv
import NrfProofs.C13HopsLink

namespace Nrf.Net.Join
open Nrf Nrf.Net Nrf.Spec Nrf.Proofs

/-! ### reception on pipe 0 -/

/-- the packet a node radio in the unacknowledged transmit role sends for `buf` -/
theorem packet0 {L : LinkCfg} {P : List Bytes} {ce : Bool} {d : Rf24} {r : Radio}
    (h : NodeRadio L P false ce 0x3E d r) (A buf : Bytes) (hA : r.txAddr = A) (hlen : A.length = 5) :
    r.packetFor { kind := .payload, data := buf } = unicastPacket L A buf r.nextPid := by
  obtain ⟨h1, h2, h3, h4, h5, h6⟩ := h.air (Or.inl rfl)
  unfold Radio.packetFor Radio.pidFor Radio.noAckFor unicastPacket
  simp only [h1, h2, h3, h4, h5, h6 0 (by omega), hA, Bool.and_self, Option.getD_none]
  congr 1
  · rw [List.take_of_length_le (by omega)]

/-- **Reception on pipe 0 of a listening node radio**: a packet with the network's air parameters,
    addressed to the radio's pipe-0 address, finding room and not being a repetition of the last
    packet, is stored once with pipe number 0; it is **not acknowledged** (auto-ack is off on pipe 0). -/
theorem receive_pipe0 {L : LinkCfg} {P : List Bytes} {d : Rf24} {r : Radio}
    (h : NodeRadio L P true true 0x3E d r) (A buf : Bytes) (pid : Nat)
    (hA : P[0]? = some A)
    (hroom : r.rxFifo.length < 3) (hdup : r.lastRx ≠ some { pid := pid, addr := A, data := buf }) :
    r.receive (unicastPacket L A buf pid) =
      ({ r with rxFifo := r.rxFifo ++ [{ pipe := 0, data := buf }], flags := r.flags ||| 0x40, rpd := true,
                lastRx := some { pid := pid, addr := A, data := buf } }, none) := by
  obtain ⟨h1, h2, h3, h4, h5, h6⟩ := h.air (Or.inl rfl)
  have hrxm : r.rxMode = true := h.rxMode
  obtain ⟨_, hpwr, hrole, hce, _, _, _, _, haaR, _, hen, _, hfeat, _, _, _, _, _, hl0, _, hP6, hPl, hrx0, hP15, _⟩ := h
  have hAlen : A.length = 5 := hPl A (List.mem_of_getElem? hA)
  have h0 : some (r.rxAddr 0) = P[0]? := by
    have := hrx0 rfl
    unfold Radio.rxAddr; simpa using this
  have htake : (r.rxAddr 0).take r.aw = A := by
    rw [hA] at h0
    have e : r.rxAddr 0 = A := Option.some.inj h0
    rw [e, h5, List.take_of_length_le (by omega)]
  have hmatch : r.matchPipe A = some 0 :=
    Radio.matchPipe_eq r A 0 (by omega) hen htake (fun q hq => by omega)
  have hlisten : r.listensTo (unicastPacket L A buf pid) = some 0 := by
    unfold Radio.listensTo unicastPacket
    simp only [hrxm, h1, h2, h3, h4, h5, hAlen, beq_self_eq_true, Bool.and_self, if_true, hmatch,
      h6 0 (by omega)]
  unfold Radio.receive
  rw [hlisten]
  unfold unicastPacket
  have hbit : Radio.bit r.enAA 0 = false := by rw [haaR]; decide
  have hdup' : (r.lastRx == some { pid := pid, addr := A, data := buf }) = false := by
    simpa using hdup
  have hroom' : ¬ r.rxFifo.length ≥ 3 := by omega
  simp only [hdup', Bool.and_false, Bool.not_false, Bool.true_and, decide_eq_true_eq, hroom', if_false,
    hbit, Bool.and_true, Bool.false_and, Bool.false_eq_true, Bool.not_true, if_true]

/-- the radio after it stored a payload on pipe 0 -/
def _root_.Nrf.Radio.got0 (r : Radio) (A pk : Bytes) (pid : Nat) : Radio :=
  { r with rxFifo := r.rxFifo ++ [{ pipe := 0, data := pk }], flags := r.flags ||| 0x40, rpd := true,
           lastRx := some { pid := pid, addr := A, data := pk } }

theorem got0_nodeRadio {L : LinkCfg} {P : List Bytes} {rx ce : Bool} {aa : Nat} {d : Rf24} {r : Radio}
    (h : NodeRadio L P rx ce aa d r) (A pk : Bytes) (pid : Nat) :
    NodeRadio L P rx ce aa d (r.got0 A pk pid) := by
  obtain ⟨h1, h2, h3, h4, h5, h6, h7, h8, h9, h10, h11, h12, h13, h14, h15, h16, h17, h18, h19, h20, h21, h22,
    h23, h24, h25, h26, h27, h28, h29⟩ := h
  refine ⟨h1, h2, h3, h4, h5, h6, h7, h8, h9, h10, h11, h12, h13, h14, h15, h16, h17, h18, h19, h20, h21, h22,
    h23, h24, h25, h26, h27, h28, ?_⟩
  intro e he
  have : e ∈ r.rxFifo ++ [{ pipe := 0, data := pk }] := he
  rw [List.mem_append, List.mem_singleton] at this
  rcases this with h | h
  · exact h29 e h
  · rw [h]; exact Nat.zero_le _

/-! ### one unacknowledged hop -/

/-- **`_write_to_pipe(tn, 0, True)`, single frame, closed quiet network, loss-free.**  The running
    node (listening) sends the frame in `frame_buf` to the address `_pipe_address(tn, 0)` without
    asking for an acknowledgement.  The result is `True`; the node's radio object and radio are in
    the transmit role (`auto_ack` still `0x3E`); every other radio has `receive`d the packet. -/
theorem mc_hop (f : Nat) (s : NetState) (L : LinkCfg) (Pa : List Bytes) (tn : Nat) (A pk : Bytes)
    (hcur : s.cur < s.nodes.length) (hclosed : s.closed = true)
    (hfuel : s.nodes.length + 2 ≤ f) (hquiet : Quiet s) (hWf : s.drv.Wf)
    (hNa : NodeRadio L Pa true true 0x3E s.node.rf s.drv.radio)
    (hrid : ∀ i, i < s.nodes.length → i ≠ s.cur → s.ridAt i ≠ s.ridAt s.cur)
    (haddr : pipeAddress s.node.cfg tn 0 = .ok A) (hAlen : A.length = 5)
    (hfaults : s.w.faults = []) (hmsg : s.node.frameBuf.message.length ≤ MAX_FRAG_SIZE)
    (hpk : s.node.frameBuf.pack = .ok pk) :
    ∃ D : DrvState, nexec (nodeWriteToPipe (f + 1) tn 0 true) s = (.ok true, s.afterRf D) ∧
      D.d.rid = s.node.rf.rid ∧ D.w.radios.length = s.w.radios.length ∧ D.w.faults = [] ∧
      NodeRadio L Pa false true 0x3E D.d D.radio ∧ D.radio.rxFifo = s.drv.radio.rxFifo ∧
      D.radio.lastRx = s.drv.radio.lastRx ∧
      (∃ pid, ∀ i, i ≠ s.ridAt s.cur → D.w.radio i = ((s.w.radio i).receive (unicastPacket L A pk pid)).1) := by
  have hc := l3contracts
  have hridc : s.ridAt s.cur = s.drv.d.rid := rfl
  obtain ⟨D1, e1, F1, N1, x1, _, _⟩ := hc.setAA s.drv L Pa true true 0x3E 0x3E hWf hNa (Or.inl rfl)
  obtain ⟨D2, e2, F2, N2, x2⟩ := hc.listenOff D1 L Pa true true 0x3E (F1.wf hWf) N1
  obtain ⟨D3, e3, F3, N3, x3, a3, t3⟩ := L3.l3m_openTx D2 L Pa false false A ((F1.trans F2).wf hWf) N2 hAlen
  have F03 : DrvFrame s.drv D3 := (F1.trans F2).trans F3
  have hW3 : D3.Wf := F03.wf hWf
  have hk : D3.packet pk = unicastPacket L A pk D3.radio.nextPid := packet0 N3 A pk t3 hAlen
  have hpkl : pk.length = 8 + s.node.frameBuf.message.length := pack_length hpk
  obtain ⟨D4, e4, r4, l4, f4, o4, N4, x4, lr4, _, _, _⟩ := L3.l3m_send D3 L Pa false pk hW3 N3
    (by omega) (by unfold MAX_FRAG_SIZE at hmsg; omega)
    (by rw [F03.faults]; exact hfaults)
  refine ⟨D4, ?_, ?_, ?_, f4, N4, ?_, ?_, ⟨D3.radio.nextPid, ?_⟩⟩
  · rw [nodeWriteToPipe.eq_2, nexec_bind, nexec_getNode]
    have hno : ¬ (tn = s.node.a.addr ∧ (!true) = true) := fun h => by simp at h
    simp only [if_neg hno, if_true]
    have s1c : (s.afterRf D1).cur < (s.afterRf D1).nodes.length := by simpa using hcur
    have s2c : (s.afterRf D2).cur < (s.afterRf D2).nodes.length := by simpa using hcur
    have s3c : (s.afterRf D3).cur < (s.afterRf D3).nodes.length := by simpa using hcur
    have e62 : (62 + 0 : Int) = ((0x3E : Nat) : Int) := by decide
    rw [e62, nexec_bind, nexec_liftRf_ok _ s _ D1 e1]
    simp only []
    rw [nexec_bind, nexec_liftRf_ok _ _ _ D2 (by rw [afterRf_drv s D1 hcur]; exact e2), afterRf_afterRf]
    simp only []
    have hpa : nexec (pipeAddr tn 0) (s.afterRf D2) = (.ok A, s.afterRf D2) := by
      unfold Nrf.Net.pipeAddr
      rw [nexec_bind, nexec_getNode]
      simp only []
      rw [afterRf_node s D2 hcur]
      simp only []
      rw [haddr, nexec_liftPy_ok]
    rw [nexec_bind, hpa]
    simp only []
    rw [nexec_bind, nexec_liftRf_ok _ _ _ D3 (by rw [afterRf_drv s D2 hcur]; exact e3), afterRf_afterRf]
    simp only []
    rw [nexec_bind, nexec_getNode]
    simp only []
    rw [afterRf_node s D3 hcur]
    simp only [hmsg, if_true]
    rw [nexec_bind]
    have : (Frame.pack s.node.frameBuf) = .ok pk := hpk
    rw [this, nexec_liftPy_ok]
    simp only []
    obtain ⟨f', rfl⟩ : ∃ g, f = g + 1 := ⟨f - 1, by omega⟩
    have hq3 : Quiet (s.afterRf D3) := by
      intro i hi hic hia
      have hi' : i < s.nodes.length := by simpa using hi
      have hic' : i ≠ s.cur := hic
      unfold NetState.radioAt NetState.ridAt
      rw [nodeAt_afterRf_ne s D3 i hic', afterRf_w]
      have := F03.others (s.nodeAt i).rf.rid (hrid i hi' hic')
      rw [this]
      exact hquiet i hi' hic' hia
    have hsend : nexec (rfSend (f' + 1) pk) (s.afterRf D3) = (.ok true, s.afterRf D4) := by
      rw [rfSend.eq_2, nexec_bind, nexec_get]
      simp only [afterRf_closed, hclosed, if_true]
      rw [nexec_bind, runOthers_quiet0 _ hq3 f' (by simp; omega)]
      simp only []
      rw [nexec_bind, nexec_liftRf_ok _ _ _ D4 (by rw [afterRf_drv s D3 hcur]; exact e4), afterRf_afterRf]
      rfl
    rw [nexec_bind, hsend]
    rfl
  · rw [r4, F03.rid]; rfl
  · rw [l4, F03.len]; rfl
  · rw [x4, x3, x2, x1]
  · rw [lr4, F03.lastRx]
  · intro i hic
    have hi3 : i ≠ D3.d.rid := by rw [F03.rid]; exact hic
    rw [o4 i hi3, F03.others i hic, hk]
    rfl

/-- **`_write(wd, st)` with a send type above `TX_ROUTED`** (`TX_PHYSICAL`, `TX_LOGICAL`,
    `TX_MULTICAST`), single frame, closed quiet network, loss-free: one unacknowledged hop
    (`mc_hop`), no NETWORK_ACK business whatever the type, listening restored, `True`. -/
theorem mc_write (f : Nat) (s : NetState) (L : LinkCfg) (Pa : List Bytes) (wd st t : Nat) (A pk : Bytes)
    (hcur : s.cur < s.nodes.length) (hclosed : s.closed = true)
    (hfuel : s.nodes.length + 2 ≤ f) (hquiet : Quiet s) (hWf : s.drv.Wf)
    (hNa : NodeRadio L Pa true true 0x3E s.node.rf s.drv.radio)
    (hrid : ∀ i, i < s.nodes.length → i ≠ s.cur → s.ridAt i ≠ s.ridAt s.cur)
    (haddr : pipeAddress s.node.cfg wd 0 = .ok A) (hAlen : A.length = 5)
    (hfaults : s.w.faults = []) (hmsg : s.node.frameBuf.message.length ≤ MAX_FRAG_SIZE)
    (hpk : s.node.frameBuf.pack = .ok pk)
    (ht : s.node.frameBuf.header.msgType = .int t) (hst : st > TX_ROUTED) :
    ∃ D : DrvState, nexec (nodeWrite (f + 2) wd st) s = (.ok true, s.afterRf D) ∧
      D.d.rid = s.node.rf.rid ∧ D.w.radios.length = s.w.radios.length ∧ D.w.faults = [] ∧
      NodeRadio L Pa true true 0x3E D.d D.radio ∧ D.radio.rxFifo = s.drv.radio.rxFifo ∧
      D.radio.lastRx = s.drv.radio.lastRx ∧
      (∃ pid, ∀ i, i ≠ s.ridAt s.cur → D.w.radio i = ((s.w.radio i).receive (unicastPacket L A pk pid)).1) := by
  have hc := l3contracts
  have hl2p : logi2phys s.node.a wd st = (wd, 0, true) := by
    unfold logi2phys; rw [if_pos hst]
  obtain ⟨D1, e1, r1, l1, f1, N1, x1, lr1, hoth⟩ := mc_hop f s L Pa wd A pk hcur hclosed hfuel
    hquiet hWf hNa hrid haddr hAlen hfaults hmsg hpk
  have hW1 : D1.Wf := by
    unfold DrvState.Wf at *
    rw [r1, l1]; exact hWf
  obtain ⟨D2, e2, F2, N2, x2⟩ := hc.listenOn D1 L Pa true 0x3E hW1 N1
  refine ⟨D2, ?_, by rw [F2.rid, r1], by rw [F2.len, l1], by rw [F2.faults, f1], N2, by rw [x2, x1],
    by rw [F2.lastRx, lr1], ?_⟩
  · rw [show f + 2 = (f + 1) + 1 from rfl, nodeWrite_step_raw (f + 1) wd st s t ht, hl2p]
    have hne : ¬ (st = TX_ROUTED) := by omega
    have hpre : writePrelude s t wd st = s := by
      unfold writePrelude
      rw [if_neg]
      rintro ⟨h, _⟩
      exact hne h
    simp only [hpre, e1, if_true]
    have hne2 : ¬ (wd ≠ wd ∧ (st = TX_NORMAL ∨ st = TX_LOGICAL)) := fun h => h.1 rfl
    simp only [hne, false_and, if_false, hne2, ite_self]
    unfold ackCont
    simp only [Bool.not_true, Bool.false_eq_true, if_false]
    rw [nexec_bind, nexec_liftRf, afterRf_drv s D1 hcur, afterRf_afterRf, e2]
    rfl
  · obtain ⟨pid, hpid⟩ := hoth
    refine ⟨pid, fun i hi => ?_⟩
    rw [F2.others i (by rw [r1]; exact hi), hpid i hi]

end Nrf.Net.Join
