/-
The air log (`World.air`) at the driver level, as a contract next to `L3Contracts` (NrfProofs/C05Link.lean).

`L3Contracts` says what the six RF24 calls of the network layer do to the driver object and the radios; it
says nothing about the log of transmissions `World.air`.  `AirContracts` adds that, call by call and under
the very hypotheses of the corresponding `L3Contracts` field (so it applies wherever that field is applied;
`exec` is a function, so the clause is about the same final state): `auto_ack = …`, `listen = …`,
`open_tx_pipe()` and `read()` append nothing; an acknowledged `send(buf, send_only=True)` in a loss-free world
appends exactly one record — this radio, the packet `s.packet buf`, a single attempt, reported sent.

Taken as a hypothesis by the closed-system air lemmas (NrfProofs/C13Air*.lean) and proved from the driver
model over the chip and the air in NrfProofs/AirDischarge.lean (`airContracts`).
-/
import NrfProofs.C05Link

namespace Nrf
open Rf24

structure AirContracts : Prop where
  setAA : ∀ (s : DrvState) (L : LinkCfg) (P : List Bytes) (rx ce : Bool) (aa v : Nat), s.Wf →
    NodeRadio L P rx ce aa s.d s.radio → (v = 0x3E ∨ v = 0x3F) →
    (exec (setAutoAckAttr (.i v)) s).2.w.air = s.w.air
  listenOff : ∀ (s : DrvState) (L : LinkCfg) (P : List Bytes) (rx ce : Bool) (aa : Nat), s.Wf →
    NodeRadio L P rx ce aa s.d s.radio →
    (exec (setListen false) s).2.w.air = s.w.air
  openTx : ∀ (s : DrvState) (L : LinkCfg) (P : List Bytes) (ce : Bool) (a : Bytes), s.Wf →
    NodeRadio L P false ce 0x3F s.d s.radio → a.length = 5 →
    (exec (openTxPipe a) s).2.w.air = s.w.air
  send : ∀ (s : DrvState) (L : LinkCfg) (P : List Bytes) (ce : Bool) (buf : Bytes) (j : Nat), s.Wf →
    NodeRadio L P false ce 0x3F s.d s.radio → s.radio.txAddr = s.radio.rxAddr0 →
    1 ≤ buf.length → buf.length ≤ 32 → s.w.faults = [] → j ≠ s.d.rid →
    ((s.w.radio j).receive (s.packet buf)).2 = some none →
    ∃ rec : AirRec, (exec (Rf24.send buf false false 0 true) s).2.w.air = s.w.air ++ [rec] ∧
      rec.sender = s.d.rid ∧ rec.pkt = s.packet buf ∧ rec.attempts = 1 ∧ rec.ok = true
  listenOn : ∀ (s : DrvState) (L : LinkCfg) (P : List Bytes) (ce : Bool) (aa : Nat), s.Wf →
    NodeRadio L P false ce aa s.d s.radio →
    (exec (setListen true) s).2.w.air = s.w.air
  read : ∀ (s : DrvState) (L : LinkCfg) (P : List Bytes) (rx ce : Bool) (aa : Nat), s.Wf →
    NodeRadio L P rx ce aa s.d s.radio →
    (∀ e ∈ s.radio.rxFifo, e.pipe ≤ 5 ∧ 1 ≤ e.data.length ∧ e.data.length ≤ 32) →
    (exec (Rf24.read none) s).2.w.air = s.w.air

end Nrf
