/-
Finite bit-field facts connecting the masks and shifts of `rf24_lite.py` with the arithmetic
(div / mod) field extraction of `Spec/Lite.lean`.  Every statement ranges over a register's
values (at most 256) and a field's values: genuinely finite tables, decided by the kernel.
-/
import NrfModel.Spec.Lite
import NrfModel.Rf24

namespace Nrf.LiteBits
open Nrf.Spec.Lite

-- SETUP_RETR
theorem arc_set : ∀ x, x < 256 → ∀ a, a < 16 → ((x &&& 0xF0) ||| a) = setField x 0 4 a := by decide +kernel
theorem arc_get : ∀ x, x < 256 → x &&& 0x0F = field x 0 4 := by decide +kernel
theorem ard_set : ∀ x, x < 256 → ∀ a, a < 16 → ((x &&& 0x0F) ||| (a <<< 4)) = setField x 4 4 a := by decide +kernel
theorem ard_get : ∀ x, x < 256 → (x &&& 0xF0) >>> 4 = field x 4 4 := by decide +kernel
theorem arc_rt : ∀ x, x < 256 → ∀ a, a < 16 → field (setField x 0 4 a) 0 4 = a := by decide +kernel
theorem ard_rt : ∀ x, x < 256 → ∀ a, a < 16 → field (setField x 4 4 a) 4 4 = a := by decide +kernel
theorem arc_keeps_ard : ∀ x, x < 256 → ∀ a, a < 16 → field (setField x 0 4 a) 4 4 = field x 4 4 := by decide +kernel
theorem ard_keeps_arc : ∀ x, x < 256 → ∀ a, a < 16 → field (setField x 4 4 a) 0 4 = field x 0 4 := by decide +kernel

-- FEATURE
theorem dpl_set : ∀ x, x < 8 → ∀ b, b < 2 → ((x &&& 3) ||| (b <<< 2)) = setField x 2 1 b := by decide +kernel
theorem dpl_get : ∀ x, x < 8 → (decide (x &&& 4 = 4)) = decide (field x 2 1 = 1) := by decide +kernel
theorem dpl_rt : ∀ x, x < 8 → ∀ b, b < 2 → field (setField x 2 1 b) 2 1 = b := by decide +kernel
theorem ack_on : ∀ f, f < 8 → ((f &&& 5) ||| 4) ||| 2 = setField (setField f 1 1 1) 2 1 1 := by decide +kernel
theorem ack_off : ∀ f, f < 8 → (f &&& 5) ||| 0 = setField f 1 1 0 := by decide +kernel
theorem ack_get : ∀ f, f < 8 → (decide (f &&& 6 = 6)) = (decide (field f 1 1 = 1) && decide (field f 2 1 = 1)) := by
  decide +kernel
theorem ack_on_rt : ∀ f, f < 8 → field (setField (setField f 1 1 1) 2 1 1) 1 1 = 1 ∧
    field (setField (setField f 1 1 1) 2 1 1) 2 1 = 1 := by decide +kernel
theorem ack_off_rt : ∀ f, f < 8 → field (setField f 1 1 0) 1 1 = 0 := by decide +kernel

-- RF_SETUP
theorem rate_set : ∀ x, x < 256 → ∀ lo, lo < 2 → ∀ hi, hi < 2 →
    ((x &&& 0xD7) ||| ((lo <<< 5) ||| (hi <<< 3))) = setField (setField x 5 1 lo) 3 1 hi := by decide +kernel
theorem rate_get : ∀ x, x < 256 →
    (if x &&& 0x28 ≠ 0 then (if x &&& 0x28 = 8 then 2 else 250) else 1) = rateOf (field x 5 1) (field x 3 1) := by
  decide +kernel
theorem rate_rt : ∀ x, x < 256 → ∀ lo, lo < 2 → ∀ hi, hi < 2 →
    field (setField (setField x 5 1 lo) 3 1 hi) 5 1 = lo ∧ field (setField (setField x 5 1 lo) 3 1 hi) 3 1 = hi := by
  decide +kernel
theorem rate_mask : ∀ x, x < 256 → x &&& 0xBF = x → ∀ lo, lo < 2 → ∀ hi, hi < 2 →
    ((x &&& 0xD7) ||| ((lo <<< 5) ||| (hi <<< 3))) &&& 0xBF = ((x &&& 0xD7) ||| ((lo <<< 5) ||| (hi <<< 3))) := by
  decide +kernel
theorem pa_set : ∀ x, x < 256 → ∀ c, c < 4 → ((x &&& 0xF8) ||| (c * 2) ||| 1) = setField (setField x 1 2 c) 0 1 1 := by
  decide +kernel
theorem pa_get : ∀ x, x < 256 → ((3 - ((x &&& 6) >>> 1) : Nat) : Int) * -6 = paOf (field x 1 2) := by decide +kernel
theorem pa_rt : ∀ x, x < 256 → ∀ c, c < 4 → field (setField (setField x 1 2 c) 0 1 1) 1 2 = c := by decide +kernel
theorem pa_mask : ∀ x, x < 256 → x &&& 0xBF = x → ∀ c, c < 4 →
    ((x &&& 0xF8) ||| (c * 2) ||| 1) &&& 0xBF = ((x &&& 0xF8) ||| (c * 2) ||| 1) := by decide +kernel
theorem pa_keeps_rate : ∀ x, x < 256 → ∀ c, c < 4 →
    field (setField (setField x 1 2 c) 0 1 1) 5 1 = field x 5 1 ∧ field (setField (setField x 1 2 c) 0 1 1) 3 1 = field x 3 1 := by
  decide +kernel
theorem rate_keeps_pa : ∀ x, x < 256 → ∀ lo, lo < 2 → ∀ hi, hi < 2 →
    field (setField (setField x 5 1 lo) 3 1 hi) 1 2 = field x 1 2 := by decide +kernel

-- CONFIG
theorem power_set : ∀ x, x < 128 → ∀ b, b < 2 → ((x &&& 0x7D) ||| (b <<< 1)) = setField x 1 1 b := by decide +kernel
theorem power_get : ∀ x, x < 128 → (decide (x &&& 2 ≠ 0)) = decide (field x 1 1 = 1) := by decide +kernel
theorem power_rt : ∀ x, x < 128 → ∀ b, b < 2 → field (setField x 1 1 b) 1 1 = b := by decide +kernel
theorem power_role : ∀ x, x < 128 → ∀ b, b < 2 → ((x &&& 0x7D) ||| (b <<< 1)) &&& 1 = x &&& 1 := by decide +kernel
theorem power_lt : ∀ x, x < 128 → ∀ b, b < 2 → ((x &&& 0x7D) ||| (b <<< 1)) < 128 := by decide +kernel
theorem irq_set : ∀ x, x < 128 → ∀ a, a < 2 → ∀ b, b < 2 → ∀ c, c < 2 →
    ((x &&& 0x0F) ||| ((a <<< 6) ||| (c <<< 4) ||| (b <<< 5))) =
      setField (setField (setField x 6 1 a) 5 1 b) 4 1 c := by decide +kernel
theorem irq_role : ∀ x, x < 128 → ∀ a, a < 2 → ∀ b, b < 2 → ∀ c, c < 2 →
    ((x &&& 0x0F) ||| ((a <<< 6) ||| (c <<< 4) ||| (b <<< 5))) &&& 1 = x &&& 1 ∧
    ((x &&& 0x0F) ||| ((a <<< 6) ||| (c <<< 4) ||| (b <<< 5))) < 128 := by decide +kernel
theorem irq_rt : ∀ x, x < 128 → ∀ a, a < 2 → ∀ b, b < 2 → ∀ c, c < 2 →
    field (setField (setField (setField x 6 1 a) 5 1 b) 4 1 c) 6 1 = a ∧
    field (setField (setField (setField x 6 1 a) 5 1 b) 4 1 c) 5 1 = b ∧
    field (setField (setField (setField x 6 1 a) 5 1 b) 4 1 c) 4 1 = c ∧
    field (setField (setField (setField x 6 1 a) 5 1 b) 4 1 c) 0 4 = field x 0 4 := by decide +kernel
theorem listen_get : ∀ x, x < 128 → (decide (x &&& 3 = 3)) = (decide (field x 0 1 = 1) && decide (field x 1 1 = 1)) := by
  decide +kernel

-- EN_RXADDR
theorem open_bit : ∀ v, v < 64 → ∀ p, p < 6 → (v ||| (1 <<< p)) < 64 ∧ Radio.bit (v ||| (1 <<< p)) p = true ∧
    ∀ q, q < 6 → q ≠ p → Radio.bit (v ||| (1 <<< p)) q = Radio.bit v q := by decide +kernel
theorem close_bit : ∀ v, v < 64 → ∀ p, p < 6 → Rf24.andNot v (1 <<< p) < 64 ∧ Radio.bit (Rf24.andNot v (1 <<< p)) p = false ∧
    ∀ q, q < 6 → q ≠ p → Radio.bit (Rf24.andNot v (1 <<< p)) q = Radio.bit v q := by decide +kernel
theorem closed_bit : ∀ v, v < 64 → ∀ p, p < 6 → (v &&& (1 <<< p) ≠ 0) = (Radio.bit v p = true) := by decide +kernel

end Nrf.LiteBits
