/-
The executable spec of C16 (`Nrf.Spec.stepOkB`, the judge of the failing-input search) against the
Prop-level notions the theorems use.
-/
import NrfProofs.Lease
import NrfModel.Mesh.LeaseView

namespace Nrf.Proofs.Lease
open Nrf Nrf.Net Nrf.Mesh Nrf.Spec

/-! ### `leasableB`, `invB` -/

theorem digitsB_iff (n a : Nat) :
    digitsB n a = true ↔ ∃ ds, DigitsOk ds ∧ ds.length ≤ n ∧ val ds = a := by
  induction n generalizing a with
  | zero =>
    simp only [digitsB, beq_iff_eq, Nat.le_zero_eq, List.length_eq_zero_iff]
    constructor
    · rintro rfl; exact ⟨[], by simp [DigitsOk], rfl, rfl⟩
    · rintro ⟨ds, _, rfl, rfl⟩; rfl
  | succ n ih =>
    simp only [digitsB, Bool.or_eq_true, beq_iff_eq, Bool.and_eq_true, decide_eq_true_eq, ih]
    constructor
    · rintro (rfl | ⟨⟨h1, h5⟩, ds, hok, hl, hv⟩)
      · exact ⟨[], by simp [DigitsOk], by simp, rfl⟩
      · refine ⟨(a % 8) :: ds, Nrf.Proofs.digitsOk_cons.mpr ⟨⟨h1, h5⟩, hok⟩, by simp; omega, ?_⟩
        simp only [val, hv]; omega
    · rintro ⟨ds, hok, hl, hv⟩
      cases ds with
      | nil => left; simpa [val] using hv.symm
      | cons d ds =>
        right
        rw [Nrf.Proofs.digitsOk_cons] at hok
        simp only [val] at hv
        have hd : a % 8 = d := by omega
        have hq : a / 8 = val ds := by omega
        exact ⟨by omega, ds, hok.2, by simpa using hl, hq.symm⟩

theorem leasableB_iff (a : Nat) : leasableB a = true ↔ Leasable a := by
  unfold leasableB Leasable IsNode
  simp only [Bool.and_eq_true, bne_iff_ne, ne_eq, digitsB_iff]
  constructor
  · rintro ⟨⟨h0, h4⟩, ds, hok, hl, hv⟩
    refine ⟨h4, ds, ⟨hok, hl⟩, ?_, hv⟩
    rintro rfl
    exact h0 hv.symm
  · rintro ⟨h4, ds, ⟨hok, hl⟩, hne, hv⟩
    refine ⟨⟨?_, h4⟩, ds, hok, hl, hv⟩
    exact leasable_ne_zero ⟨h4, ds, ⟨hok, hl⟩, hne, hv⟩

theorem addrInj_of_addrs_nodup {t : Table} (h : (addrs t).Nodup) :
    ∀ i j a, (i, a) ∈ t → (j, a) ∈ t → i = j := by
  induction t with
  | nil => simp
  | cons e rest ih =>
    obtain ⟨k, v⟩ := e
    have h' : v ∉ addrs rest ∧ (addrs rest).Nodup := by simpa [addrs] using h
    intro i j a hi hj
    simp only [List.mem_cons, Prod.mk.injEq] at hi hj
    rcases hi with ⟨rfl, rfl⟩ | hi <;> rcases hj with ⟨rfl, hja⟩ | hj
    · rfl
    · exact absurd (mem_addrs_of_mem hj) h'.1
    · exact absurd (hja ▸ mem_addrs_of_mem hi) h'.1
    · exact ih h'.2 i j a hi hj

theorem invB_iff (t : Table) : invB t = true ↔ Inv t := by
  unfold invB
  simp only [Bool.and_eq_true, decide_eq_true_eq, List.all_eq_true, leasableB_iff]
  constructor
  · rintro ⟨⟨hk, ha⟩, hall⟩
    exact ⟨hk, addrInj_of_addrs_nodup ha, fun i a hm => (hall (i, a) hm).1,
      fun i a hm => (hall (i, a) hm).2⟩
  · intro h
    exact ⟨⟨h.oneLeasePerId, addrs_nodup_of_inj (inj_of_inv h)⟩,
      fun e he => ⟨h.leasable e.1 e.2 he, h.idByte e.1 e.2 he⟩⟩

/-! ### maps -/

theorem sameMapB_of_iff {t u : Table} (h : ∀ e, e ∈ t ↔ e ∈ u) : sameMapB t u = true := by
  unfold sameMapB
  simp only [Bool.and_eq_true, List.all_eq_true, List.contains_iff_mem]
  exact ⟨fun e he => (h e).mp he, fun e he => (h e).mpr he⟩

theorem sameMapB_refl (t : Table) : sameMapB t t = true := sameMapB_of_iff (fun _ => Iff.rfl)

theorem leasedToOtherB_iff (t : Table) (id a : Nat) :
    leasedToOtherB t id a = true ↔ LeasedToOther t id a := by
  unfold leasedToOtherB LeasedToOther
  simp only [List.any_eq_true, Bool.and_eq_true, beq_iff_eq, bne_iff_ne, ne_eq]
  constructor
  · rintro ⟨⟨j, b⟩, hm, rfl, hj⟩; exact ⟨j, hj, hm⟩
  · rintro ⟨j, hj, hm⟩; exact ⟨(j, a), hm, rfl, hj⟩

theorem mem_assign (t : Table) (id a : Nat) (e : Nat × Nat) :
    e ∈ assign t id a ↔ e = (id, a) ∨ (e.1 ≠ id ∧ e ∈ t) := by
  unfold assign
  simp only [List.mem_cons, List.mem_filter, bne_iff_ne, ne_eq]
  constructor
  · rintro (h | ⟨h1, h2⟩)
    · exact Or.inl h
    · exact Or.inr ⟨h2, h1⟩
  · rintro (h | ⟨h1, h2⟩)
    · exact Or.inl h
    · exact Or.inr ⟨h2, h1⟩

theorem mem_without (t : Table) (a : Nat) (e : Nat × Nat) :
    e ∈ without t a ↔ e.2 ≠ a ∧ e ∈ t := by
  unfold without
  simp only [List.mem_filter, bne_iff_ne, ne_eq]
  exact ⟨fun ⟨h1, h2⟩ => ⟨h2, h1⟩, fun ⟨h1, h2⟩ => ⟨h2, h1⟩⟩

/-- `dhcp_dict[id] = a` is the map `assign` -/
theorem sameMapB_dictSet {t : Table} (hk : (keys t).Nodup) (id a : Nat) :
    sameMapB (dictSet t id a) (assign t id a) = true := by
  apply sameMapB_of_iff
  rintro ⟨j, b⟩
  rw [mem_dictSet _ _ hk, mem_assign]
  simp only [Prod.mk.injEq]

/-- a release is the map `without` -/
theorem sameMapB_releaseScan {t : Table} (h : Inj t) (a : Nat) :
    sameMapB (releaseScan t a t).1 (without t a) = true := by
  apply sameMapB_of_iff
  rintro ⟨j, b⟩
  rw [mem_releaseScan h, mem_without]

/-! ### arrival -/

theorem arrival_arrives {fromNode : Nat} {via : List Nat} {direct : Bool}
    (h : arrival fromNode = some (via, direct)) : Arrives fromNode via direct := by
  unfold arrival at h
  by_cases hf : fromNode = UNASSIGNED
  · simp only [hf, ↓reduceIte, Option.some.injEq, Prod.mk.injEq] at h
    obtain ⟨rfl, rfl⟩ := h
    exact Or.inl ⟨rfl, rfl, hf⟩
  · simp only [hf, ↓reduceIte] at h
    split at h
    · rename_i hc
      simp only [Option.some.injEq, Prod.mk.injEq] at h
      obtain ⟨rfl, rfl⟩ := h
      exact Or.inr ⟨rfl, ⟨hc.2.1, by omega⟩, hc.2.2, hc.1⟩
    · exact absurd h (by simp)

/-! ### the request clause -/

theorem replyOkB_replyOf (fromNode id a : Nat) {via : List Nat} {direct : Bool}
    (harr : Arrives fromNode via direct) :
    replyOkB (replyObs (replyOf fromNode id a)) fromNode id a direct = true := by
  have hst : (if fromNode ≠ NETWORK_DEFAULT_ADDR then TX_NORMAL else TX_PHYSICAL) =
      (if direct then 2 else 0) := by
    rcases harr with ⟨hd, _, hf⟩ | ⟨hd, hn, hl, hv⟩
    · simp [hd, hf, TX_PHYSICAL]
    · have := relay_ne_default hn hl
      rw [hv] at this
      simp [hd, this, TX_NORMAL]
  simp [replyOkB, replyObs, replyOf, hst, MESH_ADDR_RESPONSE]

theorem requestOkB_model {t : Table} (hinv : Inv t) (fromNode id : Nat) (w1 : Bool)
    (o : StepObs) (htab : o.table = (dhcp t fromNode id w1).1)
    (hwr : o.writes = (dhcp t fromNode id w1).2.writes.map replyObs)
    (hexc : o.raised = (dhcp t fromNode id w1).2.exc.isSome) :
    requestOkB t fromNode id o = true := by
  unfold requestOkB
  cases harv : arrival fromNode with
  | none => rfl
  | some vd =>
    obtain ⟨via, direct⟩ := vd
    have harr := arrival_arrives harv
    simp only
    split
    · rfl
    · have hcap : capacity direct ≤ 5 := by unfold capacity; split <;> omega
      have hnode : IsNode via ∧ via.length ≤ 3 := by
        rcases harr with ⟨_, hv, _⟩ | ⟨_, hn, hl, _⟩
        · subst hv; exact ⟨by decide, by simp⟩
        · exact ⟨hn, hl⟩
      rcases dhcp_spec t harr id w1 with ⟨he, hall⟩ | ⟨i, h1, h2, hnb, _, he⟩
      · -- nothing handed out
        rw [he] at htab hwr hexc
        simp only [List.map_nil] at hwr
        have hraised : o.raised = false := by simpa using hexc
        simp only [hraised, hwr, htab, Bool.not_false, List.isEmpty_nil, ↓reduceIte, Bool.true_and,
          sameMapB_refl, List.all_eq_true]
        intro a ha
        unfold slots at ha
        simp only [List.mem_filter, List.mem_map, List.mem_range'_1, bne_iff_ne, ne_eq] at ha
        obtain ⟨⟨i, ⟨hi1, hi2⟩, rfl⟩, hne⟩ := ha
        rcases hall i hi1 (by omega) with h | h
        · exact absurd h hne
        · exact (leasedToOtherB_iff _ _ _).mpr h
      · -- child `i` handed out
        rw [he] at htab hwr hexc
        have hraised : o.raised = false := by simpa using hexc
        have hne : o.writes.isEmpty = false := by
          rw [hwr]; simp only [repliesOf]; split <;> simp
        simp only [hraised, hne, Bool.not_false, Bool.false_eq_true, ↓reduceIte, Bool.true_and,
          List.any_eq_true, List.mem_map, List.mem_range'_1]
        refine ⟨child via i, ⟨i, ⟨h1, by omega⟩, rfl⟩, ?_⟩
        have hleas : Leasable (child via i) :=
          leasable_child hnode.1 hnode.2 ⟨h1, by omega⟩ (fun h => hnb (Or.inl h))
        have hfree : leasedToOtherB t id (child via i) = false := by
          cases hb : leasedToOtherB t id (child via i) with
          | false => rfl
          | true => exact absurd (Or.inr ((leasedToOtherB_iff _ _ _).mp hb)) hnb
        simp only [(leasableB_iff _).mpr hleas, hfree, Bool.not_false, Bool.true_and, htab,
          sameMapB_dictSet hinv.oneLeasePerId, List.all_eq_true]
        intro w hw
        rw [hwr] at hw
        obtain ⟨w0, hw0, rfl⟩ := List.mem_map.mp hw
        have : w0 = replyOf fromNode id (child via i) := by
          simp only [repliesOf] at hw0
          split at hw0 <;> simpa using hw0
        subst this
        exact replyOkB_replyOf _ _ _ harr

/-! ### pieces of the step theorem -/

theorem isValid_of_node {ds : List Nat} (hn : IsNode ds) : isValid (val ds) = true := by
  unfold isValid
  split
  · rfl
  · rw [Nrf.Proofs.isValidGo_iff]
    exact ⟨ds, hn.1, rfl, Or.inr (by simp [VALID_DIGIT_LIMIT]; exact hn.2)⟩

theorem isValid_of_leasable {a : Nat} (h : Leasable a) : isValid a = true := by
  obtain ⟨_, ds, hn, _, rfl⟩ := h
  exact isValid_of_node hn

theorem isValid_of_arrives {fromNode : Nat} {via : List Nat} {direct : Bool}
    (h : Arrives fromNode via direct) : isValid fromNode = true := by
  rcases h with ⟨_, _, hf⟩ | ⟨_, hn, _, hv⟩
  · subst hf
    exact isValid_of_node (ds := [4, 4, 4, 4]) (by decide)
  · exact hv ▸ isValid_of_node hn

theorem releaseAddress_exc (m : Master) (a rs : Nat) (w1 : Bool) :
    (releaseAddress m a rs w1).2.exc = none := by
  unfold releaseAddress
  by_cases ha : a = 0
  · simp only [ha, ↓reduceIte]
    cases m.abandoned <;> cases w1 <;> rfl
  · simp only [ha, ↓reduceIte]

theorem masterUpdate_release_exc (m : Master) (fromNode rs : Nat) (msg : Bytes) (w1 : Bool) :
    (masterUpdate m MESH_ADDR_RELEASE fromNode rs msg w1).2.exc = none := by
  have hd : updateDispatch m MESH_ADDR_RELEASE fromNode rs msg w1 =
      ((releaseAddress m fromNode rs w1).1, { (releaseAddress m fromNode rs w1).2 with ret := 0 }) := by
    simp [updateDispatch, MESH_ADDR_RELEASE, MESH_ADDR_LOOKUP, MESH_ID_LOOKUP]
  unfold masterUpdate
  rw [hd]
  simp [releaseAddress_exc, MESH_ADDR_RELEASE, MESH_ADDR_REQUEST]

theorem getAddress_addr_lookup (id : Nat) (t : Table) :
    getAddress id MESH_ADDR_LOOKUP t =
      match t.find? (·.1 == id) with
      | some e => (e.2 : Int)
      | none => -2 := by
  induction t with
  | nil => rfl
  | cons e rest ih =>
    obtain ⟨k, v⟩ := e
    unfold getAddress
    have h1 : ¬ (MESH_ADDR_LOOKUP = MESH_ID_LOOKUP ∧ v = id) := by simp [MESH_ADDR_LOOKUP, MESH_ID_LOOKUP]
    by_cases hk : k = id
    · simp [h1, hk]
    · have : (k == id) = false := by simpa using hk
      simp [h1, hk, ih, this]

theorem getAddress_id_lookup (a : Nat) (t : Table) :
    getAddress a MESH_ID_LOOKUP t =
      match t.find? (·.2 == a) with
      | some e => (e.1 : Int)
      | none => -2 := by
  induction t with
  | nil => rfl
  | cons e rest ih =>
    obtain ⟨k, v⟩ := e
    unfold getAddress
    have h1 : ¬ (MESH_ID_LOOKUP = MESH_ADDR_LOOKUP ∧ k = a) := by simp [MESH_ADDR_LOOKUP, MESH_ID_LOOKUP]
    by_cases hv : v = a
    · simp [hv]
    · have : (v == a) = false := by simpa using hv
      simp [h1, hv, ih, this]

/-- no lease is on an address that is not a valid logical address -/
theorem sameMapB_without_invalid {t : Table} (h : Inv t) {a : Nat} (ha : isValid a = false) :
    sameMapB t (without t a) = true := by
  apply sameMapB_of_iff
  intro e
  rw [mem_without]
  constructor
  · intro he
    refine ⟨?_, he⟩
    rintro rfl
    have := isValid_of_leasable (h.leasable e.1 e.2 he)
    rw [ha] at this
    exact absurd this (by simp)
  · exact fun h => h.2

end Nrf.Proofs.Lease
