/-
Bit-mask facts used by the address arithmetic (`&`, `<<`, `>>` with the masks `_begin` builds).
-/
namespace Nrf.Proofs

/-- `a & (m << j) = ((a >> j) & m) << j` -/
theorem and_shiftLeft_eq (a m j : Nat) : a &&& (m <<< j) = ((a >>> j) &&& m) <<< j := by
  apply Nat.eq_of_testBit_eq
  intro i
  simp only [Nat.testBit_and, Nat.testBit_shiftLeft, Nat.testBit_shiftRight]
  by_cases h : j ≤ i
  · have : j + (i - j) = i := by omega
    simp [h, this]
  · simp [h]

/-- `a & ((2^k - 1) << j)` keeps the bits `j .. j+k-1` of `a` -/
theorem and_mask_shift (a k j : Nat) :
    a &&& ((2 ^ k - 1) <<< j) = a / 2 ^ j % 2 ^ k * 2 ^ j := by
  rw [and_shiftLeft_eq, Nat.and_two_pow_sub_one_eq_mod, Nat.shiftRight_eq_div_pow,
    Nat.shiftLeft_eq]

theorem and_pow8_sub_one (a L : Nat) : a &&& (8 ^ L - 1) = a % 8 ^ L := by
  have : (8 : Nat) ^ L = 2 ^ (3 * L) := by rw [Nat.pow_mul]
  rw [this]; exact Nat.and_two_pow_sub_one_eq_mod _ _

end Nrf.Proofs
