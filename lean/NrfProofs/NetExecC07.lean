/-
Symbolic execution of `NetM` (and `DrvM`) computations in weakest-precondition form.

`wp E m Q s` : running `m` from `s` ends either normally with a result / state satisfying `Q`, or
with an exception / state satisfying `E`.  `E := fun _ _ => True` gives partial correctness (C07:
"if the call returns …"), `E := fun _ _ => False` total correctness (C15: "never raises").
Only the generic rules live here: pure / bind / throw / get / set / modify / ite / match on
options / tryCatch / liftRf / liftPy / getNode / modNode.
-/
import NrfModel.Net.Api
import NrfProofs.Hoare
import NrfProofs.NetExecCore

namespace Nrf.Net
open Nrf

-- `nexec`, `NetState.node`, `NetState.setNode`, `NetState.drv`: NrfProofs/NetExecCore.lean (shared with the
-- closed-system stack, NrfProofs/NetExecJ.lean); the rules of this file that have a namesake there end in `7`

/-- outcome predicate of a pair (result, state) -/
def Outcome {α σ} (E : PyErr → σ → Prop) (Q : α → σ → Prop) : Except PyErr α × σ → Prop
  | (.ok a, s) => Q a s
  | (.error e, s) => E e s

@[simp] theorem Outcome_ok {α σ} (E : PyErr → σ → Prop) (Q : α → σ → Prop) (a : α) (s : σ) :
    Outcome E Q (.ok a, s) = Q a s := rfl
@[simp] theorem Outcome_error {α σ} (E : PyErr → σ → Prop) (Q : α → σ → Prop) (e : PyErr) (s : σ) :
    Outcome E Q ((.error e : Except PyErr α), s) = E e s := rfl

theorem Outcome.mono {α σ} {E E' : PyErr → σ → Prop} {Q Q' : α → σ → Prop} {x : Except PyErr α × σ}
    (h : Outcome E Q x) (hE : ∀ e s, E e s → E' e s) (hQ : ∀ a s, Q a s → Q' a s) : Outcome E' Q' x := by
  rcases x with ⟨r, s⟩
  cases r
  · exact hE _ _ h
  · exact hQ _ _ h

/-- weakest precondition of a node-layer computation -/
def wp {α} (E : PyErr → NetState → Prop) (m : NetM α) (Q : α → NetState → Prop) (s : NetState) : Prop :=
  Outcome E Q (nexec m s)

/-- weakest precondition of a driver computation -/
def dwp {α} (E : PyErr → DrvState → Prop) (m : DrvM α) (Q : α → DrvState → Prop) (s : DrvState) : Prop :=
  Outcome E Q (exec m s)

/-- "any exception is acceptable" -/
def anyErr {σ} : PyErr → σ → Prop := fun _ _ => True
/-- "no exception is acceptable" -/
def noErr {σ} : PyErr → σ → Prop := fun _ _ => False

theorem wp.mono {α} {E E' : PyErr → NetState → Prop} {m : NetM α} {Q Q' : α → NetState → Prop} {s : NetState}
    (h : wp E m Q s) (hE : ∀ e s, E e s → E' e s) (hQ : ∀ a s, Q a s → Q' a s) : wp E' m Q' s :=
  Outcome.mono h hE hQ

theorem wp.post {α} {E : PyErr → NetState → Prop} {m : NetM α} {Q Q' : α → NetState → Prop} {s : NetState}
    (h : wp E m Q s) (hQ : ∀ a s, Q a s → Q' a s) : wp E m Q' s :=
  Outcome.mono h (fun _ _ h => h) hQ

theorem dwp.mono {α} {E E' : PyErr → DrvState → Prop} {m : DrvM α} {Q Q' : α → DrvState → Prop} {s : DrvState}
    (h : dwp E m Q s) (hE : ∀ e s, E e s → E' e s) (hQ : ∀ a s, Q a s → Q' a s) : dwp E' m Q' s :=
  Outcome.mono h hE hQ

/-- what a partial-correctness `wp` says about a normal outcome -/
theorem wp_any_iff {α} (m : NetM α) (Q : α → NetState → Prop) (s : NetState) :
    wp anyErr m Q s ↔ ∀ a s', nexec m s = (.ok a, s') → Q a s' := by
  unfold wp
  rcases h : nexec m s with ⟨r, s'⟩
  cases r
  · simp [anyErr]
  · simp

/-- what a total-correctness `wp` says -/
theorem wp_no_iff {α} (m : NetM α) (Q : α → NetState → Prop) (s : NetState) :
    wp noErr m Q s ↔ ∃ a s', nexec m s = (.ok a, s') ∧ Q a s' := by
  unfold wp
  rcases h : nexec m s with ⟨r, s'⟩
  cases r
  · simp [noErr]
  · simp only [Outcome_ok, Prod.mk.injEq, Except.ok.injEq]
    exact ⟨fun h => ⟨_, _, ⟨rfl, rfl⟩, h⟩, fun ⟨_, _, ⟨h1, h2⟩, h⟩ => h1 ▸ h2 ▸ h⟩

theorem dwp_any_iff {α} (m : DrvM α) (Q : α → DrvState → Prop) (s : DrvState) :
    dwp anyErr m Q s ↔ ∀ a s', exec m s = (.ok a, s') → Q a s' := by
  unfold dwp
  rcases h : exec m s with ⟨r, s'⟩
  cases r
  · simp [anyErr]
  · simp

theorem dwp_no_iff {α} (m : DrvM α) (Q : α → DrvState → Prop) (s : DrvState) :
    dwp noErr m Q s ↔ ∃ a s', exec m s = (.ok a, s') ∧ Q a s' := by
  unfold dwp
  rcases h : exec m s with ⟨r, s'⟩
  cases r
  · simp [noErr]
  · simp only [Outcome_ok, Prod.mk.injEq, Except.ok.injEq]
    exact ⟨fun h => ⟨_, _, ⟨rfl, rfl⟩, h⟩, fun ⟨_, _, ⟨h1, h2⟩, h⟩ => h1 ▸ h2 ▸ h⟩

/-! ### `nexec` rules -/

@[simp] theorem nexec_pure7 {α} (a : α) (s : NetState) : nexec (pure a : NetM α) s = (.ok a, s) := rfl

theorem nexec_bind7 {α β} (x : NetM α) (f : α → NetM β) (s : NetState) :
    nexec (x >>= f) s =
      match nexec x s with
      | (.ok a, s') => nexec (f a) s'
      | (.error e, s') => (.error e, s') := by
  unfold nexec
  simp only [ExceptT.run_bind]
  show (x.run >>= _).run s = _
  rw [StateT.run_bind]
  show (match x.run.run s with | (a, s') => _) = _
  rcases h : x.run.run s with ⟨r, s'⟩
  cases r <;> rfl

/-! ### `wp` rules -/

section
variable {α β : Type} (E : PyErr → NetState → Prop)

@[simp] theorem wp_pure (a : α) (Q : α → NetState → Prop) (s : NetState) :
    wp E (pure a : NetM α) Q s = Q a s := rfl

@[simp] theorem wp_bind (x : NetM α) (f : α → NetM β) (Q : β → NetState → Prop) (s : NetState) :
    wp E (x >>= f) Q s = wp E x (fun a s' => wp E (f a) Q s') s := by
  unfold wp
  rw [nexec_bind7]
  rcases h : nexec x s with ⟨r, s'⟩
  cases r <;> rfl

@[simp] theorem wp_throw (e : PyErr) (Q : α → NetState → Prop) (s : NetState) :
    wp E (throw e : NetM α) Q s = E e s := rfl

@[simp] theorem wp_get (Q : NetState → NetState → Prop) (s : NetState) :
    wp E (get : NetM NetState) Q s = Q s s := rfl

@[simp] theorem wp_set (s' : NetState) (Q : Unit → NetState → Prop) (s : NetState) :
    wp E (set s' : NetM Unit) Q s = Q () s' := rfl

@[simp] theorem wp_modify (f : NetState → NetState) (Q : Unit → NetState → Prop) (s : NetState) :
    wp E (modify f : NetM Unit) Q s = Q () (f s) := rfl

@[simp] theorem wp_ite (c : Prop) [Decidable c] (a b : NetM α) (Q : α → NetState → Prop) (s : NetState) :
    wp E (if c then a else b) Q s = if c then wp E a Q s else wp E b Q s := by
  split <;> rfl

@[simp] theorem wp_dite (c : Prop) [Decidable c] (a : c → NetM α) (b : ¬ c → NetM α)
    (Q : α → NetState → Prop) (s : NetState) :
    wp E (if h : c then a h else b h) Q s = if h : c then wp E (a h) Q s else wp E (b h) Q s := by
  split <;> rfl

theorem nexec_getNode7 (s : NetState) : nexec getNode s = (.ok s.node, s) := rfl
theorem nexec_modNode7 (f : Node → Node) (s : NetState) : nexec (modNode f) s = (.ok (), s.setNode f) := rfl

@[simp] theorem wp_getNode (Q : Node → NetState → Prop) (s : NetState) :
    wp E getNode Q s = Q s.node s := rfl

@[simp] theorem wp_modNode (f : Node → Node) (Q : Unit → NetState → Prop) (s : NetState) :
    wp E (modNode f) Q s = Q () (s.setNode f) := rfl

@[simp] theorem wp_setHdr (f : Header → Header) (Q : Unit → NetState → Prop) (s : NetState) :
    wp E (setHdr f) Q s
      = Q () (s.setNode fun n => { n with frameBuf := { n.frameBuf with header := f n.frameBuf.header } }) := rfl

@[simp] theorem wp_nowNs (Q : Nat → NetState → Prop) (s : NetState) :
    wp E nowNs Q s = Q s.w.clock s := rfl

@[simp] theorem wp_sleepNs (ns : Nat) (Q : Unit → NetState → Prop) (s : NetState) :
    wp E (sleepNs ns) Q s = Q () { s with w := s.w.sleep ns } := rfl

@[simp] theorem wp_takeId (Q : Nat → NetState → Prop) (s : NetState) :
    wp E takeId Q s = Q s.nextId { s with nextId := (s.nextId + 1) &&& 0xFFFF } := rfl

theorem wp_liftPy (x : PyM α) (Q : α → NetState → Prop) (s : NetState) :
    wp E (liftPy x) Q s = match x with
      | .ok a => Q a s
      | .error e => E e s := by
  cases x <;> rfl

@[simp] theorem wp_liftPy_ok (a : α) (Q : α → NetState → Prop) (s : NetState) :
    wp E (liftPy (.ok a)) Q s = Q a s := rfl

@[simp] theorem wp_liftPy_error (e : PyErr) (Q : α → NetState → Prop) (s : NetState) :
    wp E (liftPy (.error e : PyM α)) Q s = E e s := rfl

/-- the session state after an `RF24` method ended in driver state `ds` -/
def NetState.putDrv (s : NetState) (ds : DrvState) : NetState :=
  { s with nodes := s.nodes.modify s.cur (fun n => { n with rf := ds.d }), w := ds.w }

theorem nexec_liftRf7 (m : DrvM α) (s : NetState) :
    nexec (liftRf m) s = ((exec m s.drv).1, s.putDrv (exec m s.drv).2) := rfl

@[simp] theorem wp_liftRf (m : DrvM α) (Q : α → NetState → Prop) (s : NetState) :
    wp E (liftRf m) Q s = dwp (fun e ds => E e (s.putDrv ds)) m (fun a ds => Q a (s.putDrv ds)) s.drv := by
  unfold wp dwp
  rw [nexec_liftRf7]
  rcases h : exec m s.drv with ⟨r, s'⟩
  cases r <;> rfl

/-- `try m catch e => h e` -/
@[simp] theorem wp_tryCatch (m : NetM α) (h : PyErr → NetM α) (Q : α → NetState → Prop) (s : NetState) :
    wp E (tryCatch m h) Q s = wp (fun e s' => wp E (h e) Q s') m Q s := by
  unfold wp nexec
  show Outcome E Q ((ExceptT.tryCatch m h).run.run s) = _
  unfold ExceptT.tryCatch
  simp only [ExceptT.run_mk]
  show Outcome E Q ((m.run >>= _).run s) = _
  rw [StateT.run_bind]
  show Outcome E Q (match m.run.run s with | (a, s') => _) = _
  rcases hm : m.run.run s with ⟨r, s'⟩
  cases r <;> rfl

theorem wp_match_option {γ : Type} (o : Option γ) (a : NetM α) (b : γ → NetM α) (Q : α → NetState → Prop)
    (s : NetState) :
    wp E (match o with | none => a | some x => b x) Q s
      = match o with | none => wp E a Q s | some x => wp E (b x) Q s := by
  cases o <;> rfl

end

/-! ### `dwp` rules -/

section
variable {α β : Type} (E : PyErr → DrvState → Prop)
open Rf24

@[simp] theorem dwp_pure (a : α) (Q : α → DrvState → Prop) (s : DrvState) :
    dwp E (pure a : DrvM α) Q s = Q a s := rfl

@[simp] theorem dwp_bind (x : DrvM α) (f : α → DrvM β) (Q : β → DrvState → Prop) (s : DrvState) :
    dwp E (x >>= f) Q s = dwp E x (fun a s' => dwp E (f a) Q s') s := by
  unfold dwp
  rw [exec_bind]
  rcases h : exec x s with ⟨r, s'⟩
  cases r <;> rfl

@[simp] theorem dwp_throw (e : PyErr) (Q : α → DrvState → Prop) (s : DrvState) :
    dwp E (throw e : DrvM α) Q s = E e s := rfl
@[simp] theorem dwp_raise (e : PyErr) (Q : α → DrvState → Prop) (s : DrvState) :
    dwp E (raise e : DrvM α) Q s = E e s := rfl
@[simp] theorem dwp_get (Q : DrvState → DrvState → Prop) (s : DrvState) :
    dwp E (get : DrvM DrvState) Q s = Q s s := rfl
@[simp] theorem dwp_getD (Q : Rf24 → DrvState → Prop) (s : DrvState) :
    dwp E getD Q s = Q s.d s := rfl
@[simp] theorem dwp_modD (f : Rf24 → Rf24) (Q : Unit → DrvState → Prop) (s : DrvState) :
    dwp E (modD f) Q s = Q () (s.modShadow f) := rfl
@[simp] theorem dwp_ite (c : Prop) [Decidable c] (a b : DrvM α) (Q : α → DrvState → Prop) (s : DrvState) :
    dwp E (if c then a else b) Q s = if c then dwp E a Q s else dwp E b Q s := by
  split <;> rfl
@[simp] theorem dwp_setCE (v : Bool) (Q : Unit → DrvState → Prop) (s : DrvState) :
    dwp E (setCE v) Q s = Q () { s with w := s.w.setCE s.d.rid v } := rfl
@[simp] theorem dwp_sleepNs (n : Nat) (Q : Unit → DrvState → Prop) (s : DrvState) :
    dwp E (Rf24.sleepNs n) Q s = Q () { s with w := s.w.sleep n } := rfl
@[simp] theorem dwp_nowNs (Q : Nat → DrvState → Prop) (s : DrvState) :
    dwp E Rf24.nowNs Q s = Q s.w.clock s := rfl

theorem dwp_xfer (out : Bytes) (Q : Bytes → DrvState → Prop) (s : DrvState) :
    dwp E (xfer out) Q s = Q (s.w.spi s.d.rid out).2 (s.spiStep out) := rfl

@[simp] theorem dwp_regCmd (c : Nat) (Q : Unit → DrvState → Prop) (s : DrvState) :
    dwp E (regCmd c) Q s = Q () (s.spiStep [c]) := by
  unfold dwp; rw [exec_regCmd]; rfl

@[simp] theorem dwp_regRead (reg : Nat) (Q : Nat → DrvState → Prop) (s : DrvState) :
    dwp E (regRead reg) Q s = Q ((s.w.spi s.d.rid [reg, 0]).2.getD 1 0) (s.spiStep [reg, 0]) := by
  unfold dwp; rw [exec_regRead]; rfl

@[simp] theorem dwp_regReadBytes (reg n : Nat) (Q : Bytes → DrvState → Prop) (s : DrvState) :
    dwp E (regReadBytes reg n) Q s
      = Q ((s.w.spi s.d.rid (reg :: zeros n)).2.drop 1) (s.spiStep (reg :: zeros n)) := by
  unfold regReadBytes
  simp only [dwp_bind, dwp_xfer, dwp_pure]

@[simp] theorem dwp_regWriteBytes (reg : Nat) (b : Bytes) (Q : Unit → DrvState → Prop) (s : DrvState) :
    dwp E (regWriteBytes reg b) Q s = Q () (s.spiStep ((0x20 ||| reg) :: b)) := by
  unfold dwp; rw [exec_regWriteBytes]; rfl

theorem dwp_regWrite (reg : Nat) (v : Int) (Q : Unit → DrvState → Prop) (s : DrvState) (hr : reg ≠ 0x50) :
    dwp E (regWrite reg v) Q s
      = if v < 0 ∨ v > 255 then E .valueError s else Q () (s.spiStep [0x20 ||| reg, v.toNat]) := by
  unfold dwp
  split
  · rename_i h; rw [exec_regWrite_bad _ _ _ h]; rfl
  · rename_i h; rw [exec_regWrite _ _ _ (by omega) hr]; rfl

/-- `_reg_write(reg, n)` for a natural number -/
theorem dwp_regWrite_nat (reg n : Nat) (Q : Unit → DrvState → Prop) (s : DrvState) (hr : reg ≠ 0x50) :
    dwp E (regWrite reg (n : Int)) Q s
      = if n > 255 then E .valueError s else Q () (s.spiStep [0x20 ||| reg, n]) := by
  rw [dwp_regWrite _ _ _ _ _ hr]
  have : ((n : Int) < 0 ∨ (n : Int) > 255) ↔ n > 255 := by omega
  simp only [this, Int.toNat_natCast]

end

end Nrf.Net
