/-
C10 helper lemmas, part 2: the effect of each accessor's transactions on an idle radio.
-/
import NrfProofs.C10Acc
import NrfProofs.TrafficCycle

namespace Nrf
open Rf24 Spec.Link

/-- everything one SPI transaction does when the radio does not start transmitting after it -/
theorem spiStep_quiet (s : DrvState) (c : Nat) (out : Bytes) (hw : s.Wf) (h : (s.rad.xfer (c :: out)).1.Idle) :
    (s.spiStep (c :: out)).d = { s.d with status := s.rad.status } ∧
    (s.spiStep (c :: out)).rad = (s.rad.xfer (c :: out)).1 ∧
    World.Only s.d.rid s.w (s.spiStep (c :: out)).w ∧ (s.spiStep (c :: out)).Wf := by
  refine ⟨spiStep_shadow s c out, ?_, ?_, (spiStep_wf _ _).2 hw⟩
  · rw [spiStep_idle s _ hw h]; exact spiQ_rad s _ hw
  · rw [spiStep_idle s _ hw h]; exact spiQ_only s _

/-- `any()` computes the length of the head payload -/
theorem anyResult_spec (s : DrvState) (hr : s.rad.RxWf)
    (hlen : s.d.features &&& 4 = 0 → ∀ e rest, s.rad.rxFifo = e :: rest → s.d.plLen.getD e.pipe 0 = e.data.length) :
    anyResult (s.spiStep [0x60, 0]).d s.rad.headLen = nextLen s.rad := by
  rw [spiStep_shadow]
  unfold anyResult rxPipeField
  simp only [Radio.status_pipe s.rad hr]
  unfold nextLen Radio.headLen Radio.rxPNo
  cases hq : s.rad.rxFifo with
  | nil => simp
  | cons e rest =>
    have h5 := (hr e (by rw [hq]; exact List.mem_cons_self)).1
    have h6 : e.pipe < 6 := by omega
    simp only [h6, ↓reduceIte]
    split
    · rfl
    · rename_i hf
      exact hlen (by simpa using hf) e rest hq

namespace Radio

/-- idleness depends only on PWR_UP, PRIM_RX, CE, the MAX_RT flag and the TX FIFO -/
theorem txReady_congr' (r r' : Radio) (h1 : r'.config &&& 1 = r.config &&& 1) (h2 : r'.config &&& 2 = r.config &&& 2)
    (hce : r'.ce = r.ce) (hf : r'.flags &&& 0x10 = r.flags &&& 0x10) (ht : r'.txFifo = r.txFifo) :
    r'.txReady = r.txReady := by
  simp only [txReady, txMode, pwrUp, primRx, h1, h2, hce, hf, ht]

theorem and_and_const (f a b : Nat) : (f &&& a) &&& b = f &&& (a &&& b) := Nat.and_assoc _ _ _

/-- exact reads of the head payload -/
theorem readPayload_head (r : Radio) (e : RxEntry) (rest : List RxEntry) (h : r.rxFifo = e :: rest) (hd : e.data ≠ []) :
    r.readPayload e.data.length =
      ({ r with rxFifo := rest, lastByte := e.data.getLastD r.lastByte }, e.data) := by
  unfold readPayload
  simp only [h]
  have hn : e.data.length ≠ 0 := by simpa using hd
  have ht : (e.data ++ List.replicate e.data.length (e.data.getLastD r.lastByte)).take e.data.length = e.data := by
    simp
  rw [ht]
  simp only [hn, ↓reduceIte]
  have hl : e.data.getLastD (e.data.getLastD r.lastByte) = e.data.getLastD r.lastByte := by
    cases hh : e.data with
    | nil => exact absurd hh hd
    | cons a t => simp [List.getLastD]
  rw [hl]

theorem clearMask_70 (a b c : Bool) : clearMask a b c &&& 0x70 = clearMask a b c := by
  cases a <;> cases b <;> cases c <;> decide

/-- which latched events survive `clear_status_flags(a, b, c)` -/
theorem clear_flags_spec (f : Nat) (a b c : Bool) :
    (decide ((f &&& (0x70 ^^^ clearMask a b c)) &&& 0x40 ≠ 0) = (decide (f &&& 0x40 ≠ 0) && !a)) ∧
    (decide ((f &&& (0x70 ^^^ clearMask a b c)) &&& 0x20 ≠ 0) = (decide (f &&& 0x20 ≠ 0) && !b)) ∧
    (decide ((f &&& (0x70 ^^^ clearMask a b c)) &&& 0x10 ≠ 0) = (decide (f &&& 0x10 ≠ 0) && !c)) := by
  simp only [and_and_const]
  cases a <;> cases b <;> cases c <;>
    simp [clearMask, b2n]

end Radio

/-- `read()` with a payload waiting, on an idle radio (statement: `C10_read`) -/
theorem read_head_spec (s : DrvState) (hw : s.Wf) (hr : s.rad.RxWf) (hi : s.rad.Idle)
    (e : RxEntry) (rest : List RxEntry) (hf : s.rad.rxFifo = e :: rest)
    (hlen : s.d.features &&& 4 = 0 → s.d.plLen.getD e.pipe 0 = e.data.length) :
    (exec (Rf24.read none) s).1 = .ok (some e.data) ∧
    (exec (Rf24.read none) s).2.rad =
      { s.rad with rxFifo := rest, flags := s.rad.flags &&& 0x30, lastByte := e.data.getLastD s.rad.lastByte } ∧
    dataReady (exec (Rf24.read none) s).2.rad = false ∧
    dataSent (exec (Rf24.read none) s).2.rad = dataSent s.rad ∧
    dataFail (exec (Rf24.read none) s).2.rad = dataFail s.rad ∧
    World.Only s.d.rid s.w (exec (Rf24.read none) s).2.w ∧
    (exec (Rf24.read none) s).2.d = { s.d with status := ({ s.rad with rxFifo := rest } : Radio).status } := by
  have hd : e.data ≠ [] := (hr e (by rw [hf]; exact List.mem_cons_self)).2
  have hn : e.data.length ≠ 0 := by simpa using hd
  have hany : anyResult (s.spiStep [0x60, 0]).d s.rad.headLen = e.data.length := by
    rw [anyResult_spec s hr (fun h e' rest' h' => by rw [hf] at h'; cases h'; exact hlen h)]
    simp [nextLen, hf]
  rw [exec_read_pos s _ hany hn]
  dsimp only
  -- first transaction: R_RX_PL_WID
  have hx1 : (s.rad.xfer [0x60, 0]).1 = s.rad := by rw [Radio.xfer_plWid]
  obtain ⟨hd1, hr1, ho1, hw1⟩ := spiStep_quiet s 0x60 [0] hw (by rw [hx1]; exact hi)
  rw [hx1] at hr1
  generalize s.spiStep [0x60, 0] = s1 at *
  have hrid1 : s1.d.rid = s.d.rid := by rw [hd1]
  -- second: R_RX_PAYLOAD
  have hx2 : s1.rad.xfer (0x61 :: zeros e.data.length) =
      ({ s.rad with rxFifo := rest, lastByte := e.data.getLastD s.rad.lastByte }, s.rad.status :: e.data) := by
    rw [Radio.xfer_rxPayload, hr1, Radio.readPayload_head s.rad e rest hf hd]
  have hi2 : Radio.Idle { s.rad with rxFifo := rest, lastByte := e.data.getLastD s.rad.lastByte } := by
    unfold Radio.Idle; rw [← hi]; exact Radio.txReady_congr _ _ rfl rfl rfl rfl
  obtain ⟨hd2, hr2, ho2, hw2⟩ := spiStep_quiet s1 0x61 (zeros e.data.length) hw1 (by rw [hx2]; exact hi2)
  rw [hx2] at hr2
  generalize s1.spiStep (0x61 :: zeros e.data.length) = s2 at *
  have hrid2 : s2.d.rid = s.d.rid := by rw [hd2, ← hrid1]
  -- third: W_REGISTER STATUS, RX_DR
  have hx3 : (s2.rad.xfer [0x27, clearMask true false false]).1 =
      { s.rad with rxFifo := rest, flags := s.rad.flags &&& 0x30, lastByte := e.data.getLastD s.rad.lastByte } := by
    rw [show (0x27 : Nat) = 0x20 ||| 7 from rfl, Radio.xfer_wreg _ 7 _ (by decide), Radio.writeReg_status, hr2]
    rfl
  have hi3 : Radio.Idle { s.rad with rxFifo := rest, flags := s.rad.flags &&& 0x30,
                                     lastByte := e.data.getLastD s.rad.lastByte } := by
    unfold Radio.Idle; rw [← hi]
    refine Radio.txReady_congr _ _ rfl rfl ?_ rfl
    show s.rad.flags &&& 0x30 &&& 0x10 = s.rad.flags &&& 0x10
    rw [Nat.and_assoc]; rfl
  obtain ⟨hd3, hr3, ho3, _⟩ := spiStep_quiet s2 0x27 [clearMask true false false] hw2 (by rw [hx3]; exact hi3)
  rw [hx3] at hr3
  refine ⟨by rw [hx2]; rfl, hr3, ?_, ?_, ?_, ?_, ?_⟩
  · rw [hr3]; unfold dataReady; simp only [Nat.and_assoc]; simp
  · rw [hr3]; unfold dataSent; simp only [Nat.and_assoc]; simp
  · rw [hr3]; unfold dataFail; simp only [Nat.and_assoc]; simp
  · rw [hrid1] at ho2
    rw [hrid2] at ho3
    exact (ho1.trans ho2).trans ho3
  · rw [hd3, hd2, hd1, hr2]
    rfl



/-- a transaction on a radio that stays idle takes one SPI cost from the moment the radio is free -/
theorem spiStep_eff (s : DrvState) (c : Nat) (out : Bytes) (hw : s.Wf) (h : (s.rad.xfer (c :: out)).1.Idle) :
    (s.spiStep (c :: out)).w.eff s.d.rid = s.w.eff s.d.rid + SPI_COST_NS := by
  rw [spiStep_idle s _ hw h]; exact World.spiQ_eff _ _ _

/-- `read()` of a waiting payload on an idle radio takes exactly three transactions -/
theorem read_head_eff (s : DrvState) (hw : s.Wf) (hr : s.rad.RxWf) (hi : s.rad.Idle)
    (e : RxEntry) (rest : List RxEntry) (hf : s.rad.rxFifo = e :: rest)
    (hlen : s.d.features &&& 4 = 0 → s.d.plLen.getD e.pipe 0 = e.data.length) :
    (exec (Rf24.read none) s).2.w.eff s.d.rid = s.w.eff s.d.rid + 3 * SPI_COST_NS := by
  have hd : e.data ≠ [] := (hr e (by rw [hf]; exact List.mem_cons_self)).2
  have hn : e.data.length ≠ 0 := by simpa using hd
  have hany : anyResult (s.spiStep [0x60, 0]).d s.rad.headLen = e.data.length := by
    rw [anyResult_spec s hr (fun h e' rest' h' => by rw [hf] at h'; cases h'; exact hlen h)]
    simp [nextLen, hf]
  rw [exec_read_pos s _ hany hn]
  dsimp only
  have hx1 : (s.rad.xfer [0x60, 0]).1 = s.rad := by rw [Radio.xfer_plWid]
  have hi1 : (s.rad.xfer [0x60, 0]).1.Idle := by rw [hx1]; exact hi
  obtain ⟨hd1, hr1, _, hw1⟩ := spiStep_quiet s 0x60 [0] hw hi1
  have he1 := spiStep_eff s 0x60 [0] hw hi1
  rw [hx1] at hr1
  generalize s.spiStep [0x60, 0] = s1 at *
  have hrid1 : s1.d.rid = s.d.rid := by rw [hd1]
  have hx2 : s1.rad.xfer (0x61 :: zeros e.data.length) =
      ({ s.rad with rxFifo := rest, lastByte := e.data.getLastD s.rad.lastByte }, s.rad.status :: e.data) := by
    rw [Radio.xfer_rxPayload, hr1, Radio.readPayload_head s.rad e rest hf hd]
  have hi2 : (s1.rad.xfer (0x61 :: zeros e.data.length)).1.Idle := by
    rw [hx2]; unfold Radio.Idle; rw [← hi]; exact Radio.txReady_congr _ _ rfl rfl rfl rfl
  obtain ⟨hd2, hr2, _, hw2⟩ := spiStep_quiet s1 0x61 (zeros e.data.length) hw1 hi2
  have he2 := spiStep_eff s1 0x61 (zeros e.data.length) hw1 hi2
  rw [hx2] at hr2
  generalize s1.spiStep (0x61 :: zeros e.data.length) = s2 at *
  have hrid2 : s2.d.rid = s.d.rid := by rw [hd2, ← hrid1]
  have hx3 : (s2.rad.xfer [0x27, clearMask true false false]).1 =
      { s.rad with rxFifo := rest, flags := s.rad.flags &&& 0x30, lastByte := e.data.getLastD s.rad.lastByte } := by
    rw [show (0x27 : Nat) = 0x20 ||| 7 from rfl, Radio.xfer_wreg _ 7 _ (by decide), Radio.writeReg_status, hr2]
    rfl
  have hi3 : (s2.rad.xfer [0x27, clearMask true false false]).1.Idle := by
    rw [hx3]; unfold Radio.Idle; rw [← hi]
    refine Radio.txReady_congr _ _ rfl rfl ?_ rfl
    show s.rad.flags &&& 0x30 &&& 0x10 = s.rad.flags &&& 0x10
    rw [Nat.and_assoc]; rfl
  have he3 := spiStep_eff s2 0x27 [clearMask true false false] hw2 hi3
  rw [hrid2] at he3
  rw [hrid1] at he2
  omega

end Nrf
