/-
C07 — from the register-level invariant (`Lst` with the addresses `_pipe_address` computes) to the
specification `Nrf.Spec.Listening` (documented addresses on digit lists); `_begin` at node level.
-/
import NrfProofs.C07Begin
import NrfProofs.Phys
import NrfModel.Spec.Listening

namespace Nrf.Net
open Nrf Rf24 Nrf.Spec Nrf.Proofs

/-- the pipe-0 address a node with configuration `cfg` and address attributes `a` has to listen on,
    in terms of the implementation's `_pipe_address` -/
def pipe0Of (cfg : AddrCfg) (a : NodeAddr) : PyM Bytes :=
  if cfg.allowMulticast then pipeAddress cfg (lvl2addr a.netLvl) 0 else pipeAddress cfg a.addr 0

/-- `p0 a1 aN` are the addresses of the node as the radio stores them -/
structure AddrOf (cfg : AddrCfg) (a : NodeAddr) (p0 a1 : Bytes) (aN : List Nat) : Prop where
  h0 : pipe0Of cfg a = .ok p0
  h1 : pipeAddress cfg a.addr 1 = .ok a1
  hN : ∃ x2 x3 x4 x5, pipeAddress cfg a.addr 2 = .ok x2 ∧ pipeAddress cfg a.addr 3 = .ok x3 ∧
        pipeAddress cfg a.addr 4 = .ok x4 ∧ pipeAddress cfg a.addr 5 = .ok x5 ∧
        aN = [x2.headD 0, x3.headD 0, x4.headD 0, x5.headD 0]

/-- the current node listens on its addresses (register level) -/
def NodeListens (s : NetState) : Prop :=
  ∃ p0 a1 aN, AddrOf s.node.cfg s.node.a p0 a1 aN ∧ s.LstS p0 a1 aN 0x3E

/-- the hypotheses on `address_prefix` / `address_suffix`: C04's `CfgOk`, and bytes -/
def GoodCfg (cfg : AddrCfg) : Prop :=
  SfxOk cfg.pfx cfg.sfx ∧ cfg.pfx < 256 ∧ ∀ x ∈ cfg.sfx, x < 256

theorem GoodCfg.hg {cfg : AddrCfg} (h : GoodCfg cfg) : SfxFn cfg.sfx (sfxFn cfg.sfx) := sfxFn_spec h.1.1

theorem GoodCfg.byte {cfg : AddrCfg} (h : GoodCfg cfg) (i : Nat) (hi : i ≤ 5) : sfxFn cfg.sfx i < 256 := by
  have := h.hg i hi
  exact h.2.2 _ (List.mem_of_getElem? this)

theorem digitsOf_val {ds : List Nat} (h : DigitsOk ds) : digitsOf (val ds) = ds := by
  induction ds with
  | nil => rw [digitsOf]; simp [val]
  | cons d t ih =>
    rw [digitsOk_cons] at h
    rw [digitsOf]
    have hv : val (d :: t) ≠ 0 := by rw [val_cons]; omega
    simp only [hv, ↓reduceDIte]
    have h1 : val (d :: t) % 8 = d := by rw [val_cons]; omega
    have h2 : val (d :: t) / 8 = val t := by rw [val_cons]; omega
    rw [h1, h2, ih h.2]

/-- the addresses of a tree node in closed form -/
theorem addrOf_tree {cfg : AddrCfg} (hg : GoodCfg cfg) {ds : List Nat} (hn : IsNode ds) {a : NodeAddr}
    (ha : a.addr = val ds) {p0 a1 : Bytes} {aN : List Nat} (h : AddrOf cfg a p0 a1 aN) :
    a1 = physFn cfg.pfx (sfxFn cfg.sfx) ds 1 ∧
    aN = [sfxFn cfg.sfx 2, sfxFn cfg.sfx 3, sfxFn cfg.sfx 4, sfxFn cfg.sfx 5] := by
  have e : ∀ p, 1 ≤ p → p ≤ 5 → pipeAddress cfg a.addr p = .ok (physFn cfg.pfx (sfxFn cfg.sfx) ds p) := by
    intro p h1 h5
    rw [ha, pipeAddress_listen hg.hg hn h5, listenFn, if_neg (by omega)]
  constructor
  · have := h.h1
    rw [e 1 (by decide) (by decide)] at this
    exact (Except.ok.inj this).symm
  · obtain ⟨x2, x3, x4, x5, h2, h3, h4, h5, rfl⟩ := h.hN
    rw [e 2 (by decide) (by decide)] at h2
    rw [e 3 (by decide) (by decide)] at h3
    rw [e 4 (by decide) (by decide)] at h4
    rw [e 5 (by decide) (by decide)] at h5
    rw [← Except.ok.inj h2, ← Except.ok.inj h3, ← Except.ok.inj h4, ← Except.ok.inj h5]
    rfl

/-- **register level ⇒ specification**, for a node of the 781-address tree whose multicast level
    is one of 0..4 (what `_begin` and the `multicast_level` setter produce) -/
theorem listening_of {s : NetState} (h : NodeListens s) (hg : GoodCfg s.node.cfg) {ds : List Nat}
    (hn : IsNode ds) (ha : s.node.a.addr = val ds) (hl : s.node.a.netLvl ≤ 4) :
    Listening s.node (s.w.radio s.node.rf.rid) := by
  obtain ⟨p0, a1, aN, hao, hcur, hw, hl'⟩ := h
  obtain ⟨e1, eN⟩ := addrOf_tree hg hn ha hao
  -- the registers
  have r_cfg : (s.w.radio s.node.rf.rid).config &&& 3 = 3 := hl'.rx
  have r_ce : (s.w.radio s.node.rf.rid).ce = true := hl'.ce
  have r_en : (s.w.radio s.node.rf.rid).enRxAddr = 0x3F := hl'.rxen
  have r_aa : (s.w.radio s.node.rf.rid).enAA = 0x3E := hl'.aa
  have r_dyn : (s.w.radio s.node.rf.rid).dynpd = 0x3F := hl'.dyn
  have r_feat : (s.w.radio s.node.rf.rid).feature &&& 6 = 4 := hl'.feat
  have r_a0 : (s.w.radio s.node.rf.rid).rxAddr0 = p0 := hl'.a0
  have r_a1 : (s.w.radio s.node.rf.rid).rxAddr1 = a1 := hl'.a1
  have r_aN : (s.w.radio s.node.rf.rid).rxAddrN = aN := hl'.aN
  have bit1 : ∀ x : Nat, x &&& 3 = 3 → (x &&& 2 ≠ 0) ∧ (x &&& 1 ≠ 0) := by
    intro x hx
    have h2 : x &&& 2 = (x &&& 3) &&& 2 := by rw [Nat.and_assoc]; rfl
    have h1 : x &&& 1 = (x &&& 3) &&& 1 := by rw [Nat.and_assoc]; rfl
    rw [h2, h1, hx]; decide
  have bit4 : ∀ x : Nat, x &&& 6 = 4 → x &&& 4 ≠ 0 := by
    intro x hx
    have h2 : x &&& 4 = (x &&& 6) &&& 4 := by rw [Nat.and_assoc]; rfl
    rw [h2, hx]; decide
  have r_aw : (s.w.radio s.node.rf.rid).aw = 5 := by
    unfold Radio.aw
    rw [show (s.w.radio s.node.rf.rid).setupAw = 3 from hl'.aw]
    rfl
  refine ⟨?_, ?_, r_ce, r_en, r_aw, ?_, r_aa, r_dyn, bit4 _ r_feat⟩
  · simp only [Radio.pwrUp, decide_eq_true_eq]; exact (bit1 _ r_cfg).1
  · simp only [Radio.primRx, decide_eq_true_eq]; exact (bit1 _ r_cfg).2
  · -- the six addresses
    have phys : ∀ p, p ≤ 5 → physAddrSpec s.node.cfg.pfx s.node.cfg.sfx (digitsOf s.node.a.addr) p
        = some (physFn s.node.cfg.pfx (sfxFn s.node.cfg.sfx) ds p) := by
      intro p hp
      rw [ha, digitsOf_val hn.1, physAddrSpec_eq hg.hg hn.1 hp]
    have up : ∀ p, 2 ≤ p → p ≤ 5 →
        (s.w.radio s.node.rf.rid).rxAddr p = physFn s.node.cfg.pfx (sfxFn s.node.cfg.sfx) ds p := by
      intro p h2 h5
      unfold Radio.rxAddr
      rw [if_neg (by omega), if_neg (by omega), r_a1, r_aN, e1, eN]
      have : p = 2 ∨ p = 3 ∨ p = 4 ∨ p = 5 := by omega
      rcases this with rfl | rfl | rfl | rfl <;> rfl
    intro p hp
    simp only [List.mem_cons, List.not_mem_nil, or_false] at hp
    unfold wantAddr
    rcases hp with rfl | rfl | rfl | rfl | rfl | rfl
    · -- pipe 0
      show (if (0 : Nat) = 0 ∧ s.node.cfg.allowMulticast = true then _ else _) = some (s.w.radio s.node.rf.rid).rxAddr0
      rw [r_a0]
      have h0 := hao.h0
      unfold pipe0Of at h0
      by_cases ham : s.node.cfg.allowMulticast = true
      · rw [if_pos ⟨rfl, ham⟩]
        rw [if_pos ham] at h0
        obtain ⟨x, hx1, hx2⟩ := pipeAddress_level hg.hg ham (L := s.node.a.netLvl) (by omega)
        rw [hx2] at h0
        rw [hx1, Except.ok.inj h0]
      · rw [if_neg (fun hh => ham hh.2)]
        rw [if_neg ham] at h0
        have ham' : s.node.cfg.allowMulticast = false := by simpa using ham
        rw [ha, pipeAddress_node hg.hg hn (Nat.zero_le 5) (Or.inl ham')] at h0
        rw [phys 0 (Nat.zero_le 5), Except.ok.inj h0]
    · rw [if_neg (fun hh => absurd hh.1 (by decide)), phys 1 (by decide)]
      show _ = some (s.w.radio s.node.rf.rid).rxAddr1
      rw [r_a1, e1]
    · rw [if_neg (fun hh => absurd hh.1 (by decide)), phys 2 (by decide), up 2 (by decide) (by decide)]
    · rw [if_neg (fun hh => absurd hh.1 (by decide)), phys 3 (by decide), up 3 (by decide) (by decide)]
    · rw [if_neg (fun hh => absurd hh.1 (by decide)), phys 4 (by decide), up 4 (by decide) (by decide)]
    · rw [if_neg (fun hh => absurd hh.1 (by decide)), phys 5 (by decide), up 5 (by decide) (by decide)]

/-! ### `_begin(n_addr)` for a tree node -/

/-- bookkeeping that `_begin` leaves alone as well -/
structure NFr0 (s s' : NetState) : Prop where
  cur : s'.cur = s.cur
  len : s'.nodes.length = s.nodes.length
  closed : s'.closed = s.closed
  cfg : s'.node.cfg = s.node.cfg
  kind : s'.node.kind = s.node.kind
  rid : s'.node.rf.rid = s.node.rf.rid
  active : s'.active = s.active
  rids : ∀ k, (s'.nodes.getD k default).rf.rid = (s.nodes.getD k default).rf.rid

theorem NFr.to0 {s s' : NetState} (h : NFr s s') : NFr0 s s' :=
  ⟨h.cur, h.len, h.closed, h.cfg, h.kind, h.rid, h.active, h.rids⟩
theorem NFr0.refl (s : NetState) : NFr0 s s := ⟨rfl, rfl, rfl, rfl, rfl, rfl, rfl, fun _ => rfl⟩
theorem NFr0.trans {a b c : NetState} (h1 : NFr0 a b) (h2 : NFr0 b c) : NFr0 a c :=
  ⟨h2.cur.trans h1.cur, h2.len.trans h1.len, h2.closed.trans h1.closed, h2.cfg.trans h1.cfg,
   h2.kind.trans h1.kind, h2.rid.trans h1.rid, h2.active.trans h1.active,
   fun k => (h2.rids k).trans (h1.rids k)⟩

theorem Quiet7.nfr0 {s s' : NetState} (h : Quiet7 s) (hf : NFr0 s s') : Quiet7 s' := by
  rcases h with h | ⟨g, d⟩
  · exact Or.inl (hf.closed.trans h)
  · refine Or.inr ⟨⟨by rw [hf.cur, hf.active]; exact g.onStack, by rw [hf.cur, hf.len]; exact g.exists_⟩, ?_⟩
    intro a b ha hb hab
    rw [hf.rids, hf.rids]
    exact d a b (by rw [← hf.len]; exact ha) (by rw [← hf.len]; exact hb) hab

/-- `_begin(val ds)` from any state with the `RF24.__init__` shape: returns, the node listens on
    the addresses of `ds`, its address attributes are those of `ds` -/
theorem n_begin {E : PyErr → NetState → Prop} {Q : Unit → NetState → Prop} {s : NetState}
    (hcur : s.cur < s.nodes.length) (hw : s.drv.Wf) (hb : Base s.drv.d s.drv.cfg)
    (hg : GoodCfg s.node.cfg) {ds : List Nat} (hn : IsNode ds)
    (hQ : ∀ s', NodeListens s' → NFr0 s s' → s'.node.a = nodeOf (val ds) ds.length → Q () s') :
    wp E (begin (val ds)) Q s := by
  unfold begin
  rw [wp_bind]
  have hpa : ∀ p, p ≤ 5 → pipeAddress s.node.cfg (val ds) p
      = .ok (listenFn s.node.cfg.pfx (sfxFn s.node.cfg.sfx) s.node.cfg.allowMulticast ds p) :=
    fun p hp => pipeAddress_listen hg.hg hn hp
  have hpl : ∀ i, i ≤ 5 → ∀ x, pipeAddress s.node.cfg (val ds) i = .ok x → 1 ≤ i → x.headD 0 ≤ 255 := by
    intro i hi x hx h1
    rw [hpa i hi] at hx
    rw [← Except.ok.inj hx, listenFn, if_neg (by omega)]
    have := hg.byte i hi
    show sfxFn s.node.cfg.sfx i ≤ 255
    omega
  apply n_beginRadio (val ds) hcur hw hb
  · intro i hi s' Q' hcfg hq
    rw [hcfg, hpa i hi, wp_liftPy_ok]
    exact hq _ (hpa i hi)
  · intro i h2 h5 x hx
    exact hpl i h5 x hx (by omega)
  · intro x0 x1 x2 x3 x4 x5 s' h0 h1 h2 h3 h4 h5 hl hf
    rw [begin_node hn]
    simp only [wp_modNode]
    have hcur' : s'.cur < s'.nodes.length := hl.1
    have hnode := NetState.node_setNode s' (fun n => { n with a := nodeOf (val ds) ds.length }) hcur'
    have hfr : NFr0 s (s'.setNode fun n => { n with a := nodeOf (val ds) ds.length }) := by
      refine ⟨hf.cur, by simp [hf.len], hf.closed, ?_, ?_, ?_, hf.active,
        fun k => (rids_modify s' _ hcur' rfl k).trans (hf.rids k)⟩ <;> rw [hnode]
      · exact hf.cfg
      · exact hf.kind
      · exact hf.rid
    apply hQ _ ?_ hfr (by rw [hnode])
    refine ⟨x0, x1, _, ?_, hl.setNode _ (by rfl)⟩
    rw [hnode]
    show AddrOf s'.node.cfg (nodeOf (val ds) ds.length) x0 x1 _
    rw [hf.cfg]
    refine ⟨?_, h1, x2, x3, x4, x5, h2, h3, h4, h5, rfl⟩
    unfold pipe0Of
    split
    · rename_i ham
      show pipeAddress s.node.cfg (lvl2addr ds.length) 0 = .ok x0
      rw [← pipeAddress_zero_eq_level hg.hg ham hn]; exact h0
    · exact h0
