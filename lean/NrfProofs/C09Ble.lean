/-
C09 for `FakeBLE` objects: `__enter__` / `__exit__` are `RF24`'s on the embedded shadows, and
`FakeBLE.__init__` establishes in-range shadows.
-/
import NrfProofs.C09Init

set_option linter.unusedSimpArgs false

namespace Nrf
open Rf24 Spec

/-- run a `FakeBLE` computation from state `s` -/
def execB {α} (m : BleM α) (s : BleState) : Except PyErr α × BleState := (m.run).run s

@[simp] theorem execB_pure {α} (a : α) (s : BleState) : execB (pure a : BleM α) s = (.ok a, s) := rfl

@[simp] theorem execB_bind {α β} (x : BleM α) (f : α → BleM β) (s : BleState) :
    execB (x >>= f) s =
      match execB x s with
      | (.ok a, s') => execB (f a) s'
      | (.error e, s') => (.error e, s') := by
  unfold execB
  simp only [ExceptT.run_bind]
  show (x.run >>= _).run s = _
  rw [StateT.run_bind]
  show (match x.run.run s with | (a, s') => _) = _
  rcases h : x.run.run s with ⟨r, s'⟩
  cases r <;> rfl

@[simp] theorem execB_throw {α} (e : PyErr) (s : BleState) : execB (throw e : BleM α) s = (.error e, s) := rfl
@[simp] theorem execB_modB (f : BleDev → BleDev) (s : BleState) :
    execB (BleDev.modB f) s = (.ok (), { s with b := f s.b }) := rfl
@[simp] theorem execB_getB (s : BleState) : execB BleDev.getB s = (.ok s.b, s) := rfl
@[simp] theorem execB_ite {α} (c : Prop) [Decidable c] (a b : BleM α) (s : BleState) :
    execB (if c then a else b) s = if c then execB a s else execB b s := by
  split <;> rfl

/-- an `RF24` method run on the embedded driver object -/
theorem execB_liftRf {α} (m : DrvM α) (s : BleState) :
    execB (BleDev.liftRf m) s =
      ((exec m ⟨s.b.rf, s.w⟩).1, { b := { s.b with rf := (exec m ⟨s.b.rf, s.w⟩).2.d }, w := (exec m ⟨s.b.rf, s.w⟩).2.w }) := rfl

/-- `FakeBLE.__enter__` is `RF24.__enter__` on the embedded shadows -/
theorem ble_enter (s : BleState) :
    execB BleDev.enter s =
      ((exec enter ⟨s.b.rf, s.w⟩).1,
       { b := { s.b with rf := (exec enter ⟨s.b.rf, s.w⟩).2.d }, w := (exec enter ⟨s.b.rf, s.w⟩).2.w }) := rfl

/-- `FakeBLE.__exit__` forgets the advertised name and TX-power flag, then is `RF24.__exit__` -/
theorem ble_exit (s : BleState) :
    execB BleDev.exit s =
      ((exec Rf24.exit ⟨s.b.rf, s.w⟩).1,
       { b := { s.b with showDbm := false, name := none, rf := (exec Rf24.exit ⟨s.b.rf, s.w⟩).2.d },
         w := (exec Rf24.exit ⟨s.b.rf, s.w⟩).2.w }) := by
  unfold BleDev.exit
  simp only [execB_bind, execB_modB, execB_liftRf]

end Nrf

namespace Nrf
open Rf24 Spec

theorem execB_bind_of {α β} {x : BleM α} {f : α → BleM β} {s s1 : BleState} {a : α}
    (h : execB x s = (.ok a, s1)) : execB (x >>= f) s = execB (f a) s1 := by rw [execB_bind, h]

theorem execB_liftRf_ok {α} (m : DrvM α) (s : BleState) (a : α) (s' : DrvState)
    (h : exec m ⟨s.b.rf, s.w⟩ = (.ok a, s')) :
    execB (BleDev.liftRf m) s = (.ok a, { b := { s.b with rf := s'.d }, w := s'.w }) := by
  rw [execB_liftRf, h]

/-- the BLE access address as `FakeBLE.__init__` opens pipe 0 with it -/
def BLE_ADDR : Bytes := [0x71, 0x91, 0x7d, 0x6b, 0]

theorem ble_cfg_lt {c : Nat} (h : c < 128) : c &&& 3 ||| 0x10 < 128 :=
  (by decide : ∀ c : Fin 128, c.val &&& 3 ||| 0x10 < 128) ⟨c, h⟩

/-- the shadows `FakeBLE.__init__` overrides -/
def bleShadows (d : Rf24) : Rf24 :=
  { d with config := d.config &&& 3 ||| 0x10, aa := 0, dynPl := 0, features := 0, retrySetup := 0, addrLen := 4,
           txAddress := [0x71, 0x91, 0x7d, 0x6b] ++ d.txAddress.drop 4 }

def bleDefaults (b : BleDev) : BleDev :=
  { b with currFreq := 2, showDbm := false, name := none, rf := bleShadows b.rf }

/-- the two attribute blocks of `FakeBLE.__init__` -/
def bleDefaultsM : BleM Unit := do
  BleDev.modB fun b => { b with currFreq := 2, showDbm := false, name := none }
  BleDev.modB fun b => { b with rf := { b.rf with
    config := b.rf.config &&& 3 ||| 0x10, aa := 0, dynPl := 0, features := 0, retrySetup := 0, addrLen := 4,
    txAddress := [0x71, 0x91, 0x7d, 0x6b] ++ b.rf.txAddress.drop 4 } }

theorem execB_bleDefaultsM (s : BleState) : execB bleDefaultsM s = (.ok (), { s with b := bleDefaults s.b }) := rfl

theorem bleInit_eq : BleDev.init = (do
    BleDev.liftRf Rf24.init
    bleDefaultsM
    BleDev.enter
    BleDev.liftRf (Rf24.openRxPipe 0 [0x71, 0x91, 0x7d, 0x6b, 0])
    BleDev.exit
    BleDev.hopChannel) := by
  unfold BleDev.init bleDefaultsM
  simp only [bind_assoc]

/-- an SPI transaction other than ACTIVATE keeps the accessibility of the feature registers -/
theorem spiStep_vis (s : DrvState) (c : Nat) (d : Bytes) (hw : s.Wf) (hc : c ≠ 0x50) :
    (s.spiStep (c :: d)).cfg.featureVisible = s.cfg.featureVisible := by
  unfold Radio.featureVisible
  rw [spiStep_activated s c d hw hc, spiStep_cfg _ _ hw]
  show ((s.cfg.xfer (c :: d)).1.plus || s.cfg.activated) = _
  rw [Radio.xfer_plus]

/-- **`FakeBLE.__init__`** on an object whose embedded driver has the constructor's CONFIG shadow, in
any world whose radio exists, has the chip's register shape and holds bytes in RX_ADDR_P2..5 — plus or
non-plus chip, feature registers locked or unlocked: no exception; the embedded shadows are in range;
pipe 0 is the user's (the BLE access address), open; the embedded `_is_plus_variant` is the chip's
variant and the feature registers are accessible afterwards. -/
theorem ble_init_spec (b0 : BleDev) (w : World) (hrid : b0.rf.rid < w.radios.length) (hc : b0.rf.config = 0x0E)
    (hb : ∀ x ∈ (w.radio b0.rf.rid).rxAddrN, x < 256) (hs : RadioShape (w.radio b0.rf.rid)) :
    ∃ s', execB BleDev.init ⟨b0, w⟩ = (.ok (), s') ∧ InRange s'.b.rf ∧ s'.b.rf.rid = b0.rf.rid ∧
      s'.w.radios.length = w.radios.length ∧ s'.b.rf.pipe0ReadAddr = some BLE_ADDR ∧
      s'.b.rf.openPipes &&& 1 ≠ 0 ∧ s'.b.rf.config &&& 1 = 0 ∧
      s'.b.rf.isPlus = (w.radio b0.rf.rid).plus ∧ (s'.w.radio b0.rf.rid).featureVisible = true := by
  rw [bleInit_eq]
  -- RF24.__init__
  have hw0 : (DrvState.mk b0.rf w).Wf := hrid
  obtain ⟨s1, hex1, hre1, hok1, hip1, _, hvis1, _⟩ := init_variant_spec ⟨b0.rf, w⟩ hw0 hc hb
  obtain ⟨hrid1, hwf1, _⟩ := hre1.frame hw0
  have hsh1 := (hre1.shape hw0 hs).1
  have hlen1 := hre1.length
  rw [execB_bind_of (execB_liftRf_ok _ _ _ _ hex1), execB_bind_of (execB_bleDefaultsM _)]
  -- the BLE defaults
  obtain ⟨hr1, hu1, hc1, hop1, _, _, _⟩ := hok1
  have hr2 : InRange (bleShadows s1.d) := by
    obtain ⟨a0, a1, a2, a3, a4, a5, a6, a7, a8, a9, a10, a11, a12, a13, a14⟩ := hr1
    refine ⟨ble_cfg_lt a0, a1, a2, a3, by dsimp only [bleShadows]; decide, by dsimp only [bleShadows]; decide,
      by dsimp only [bleShadows]; decide, by dsimp only [bleShadows]; decide, a8, by dsimp only [bleShadows]; decide,
      a10, a11, ?_, a13, a14⟩
    show ([0x71, 0x91, 0x7d, 0x6b] ++ s1.d.txAddress.drop 4).length = 5
    simp only [List.length_append, List.length_cons, List.length_nil, List.length_drop, a12]
  generalize hd2 : bleShadows s1.d = d2 at hr2
  have hrid2 : d2.rid = s1.d.rid := by rw [← hd2]; rfl
  have hw2 : (DrvState.mk d2 s1.w).Wf := by show d2.rid < _; rw [hrid2]; exact hwf1
  have hsh2 : RadioShape (DrvState.mk d2 s1.w).cfg := by
    show RadioShape (s1.w.radio d2.rid).cfgOf; rw [hrid2]; exact hsh1
  have hop2 : d2.openPipes = 0 := by rw [← hd2]; exact hop1
  have hc2 : d2.config = 0x10 := by rw [← hd2]; show s1.d.config &&& 3 ||| 0x10 = 0x10; rw [hc1]; decide
  -- __enter__
  have hcfg2 : (DrvState.mk d2 s1.w).cfg = s1.cfg := by unfold DrvState.cfg; rw [hrid2]
  obtain ⟨s3, hex3, hd3, hrid3, hwf3, _, hlen3, _, hpl3, hact3, _, hvis3, hhid3⟩ := enter_spec ⟨d2, s1.w⟩ hw2 hr2 hsh2
  have hv3 : s3.cfg.featureVisible = true := by
    unfold Radio.featureVisible at hvis1 ⊢
    rw [hpl3, hact3, hcfg2]; exact hvis1
  have hen3 : s3.cfg.enRxAddr = d2.openPipes := by
    cases hv : (DrvState.mk d2 s1.w).cfg.featureVisible with
    | true => exact congrArg CfgRegs.enRxAddr (hvis3 hv)
    | false => exact congrArg CfgRegs.enRxAddr (hhid3 hv)
  have hex3' : exec enter ⟨(bleDefaults { b0 with rf := s1.d }).rf, s1.w⟩ = (.ok (), s3) := by
    show exec enter ⟨bleShadows s1.d, s1.w⟩ = _
    rw [hd2]; exact hex3
  have hb3 : execB BleDev.enter { b := bleDefaults { b0 with rf := s1.d }, w := s1.w } =
      (.ok (), { b := { bleDefaults { b0 with rf := s1.d } with rf := s3.d }, w := s3.w }) :=
    execB_liftRf_ok enter _ _ _ hex3'
  rw [execB_bind_of hb3]
  generalize s3.d.status = st3 at hd3
  -- open_rx_pipe(0, access address)
  have hp03 : s3.d.pipes0.length = 5 := by rw [hd3]; exact hr2.2.2.2.2.2.2.2.2.2.2.1
  obtain ⟨s4, hex4, hre4, hd4, hcfg4⟩ := openRxPipe_0 BLE_ADDR s3 hwf3 (by decide) hp03 (by rw [hen3, hop2]; decide)
  rw [hen3, hop2] at hd4
  have hv4 : s4.cfg.featureVisible = true := by rw [hcfg4]; exact hv3
  have hb4 : execB (BleDev.liftRf (openRxPipe 0 [0x71, 0x91, 0x7d, 0x6b, 0]))
      { b := { bleDefaults { b0 with rf := s1.d } with rf := s3.d }, w := s3.w } =
      (.ok (), { b := { bleDefaults { b0 with rf := s1.d } with rf := s4.d }, w := s4.w }) :=
    execB_liftRf_ok _ _ _ _ hex4
  rw [execB_bind_of hb4]
  generalize s4.d.status = st4 at hd4
  have hr3 : InRange s3.d := by rw [hd3]; exact inRange_enter hr2 _
  have hr4 : InRange s4.d := by
    obtain ⟨a0, a1, a2, a3, a4, a5, a6, a7, a8, a9, a10, a11, a12, a13, a14⟩ := hr3
    rw [hd4]
    exact ⟨a0, a1, a2, by dsimp only; decide, a4, a5, a6, a7, a8, a9, putAddr_length _ _ a10 (by decide), a11, a12, a13, a14⟩
  obtain ⟨hrid4, hwf4, _⟩ := hre4.mono.frame hwf3
  -- __exit__
  obtain ⟨s5, hex5, hd5, hrid5, hwf5, _, hlen5, hcfg5⟩ := exit_spec s4 hwf4 hr4.1
  have hv5 : s5.cfg.featureVisible = true := by rw [hcfg5]; exact hv4
  have hb5 : execB BleDev.exit { b := { bleDefaults { b0 with rf := s1.d } with rf := s4.d }, w := s4.w } =
      (.ok (), { b := { bleDefaults { b0 with rf := s1.d } with rf := s5.d }, w := s5.w }) := by
    unfold BleDev.exit
    rw [execB_bind_of (execB_modB _ _)]
    exact execB_liftRf_ok Rf24.exit _ _ _ hex5
  rw [execB_bind_of hb5]
  generalize s5.d.status = st5 at hd5
  have hr5 : InRange s5.d := by rw [hd5]; exact inRange_exit hr4 _
  -- hop_channel(): frequency index 2 → 0, channel 2
  unfold BleDev.hopChannel BleDev.setChannel
  simp only [execB_bind, execB_modB, execB_getB]
  have hcf : (bleDefaults { b0 with rf := s1.d }).currFreq = 2 := rfl
  simp only [hcf, Nat.lt_irrefl, ↓reduceIte, Nat.sub_self, BLE_FREQ, List.getD_cons_zero,
    true_or, execB_ite, execB_modB, execB_bind]
  have hcond : ((2 : Nat) : Int) = 2 ∨ ((2 : Nat) : Int) = 26 ∨ ((2 : Nat) : Int) = 80 := Or.inl rfl
  simp only [hcond, ↓reduceIte, Int.toNat_natCast]
  generalize hd6 : ({ s5.d with channel := 2 } : Rf24) = d6
  have hex6 := exec_regWrite_nat 5 2 ⟨d6, s5.w⟩ (by decide) (by decide)
  rw [execB_liftRf_ok _ _ _ _ hex6]
  have hrid6 : d6.rid = b0.rf.rid := by
    rw [← hd6]
    show s5.d.rid = _
    rw [hrid5, hrid4, hrid3]
    show d2.rid = _
    rw [hrid2, hrid1]
  refine ⟨_, rfl, ?_, ?_, ?_, ?_, ?_, ?_, ?_, ?_⟩
  all_goals simp only [spiStep_dN]
  · obtain ⟨a0, a1, a2, a3, a4, a5, a6, a7, a8, a9, a10, a11, a12, a13, a14⟩ := hr5
    rw [← hd6]
    exact ⟨a0, a1, a2, a3, a4, a5, a6, a7, by dsimp only; decide, a9, a10, a11, a12, a13, a14⟩
  · rw [← hd6]
    show s5.d.rid = _
    rw [hrid5, hrid4, hrid3]
    show d2.rid = _
    rw [hrid2, hrid1]
  · show ((DrvState.mk d6 s5.w).spiStep [0x20 ||| 5, 2]).w.radios.length = _
    show ((s5.w.spi d6.rid [0x20 ||| 5, 2]).1).radios.length = _
    rw [World.spi_length, hlen5, hre4.length, hlen3]
    exact hlen1
  · rw [← hd6]
    show s5.d.pipe0ReadAddr = _
    rw [hd5, hd4]
  · rw [← hd6]
    show s5.d.openPipes &&& 1 ≠ 0
    rw [hd5, hd4]
    show (0 ||| 1 : Nat) &&& 1 ≠ 0
    decide
  · rw [← hd6]
    show s5.d.config &&& 1 = 0
    rw [hd5, hd4]
    show (s3.d.config &&& 0x7D) &&& 1 = 0
    rw [hd3]
    show ((d2.config ||| 2) &&& 0x7D) &&& 1 = 0
    rw [hc2]
    decide
  · rw [← hd6]
    show s5.d.isPlus = _
    rw [hd5, hd4]
    show s3.d.isPlus = _
    rw [hd3]
    show d2.isPlus = _
    rw [← hd2]
    exact hip1
  · have hw6 : (DrvState.mk d6 s5.w).Wf := by show d6.rid < _; rw [hrid6, ← hrid1, ← hrid2, ← hrid3, ← hrid4, ← hrid5]; exact hwf5
    have hc6 : (DrvState.mk d6 s5.w).cfg = s5.cfg := by
      unfold DrvState.cfg; rw [hrid6, ← hrid1, ← hrid2, ← hrid3, ← hrid4, ← hrid5]
    have := spiStep_vis (DrvState.mk d6 s5.w) (0x20 ||| 5) [2] hw6 (by decide)
    rw [hc6, hv5] at this
    have hc7 : ((DrvState.mk d6 s5.w).spiStep [0x20 ||| 5, 2]).cfg =
        (((DrvState.mk d6 s5.w).spiStep [0x20 ||| 5, 2]).w.radio b0.rf.rid).cfgOf := by
      unfold DrvState.cfg; rw [spiStep_rid]; show ((_ : World).radio d6.rid).cfgOf = _; rw [hrid6]
    rw [hc7] at this
    exact this

end Nrf
