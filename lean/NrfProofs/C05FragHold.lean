/-
C05, round 2: a concrete REACHABLE state in which a router holds a fragment frame for another node — the state the
run of `write()` produces — for the complete instantiation of the hypotheses of `C05_local_forward_not_queued`
(NrfProps/C05.lean).
-/
import NrfProofs.C05FragRoute
import NrfProofs.C05Example3

namespace Nrf.Net.Inst
open Nrf Nrf.Net Nrf.Spec Nrf.Proofs

/-- the state in which the router `0o1` of `Example.three` enters `update()` after the grandchild's `write()` of the
    25 bytes `0, …, 24` (type 5) to the master has returned: the LAST fragment (type 150, one byte) waits in the
    router's RX FIFO -/
def routerHolds : NetState :=
  ((nexec (apiNetWrite (val []) 5 (List.range 25) AUTO_ROUTING) Example.three).2.ret).callAs 1

/-- Boolean test "the result is `.ok (some b)`" (`Except` has no decidable equality) -/
def isOkSome (x : Except PyErr (Option Bytes)) (b : Bytes) : Bool :=
  match x with
  | .ok (some b') => decide (b' = b)
  | _ => false

theorem isOkSome_sound {x : Except PyErr (Option Bytes)} {b : Bytes} (h : isOkSome x b = true) :
    x = .ok (some b) := by
  unfold isOkSome at h
  split at h
  · rw [of_decide_eq_true h]
  · exact absurd h (by simp)

/-- `read()` at that state returns the packed last fragment -/
theorem routerHolds_read :
    nexec (rfRead 102) routerHolds =
      (.ok (some [9, 0, 0, 0, 6, 0, 150, 5, 24]), (nexec (rfRead 102) routerHolds).2) :=
  Prod.ext (isOkSome_sound (by decide +kernel)) rfl

end Nrf.Net.Inst
