/-
C13, the air log (`World.air`) through the pieces of a router's `update()` (NrfProofs/C13HopsStep.lean):
the lemmas `read_core`, `read_ok`, `read_nested`, `relay_write`, `relay_step` once more, with the same
arguments plus `AirContracts` and the same conclusion plus one last conjunct about `World.air`: a `read()`
adds nothing to the log (a nested one: nothing beyond what the nested run added); a relaying `_write` appends
exactly one record — the radio of the relaying node, the packet, a single attempt, reported sent.
The proofs are those of C13HopsStep with the air bookkeeping added.
-/
import NrfProofs.C13Air1

namespace Nrf.Net.Air
open Nrf Nrf.Spec Nrf.Proofs Nrf.Props.C04 Nrf.Net.Hops

/-! ### `read()` -/

/-- the driver's `read()` in a network that satisfies the invariant: the head of the running node's RX
    FIFO (or `None`), removed; the invariant is kept and nothing else changes -/
theorem read_core_air (hc : L3Contracts) (hair : AirContracts) {cfg : AddrCfg} {L : LinkCfg} {tree : Nat → List Nat} (s : NetState) (i : Nat)
    (hok : NetOk cfg L tree s) (hcur : s.cur = i) (hi : i < s.nodes.length)
    (hfifo : ∀ e ∈ (s.radioAt i).rxFifo, 1 ≤ e.data.length ∧ e.data.length ≤ 32) :
    ∃ s1, nexec (liftRf (Rf24.read none)) s = (.ok ((s.radioAt i).rxFifo.head?.map (·.data)), s1) ∧
      NetOk cfg L tree s1 ∧ s1.cur = i ∧ s1.active = s.active ∧ Same s s1 ∧
      (s1.radioAt i).rxFifo = (s.radioAt i).rxFifo.tail ∧ (s1.radioAt i).lastRx = (s.radioAt i).lastRx ∧
      (∀ k, k < s.nodes.length → k ≠ i → s1.radioAt k = s.radioAt k) ∧
      (∀ k, (s1.nodeAt k).queue = (s.nodeAt k).queue) ∧ (∀ k, k ≠ i → s1.nodeAt k = s.nodeAt k) ∧
      s1.w.air = s.w.air := by
  subst hcur
  obtain ⟨_, _, _, _, _, hn6⟩ := hok.node s.cur hi
  obtain ⟨P, hP, hN⟩ := hok.radio s.cur hi
  have hWf : s.drv.Wf := hn6
  have hN0 : NodeRadio L P true true 0x3E s.drv.d s.drv.radio := hN
  have hdr : s.drv.radio = s.radioAt s.cur := rfl
  obtain ⟨D, e, F, N, x⟩ := hc.read s.drv L P true true 0x3E hWf hN0
    (fun e he => ⟨nodeRadio_pipes hN0 e he, hfifo e (by rw [← hdr]; exact he)⟩)
  have hA : (exec (Rf24.read none) s.drv).2.w.air = s.drv.w.air := hair.read s.drv L P true true 0x3E hWf hN0
    (fun e he => ⟨nodeRadio_pipes hN0 e he, hfifo e (by rw [← hdr]; exact he)⟩)
  rw [e] at hA
  have hsame : Same s (s.afterRf D) := Same.ofFrame s D hi F
  have hradc : (s.afterRf D).radioAt s.cur = D.radio := radioAt_afterRf_cur s D hi
  have hrad : ∀ k, k < s.nodes.length → k ≠ s.cur → (s.afterRf D).radioAt k = s.radioAt k := by
    intro k hk hkc
    rw [radioAt_afterRf_ne s D k hkc]
    exact F.others _ (hok.inj k s.cur hk hi hkc).2
  refine ⟨s.afterRf D, ?_, ?_, rfl, rfl, hsame, ?_, ?_, hrad, fun k => queue_afterRf s D k,
    fun k hk => nodeAt_afterRf_ne s D k hk, hA⟩
  · rw [nexec_liftRf_ok _ s _ D e]; rfl
  · refine hok.of_same hsame (by show D.w.faults = []; rw [F.faults]; exact hok.faults) ?_
    intro k hk P' hP' hN'
    by_cases hkc : k = s.cur
    · subst hkc
      have : P' = P := Except.ok.inj (hP'.symm.trans hP)
      subst this
      rw [hradc, nodeAt_afterRf, if_pos ⟨rfl, hi⟩]
      exact N
    · rw [hrad k hk hkc, nodeAt_afterRf_ne s D k hkc]; exact hN'
  · rw [hradc, x]; rfl
  · rw [hradc]; exact F.lastRx

/-- `self._rf24.read()` of the node layer in a quiet network -/
theorem read_ok_air (hc : L3Contracts) (hair : AirContracts) {cfg : AddrCfg} {L : LinkCfg} {tree : Nat → List Nat} (s : NetState) (i f : Nat)
    (hok : NetOk cfg L tree s) (hcur : s.cur = i) (hi : i < s.nodes.length) (hq : Quiet s)
    (hf : s.nodes.length < f)
    (hfifo : ∀ e ∈ (s.radioAt i).rxFifo, 1 ≤ e.data.length ∧ e.data.length ≤ 32) :
    ∃ s1, nexec (rfRead (f + 1)) s = (.ok ((s.radioAt i).rxFifo.head?.map (·.data)), s1) ∧
      NetOk cfg L tree s1 ∧ s1.cur = i ∧ s1.active = s.active ∧ Same s s1 ∧
      (s1.radioAt i).rxFifo = (s.radioAt i).rxFifo.tail ∧ (s1.radioAt i).lastRx = (s.radioAt i).lastRx ∧
      (∀ k, k < s.nodes.length → k ≠ i → s1.radioAt k = s.radioAt k) ∧
      (∀ k, (s1.nodeAt k).queue = (s.nodeAt k).queue) ∧ (∀ k, k ≠ i → s1.nodeAt k = s.nodeAt k) ∧
      s1.w.air = s.w.air := by
  obtain ⟨s1, e, rest⟩ := read_core_air hc hair s i hok hcur hi hfifo
  refine ⟨s1, ?_, rest⟩
  have harr : s.node.arrivals = [] := by
    have := (hok.node i hi).2.2.2.1
    rw [← hcur] at this; exact this
  rw [rfRead.eq_2, nexec_bind, deliverDue_nil s harr]
  simp only []
  rw [nexec_bind, nexec_get]
  simp only [hok.closed, if_true]
  rw [nexec_bind, runOthers_quiet0 s hq f hf]
  simp only []
  exact e

/-- **`read()` during which exactly one other node runs**: node `j` (off the call stack) is the only one
    with received data; its `update()` (outcome given) leaves the network in order and quiet again;
    then the running node reads the head of what its own RX FIFO holds *after* that run. -/
theorem read_nested_air (hc : L3Contracts) (hair : AirContracts) {cfg : AddrCfg} {L : LinkCfg} {tree : Nat → List Nat} (s sj' : NetState)
    (i j g ru : Nat) (hok : NetOk cfg L tree s) (hcur : s.cur = i) (hi : i < s.nodes.length)
    (hj : j < s.nodes.length) (hji : j ≠ i) (hja : j ∉ s.active)
    (hjf : (s.radioAt j).rxFifo.isEmpty = false)
    (hempty : ∀ k, k < s.nodes.length → k ≠ i → k ≠ j → k ∉ s.active → (s.radioAt k).rxFifo = [])
    (hu : nexec (nodeUpdate g) (s.switchTo j) = (.ok ru, sj'))
    (hok' : NetOk cfg L tree sj') (ha' : sj'.active = j :: s.active) (hsame' : Same (s.switchTo j) sj')
    (hq' : ∀ k, k < s.nodes.length → k ≠ i → k ∉ s.active → (sj'.radioAt k).rxFifo = [])
    (hg : s.nodes.length < g)
    (hfifo : ∀ e ∈ (sj'.radioAt i).rxFifo, 1 ≤ e.data.length ∧ e.data.length ≤ 32) :
    ∃ s6, nexec (rfRead (g + 2 + j)) s = (.ok ((sj'.radioAt i).rxFifo.head?.map (·.data)), s6) ∧
      NetOk cfg L tree s6 ∧ s6.cur = i ∧ s6.active = s.active ∧ Same s s6 ∧
      (s6.radioAt i).rxFifo = (sj'.radioAt i).rxFifo.tail ∧ (s6.radioAt i).lastRx = (sj'.radioAt i).lastRx ∧
      (∀ k, k < s.nodes.length → k ≠ i → s6.radioAt k = sj'.radioAt k) ∧
      (∀ k, (s6.nodeAt k).queue = (sj'.nodeAt k).queue) ∧ s6.w.air = sj'.w.air := by
  have hlen' : sj'.nodes.length = s.nodes.length := by rw [hsame'.len, (Same.switchTo s j).len]
  obtain ⟨Pj, _, hNj⟩ := hok.radio j hj
  generalize hs5 : sj'.switchBack i j = s5
  have hs5c : s5.cur = i := by rw [← hs5]; rfl
  have hs5a : s5.active = s.active := by
    rw [← hs5]; show sj'.active.erase j = _; rw [ha', List.erase_cons_head]
  have hs5l : s5.nodes.length = s.nodes.length := by rw [← hs5, (Same.switchBack sj' i j).len, hlen']
  have hs5rad : ∀ k, s5.radioAt k = sj'.radioAt k := by intro k; rw [← hs5]; exact radioAt_switchBack sj' i j k
  have hs5q : ∀ k, (s5.nodeAt k).queue = (sj'.nodeAt k).queue := by
    intro k; rw [← hs5]; exact (nodeAt_switchBack sj' i j k).2
  have hs5air : s5.w.air = sj'.w.air := by rw [← hs5]; rfl
  have hok5 : NetOk cfg L tree s5 := by rw [← hs5]; exact netOk_switchBack hok' i j
  have hsame5 : Same s s5 := by
    rw [← hs5]; exact ((Same.switchTo s j).trans hsame').trans (Same.switchBack sj' i j)
  have hro : nexec (runOthers (g + 1 + j) 0) s = (.ok (), s5) := by
    have := runOthers_one g s sj' j (.ok ru) hj
      ⟨by rw [hcur]; exact hji, by simpa using hja,
       by
        show (!(s.radioAt j).rxFifo.isEmpty) = true
        rw [hjf]; rfl,
       by
        show (s.radioAt j).rxMode = true
        exact hNj.rxMode⟩
      (by
        intro k hk hrun
        obtain ⟨h1, h2, h3, _⟩ := hrun
        rw [hcur] at h1
        have h2' : k ∉ s.active := by simpa using h2
        have h3' : (!(s.radioAt k).rxFifo.isEmpty) = true := h3
        rw [hempty k (by omega) h1 (by omega) h2'] at h3'
        simp at h3')
      hu hlen' hg
      (by
        intro k hk hkl hrun
        obtain ⟨h1, h2, h3, _⟩ := hrun
        rw [hcur, hs5] at h1 h2 h3
        rw [hs5c] at h1
        rw [hs5a] at h2
        have h2' : k ∉ s.active := by simpa using h2
        have h3' : (!(s5.radioAt k).rxFifo.isEmpty) = true := h3
        rw [hs5rad, hq' k hkl h1 h2'] at h3'
        simp at h3')
    rw [hcur, hs5] at this
    exact this
  obtain ⟨s6, e6, ok6, c6, a6, same6, x6, lr6, rad6, q6, _, air6⟩ := read_core_air hc hair s5 i hok5 hs5c (by rw [hs5l]; exact hi)
    (by rw [hs5rad]; exact hfifo)
  rw [hs5rad] at e6 x6 lr6
  refine ⟨s6, ?_, ok6, c6, by rw [a6, hs5a], hsame5.trans same6, x6, lr6, ?_, ?_, by rw [air6, hs5air]⟩
  · have harr : s.node.arrivals = [] := by
      have := (hok.node i hi).2.2.2.1
      rw [← hcur] at this; exact this
    rw [show g + 2 + j = (g + 1 + j) + 1 from by omega, rfRead.eq_2, nexec_bind, deliverDue_nil s harr]
    simp only []
    rw [nexec_bind, nexec_get]
    simp only [hok.closed, if_true]
    rw [nexec_bind, hro]
    simp only []
    exact e6
  · intro k hk hki
    rw [rad6 k (by rw [hs5l]; exact hk) hki, hs5rad]
  · intro k; rw [q6, hs5q]

/-! ### relaying a frame -/

/-- **`_write(to, TX_ROUTED)` of a router that neither awaits nor emits**, at the level of the network
    invariant: node `i` (tree node `x ≠ dd`) hands the frame in `frame_buf` to its hop `j` towards `dd`;
    `j` — possibly suspended on the call stack — has an empty RX FIFO and did not take this very
    packet last.  `True`; the invariant holds again (node `i` listens); `j`'s radio has stored the
    frame; nothing else changed. -/
theorem relay_write_air (hc : L3Contracts) (hair : AirContracts) (cfg : AddrCfg) (hcfg : CfgOk cfg) (L : LinkCfg) (tree : Nat → List Nat)
    (fr : Frame) (pk : Bytes) (t : Nat) (o dd : List Nat) (R : Relay fr pk t o dd)
    (s : NetState) (i j f : Nat) (hok : NetOk cfg L tree s) (hcur : s.cur = i) (hi : i < s.nodes.length)
    (hbuf : s.node.frameBuf = fr) (hxd : tree i ≠ dd) (hj : j < s.nodes.length)
    (htj : tree j = nextHopSpec (tree i) dd)
    (hplain : ¬ (64 < t ∧ t < 192) ∨ nextHopSpec (tree i) dd ≠ dd)
    (hq : Quiet s) (hroom : (s.radioAt j).rxFifo = [])
    (hdup : ∀ l, (s.radioAt j).lastRx = some l → l.data ≠ pk) (hf : s.nodes.length + 2 ≤ f) :
    ∃ s3 pid A, nexec (nodeWrite (f + 2) (val dd) TX_ROUTED) s = (.ok true, s3) ∧
      NetOk cfg L tree s3 ∧ s3.cur = i ∧ s3.active = s.active ∧ Same s s3 ∧
      s3.radioAt j = (s.radioAt j).withRx [{ pipe := hopPipe (tree i) dd, data := pk }]
        { pid := pid, addr := A, data := pk } ∧
      (s3.radioAt i).rxFifo = (s.radioAt i).rxFifo ∧ (s3.radioAt i).lastRx = (s.radioAt i).lastRx ∧
      (∀ k, k < s.nodes.length → k ≠ i → k ≠ j → s3.radioAt k = s.radioAt k) ∧
      (∀ k, (s3.nodeAt k).queue = (s.nodeAt k).queue) ∧ (∀ k, k ≠ i → s3.nodeAt k = s.nodeAt k) ∧
      ∃ rec : AirRec, s3.w.air = s.w.air ++ [rec] ∧ OneBy (s.ridAt i) pk rec := by
  subst hcur
  generalize hx : tree s.cur = x at *
  obtain ⟨hn1, hn2, hn3, hn4, hn5, hn6⟩ := hok.node s.cur hi
  rw [hx] at hn1 hn2
  obtain ⟨P, hP, hN⟩ := hok.radio s.cur hi
  rw [hx] at hP
  have hny : IsNode (nextHopSpec x dd) := isNode_nextHop hn1 R.hd
  have hji : j ≠ s.cur := by
    intro e; rw [e, hx] at htj; exact nextHop_ne_self hxd htj.symm
  obtain ⟨Pj, hPj, hNj⟩ := hok.radio j hj
  rw [htj] at hPj
  obtain ⟨hp1, hp5⟩ : 1 ≤ hopPipe x dd ∧ hopPipe x dd ≤ 5 := by
    have := C04_listens cfg hcfg x dd hn1 R.hd hxd TX_ROUTED (Or.inr rfl)
    exact ⟨this.1, this.2.1⟩
  obtain ⟨A, hA1, hA2, hA3⟩ := listen_addrs cfg hcfg _ hny Pj hPj (hopPipe x dd) hp1 hp5
  have hnode : s.node = s.nodeAt s.cur := rfl
  have hWf : s.drv.Wf := hn6
  obtain ⟨D, e3, r3, l3, f3, N3, x3, lr3, ⟨pid, hrb⟩, hoth3, hair3⟩ := nodeWrite_hop_plain_air hc hair f s L P Pj j
    (hopPipe x dd) (val dd) (val (nextHopSpec x dd)) (hopPipe x dd) TX_ROUTED t A pk hi hok.closed hf hq hWf hN
    hj hji (fun k hk hkc => (hok.inj k s.cur hk hi hkc).2) hNj
    (by rw [hnode, hn3]; exact hA1) hA2 hp1 hp5 hA3 (by rw [hroom]; decide)
    (fun pid e => hdup _ e rfl)
    (fun r pid hri hrj => hok.hothers (i := s.cur) hcfg hj (by rw [htj]; exact hPj) hp1 hp5 hA2 pk r pid hri hrj)
    hok.faults (by rw [hbuf]; exact R.len) (by rw [hbuf]; exact R.pack)
    (by
      rw [hnode, hn2]
      exact fun e => nextHop_ne_self hxd (val_inj hny.1 hn1.1 e))
    (by rw [hbuf]; exact R.ty)
    (by rw [hnode, hn2, l2p_tree hn1 R.hd (Or.inr rfl)])
    (by
      rcases hplain with h | h
      · exact Or.inl h
      · exact Or.inr ⟨rfl, fun e => h (val_inj hny.1 R.hd.1 e)⟩)
  have hrb' : D.w.radio (s.ridAt j) = (s.radioAt j).withRx [{ pipe := hopPipe x dd, data := pk }]
      { pid := pid, addr := A, data := pk } := by
    rw [hrb, hroom]; rfl
  have hsame : Same s (s.afterRf D) := by
    refine Same.afterRf s D hi r3 l3 ?_
    intro r hr
    exact hoth3 r (fun e => hr s.cur hi e.symm) (fun e => hr j hj e.symm)
  have hradc : (s.afterRf D).radioAt s.cur = D.radio := radioAt_afterRf_cur s D hi
  have hDrad : D.radio = D.w.radio (s.ridAt s.cur) := by
    show D.w.radio D.d.rid = _
    rw [r3]; rfl
  have hradj : (s.afterRf D).radioAt j = (s.radioAt j).withRx [{ pipe := hopPipe x dd, data := pk }]
      { pid := pid, addr := A, data := pk } := by
    rw [radioAt_afterRf_ne s D j hji, hrb']
  have hrad : ∀ k, k < s.nodes.length → k ≠ s.cur → k ≠ j → (s.afterRf D).radioAt k = s.radioAt k := by
    intro k hk hkc hkj
    rw [radioAt_afterRf_ne s D k hkc]
    exact hoth3 _ (hok.inj k s.cur hk hi hkc).2 (hok.inj k j hk hj hkj).2
  refine ⟨s.afterRf D, pid, A, e3, ?_, rfl, rfl, hsame, hradj, ?_, ?_, hrad, fun k => queue_afterRf s D k,
    fun k hk => nodeAt_afterRf_ne s D k hk, hair3⟩
  · refine hok.of_same hsame (by show D.w.faults = []; exact f3) ?_
    intro k hk P' hP' hN'
    by_cases hkc : k = s.cur
    · subst hkc
      rw [hx] at hP'
      have : P' = P := Except.ok.inj (hP'.symm.trans hP)
      subst this
      rw [hradc, nodeAt_afterRf, if_pos ⟨rfl, hi⟩]
      exact N3
    · rw [nodeAt_afterRf_ne s D k hkc]
      by_cases hkj : k = j
      · subst hkj; rw [hradj]; exact hN'.withRx _ _ _ hp5
      · rw [hrad k hk hkc hkj]; exact hN'
  · rw [hradc, x3]; rfl
  · rw [hradc, lr3]; rfl

/-- **One relaying iteration of `_net_update()`** once the frame has been read: dispatch, `_write`, and
    the loop goes on from a state in which the invariant holds again -/
theorem relay_step_air (hc : L3Contracts) (hair : AirContracts) (cfg : AddrCfg) (hcfg : CfgOk cfg) (L : LinkCfg) (tree : Nat → List Nat)
    (fr : Frame) (pk : Bytes) (t : Nat) (o dd : List Nat) (R : Relay fr pk t o dd)
    (hndef : ∀ i, val (tree i) ≠ NETWORK_DEFAULT_ADDR)
    (s s1 : NetState) (i j f rv : Nat) (hread : nexec (rfRead (f + 3)) s = (.ok (some pk), s1))
    (hok : NetOk cfg L tree s1) (hcur : s1.cur = i) (hi : i < s1.nodes.length)
    (hxd : tree i ≠ dd) (hj : j < s1.nodes.length) (htj : tree j = nextHopSpec (tree i) dd)
    (hplain : ¬ (64 < t ∧ t < 192) ∨ nextHopSpec (tree i) dd ≠ dd)
    (hq : Quiet s1) (hroom : (s1.radioAt j).rxFifo = [])
    (hdup : ∀ l, (s1.radioAt j).lastRx = some l → l.data ≠ pk) (hf : s1.nodes.length + 2 ≤ f) :
    ∃ s3 pid A, nexec (netUpdate (f + 4) rv) s = nexec (netUpdate (f + 3) 0) s3 ∧
      NetOk cfg L tree s3 ∧ s3.cur = i ∧ s3.active = s1.active ∧ Same s1 s3 ∧
      s3.radioAt j = (s1.radioAt j).withRx [{ pipe := hopPipe (tree i) dd, data := pk }]
        { pid := pid, addr := A, data := pk } ∧
      (s3.radioAt i).rxFifo = (s1.radioAt i).rxFifo ∧ (s3.radioAt i).lastRx = (s1.radioAt i).lastRx ∧
      (∀ k, k < s1.nodes.length → k ≠ i → k ≠ j → s3.radioAt k = s1.radioAt k) ∧
      (∀ k, (s3.nodeAt k).queue = (s1.nodeAt k).queue) ∧ (∀ k, k ≠ i → s3.nodeAt k = s1.nodeAt k) ∧
      ∃ rec : AirRec, s3.w.air = s1.w.air ++ [rec] ∧ OneBy (s1.ridAt i) pk rec := by
  obtain ⟨hn1, hn2, _⟩ := hok.node i hi
  have hcl : s1.cur < s1.nodes.length := by rw [hcur]; exact hi
  have hq2 : Quiet (s1.withFrame fr) := by
    intro k hk hkc hka
    rw [radioAt_withFrame]
    exact hq k (by simpa using hk) hkc hka
  obtain ⟨s3, pid, A, e, ok3, c3, a3, same3, rj, xi, lri, rad, q3, nd3, rec, air3, one3⟩ := relay_write_air hc hair cfg hcfg L tree fr pk t o dd R
    (s1.withFrame fr) i j f (netOk_withFrame hok fr) hcur (by simpa using hi)
    (by rw [withFrame_node _ _ hcl]) hxd (by simpa using hj) htj hplain hq2
    (by rw [radioAt_withFrame]; exact hroom) (by rw [radioAt_withFrame]; exact hdup) (by simpa using hf)
  refine ⟨s3, pid, A, ?_, ok3, c3, a3, (Same.withFrame s1 fr).trans same3, ?_, ?_, ?_, ?_, ?_, ?_,
    rec, air3, ?_⟩
  · rw [show f + 4 = (f + 2) + 2 from rfl,
      netUpdate_relay_eq (f + 2) rv s s1 fr pk t o dd (tree i) R hread hcl
        (by rw [node_eq_nodeAt, hcur]; exact hn2) hn1 hxd (hndef i), e]
  · rw [rj, radioAt_withFrame]
  · rw [xi, radioAt_withFrame]
  · rw [lri, radioAt_withFrame]
  · intro k hk hki hkj
    rw [rad k (by simpa using hk) hki hkj, radioAt_withFrame]
  · intro k; rw [q3, queue_withFrame]
  · intro k hk
    rw [nd3 k hk, nodeAt_withFrame_ne _ _ _ (by rw [hcur]; exact hk)]
  · have hrid : (s1.withFrame fr).ridAt i = s1.ridAt i := by
      show ((s1.withFrame fr).nodeAt i).rf.rid = (s1.nodeAt i).rf.rid
      rw [rf_withFrame]
    rw [hrid] at one3; exact one3

end Nrf.Net.Air
