/-
Frame lemmas for the node layer (`NrfModel/Net/Node.lean`), for **every** fuel and **every** outcome
(normal return or exception):  whatever a function of the mutual block does — including everything
the other nodes do at its scheduling points (`runOthers`) —

* it returns as the same node (`cur`), with the same call stack (`active`) and the same node list
  length, and leaves every *other* node that is inside a call untouched                      (`Rel`)
* the transmit / receive primitives (`rfSend … fragRetry`, `rfRead`, `runOthers`) change nothing of
  the running node but its radio object, its clock and its arrival script               (`Node.core`)
* everything except `nodeUpdate` / `masterRelease` / `masterDhcp` (which may re-`_begin`) keeps the
  running node's address constants, configuration and timeouts                          (`Node.stat`)

Precondition throughout: the running node is on the call stack (`cur ∈ active`; `Drv/NetS.lean:
runAs` starts every API call with `active = [cur]`, `runOthers` pushes the node it switches to).
-/
import Lean.Elab.Tactic
import NrfProofs.NetExecJ

namespace Nrf.Net
open Nrf

/-- the attributes of a node object that only `_begin`, the user and the mesh layer change -/
structure NodeStat where
  kind : NodeKind
  a : NodeAddr
  cfg : AddrCfg
  relayEnabled : Bool
  fragEnabled : Bool
  txTimeout : Nat
  routeTimeout : Nat
  retSysMsg : Bool
  parenthood : Bool
  maxMessageLength : Nat
  nodeId : Nat

def Node.stat (n : Node) : NodeStat :=
  { kind := n.kind, a := n.a, cfg := n.cfg, relayEnabled := n.relayEnabled, fragEnabled := n.fragEnabled,
    txTimeout := n.txTimeout, routeTimeout := n.routeTimeout, retSysMsg := n.retSysMsg,
    parenthood := n.parenthood, maxMessageLength := n.maxMessageLength, nodeId := n.nodeId }

/-- a node object without its radio object, clock and arrival script -/
def Node.core (n : Node) : Node := { n with rf := {}, clock := 0, arrivals := [] }

theorem Node.stat_of_core {n n' : Node} (h : n'.core = n.core) : n'.stat = n.stat := by
  have : ∀ m : Node, m.stat = m.core.stat := fun _ => rfl
  rw [this n', this n, h]

/-- the frame relation between the state a call starts in and any state it ends in; `π` selects
    what is kept of the running node itself -/
structure Rel {β : Type} (π : Node → β) (s s' : NetState) : Prop where
  cur : s'.cur = s.cur
  active : s'.active = s.active
  len : s'.nodes.length = s.nodes.length
  closed : s'.closed = s.closed
  others : ∀ j, j ∈ s.active → j ≠ s.cur → s'.nodes[j]? = s.nodes[j]?
  proj : π s'.node = π s.node

abbrev piNone : Node → Unit := fun _ => ()

namespace Rel
variable {β : Type} {π : Node → β}

theorem refl (s : NetState) : Rel π s s := ⟨rfl, rfl, rfl, rfl, fun _ _ _ => rfl, rfl⟩

theorem trans {a b c : NetState} (h1 : Rel π a b) (h2 : Rel π b c) : Rel π a c :=
  ⟨h2.cur.trans h1.cur, h2.active.trans h1.active, h2.len.trans h1.len, h2.closed.trans h1.closed,
   fun j hj hc => (h2.others j (h1.active ▸ hj) (h1.cur ▸ hc)).trans (h1.others j hj hc),
   h2.proj.trans h1.proj⟩

theorem ok {a b : NetState} (h : Rel π a b) (ha : a.cur ∈ a.active) : b.cur ∈ b.active := by
  rw [h.cur, h.active]; exact ha

theorem weaken {γ : Type} {π' : Node → γ} (hw : ∀ n n', π n' = π n → π' n' = π' n) {a b : NetState}
    (h : Rel π a b) : Rel π' a b :=
  ⟨h.cur, h.active, h.len, h.closed, h.others, hw _ _ h.proj⟩

/-- only the world / the id counter changed -/
theorem of_nodes_eq {s s' : NetState} (hn : s'.nodes = s.nodes) (hc : s'.cur = s.cur)
    (ha : s'.active = s.active) (hcl : s'.closed = s.closed) : Rel π s s' :=
  ⟨hc, ha, by rw [hn], hcl, fun _ _ _ => by rw [hn], by unfold NetState.node; rw [hn, hc]⟩

end Rel

theorem node_eq (s : NetState) : s.node = (s.nodes[s.cur]?).getD default := by
  unfold NetState.node; exact List.getD_eq_getElem?_getD

/-- the running node's object was changed by `f` (and possibly the world, the id counter) -/
theorem Rel.of_modify {β : Type} {π : Node → β} {s s' : NetState} (f : Node → Node)
    (hf : ∀ n, π (f n) = π n) (hn : s'.nodes = s.nodes.modify s.cur f) (hc : s'.cur = s.cur)
    (ha : s'.active = s.active) (hcl : s'.closed = s.closed) : Rel π s s' := by
  refine ⟨hc, ha, by rw [hn, List.length_modify], hcl, ?_, ?_⟩
  · intro j _ hj
    rw [hn, List.getElem?_modify_ne _ _ (fun h => hj h.symm)]
  · rw [node_eq, node_eq, hn, hc, List.getElem?_modify_eq]
    cases s.nodes[s.cur]? with
    | none => rfl
    | some n => exact hf n

/-- every outcome of `m`, from every state in which the running node is on the call stack, is
    related to the start state by `R` -/
structure Frm (R : NetState → NetState → Prop) {α : Type} (m : NetM α) : Prop where
  out : ∀ s r s', s.cur ∈ s.active → nexec m s = (r, s') → R s s'

section combinators
variable {β : Type} {π : Node → β} {α γ : Type}

theorem Frm.weaken {δ : Type} {π' : Node → δ} {m : NetM α} (hw : ∀ n n', π n' = π n → π' n' = π' n)
    (h : Frm (Rel π) m) : Frm (Rel π') m :=
  ⟨fun s r s' hs he => (h.out s r s' hs he).weaken hw⟩

theorem Frm.pure (a : α) : Frm (Rel π) (pure a : NetM α) := by
  refine ⟨fun s r s' _ h => ?_⟩
  simp only [nexec_pure, Prod.mk.injEq] at h
  rw [← h.2]; exact Rel.refl s

theorem Frm.throw (e : PyErr) : Frm (Rel π) (throw e : NetM α) := by
  refine ⟨fun s r s' _ h => ?_⟩
  simp only [nexec_throw, Prod.mk.injEq] at h
  rw [← h.2]; exact Rel.refl s

theorem Frm.bind {x : NetM α} {f : α → NetM γ} (hx : Frm (Rel π) x) (hf : ∀ a, Frm (Rel π) (f a)) :
    Frm (Rel π) (x >>= f) := by
  refine ⟨fun s r s'' hs h => ?_⟩
  rcases nexec_bind_cases h with ⟨e, h1, _⟩ | ⟨a, s', h1, h2⟩
  · exact hx.out s _ s'' hs h1
  · have r1 := hx.out s _ s' hs h1
    exact r1.trans ((hf a).out s' r s'' (r1.ok hs) h2)

theorem Frm.ite {c : Prop} [Decidable c] {a b : NetM α} (ha : Frm (Rel π) a) (hb : Frm (Rel π) b) :
    Frm (Rel π) (if c then a else b) := by
  split
  · exact ha
  · exact hb

theorem Frm.get : Frm (Rel π) (get : NetM NetState) := by
  refine ⟨fun s r s' _ h => ?_⟩
  simp only [nexec_get, Prod.mk.injEq] at h
  rw [← h.2]; exact Rel.refl s

theorem Frm.getNode : Frm (Rel π) getNode := by
  refine ⟨fun s r s' _ h => ?_⟩
  simp only [nexec_getNode, Prod.mk.injEq] at h
  rw [← h.2]; exact Rel.refl s

theorem Frm.nowNs : Frm (Rel π) nowNs := by
  refine ⟨fun s r s' _ h => ?_⟩
  simp only [nexec_nowNs, Prod.mk.injEq] at h
  rw [← h.2]; exact Rel.refl s

theorem Frm.sleepNs (n : Nat) : Frm (Rel π) (sleepNs n) := by
  refine ⟨fun s r s' _ h => ?_⟩
  simp only [nexec_sleepNs, Prod.mk.injEq] at h
  rw [← h.2]; exact Rel.of_nodes_eq rfl rfl rfl rfl

theorem Frm.takeId : Frm (Rel π) takeId := by
  refine ⟨fun s r s' _ h => ?_⟩
  simp only [nexec_takeId, Prod.mk.injEq] at h
  rw [← h.2]; exact Rel.of_nodes_eq rfl rfl rfl rfl

theorem Frm.liftPy (x : PyM α) : Frm (Rel π) (liftPy x) := by
  refine ⟨fun s r s' _ h => ?_⟩
  rw [nexec_liftPy] at h
  simp only [Prod.mk.injEq] at h
  rw [← h.2]; exact Rel.refl s

theorem Frm.pipeAddr (a p : Nat) : Frm (Rel π) (pipeAddr a p) := by
  unfold Nrf.Net.pipeAddr
  exact Frm.bind Frm.getNode fun _ => Frm.liftPy _

theorem Frm.modNode (f : Node → Node) (hf : ∀ n, π (f n) = π n) : Frm (Rel π) (modNode f) := by
  refine ⟨fun s r s' _ h => ?_⟩
  simp only [nexec_modNode, Prod.mk.injEq] at h
  rw [← h.2]; exact Rel.of_modify f hf rfl rfl rfl rfl

theorem Frm.setHdr (f : Header → Header)
    (hf : ∀ n : Node, π { n with frameBuf := { n.frameBuf with header := f n.frameBuf.header } } = π n) :
    Frm (Rel π) (setHdr f) :=
  Frm.modNode _ hf

/-- an `RF24` method changes the radio object and the world only -/
theorem Frm.liftRf (m : DrvM α) (hf : ∀ (n : Node) (d : Rf24), π { n with rf := d } = π n) :
    Frm (Rel π) (liftRf m) := by
  refine ⟨fun s r s' _ h => ?_⟩
  simp only [nexec_liftRf, Prod.mk.injEq] at h
  rw [← h.2]
  exact Rel.of_modify (fun n => { n with rf := (exec m s.drv).2.d }) (fun n => hf n _) rfl rfl rfl rfl

theorem Frm.deliverDue (hf : ∀ (n : Node) (l : List (Nat × Nat × Bytes)), π { n with arrivals := l } = π n) :
    Frm (Rel π) deliverDue := by
  refine ⟨fun s r s' _ h => ?_⟩
  unfold Nrf.Net.deliverDue at h
  simp only [nexec_bind, nexec_get, nexec_set, Prod.mk.injEq] at h
  rw [← h.2]
  exact Rel.of_modify _ (fun n => hf n _) rfl rfl rfl rfl

theorem Frm.forIn_list {δ : Type} (l : List δ) (b : γ) (f : δ → γ → NetM (ForInStep γ))
    (hf : ∀ a b, Frm (Rel π) (f a b)) : Frm (Rel π) (forIn l b f) := by
  induction l generalizing b with
  | nil => exact Frm.pure b
  | cons a l ih =>
    rw [List.forIn_cons]
    apply Frm.bind (hf a b)
    intro x
    cases x with
    | done b => exact Frm.pure b
    | yield b => exact ih b

end combinators

/-! ### the projections used -/

theorem core_rf (n : Node) (d : Rf24) : Node.core { n with rf := d } = n.core := rfl
theorem core_arrivals (n : Node) (l : List (Nat × Nat × Bytes)) : Node.core { n with arrivals := l } = n.core := rfl
theorem core_clock (n : Node) (c : Nat) : Node.core { n with clock := c } = n.core := rfl
theorem stat_rf (n : Node) (d : Rf24) : Node.stat { n with rf := d } = n.stat := rfl
theorem stat_arrivals (n : Node) (l : List (Nat × Nat × Bytes)) : Node.stat { n with arrivals := l } = n.stat := rfl
theorem stat_frameBuf (n : Node) (f : Frame) : Node.stat { n with frameBuf := f } = n.stat := rfl
theorem stat_queue (n : Node) (q : NetQueue) : Node.stat { n with queue := q } = n.stat := rfl

theorem Frm.toStat {α : Type} {m : NetM α} (h : Frm (Rel Node.core) m) : Frm (Rel Node.stat) m :=
  h.weaken fun _ _ => Node.stat_of_core

theorem Frm.toNone {α β : Type} {π : Node → β} {m : NetM α} (h : Frm (Rel π) m) : Frm (Rel piNone) m :=
  h.weaken fun _ _ _ => rfl

/-- `queue.enqueue(self.frame_buf)` keeps the static part -/
theorem Frm.enqueueFrameBuf : Frm (Rel Node.stat) enqueueFrameBuf := by
  unfold Nrf.Net.enqueueFrameBuf
  apply Frm.bind Frm.getNode; intro n
  split
  apply Frm.bind
  · exact Frm.modNode _ fun _ => rfl
  · intro _
    apply Frm.ite
    · exact Frm.bind Frm.takeId fun _ => Frm.pure _
    · exact Frm.pure _

/-- `_begin(n_addr)`: as far as the frame relation without a projection goes -/
theorem Frm.begin (a : Nat) : Frm (Rel piNone) (begin a) := by
  unfold Nrf.Net.begin beginRadio
  have hrf : ∀ {α : Type} (m : DrvM α), Frm (Rel piNone) (Nrf.Net.liftRf m) :=
    fun m => Frm.liftRf m fun _ _ => rfl
  apply Frm.bind
  · apply Frm.bind (hrf _); intro _
    apply Frm.bind (hrf _); intro _
    apply Frm.bind (hrf _); intro _
    apply Frm.bind
    · apply Frm.forIn_list
      intro i _
      apply Frm.bind (Frm.pipeAddr _ _); intro _
      apply Frm.bind (hrf _); intro _
      exact Frm.pure _
    · intro _; exact hrf _
  · intro _
    split
    · exact Frm.throw _
    · exact Frm.modNode _ fun _ => rfl

/-- leaf cases of a frame proof: a primitive of the node layer, or a fact about a callee -/
macro "frm_leaf" : tactic => `(tactic| first
  | exact Frm.getNode | exact Frm.nowNs
  | exact Frm.sleepNs _ | exact Frm.takeId | exact Frm.liftPy _ | exact Frm.pipeAddr _ _
  | exact Frm.liftRf _ (fun _ _ => rfl) | exact Frm.deliverDue (fun _ _ => rfl)
  | exact Frm.modNode _ (fun _ => rfl) | exact Frm.setHdr _ (fun _ => rfl)
  | exact Frm.enqueueFrameBuf | exact Frm.enqueueFrameBuf.toNone | exact Frm.begin _
  | apply_assumption
  | (apply Frm.toStat; apply_assumption) | (apply Frm.toNone; apply_assumption))

open Lean Elab Tactic Meta in
/-- one structural step of a frame proof, chosen by the head symbol of the computation (so that no
    expensive unification against the wrong combinator is ever tried) -/
elab "frm_step" : tactic => withMainContext do
  let g ← getMainGoal
  let t ← instantiateMVars (← g.getType)
  let t ← whnfR t
  if t.isForall then
    evalTactic (← `(tactic| intro _))
    return
  unless t.isAppOf ``Frm do throwError "frm_step: not a frame goal"
  if t.appArg!.isLet then
    evalTactic (← `(tactic| dsimp only))
    return
  let m ← whnfCore t.appArg!
  let fn := m.getAppFn
  if let some (c, _) := fn.const? then
    if c == ``Bind.bind then evalTactic (← `(tactic| apply Frm.bind))
    else if c == ``ite then evalTactic (← `(tactic| apply Frm.ite))
    else if c == ``Pure.pure then evalTactic (← `(tactic| exact Frm.pure _))
    else if c == ``MonadExcept.throw || c == ``throwThe || c == ``throw then
      evalTactic (← `(tactic| exact Frm.throw _))
    else if c == ``MonadState.get || c == ``get || c == ``getThe then evalTactic (← `(tactic| exact Frm.get))
    else if (← isMatcherApp m) then evalTactic (← `(tactic| split))
    else evalTactic (← `(tactic| frm_leaf))
  else throwError "frm_step: unexpected computation {m}"

/-! ### the mutual block -/

/-- the frame facts about all functions of the mutual block at fuel `f` -/
structure FrameAt (f : Nat) : Prop where
  rfSend : ∀ buf, Frm (Rel Node.core) (rfSend f buf)
  rfResend : Frm (Rel Node.core) (rfResend f)
  txStandby : ∀ dl, Frm (Rel Node.core) (txStandby f dl)
  txStandbyFor : ∀ ms, Frm (Rel Node.core) (txStandbyFor f ms)
  fragRetry : ∀ n r, Frm (Rel Node.core) (fragRetry f n r)
  nodeFragLoop : ∀ a b c, Frm (Rel Node.stat) (nodeFragLoop f a b c)
  nodeWriteToPipe : ∀ a b c, Frm (Rel Node.stat) (nodeWriteToPipe f a b c)
  rfRead : Frm (Rel Node.core) (rfRead f)
  runOthers : ∀ i, Frm (Rel Node.core) (runOthers f i)
  netUpdate : ∀ rv, Frm (Rel Node.stat) (netUpdate f rv)
  handleThis : ∀ t, Frm (Rel Node.stat) (handleThis f t)
  handleOther : ∀ t, Frm (Rel Node.stat) (handleOther f t)
  ackWait : ∀ dl, Frm (Rel Node.stat) (ackWait f dl)
  nodeWrite : ∀ a b, Frm (Rel Node.stat) (nodeWrite f a b)
  nodeUpdate : Frm (Rel piNone) (nodeUpdate f)
  masterRelease : ∀ a, Frm (Rel piNone) (masterRelease f a)
  masterDhcp : Frm (Rel piNone) (masterDhcp f)

theorem frameAt_zero : FrameAt 0 := by
  constructor <;> intros <;>
    first
    | (rw [rfSend.eq_1]; exact Frm.throw _) | (rw [rfResend.eq_1]; exact Frm.throw _)
    | (rw [txStandby.eq_1]; exact Frm.throw _) | (rw [txStandbyFor.eq_1]; exact Frm.throw _)
    | (rw [fragRetry.eq_1]; exact Frm.throw _) | (rw [nodeFragLoop.eq_1]; exact Frm.throw _)
    | (rw [nodeWriteToPipe.eq_1]; exact Frm.throw _) | (rw [rfRead.eq_1]; exact Frm.throw _)
    | (rw [runOthers.eq_1]; exact Frm.throw _) | (rw [netUpdate.eq_1]; exact Frm.throw _)
    | (rw [handleThis.eq_1]; exact Frm.throw _) | (rw [handleOther.eq_1]; exact Frm.throw _)
    | (rw [ackWait.eq_1]; exact Frm.throw _) | (rw [nodeWrite.eq_1]; exact Frm.throw _)
    | (rw [nodeUpdate.eq_1]; exact Frm.throw _) | (rw [masterRelease.eq_1]; exact Frm.throw _)
    | (rw [masterDhcp.eq_1]; exact Frm.throw _)

/-- context switch of `runOthers` to node `i` -/
def NetState.switchTo (s : NetState) (i : Nat) : NetState :=
  { s with nodes := s.nodes.modify s.cur (fun n => { n with clock := s.w.clock }),
           cur := i, active := i :: s.active,
           w := { s.w with clock := (s.nodes.getD i default).clock } }

/-- context switch of `runOthers` from node `i` back to node `me` -/
def NetState.switchBack (s : NetState) (me i : Nat) : NetState :=
  { s with nodes := s.nodes.modify i (fun n => { n with clock := s.w.clock }),
           cur := me, active := s.active.erase i,
           w := { s.w with clock := (s.nodes.getD me default).clock } }

/-- node `i` is picked by `runOthers`: another node, not inside a call, listening, with received data -/
abbrev NetState.runnable (s : NetState) (i : Nat) : Prop :=
  i ≠ s.cur ∧ (!s.active.contains i) = true ∧
    (!(s.w.radio (s.nodes.getD i default).rf.rid).rxFifo.isEmpty) = true ∧
    (s.w.radio (s.nodes.getD i default).rf.rid).rxMode = true

/-- one iteration of `runOthers`, outcome by outcome: an exception in the other node's `update()`
    ends that `update()` only -/
theorem runOthers_step (f i : Nat) (s : NetState) :
    nexec (runOthers (f + 1) i) s =
      if i ≥ s.nodes.length then (.ok (), s)
      else if s.runnable i then
        nexec (runOthers f (i + 1)) ((nexec (nodeUpdate f) (s.switchTo i)).2.switchBack s.cur i)
      else nexec (runOthers f (i + 1)) s := by
  rw [runOthers.eq_2]
  simp only [nexec_bind, nexec_get, nexec_ite, nexec_pure, nexec_set, nexec_tryCatch, NetState.runnable]
  by_cases h1 : i ≥ s.nodes.length
  · simp only [if_pos h1]
  · simp only [if_neg h1]
    by_cases h2 : i ≠ s.cur ∧ (!s.active.contains i) = true ∧
        (!(s.w.radio (s.nodes.getD i default).rf.rid).rxFifo.isEmpty) = true ∧
        (s.w.radio (s.nodes.getD i default).rf.rid).rxMode = true
    · simp only [if_pos h2, NetState.switchTo, NetState.switchBack]
      generalize nexec (nodeUpdate f) _ = x
      rcases x with ⟨ru, s2⟩
      cases ru <;> rfl
    · simp only [if_neg h2]

theorem frame_runOthers {f : Nat} (ih : FrameAt f) (i : Nat) : Frm (Rel Node.core) (runOthers (f + 1) i) := by
  refine ⟨fun s r s' hs h => ?_⟩
  rw [runOthers_step] at h
  split at h
  · simp only [Prod.mk.injEq] at h; rw [← h.2]; exact Rel.refl s
  · split at h
    · rename_i hlen hc
      obtain ⟨hic, hia, -, -⟩ := hc
      have hia : i ∉ s.active := by simpa using hia
      rcases hu : nexec (nodeUpdate f) (s.switchTo i) with ⟨ru, s2⟩
      have r12 : Rel piNone (s.switchTo i) s2 :=
        ih.nodeUpdate.out (s.switchTo i) ru s2 (List.mem_cons_self) hu
      rw [hu] at h
      have hact : (s.switchTo i).active = i :: s.active := rfl
      have hcur : (s.switchTo i).cur = i := rfl
      have ha3 : (s2.switchBack s.cur i).active = s.active := by
        show s2.active.erase i = s.active
        rw [r12.active, hact, List.erase_cons_head]
      have r03 : Rel Node.core s (s2.switchBack s.cur i) := by
        refine ⟨rfl, ha3, ?_, ?_, ?_, ?_⟩
        · show (s2.nodes.modify i _).length = _
          rw [List.length_modify, r12.len]
          show (s.nodes.modify s.cur _).length = _
          rw [List.length_modify]
        · show s2.closed = s.closed
          rw [r12.closed]; rfl
        · intro j hj hjc
          have hji : j ≠ i := fun e => hia (e ▸ hj)
          show (s2.nodes.modify i _)[j]? = _
          rw [List.getElem?_modify_ne _ _ (fun e => hji e.symm),
            r12.others j (List.mem_cons_of_mem _ hj) hji]
          show (s.nodes.modify s.cur _)[j]? = _
          rw [List.getElem?_modify_ne _ _ (fun e => hjc e.symm)]
        · have hci : s.cur ≠ i := fun e => hic e.symm
          rw [node_eq, node_eq]
          show Node.core ((s2.nodes.modify i _)[s.cur]?.getD default) = _
          rw [List.getElem?_modify_ne _ _ (fun e => hci e.symm),
            r12.others s.cur (List.mem_cons_of_mem _ hs) hci]
          show Node.core ((s.nodes.modify s.cur _)[s.cur]?.getD default) = _
          rw [List.getElem?_modify_eq]
          cases s.nodes[s.cur]? with
          | none => rfl
          | some n => rfl
      exact r03.trans ((ih.runOthers (i + 1)).out _ r s' (r03.ok hs) h)
    · exact (ih.runOthers (i + 1)).out s r s' hs h

theorem frameAt_succ {f : Nat} (ih : FrameAt f) : FrameAt (f + 1) := by
  obtain ⟨h1, h2, h3, h4, h5, h6, h7, h8, h9, h10, h11, h12, h13, h14, h15, h16, h17⟩ := ih
  have ih : FrameAt f := ⟨h1, h2, h3, h4, h5, h6, h7, h8, h9, h10, h11, h12, h13, h14, h15, h16, h17⟩
  have h2 := h2; have h8 := h8; have h15 := h15; have h17 := h17
  have h1' := fun b => h1 b; have h3' := fun b => h3 b; have h4' := fun b => h4 b
  have h5' := fun a b => h5 a b; have h6' := fun a b c => h6 a b c; have h7' := fun a b c => h7 a b c
  have h9' := fun a => h9 a; have h10' := fun a => h10 a; have h11' := fun a => h11 a
  have h12' := fun a => h12 a; have h13' := fun a => h13 a; have h14' := fun a b => h14 a b
  have h16' := fun a => h16 a
  refine ⟨?_, ?_, ?_, ?_, ?_, ?_, ?_, ?_, frame_runOthers ih, ?_, ?_, ?_, ?_, ?_, ?_, ?_, ?_⟩
  · intro buf; rw [rfSend.eq_2]; repeat frm_step
  · rw [rfResend.eq_2]; repeat frm_step
  · intro dl; rw [txStandby.eq_2]; repeat frm_step
  · intro ms; rw [txStandbyFor.eq_2]; repeat frm_step
  · intro n r; rw [fragRetry.eq_2]; repeat frm_step
  · intro a b c; rw [nodeFragLoop.eq_2]; repeat frm_step
  · intro a b c; rw [nodeWriteToPipe.eq_2]; repeat frm_step
  · rw [rfRead.eq_2]; repeat frm_step
  · intro rv; rw [netUpdate.eq_2]; repeat frm_step
  · intro t; rw [handleThis.eq_2]; repeat frm_step
  · intro t; rw [handleOther.eq_2]; repeat frm_step
  · intro dl; rw [ackWait.eq_2]; repeat frm_step
  · intro a b; rw [nodeWrite.eq_2]; repeat frm_step
  · rw [nodeUpdate.eq_2]; repeat frm_step
  · intro a; rw [masterRelease.eq_2]; repeat frm_step
  · rw [masterDhcp.eq_2]; repeat frm_step

/-- the frame facts hold for every fuel -/
theorem frameAt (f : Nat) : FrameAt f := by
  induction f with
  | zero => exact frameAt_zero
  | succ f ih => exact frameAt_succ ih

end Nrf.Net
