/-
Frame lemmas: nothing that happens on the air, in time, or in the FIFOs changes a configuration
register of any radio.  `Radio.cfgOf` forgets everything but the configuration registers, the CE
pin, the chip variant / ACTIVATE state and the violation log.
-/
import NrfProofs.Exec

namespace Nrf

/-- the configuration part of a radio: FIFOs, flags, counters and reception history reset -/
def Radio.cfgOf (r : Radio) : Radio :=
  { r with flags := 0, txFifo := [], rxFifo := [], arcCnt := 0, plosCnt := 0, rpd := false,
           nextPid := 0, lastRx := none, lastAck := none, lastByte := 0 }

namespace Radio

@[simp] theorem cfgOf_cfgOf (r : Radio) : r.cfgOf.cfgOf = r.cfgOf := rfl

/-- a register write acts on the configuration part alone -/
theorem writeReg_cfgOf (r : Radio) (reg : Nat) (d : Bytes) :
    (r.writeReg reg d).cfgOf = (r.cfgOf.writeReg reg d).cfgOf := by
  unfold writeReg
  split <;> first | rfl | (split <;> rfl)

theorem readPayload_cfgOf (r : Radio) (n : Nat) : (r.readPayload n).1.cfgOf = r.cfgOf := by
  unfold readPayload; split <;> rfl

theorem writePayload_cfgOf (r : Radio) (k : TxKind) (d : Bytes) : (r.writePayload k d).cfgOf = r.cfgOf := by
  unfold writePayload; split <;> rfl

/-- a command changes the configuration part only through `writeReg` / ACTIVATE, and that change
    depends on the configuration part alone -/
theorem runCmd_cfgOf (r : Radio) (c : Cmd) (d : Bytes) :
    (r.runCmd c d).1.cfgOf = (r.cfgOf.runCmd c d).1.cfgOf := by
  unfold runCmd
  cases c with
  | wRegister reg => dsimp only; split; · rfl
                     exact writeReg_cfgOf r _ d
  | activate => rfl
  | rRxPayload => dsimp only; rw [readPayload_cfgOf, readPayload_cfgOf]; rfl
  | wTxPayload => dsimp only; rw [writePayload_cfgOf, writePayload_cfgOf]; rfl
  | wTxPayloadNoAck => dsimp only; rw [writePayload_cfgOf, writePayload_cfgOf]; rfl
  | wAckPayload p => dsimp only; rw [writePayload_cfgOf, writePayload_cfgOf]; rfl
  | _ => rfl

theorem xfer_cfgOf (r : Radio) (out : Bytes) : (r.xfer out).1.cfgOf = (r.cfgOf.xfer out).1.cfgOf := by
  unfold xfer
  cases out with
  | nil => rfl
  | cons cmd d => exact runCmd_cfgOf r _ d

theorem receive_cfgOf (r : Radio) (k : Packet) : (r.receive k).1.cfgOf = r.cfgOf := by
  unfold receive
  split
  · rfl
  · simp only
    split
    · rfl
    · split
      · rfl
      · split
        · rfl
        · split
          · rfl
          · split <;> rfl

end Radio

namespace World

/-- same number of radios, each with the same configuration part -/
def CfgEq (w w' : World) : Prop :=
  w.radios.length = w'.radios.length ∧ ∀ i, (w.radio i).cfgOf = (w'.radio i).cfgOf

theorem CfgEq.refl (w : World) : CfgEq w w := ⟨rfl, fun _ => rfl⟩
theorem CfgEq.trans {a b c : World} (h1 : CfgEq a b) (h2 : CfgEq b c) : CfgEq a c :=
  ⟨h1.1.trans h2.1, fun i => (h1.2 i).trans (h2.2 i)⟩
theorem CfgEq.symm {a b : World} (h : CfgEq a b) : CfgEq b a := ⟨h.1.symm, fun i => (h.2 i).symm⟩

theorem radio_setRadio (w : World) (i j : Nat) (r : Radio) :
    (w.setRadio i r).radio j = if j = i ∧ i < w.radios.length then r else w.radio j := by
  unfold setRadio radio
  simp only [List.getD_eq_getElem?_getD, List.getElem?_set]
  by_cases h : i = j
  · subst h
    by_cases hl : i < w.radios.length <;> simp [hl]
  · have : ¬ j = i := fun e => h e.symm
    simp [h, this]

theorem setRadio_cfgEq (w : World) (i : Nat) (r : Radio) (h : r.cfgOf = (w.radio i).cfgOf) :
    CfgEq (w.setRadio i r) w := by
  refine ⟨by simp [setRadio], fun j => ?_⟩
  rw [radio_setRadio]
  split
  · rename_i hj; rw [hj.1]; exact h
  · rfl

theorem deliver_cfgEq (w : World) (s : Nat) (k : Packet) : CfgEq (w.deliver s k).1 w := by
  unfold deliver deliverEach
  refine ⟨by simp, fun i => ?_⟩
  unfold radio
  simp only [List.getD_eq_getElem?_getD, List.map_map, List.getElem?_map, List.getElem?_zipIdx]
  cases h : w.radios[i]? with
  | none => simp
  | some r =>
    simp only [Option.map_some, Function.comp, Option.getD_some, Nat.zero_add]
    split
    · rfl
    · exact Radio.receive_cfgOf r k

theorem nextFault_cfgEq (w : World) : CfgEq w.nextFault.1 w := by
  unfold nextFault; split <;> exact CfgEq.refl _

theorem attemptLoop_cfgEq (s : Nat) (k : Packet) (n made : Nat) (w : World) :
    CfgEq (attemptLoop s k n made w).1 w := by
  induction n generalizing made w with
  | zero => exact CfgEq.refl _
  | succ n ih =>
    unfold attemptLoop
    simp only
    have h1 := nextFault_cfgEq w
    have h2 := deliver_cfgEq w.nextFault.1 s k
    split
    · exact (ih _ _).trans h1
    · exact (ih _ _).trans (h2.trans h1)
    · split
      · split
        · exact h2.trans h1
        · exact (ih _ _).trans (h2.trans h1)
      · exact (ih _ _).trans (h2.trans h1)

theorem updRadio_cfgEq (w : World) (s : Nat) (f : Radio → Radio) (hf : ∀ r, (f r).cfgOf = r.cfgOf) :
    CfgEq (w.updRadio s f) w := setRadio_cfgEq _ _ _ (hf _)

theorem stamp_cfgEq (w : World) (s t : Nat) (a : AirRec) : CfgEq (w.stamp s t a) w := CfgEq.refl _

theorem cycle_cfgEq (w : World) (s : Nat) (e : TxEntry) (rest : List TxEntry) : CfgEq (w.cycle s e rest) w := by
  unfold cycle
  have h0 : CfgEq (w.updRadio s (·.takePid e)) w := updRadio_cfgEq _ _ _ (fun _ => rfl)
  dsimp only
  split
  · have h1 := nextFault_cfgEq (w.updRadio s (·.takePid e))
    refine (stamp_cfgEq _ _ _ _).trans (CfgEq.trans (updRadio_cfgEq _ _ _ ?_) ?_)
    · intro r; rfl
    · split
      · exact h1.trans h0
      · exact (deliver_cfgEq _ _ _).trans (h1.trans h0)
  · have h1 := attemptLoop_cfgEq s ((w.radio s).packetFor e) (((w.radio s).setupRetr &&& 0x0F) + 1) 0
        (w.updRadio s (·.takePid e))
    split
    · refine (stamp_cfgEq _ _ _ _).trans (CfgEq.trans (updRadio_cfgEq _ _ _ ?_) (h1.trans h0))
      intro r; rfl
    · refine (stamp_cfgEq _ _ _ _).trans (CfgEq.trans (updRadio_cfgEq _ _ _ ?_) (h1.trans h0))
      intro r; rfl

theorem tryTransmit_cfgEq (s f : Nat) (w : World) : CfgEq (tryTransmit s f w) w := by
  induction f generalizing w with
  | zero => exact CfgEq.refl _
  | succ f ih =>
    unfold tryTransmit
    dsimp only
    split
    · split
      · exact CfgEq.refl _
      · split
        · exact CfgEq.refl _
        · exact (ih _).trans (cycle_cfgEq _ _ _ _)
    · exact CfgEq.refl _

theorem jump_cfgEq (w : World) (s : Nat) : CfgEq (w.jump s) w := CfgEq.refl _
theorem sleep_cfgEq (w : World) (n : Nat) : CfgEq (w.sleep n) w := CfgEq.refl _

theorem inject_cfgEq (w : World) (s p : Nat) (d : Bytes) : CfgEq (w.inject s p d) w := by
  unfold inject
  dsimp only
  repeat' split
  all_goals first | exact setRadio_cfgEq _ _ _ rfl | exact CfgEq.refl _

/-- The configuration part of every radio after an SPI transaction on radio `s`: radio `s` sees the
    command applied to its configuration part, nothing else changes — whatever is in the FIFOs,
    on the air, or in the fault list. -/
theorem spi_cfgOf (w : World) (s : Nat) (out : Bytes) (hs : s < w.radios.length) (j : Nat) :
    ((w.spi s out).1.radio j).cfgOf =
      if j = s then ((w.radio s).cfgOf.xfer out).1.cfgOf else (w.radio j).cfgOf := by
  unfold spi
  dsimp only
  rw [(tryTransmit_cfgEq s 4 _).2 j]
  show (({ ((w.jump s).setRadio s ((w.jump s).radio s |>.xfer out).1) with clock := _, spiCount := _ } : World).radio j).cfgOf = _
  have : ∀ (w' : World) (c n : Nat), ({ w' with clock := c, spiCount := n } : World).radio j = w'.radio j := fun _ _ _ => rfl
  rw [this, radio_setRadio]
  have hl : s < (w.jump s).radios.length := hs
  by_cases hj : j = s
  · simp only [hj, hl, and_self, ↓reduceIte]
    exact Radio.xfer_cfgOf _ _
  · simp only [hj, false_and, ↓reduceIte]
    rfl

theorem spi_length (w : World) (s : Nat) (out : Bytes) : (w.spi s out).1.radios.length = w.radios.length := by
  unfold spi
  dsimp only
  rw [(tryTransmit_cfgEq s 4 _).1]
  simp [setRadio, jump]

theorem setCE_cfgOf (w : World) (s : Nat) (v : Bool) (hs : s < w.radios.length) (j : Nat) :
    ((w.setCE s v).radio j).cfgOf =
      if j = s then { (w.radio s).cfgOf with ce := v } else (w.radio j).cfgOf := by
  unfold setCE
  dsimp only
  rw [(tryTransmit_cfgEq s 4 _).2 j, radio_setRadio]
  have hl : s < (w.jump s).radios.length := hs
  by_cases hj : j = s
  · simp only [hj, hl, and_self, ↓reduceIte]; rfl
  · simp only [hj, false_and, ↓reduceIte]; rfl

theorem setCE_length (w : World) (s : Nat) (v : Bool) : (w.setCE s v).radios.length = w.radios.length := by
  unfold setCE
  dsimp only
  rw [(tryTransmit_cfgEq s 4 _).1]
  simp [setRadio, jump]

end World
end Nrf
