/-
C05 helper lemmas, part 7: `write()` at the origin of a route (first hop), and the two context
switches of the test session (`ret`, `callAs`) for the network invariant.
-/
import NrfProofs.C05Route

namespace Nrf.Net
open Nrf Nrf.Spec Nrf.Proofs Nrf.Props.C04

theorem Same.prepared (s : NetState) (c : Frame) : Same s (prepared s c) := by
  have h := Same.setNode ({ s with nextId := (((s.nextId + 1) &&& 0xFFFF) + 1) &&& 0xFFFF } : NetState)
    (fun n => { n with frameBuf := wireCopy c }) fun _ => ⟨rfl, rfl, rfl, rfl, rfl⟩
  exact ⟨h.closed, h.len, h.stat, h.rlen, h.spare⟩

theorem Same.ret (s : NetState) : Same s s.ret := by
  have h := Same.setNode s (fun n => { n with clock := s.w.clock }) fun _ => ⟨rfl, rfl, rfl, rfl, rfl⟩
  exact ⟨h.closed, h.len, h.stat, h.rlen, h.spare⟩

theorem Same.callAs (s : NetState) (i : Nat) : Same s (s.callAs i) :=
  ⟨rfl, rfl, fun _ => ⟨rfl, rfl, rfl, rfl, rfl⟩, rfl, fun _ _ => rfl⟩

theorem ret_facts (s : NetState) (k : Nat) :
    ((s.ret).nodeAt k).rf = (s.nodeAt k).rf ∧ ((s.ret).nodeAt k).queue = (s.nodeAt k).queue ∧
    (s.ret).radioAt k = s.radioAt k := by
  have h1 : ((s.ret).nodeAt k).rf = (s.nodeAt k).rf := by rw [nodeAt_ret]; split <;> rfl
  refine ⟨h1, by rw [nodeAt_ret]; split <;> rfl, ?_⟩
  unfold NetState.radioAt NetState.ridAt
  rw [h1]; rfl

/-- **`write()` at the origin of a route**, single frame of a type 0..64 (no NETWORK_ACK), closed quiet
    tree network, loss-free, destination `d` another tree node, first hop `j` present, the packet its radio accepted last (if any) not carrying this frame's bytes
    (`NotDupFrame`): `True`; afterwards (`prepared … .afterRf D`) the first hop holds the
    packed frame, the origin listens again, nothing else changed. -/
theorem write_hop (hc : L3Contracts) (cfg : AddrCfg) (hcfg : CfgOk cfg) (L : LinkCfg) (tree : Nat → List Nat)
    (s : NetState) (d : List Nat) (ty : Int) (msg : Bytes) (j : Nat)
    (hok : NetOk cfg L tree s) (hcur : s.cur < s.nodes.length) (hact : s.active = [s.cur])
    (hsize : s.nodes.length ≤ 100000) (hd : IsNode d) (hxd : tree s.cur ≠ d)
    (hj : j < s.nodes.length) (htj : tree j = nextHopSpec (tree s.cur) d) (hjl : NotDupFrame (s.radioAt j) (wireCopy (callerFrame (tree s.cur) d s.nextId ty msg)))
    (hquiet : ∀ i, i < s.nodes.length → (s.radioAt i).rxFifo = [])
    (hty : 0 ≤ ty ∧ ty ≤ 64) (hlen : msg.length ≤ MAX_FRAG_SIZE) (hmax : msg.length ≤ s.node.maxMessageLength) :
    ∃ (D : DrvState) (pk A : Bytes) (pid : Nat) (P : List Bytes),
      (wireCopy (callerFrame (tree s.cur) d s.nextId ty msg)).pack = .ok pk ∧
      nexec (apiNetWrite (val d) ty msg AUTO_ROUTING) s =
        (.ok (true, callerFrame (tree s.cur) d s.nextId ty msg),
         (prepared s (callerFrame (tree s.cur) d s.nextId ty msg)).afterRf D) ∧
      beginPipes cfg (val (tree s.cur)) = .ok P ∧
      D.d.rid = s.node.rf.rid ∧ D.w.radios.length = s.w.radios.length ∧ D.w.faults = [] ∧
      NodeRadio L P true true 0x3E D.d D.radio ∧ D.radio.rxFifo = [] ∧
      D.w.radio (s.ridAt j) =
        (s.radioAt j).withRx [{ pipe := hopPipe (tree s.cur) d, data := pk }] { pid := pid, addr := A, data := pk } ∧
      (∀ r, r ≠ s.ridAt s.cur → r ≠ s.ridAt j → D.w.radio r = s.w.radio r) := by
  generalize hx : tree s.cur = x at *
  obtain ⟨hn1, hn2, hn3, hn4, hn5, hn6⟩ := hok.node s.cur hcur
  rw [hx] at hn1 hn2
  obtain ⟨P, hP, hN⟩ := hok.radio s.cur hcur
  rw [hx] at hP
  have hvd : val d < 4096 := val_lt_4096 hd
  have hmd : maskInt (val d : Int) 0xFFF = val d := maskInt_natCast _ _ (by omega)
  have hnode : s.node = s.nodeAt s.cur := rfl
  have hw := apiNetWrite_eq (val d) ty msg s (by rw [hmd]; exact isValid_val hd) hmax (Or.inl hlen)
  simp only [hmd] at hw
  have hcf : ({ header := { fromNode := s.node.a.addr, toNode := val d, frameId := s.nextId,
                            msgType := .int (maskInt ty 0xFF), reserved := 0 },
                message := msg } : Frame) = callerFrame x d s.nextId ty msg := by
    unfold callerFrame
    rw [hnode, hn2]; rfl
  rw [hcf] at hw
  generalize hcdef : callerFrame x d s.nextId ty msg = c at hw hjl ⊢
  have hct : c.header.msgType = .int (maskInt ty 0xFF) := by rw [← hcdef]; rfl
  have hcm : c.message = msg := by rw [← hcdef]; rfl
  have hprep : (({ s with nextId := (((s.nextId + 1) &&& 0xFFFF) + 1) &&& 0xFFFF } : NetState).setNode
      fun n => { n with frameBuf := wireCopy c }) = prepared s c := rfl
  rw [hprep] at hw
  generalize hs' : prepared s c = s' at hw ⊢
  have hs'c : s'.cur = s.cur := by rw [← hs']; rfl
  have hs'a : s'.active = s.active := by rw [← hs']; rfl
  have hs'l : s'.nodes.length = s.nodes.length := by rw [← hs']; simp [prepared]
  have hs'w : s'.w = s.w := by rw [← hs']; rfl
  have hs'cl : s'.closed = true := by rw [← hs']; exact hok.closed
  have hs'n : s'.node = { s.node with frameBuf := wireCopy c } := by
    rw [← hs']; exact node_setNode _ _ hcur
  have hs'at : ∀ i, i ≠ s.cur → s'.nodeAt i = s.nodeAt i := by
    intro i hi
    rw [← hs']
    show (NetState.setNode _ _).nodeAt i = _
    rw [nodeAt_setNode, if_neg (fun h => hi h.1)]
    rfl
  have hs'rid : ∀ i, s'.ridAt i = s.ridAt i := fun i => by rw [← hs']; exact ((Same.prepared s c).stat i).2.2.2.2
  have hs'rad : ∀ i, s'.radioAt i = s.radioAt i := by
    intro i; unfold NetState.radioAt; rw [hs'rid, hs'w]
  have hs'd : s'.drv = s.drv := by
    unfold NetState.drv; rw [hs'n, hs'w]
  have hji : j ≠ s.cur := by
    intro e; rw [e, hx] at htj; exact nextHop_ne_self hxd htj.symm
  obtain ⟨Pj, hPj, hNj⟩ := hok.radio j hj
  rw [htj] at hPj
  have hny : IsNode (nextHopSpec x d) := isNode_nextHop hn1 hd
  obtain ⟨hp1, hp5⟩ : 1 ≤ hopPipe x d ∧ hopPipe x d ≤ 5 := by
    have := C04_listens cfg hcfg x d hn1 hd hxd TX_NORMAL (Or.inl rfl)
    exact ⟨this.1, this.2.1⟩
  obtain ⟨A, hA1, hA2, hA3⟩ := listen_addrs cfg hcfg _ hny Pj hPj (hopPipe x d) hp1 hp5
  have hm1 : maskInt ty 0xFF = ty.toNat := by
    unfold maskInt
    have : ty % ((0xFF : Nat) + 1 : Int) = ty := Int.emod_eq_of_lt hty.1 (by omega)
    rw [this]
  have hm2 : ty.toNat &&& 0xFF = ty.toNat := by rw [and_ff]; omega
  have hwt : (wireCopy c).header.msgType = .int ty.toNat := by
    simp [wireCopy, Header.ty, hct, hm1, hm2]
  obtain ⟨pk, hpk⟩ : ∃ pk, (wireCopy c).pack = .ok pk := by
    unfold Frame.pack
    rw [pack_int _ _ hwt]
    exact ⟨_, rfl⟩
  have hF : F = 199998 + 2 := rfl
  rw [hF] at hw
  obtain ⟨D, e, r1, l1, f1, N1, x1, lr1, ⟨pid, hrb⟩, hoth⟩ := nodeWrite_hop_noack hc 199998 s' L P Pj j
    (hopPipe x d) (val d) (val (nextHopSpec x d)) (hopPipe x d) TX_NORMAL ty.toNat A pk
    (by rw [hs'c, hs'l]; exact hcur) hs'cl (by rw [hs'l]; omega)
    (by
      intro i hi _ _
      rw [hs'rad]
      exact hquiet i (by rw [← hs'l]; exact hi))
    (by rw [hs'd]; exact hn6)
    (by rw [hs'n, hs'd]; exact hN)
    (by rw [hs'l]; exact hj) (by rw [hs'c]; exact hji)
    (by rw [hs'a, hact]; simp; exact hji)
    (by
      intro i hi hic
      rw [hs'rid, hs'rid, hs'c]
      exact (hok.inj i s.cur (by rw [← hs'l]; exact hi) hcur (by rw [← hs'c]; exact hic)).2)
    (by rw [hs'at j hji, hs'rad]; exact hNj)
    (by rw [hs'n]; show pipeAddress s.node.cfg _ _ = _; rw [hnode, hn3]; exact hA1)
    hA2 hp1 hp5 hA3 (by rw [hs'rad]; exact hjl.notDup hpk)
    (by
      intro r pid hri hrj
      rw [hs'w]
      rw [hs'rid, hs'c] at hri; rw [hs'rid] at hrj
      exact hok.hothers (i := s.cur) hcfg hj (by rw [htj]; exact hPj) hp1 hp5 hA2 pk r pid hri hrj)
    (by rw [hs'w]; exact hok.faults)
    (by rw [hs'n]; show (wireCopy c).message.length ≤ _; simp only [wireCopy]; rw [hcm]; exact hlen)
    (by rw [hs'n]; exact hpk)
    (by
      rw [hs'n]
      show _ ≠ s.node.a.addr
      rw [hnode, hn2]
      exact fun h => nextHop_ne_self hxd (val_inj hny.1 hn1.1 h))
    (by rw [hs'n]; exact hwt)
    (by
      rw [hs'n]
      show logi2phys s.node.a _ _ = _
      rw [hnode, hn2, l2p_tree hn1 hd (Or.inl rfl)])
    (by omega)
  rw [e] at hw
  refine ⟨D, pk, A, pid, P, hpk, hw, hP, ?_, ?_, f1, N1, ?_, ?_, ?_⟩
  · rw [r1, hs'n]
  · rw [l1, hs'w]
  · rw [x1, hs'd]; exact hquiet s.cur hcur
  · rw [hs'rid] at hrb
    rw [hrb, hs'rad, hquiet j hj]
    rfl
  · intro r hra hrb'
    rw [hoth r (by rw [hs'rid, hs'c]; exact hra) (by rw [hs'rid]; exact hrb'), hs'w]

end Nrf.Net
