/-
C17, release end to end, part 1.

* `master_release` — `update()` of the master with a release frame (type 197, from address `ax ≠ 0`) as
  the only payload in its RX FIFO: returns 197; **the table is `Mesh.releaseScan t ax t`** (C16's release of
  the lease on `ax`); nothing is transmitted; the master listens on, RX FIFO empty.
* `release_write` — `release_address()` of the connected node `x` up to the call of `_begin(0o4444)`: the
  release frame is built in `frame_buf` (frame id and `reserved` are whatever `frame_buf` held), written in
  one acknowledged hop to the master's pipe `px`; `True` ⇒ the rest of the call is `_begin(0o4444)`.
* `Released`, `release_closed` — the whole `release_address()` with the one unproved leg, **`_begin(0o4444)` on
  the radio**, as a hypothesis about the state this run produces.
* `release_master_turn` — the master's next `update()` (a top-level call, as the driver's `runAs` enters it)
  from a `Released` state.
-/
import NrfProofs.C17Lookup5

namespace Nrf.Net.Join
open Nrf Nrf.Net Nrf.Spec Nrf.Proofs

/-- the release frame of the node at address `ax`; `fid` / `r` are inherited from `frame_buf` -/
def relFrame (fid r ax : Nat) : Frame :=
  { header := { fromNode := ax, toNode := 0, frameId := fid, msgType := .int MESH_ADDR_RELEASE, reserved := r },
    message := [] }

theorem relFrame_wire (fid r ax : Nat) (hax : ax < 4096) (hfid : fid < 65536) (hr : r < 256) :
    wireCopy (relFrame fid r ax) = relFrame fid r ax := by
  unfold wireCopy relFrame
  simp only [Header.ty, MESH_ADDR_RELEASE]
  have e1 : ax &&& 0xFFF = ax := by rw [and_fff]; omega
  have e2 : fid &&& 0xFFFF = fid := by rw [and_ffff]; omega
  have e3 : r &&& 0xFF = r := by rw [and_ff]; omega
  rw [e1, e2, e3]
  rfl

/-- the master's node object after it has handled the release frame -/
def freed (n : Node) (d : Rf24) (fid r ax : Nat) : Node :=
  { n with rf := d, frameBuf := relFrame fid r ax, dhcp := (Mesh.releaseScan n.dhcp ax n.dhcp).1 }

/-- **`update()` of the master with a release frame as the only payload in its RX FIFO** (closed
    loss-free network, every node off the call stack quiet). -/
theorem master_release (f : Nat) (sm : NetState) (L : LinkCfg) (Pm : List Bytes) (p fid r ax : Nat) (pk : Bytes)
    (hcur : sm.cur < sm.nodes.length) (hclosed : sm.closed = true)
    (hfuel : sm.nodes.length + 2 ≤ f) (hquiet : Quiet sm) (hWf : sm.drv.Wf)
    (hN : NodeRadio L Pm true true 0x3E sm.node.rf sm.drv.radio)
    (harr : sm.node.arrivals = []) (hfifo : sm.drv.radio.rxFifo = [{ pipe := p, data := pk }]) (hp : p ≤ 5)
    (hpk : (relFrame fid r ax).pack = .ok pk)
    (hax : ax < 4096) (hfid : fid < 65536) (hr : r < 256) (haxv : isValid ax = true) (hax0 : ax ≠ 0)
    (hkind : sm.node.kind = .meshMaster) (hid : sm.node.nodeId = 0) (haddr0 : sm.node.a.addr = 0)
    (hret : sm.node.retSysMsg = true) (hdo : sm.node.doDhcp = false) :
    ∃ D1 : DrvState,
      nexec (nodeUpdate (f + 4)) sm =
        (.ok MESH_ADDR_RELEASE, (sm.afterRf D1).putNode (freed sm.node D1.d fid r ax)) ∧
      DrvFrame sm.drv D1 ∧ NodeRadio L Pm true true 0x3E D1.d D1.radio ∧ D1.radio.rxFifo = [] := by
  have hpkl : pk.length = 8 + (relFrame fid r ax).message.length := pack_length hpk
  obtain ⟨D1, e1, F1, N1, x1⟩ := rfRead_head l3contracts (f + 1) sm L Pm true true 0x3E hcur hclosed (by omega)
    hquiet hWf hN harr
    (by
      intro e he
      rw [hfifo] at he
      simp only [List.mem_singleton] at he
      subst he
      exact ⟨hp, by simp only []; rw [hpkl]; simp [relFrame], by simp only []; rw [hpkl]; simp [relFrame]⟩)
  rw [hfifo] at e1 x1
  simp only [List.head?_cons, Option.map_some, List.tail_cons] at e1 x1
  have hc1 : (sm.afterRf D1).cur < (sm.afterRf D1).nodes.length := by simpa using hcur
  have hn1 : (sm.afterRf D1).node = { sm.node with rf := D1.d } := afterRf_node sm D1 hcur
  have hwire := relFrame_wire fid r ax hax hfid hr
  have hnu : nexec (netUpdate (f + 3) 0) sm =
      (.ok MESH_ADDR_RELEASE, (sm.afterRf D1).withFrame (relFrame fid r ax)) := by
    refine netUpdate_sys (f + 1) sm _ pk (relFrame fid r ax) MESH_ADDR_RELEASE hc1 e1 rfl hpk hwire
      (by rw [hn1]; exact haddr0.symm) valid0 haxv (by decide)
      (fun h => absurd h.1 (by decide)) (fun h => absurd h.1 (by decide)) (by rw [hn1]; exact hret)
      (by decide) (by decide)
  generalize hs2 : (sm.afterRf D1).withFrame (relFrame fid r ax) = s2 at hnu
  have hc2 : s2.cur < s2.nodes.length := by rw [← hs2]; simpa using hcur
  have hn2 : s2.node = { sm.node with rf := D1.d, frameBuf := relFrame fid r ax } := by
    rw [← hs2, withFrame_node _ _ hc1, hn1]
  refine ⟨D1, ?_, F1, N1, x1⟩
  rw [show f + 4 = (f + 3) + 1 from rfl, nodeUpdate.eq_2, nexec_bind, hnu]
  simp only []
  rw [nexec_bind, nexec_getNode]
  simp only [hn2, hkind, ne_eq, not_true_eq_false, if_false]
  have hnreq : ¬ (MESH_ADDR_RELEASE = MESH_ADDR_REQUEST ∧ (relFrame fid r ax).header.reserved ≠ 0) := by
    rintro ⟨h, _⟩; exact absurd h (by decide)
  have hnlk : ¬ ((MESH_ADDR_RELEASE = MESH_ADDR_LOOKUP ∨ MESH_ADDR_RELEASE = MESH_ID_LOOKUP) ∧
      Mesh.lookupLongEnough MESH_ADDR_RELEASE (relFrame fid r ax).message = true) := by
    rintro ⟨h | h, _⟩ <;> exact absurd h (by decide)
  simp only [if_neg hnreq, hid, if_true, if_neg hnlk]
  rw [nexec_bind, nexec_getNode]
  simp only [hn2]
  have hfrom : (relFrame fid r ax).header.fromNode = ax := rfl
  rw [hfrom, nexec_bind, show f + 3 = (f + 2) + 1 from rfl, masterRelease.eq_2]
  simp only [if_neg hax0, nexec_modNode]
  have hst : (s2.setNode fun n => { n with dhcp := (Mesh.releaseScan n.dhcp ax n.dhcp).1 }) =
      (sm.afterRf D1).putNode (freed sm.node D1.d fid r ax) := by
    rw [← hs2]
    unfold NetState.withFrame NetState.putNode
    rw [setNode_setNode]
    apply setNode_congr
    rw [hn1]
    rfl
  rw [hst]
  have hc5 : ((sm.afterRf D1).putNode (freed sm.node D1.d fid r ax)).cur <
      ((sm.afterRf D1).putNode (freed sm.node D1.d fid r ax)).nodes.length := by
    simpa [NetState.putNode, NetState.setNode] using hcur
  have hn5 : ((sm.afterRf D1).putNode (freed sm.node D1.d fid r ax)).node = freed sm.node D1.d fid r ax :=
    node_putNode _ _ hc1
  rw [nexec_bind, masterDhcp.eq_2, nexec_bind, nexec_getNode]
  simp only [hn5]
  have hdo' : (freed sm.node D1.d fid r ax).doDhcp = false := hdo
  simp only [hdo', Bool.not_false, if_true, nexec_pure]

/-- what is known of the state in which `release_address()` calls `_begin(0o4444)` -/
structure RelSent (L : LinkCfg) (Pm Px : List Bytes) (m x px ax : Nat) (Am pk : Bytes) (s s1 : NetState) : Prop where
  cur : s1.cur = x
  act : s1.active = [x]
  len : s1.nodes.length = 2
  closed : s1.closed = true
  faults : s1.w.faults = []
  nextId : s1.nextId = s.nextId
  rlen : s1.w.radios.length = s.w.radios.length
  master : s1.nodeAt m = s.nodeAt m
  xbody : (s1.nodeAt x).body = { (s.nodeAt x).body with
    frameBuf := relFrame (s.nodeAt x).frameBuf.header.frameId (s.nodeAt x).frameBuf.header.reserved ax }
  ridx : s1.ridAt x = s.ridAt x
  Nx : NodeRadio L Px true true 0x3E (s1.nodeAt x).rf (s1.radioAt x)
  fx : (s1.radioAt x).rxFifo = []
  radm : ∃ pid, s1.radioAt m = (s.radioAt m).withRx [{ pipe := px, data := pk }] { pid := pid, addr := Am, data := pk }
  others : ∀ i, i ≠ s.ridAt m → i ≠ s.ridAt x → s1.w.radio i = s.w.radio i

/-- **`release_address()` of the connected node up to `_begin(0o4444)`**: the frame is written in one
    acknowledged hop; the call continues with `_begin(0o4444)` and returns `True` if that ends normally. -/
theorem release_write (s : NetState) (L : LinkCfg) (Pm Px : List Bytes) (m x px ax : Nat) (Am Ax pk : Bytes)
    (C : Conn L Pm Px m x px ax Am Ax s)
    (hpk : (relFrame (s.nodeAt x).frameBuf.header.frameId (s.nodeAt x).frameBuf.header.reserved ax).pack = .ok pk)
    (hdupm : ∀ pid, (s.radioAt m).lastRx ≠ some { pid := pid, addr := Am, data := pk }) :
    ∃ s1 : NetState, RelSent L Pm Px m x px ax Am pk s s1 ∧
      nexec (nodeWrite F 0 TX_NORMAL) (s.withFrame
        (relFrame (s.nodeAt x).frameBuf.header.frameId (s.nodeAt x).frameBuf.header.reserved ax)) = (.ok true, s1) ∧
      nexec meshRelease s =
        match nexec (begin NETWORK_DEFAULT_ADDR) s1 with
        | (.error e, s2) => (.error e, s2)
        | (.ok _, s2) => (.ok true, s2) := by
  have hcl : s.cur < s.nodes.length := by rw [C.cur, C.len]; exact C.hx
  have hnode : s.node = s.nodeAt x := C.node
  have two : ∀ k, k < 2 → k = m ∨ k = x := by have := C.hm; have := C.hx; have := C.hmx; omega
  generalize hfid : (s.nodeAt x).frameBuf.header.frameId = fid at hpk ⊢
  generalize hres : (s.nodeAt x).frameBuf.header.reserved = r at hpk ⊢
  generalize hsR : s.withFrame (relFrame fid r ax) = sR
  have sRc : sR.cur < sR.nodes.length := by rw [← hsR]; simpa using hcl
  have sRcur : sR.cur = x := by rw [← hsR]; exact C.cur
  have sRnode : sR.node = { s.node with frameBuf := relFrame fid r ax } := by rw [← hsR]; exact withFrame_node s _ hcl
  have sRdrv : sR.drv = s.drv := by rw [← hsR]; exact drv_setNode s _ hcl rfl
  have sRm : sR.nodeAt m = s.nodeAt m := by
    rw [← hsR]; exact nodeAt_withFrame_ne s _ m (by rw [C.cur]; exact C.hmx)
  have sRrad : ∀ k, sR.radioAt k = s.radioAt k := by intro k; rw [← hsR]; exact radioAt_withFrame s _ k
  have sRrid : ∀ k, sR.ridAt k = s.ridAt k := by
    intro k; show (sR.nodeAt k).rf.rid = _; rw [← hsR, rf_withFrame]; rfl
  have sRw : sR.w = s.w := by rw [← hsR]; rfl
  have hdrvr : s.drv.radio = s.radioAt x := by
    show s.w.radio s.node.rf.rid = _
    rw [hnode]; rfl
  have hq : Quiet sR := by
    intro k hk hkc hka
    rcases two k (by rw [← hsR] at hk; simpa [C.len] using hk) with rfl | rfl
    · rw [sRrad]; exact C.fm
    · exact absurd sRcur.symm hkc
  have hrid : ∀ k, k < sR.nodes.length → k ≠ sR.cur → sR.ridAt k ≠ sR.ridAt sR.cur := by
    intro k hk hkc
    rcases two k (by rw [← hsR] at hk; simpa [C.len] using hk) with rfl | rfl
    · rw [sRcur, sRrid, sRrid]; exact C.ridne
    · exact absurd sRcur.symm hkc
  obtain ⟨D1, e1, r1, l1, fl1, N1, x1, lr1, ⟨pid1, hgot1⟩, hoth1⟩ := Hops.nodeWrite_hop_plain l3contracts (200000 - 2) sR L
    Px Pm m px 0 0 px TX_NORMAL MESH_ADDR_RELEASE Am pk sRc (by rw [← hsR]; exact C.closed)
    (by rw [← hsR]; simp only [withFrame_len]; rw [C.len]; decide) hq
    (by rw [sRdrv]; show s.node.rf.rid < _; rw [hnode]; exact C.ridx)
    (by rw [sRnode, sRdrv, hdrvr, hnode]; exact C.Nx)
    (by rw [← hsR]; simp only [withFrame_len]; rw [C.len]; exact C.hm) (by rw [sRcur]; exact C.hmx) hrid
    (by rw [sRm, sRrad]; exact C.Nm)
    (by rw [sRnode, hnode]; exact C.xcfg) C.pAm C.px1 C.px5 C.ltm (by rw [sRrad, C.fm]; decide)
    (by intro pid; rw [sRrad]; exact hdupm pid)
    (by
      intro i pid hi him
      rw [sRcur, sRrid] at hi
      rw [sRrid] at him
      rw [sRw]
      exact Radio.listensTo_not_rx _ _ (by rw [C.others i him hi]))
    (by rw [sRw]; exact C.faults) (by rw [sRnode]; simp [relFrame, MAX_FRAG_SIZE]) (by rw [sRnode]; exact hpk)
    (by rw [sRnode, hnode]; show 0 ≠ (s.nodeAt x).a.addr; rw [C.xaddr]; exact fun h => C.ax0 h.symm)
    (by rw [sRnode]; rfl) (by rw [sRnode, hnode]; exact C.xl2p) (Or.inl (by decide))
  have hne : m ≠ sR.cur := by rw [sRcur]; exact C.hmx
  refine ⟨sR.afterRf D1, ?_, ?_, ?_⟩
  · exact
      { cur := sRcur, act := by rw [← hsR]; exact C.act, len := by simp only [afterRf_len]; rw [← hsR]; simpa using C.len,
        closed := by rw [← hsR]; exact C.closed, faults := fl1, nextId := by rw [← hsR]; rfl,
        rlen := by show D1.w.radios.length = _; rw [l1, sRw],
        master := by rw [nodeAt_afterRf_ne _ _ _ hne, sRm],
        xbody := by
          rw [body_afterRf]
          have : sR.nodeAt x = sR.node := by rw [node_eq_nodeAt, sRcur]
          rw [this, sRnode, hnode, hfid, hres]; rfl,
        ridx := by
          have : (sR.afterRf D1).nodeAt x = (sR.afterRf D1).nodeAt sR.cur := by rw [sRcur]
          show ((sR.afterRf D1).nodeAt x).rf.rid = _
          rw [this, rf_afterRf_cur sR D1 sRc, r1, sRnode, hnode]; rfl,
        Nx := by
          rw [← sRcur, rf_afterRf_cur sR D1 sRc, radioAt_afterRf_cur sR D1 sRc]; exact N1,
        fx := by rw [← sRcur, radioAt_afterRf_cur sR D1 sRc, x1, sRdrv, hdrvr]; exact C.fx,
        radm := by
          refine ⟨pid1, ?_⟩
          rw [radioAt_afterRf_ne _ _ _ hne, hgot1, sRrad, C.fm]; rfl,
        others := by
          intro i him hix
          show D1.w.radio i = _
          rw [hoth1 i (by rw [sRcur, sRrid]; exact hix) (by rw [sRrid]; exact him), sRw] }
  · exact e1
  · unfold meshRelease
    have hnd : s.node.a.addr ≠ NETWORK_DEFAULT_ADDR := by rw [hnode, C.xaddr]; exact C.axd
    simp only [nexec_bind, nexec_getNode, if_pos hnd, nexec_setHdr, nexec_modNode]
    have hst : (s.setNode fun n => { n with frameBuf := { n.frameBuf with header :=
          { (n.frameBuf.header.setTy MESH_ADDR_RELEASE) with toNode := 0, fromNode := s.node.a.addr } } }).setNode
        (fun nd => { nd with frameBuf := { nd.frameBuf with message := [] } }) = sR := by
      rw [← hsR, setNode_setNode]
      unfold NetState.withFrame
      apply setNode_congr
      rw [hnode]
      simp only [Function.comp, Header.setTy, relFrame, hfid, hres, C.xaddr]
    rw [hst, show F = 200000 - 2 + 2 from rfl, e1]
    simp only [if_true]
    rw [nexec_bind]
    rcases nexec (begin NETWORK_DEFAULT_ADDR) (sR.afterRf D1) with ⟨rb, sb⟩
    cases rb <;> rfl

end Nrf.Net.Join
