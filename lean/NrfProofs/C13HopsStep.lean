/-
C13 helper lemmas, part 7 (routes of any length): the pieces of a router's `update()` at the level of
the whole-network invariant `NetOk` — between any two of them every node of the network is listening.

What really happens on a route `o = x₀ — x₁ — … — x_{k-1} — d` (closed system, schedule `runOthers`; the
scheduling point of `send()` lies *before* the transmission, so a node that has just sent goes on —
restores listening, returns to its `_net_update()` loop — and only its next `read()` lets the receiver
run):
* `x₀` sends, listens, waits; inside the first `read()` of the wait `x₁` runs `update()`;
* `x_i` (0 < i < k-1) reads the frame, forwards it (`TX_ROUTED`, no NETWORK_ACK business: its hop is not the
  destination), listens again, loops; inside its second `read()` `x_{i+1}` runs `update()` to completion
  — by then `x_i` is suspended, on the call stack, **listening** — …
* `x_{k-1}` delivers to `d`, emits the NETWORK_ACK towards `o`: its hop is `x_{k-2}` (the route read
  backwards), which takes it into its RX FIFO while suspended in that second `read()`; `x_{k-1}` returns;
* back in `x_i`: its second `read()` now returns the NETWORK_ACK; it is a frame for another node and
  is forwarded to `x_{i-1}` (suspended, listening); the third `read()` returns nothing; `update()` ends.
So the induction (from the last router backwards) carries: "the node `b` before me is on the call
stack, listening, with an empty RX FIFO, and has not seen the acknowledgement yet" → "`b`'s RX FIFO
holds exactly the acknowledgement, everything else is as quiet as before, the destination got its frame".
-/
import NrfProofs.C13HopsLast

namespace Nrf.Net.Hops
open Nrf Nrf.Spec Nrf.Proofs Nrf.Props.C04

/-! ### a frame being relayed -/

/-- a single frame in wire form on its way from `o` to `dd` (any type) -/
structure Relay (fr : Frame) (pk : Bytes) (t : Nat) (o dd : List Nat) : Prop where
  wire : wireCopy fr = fr
  ty : fr.header.msgType = .int t
  dst : fr.header.toNode = val dd
  src : fr.header.fromNode = val o
  pack : fr.pack = .ok pk
  len : fr.message.length ≤ MAX_FRAG_SIZE
  hd : IsNode dd
  ho : IsNode o

theorem ackTransit_relay {fr : Frame} {pk : Bytes} {t : Nat} {o d : List Nat} (T : AckTransitS fr pk t o d) :
    Relay fr pk t o d := ⟨T.wire, T.ty, T.dst, T.src, T.pack, T.len, T.hd, T.hx⟩

/-- the acknowledgement of a frame from `o` is a frame from `o` to `o` -/
theorem ackTransit_ackRelay {fr : Frame} {pk pkA : Bytes} {t : Nat} {o d : List Nat} (T : AckTransitS fr pk t o d)
    (hpkA : (ackOf fr).pack = .ok pkA) : Relay (ackOf fr) pkA NETWORK_ACK o o :=
  ⟨ackOf_wire T.wire, rfl, T.src, T.src, hpkA, T.len, T.hx, T.hx⟩

theorem Relay.pkLen {fr : Frame} {pk : Bytes} {t : Nat} {o dd : List Nat} (R : Relay fr pk t o dd) :
    1 ≤ pk.length ∧ pk.length ≤ 32 := by
  have h1 := pack_length R.pack
  have h2 := R.len
  unfold MAX_FRAG_SIZE at h2
  omega

/-! ### the invariant under the context switches and `frame_buf` -/

theorem nodeRadio_pipes {L : LinkCfg} {P : List Bytes} {rx ce : Bool} {aa : Nat} {d : Rf24} {r : Radio}
    (h : NodeRadio L P rx ce aa d r) : ∀ e ∈ r.rxFifo, e.pipe ≤ 5 := by
  obtain ⟨_, _, _, _, _, _, _, _, _, _, _, _, _, _, _, _, _, _, _, _, _, _, _, _, _, _, _, _, h29⟩ := h
  exact h29

theorem netOk_switchTo {cfg : AddrCfg} {L : LinkCfg} {tree : Nat → List Nat} {s : NetState}
    (h : NetOk cfg L tree s) (j : Nat) : NetOk cfg L tree (s.switchTo j) :=
  h.of_same (Same.switchTo s j) h.faults (fun k _ P _ hN => by rw [rf_switchTo, radioAt_switchTo]; exact hN)

theorem netOk_switchBack {cfg : AddrCfg} {L : LinkCfg} {tree : Nat → List Nat} {s : NetState}
    (h : NetOk cfg L tree s) (me j : Nat) : NetOk cfg L tree (s.switchBack me j) :=
  h.of_same (Same.switchBack s me j) h.faults
    (fun k _ P _ hN => by rw [(nodeAt_switchBack s me j k).1, radioAt_switchBack]; exact hN)

theorem netOk_withFrame {cfg : AddrCfg} {L : LinkCfg} {tree : Nat → List Nat} {s : NetState}
    (h : NetOk cfg L tree s) (fb : Frame) : NetOk cfg L tree (s.withFrame fb) :=
  h.of_same (Same.withFrame s fb) h.faults (fun k _ P _ hN => by rw [rf_withFrame, radioAt_withFrame]; exact hN)

theorem queue_withFrame (s : NetState) (fb : Frame) (k : Nat) :
    ((s.withFrame fb).nodeAt k).queue = (s.nodeAt k).queue := by
  unfold NetState.withFrame; rw [nodeAt_setNode]; split <;> rfl

/-! ### `read()` -/

/-- the driver's `read()` in a network that satisfies the invariant: the head of the running node's RX
    FIFO (or `None`), removed; the invariant is kept and nothing else changes -/
theorem read_core (hc : L3Contracts) {cfg : AddrCfg} {L : LinkCfg} {tree : Nat → List Nat} (s : NetState) (i : Nat)
    (hok : NetOk cfg L tree s) (hcur : s.cur = i) (hi : i < s.nodes.length)
    (hfifo : ∀ e ∈ (s.radioAt i).rxFifo, 1 ≤ e.data.length ∧ e.data.length ≤ 32) :
    ∃ s1, nexec (liftRf (Rf24.read none)) s = (.ok ((s.radioAt i).rxFifo.head?.map (·.data)), s1) ∧
      NetOk cfg L tree s1 ∧ s1.cur = i ∧ s1.active = s.active ∧ Same s s1 ∧
      (s1.radioAt i).rxFifo = (s.radioAt i).rxFifo.tail ∧ (s1.radioAt i).lastRx = (s.radioAt i).lastRx ∧
      (∀ k, k < s.nodes.length → k ≠ i → s1.radioAt k = s.radioAt k) ∧
      (∀ k, (s1.nodeAt k).queue = (s.nodeAt k).queue) ∧ (∀ k, k ≠ i → s1.nodeAt k = s.nodeAt k) := by
  subst hcur
  obtain ⟨_, _, _, _, _, hn6⟩ := hok.node s.cur hi
  obtain ⟨P, hP, hN⟩ := hok.radio s.cur hi
  have hWf : s.drv.Wf := hn6
  have hN0 : NodeRadio L P true true 0x3E s.drv.d s.drv.radio := hN
  have hdr : s.drv.radio = s.radioAt s.cur := rfl
  obtain ⟨D, e, F, N, x⟩ := hc.read s.drv L P true true 0x3E hWf hN0
    (fun e he => ⟨nodeRadio_pipes hN0 e he, hfifo e (by rw [← hdr]; exact he)⟩)
  have hsame : Same s (s.afterRf D) := Same.ofFrame s D hi F
  have hradc : (s.afterRf D).radioAt s.cur = D.radio := radioAt_afterRf_cur s D hi
  have hrad : ∀ k, k < s.nodes.length → k ≠ s.cur → (s.afterRf D).radioAt k = s.radioAt k := by
    intro k hk hkc
    rw [radioAt_afterRf_ne s D k hkc]
    exact F.others _ (hok.inj k s.cur hk hi hkc).2
  refine ⟨s.afterRf D, ?_, ?_, rfl, rfl, hsame, ?_, ?_, hrad, fun k => queue_afterRf s D k,
    fun k hk => nodeAt_afterRf_ne s D k hk⟩
  · rw [nexec_liftRf_ok _ s _ D e]; rfl
  · refine hok.of_same hsame (by show D.w.faults = []; rw [F.faults]; exact hok.faults) ?_
    intro k hk P' hP' hN'
    by_cases hkc : k = s.cur
    · subst hkc
      have : P' = P := Except.ok.inj (hP'.symm.trans hP)
      subst this
      rw [hradc, nodeAt_afterRf, if_pos ⟨rfl, hi⟩]
      exact N
    · rw [hrad k hk hkc, nodeAt_afterRf_ne s D k hkc]; exact hN'
  · rw [hradc, x]; rfl
  · rw [hradc]; exact F.lastRx

/-- `self._rf24.read()` of the node layer in a quiet network -/
theorem read_ok (hc : L3Contracts) {cfg : AddrCfg} {L : LinkCfg} {tree : Nat → List Nat} (s : NetState) (i f : Nat)
    (hok : NetOk cfg L tree s) (hcur : s.cur = i) (hi : i < s.nodes.length) (hq : Quiet s)
    (hf : s.nodes.length < f)
    (hfifo : ∀ e ∈ (s.radioAt i).rxFifo, 1 ≤ e.data.length ∧ e.data.length ≤ 32) :
    ∃ s1, nexec (rfRead (f + 1)) s = (.ok ((s.radioAt i).rxFifo.head?.map (·.data)), s1) ∧
      NetOk cfg L tree s1 ∧ s1.cur = i ∧ s1.active = s.active ∧ Same s s1 ∧
      (s1.radioAt i).rxFifo = (s.radioAt i).rxFifo.tail ∧ (s1.radioAt i).lastRx = (s.radioAt i).lastRx ∧
      (∀ k, k < s.nodes.length → k ≠ i → s1.radioAt k = s.radioAt k) ∧
      (∀ k, (s1.nodeAt k).queue = (s.nodeAt k).queue) ∧ (∀ k, k ≠ i → s1.nodeAt k = s.nodeAt k) := by
  obtain ⟨s1, e, rest⟩ := read_core hc s i hok hcur hi hfifo
  refine ⟨s1, ?_, rest⟩
  have harr : s.node.arrivals = [] := by
    have := (hok.node i hi).2.2.2.1
    rw [← hcur] at this; exact this
  rw [rfRead.eq_2, nexec_bind, deliverDue_nil s harr]
  simp only []
  rw [nexec_bind, nexec_get]
  simp only [hok.closed, if_true]
  rw [nexec_bind, runOthers_quiet0 s hq f hf]
  simp only []
  exact e

/-- **`read()` during which exactly one other node runs**: node `j` (off the call stack) is the only one
    with received data; its `update()` (outcome given) leaves the network in order and quiet again;
    then the running node reads the head of what its own RX FIFO holds *after* that run. -/
theorem read_nested (hc : L3Contracts) {cfg : AddrCfg} {L : LinkCfg} {tree : Nat → List Nat} (s sj' : NetState)
    (i j g ru : Nat) (hok : NetOk cfg L tree s) (hcur : s.cur = i) (hi : i < s.nodes.length)
    (hj : j < s.nodes.length) (hji : j ≠ i) (hja : j ∉ s.active)
    (hjf : (s.radioAt j).rxFifo.isEmpty = false)
    (hempty : ∀ k, k < s.nodes.length → k ≠ i → k ≠ j → k ∉ s.active → (s.radioAt k).rxFifo = [])
    (hu : nexec (nodeUpdate g) (s.switchTo j) = (.ok ru, sj'))
    (hok' : NetOk cfg L tree sj') (ha' : sj'.active = j :: s.active) (hsame' : Same (s.switchTo j) sj')
    (hq' : ∀ k, k < s.nodes.length → k ≠ i → k ∉ s.active → (sj'.radioAt k).rxFifo = [])
    (hg : s.nodes.length < g)
    (hfifo : ∀ e ∈ (sj'.radioAt i).rxFifo, 1 ≤ e.data.length ∧ e.data.length ≤ 32) :
    ∃ s6, nexec (rfRead (g + 2 + j)) s = (.ok ((sj'.radioAt i).rxFifo.head?.map (·.data)), s6) ∧
      NetOk cfg L tree s6 ∧ s6.cur = i ∧ s6.active = s.active ∧ Same s s6 ∧
      (s6.radioAt i).rxFifo = (sj'.radioAt i).rxFifo.tail ∧ (s6.radioAt i).lastRx = (sj'.radioAt i).lastRx ∧
      (∀ k, k < s.nodes.length → k ≠ i → s6.radioAt k = sj'.radioAt k) ∧
      (∀ k, (s6.nodeAt k).queue = (sj'.nodeAt k).queue) := by
  have hlen' : sj'.nodes.length = s.nodes.length := by rw [hsame'.len, (Same.switchTo s j).len]
  obtain ⟨Pj, _, hNj⟩ := hok.radio j hj
  generalize hs5 : sj'.switchBack i j = s5
  have hs5c : s5.cur = i := by rw [← hs5]; rfl
  have hs5a : s5.active = s.active := by
    rw [← hs5]; show sj'.active.erase j = _; rw [ha', List.erase_cons_head]
  have hs5l : s5.nodes.length = s.nodes.length := by rw [← hs5, (Same.switchBack sj' i j).len, hlen']
  have hs5rad : ∀ k, s5.radioAt k = sj'.radioAt k := by intro k; rw [← hs5]; exact radioAt_switchBack sj' i j k
  have hs5q : ∀ k, (s5.nodeAt k).queue = (sj'.nodeAt k).queue := by
    intro k; rw [← hs5]; exact (nodeAt_switchBack sj' i j k).2
  have hok5 : NetOk cfg L tree s5 := by rw [← hs5]; exact netOk_switchBack hok' i j
  have hsame5 : Same s s5 := by
    rw [← hs5]; exact ((Same.switchTo s j).trans hsame').trans (Same.switchBack sj' i j)
  have hro : nexec (runOthers (g + 1 + j) 0) s = (.ok (), s5) := by
    have := runOthers_one g s sj' j (.ok ru) hj
      ⟨by rw [hcur]; exact hji, by simpa using hja,
       by
        show (!(s.radioAt j).rxFifo.isEmpty) = true
        rw [hjf]; rfl,
       by
        show (s.radioAt j).rxMode = true
        exact hNj.rxMode⟩
      (by
        intro k hk hrun
        obtain ⟨h1, h2, h3, _⟩ := hrun
        rw [hcur] at h1
        have h2' : k ∉ s.active := by simpa using h2
        have h3' : (!(s.radioAt k).rxFifo.isEmpty) = true := h3
        rw [hempty k (by omega) h1 (by omega) h2'] at h3'
        simp at h3')
      hu hlen' hg
      (by
        intro k hk hkl hrun
        obtain ⟨h1, h2, h3, _⟩ := hrun
        rw [hcur, hs5] at h1 h2 h3
        rw [hs5c] at h1
        rw [hs5a] at h2
        have h2' : k ∉ s.active := by simpa using h2
        have h3' : (!(s5.radioAt k).rxFifo.isEmpty) = true := h3
        rw [hs5rad, hq' k hkl h1 h2'] at h3'
        simp at h3')
    rw [hcur, hs5] at this
    exact this
  obtain ⟨s6, e6, ok6, c6, a6, same6, x6, lr6, rad6, q6, _⟩ := read_core hc s5 i hok5 hs5c (by rw [hs5l]; exact hi)
    (by rw [hs5rad]; exact hfifo)
  rw [hs5rad] at e6 x6 lr6
  refine ⟨s6, ?_, ok6, c6, by rw [a6, hs5a], hsame5.trans same6, x6, lr6, ?_, ?_⟩
  · have harr : s.node.arrivals = [] := by
      have := (hok.node i hi).2.2.2.1
      rw [← hcur] at this; exact this
    rw [show g + 2 + j = (g + 1 + j) + 1 from by omega, rfRead.eq_2, nexec_bind, deliverDue_nil s harr]
    simp only []
    rw [nexec_bind, nexec_get]
    simp only [hok.closed, if_true]
    rw [nexec_bind, hro]
    simp only []
    exact e6
  · intro k hk hki
    rw [rad6 k (by rw [hs5l]; exact hk) hki, hs5rad]
  · intro k; rw [q6, hs5q]

/-! ### relaying a frame -/

/-- one iteration of `_net_update()` that read a frame for another node: `_write(to_node, TX_ROUTED)`,
    verdict ignored, and the loop goes on -/
theorem netUpdate_relay_eq (f rv : Nat) (s s1 : NetState) (fr : Frame) (pk : Bytes) (t : Nat) (o dd x : List Nat)
    (R : Relay fr pk t o dd) (hread : nexec (rfRead (f + 1)) s = (.ok (some pk), s1))
    (hcur1 : s1.cur < s1.nodes.length) (haddr : s1.node.a = nodeSpec x) (hx : IsNode x) (hxd : x ≠ dd)
    (hnd : val x ≠ NETWORK_DEFAULT_ADDR) :
    nexec (netUpdate (f + 2) rv) s =
      match nexec (nodeWrite f (val dd) TX_ROUTED) (s1.withFrame fr) with
      | (.ok _, s3) => nexec (netUpdate (f + 1) 0) s3
      | (.error e, s3) => (.error e, s3) := by
  have hun : s1.node.frameBuf.unpack pk = (fr, true) := by
    have := unpack_of_pack fr s1.node.frameBuf t R.ty pk R.pack
    rw [R.wire] at this; exact this
  have hs2n : (s1.withFrame fr).node = { s1.node with frameBuf := fr } := withFrame_node _ _ hcur1
  have hto : val dd ≠ s1.node.a.addr := by
    rw [haddr]; exact fun e => hxd (val_inj hx.1 R.hd.1 e.symm)
  rw [show f + 2 = (f + 1) + 1 from rfl, netUpdate_step, hread]
  simp only [hun, R.dst, R.src, isValid_val R.hd, isValid_val R.ho, Bool.not_true, Bool.or_self,
    Bool.false_eq_true, if_false]
  simp only [if_neg hto]
  rw [handleOther_forward f _ _
    (by rw [hs2n]; right; show fr.header.toNode ≠ _; rw [R.dst]; exact val_ne_multicast R.hd)
    (by rw [hs2n]; show s1.node.a.addr ≠ _; rw [haddr]; exact hnd), hs2n]
  simp only [R.dst]
  rcases nexec (nodeWrite f (val dd) TX_ROUTED) (s1.withFrame fr) with ⟨r, s3⟩
  cases r <;> rfl

/-- **`_write(to, TX_ROUTED)` of a router that neither awaits nor emits**, at the level of the network
    invariant: node `i` (tree node `x ≠ dd`) hands the frame in `frame_buf` to its hop `j` towards `dd`;
    `j` — possibly suspended on the call stack — has an empty RX FIFO and did not take this very
    packet last.  `True`; the invariant holds again (node `i` listens); `j`'s radio has stored the
    frame; nothing else changed. -/
theorem relay_write (hc : L3Contracts) (cfg : AddrCfg) (hcfg : CfgOk cfg) (L : LinkCfg) (tree : Nat → List Nat)
    (fr : Frame) (pk : Bytes) (t : Nat) (o dd : List Nat) (R : Relay fr pk t o dd)
    (s : NetState) (i j f : Nat) (hok : NetOk cfg L tree s) (hcur : s.cur = i) (hi : i < s.nodes.length)
    (hbuf : s.node.frameBuf = fr) (hxd : tree i ≠ dd) (hj : j < s.nodes.length)
    (htj : tree j = nextHopSpec (tree i) dd)
    (hplain : ¬ (64 < t ∧ t < 192) ∨ nextHopSpec (tree i) dd ≠ dd)
    (hq : Quiet s) (hroom : (s.radioAt j).rxFifo = [])
    (hdup : ∀ l, (s.radioAt j).lastRx = some l → l.data ≠ pk) (hf : s.nodes.length + 2 ≤ f) :
    ∃ s3 pid A, nexec (nodeWrite (f + 2) (val dd) TX_ROUTED) s = (.ok true, s3) ∧
      NetOk cfg L tree s3 ∧ s3.cur = i ∧ s3.active = s.active ∧ Same s s3 ∧
      s3.radioAt j = (s.radioAt j).withRx [{ pipe := hopPipe (tree i) dd, data := pk }]
        { pid := pid, addr := A, data := pk } ∧
      (s3.radioAt i).rxFifo = (s.radioAt i).rxFifo ∧ (s3.radioAt i).lastRx = (s.radioAt i).lastRx ∧
      (∀ k, k < s.nodes.length → k ≠ i → k ≠ j → s3.radioAt k = s.radioAt k) ∧
      (∀ k, (s3.nodeAt k).queue = (s.nodeAt k).queue) ∧ (∀ k, k ≠ i → s3.nodeAt k = s.nodeAt k) := by
  subst hcur
  generalize hx : tree s.cur = x at *
  obtain ⟨hn1, hn2, hn3, hn4, hn5, hn6⟩ := hok.node s.cur hi
  rw [hx] at hn1 hn2
  obtain ⟨P, hP, hN⟩ := hok.radio s.cur hi
  rw [hx] at hP
  have hny : IsNode (nextHopSpec x dd) := isNode_nextHop hn1 R.hd
  have hji : j ≠ s.cur := by
    intro e; rw [e, hx] at htj; exact nextHop_ne_self hxd htj.symm
  obtain ⟨Pj, hPj, hNj⟩ := hok.radio j hj
  rw [htj] at hPj
  obtain ⟨hp1, hp5⟩ : 1 ≤ hopPipe x dd ∧ hopPipe x dd ≤ 5 := by
    have := C04_listens cfg hcfg x dd hn1 R.hd hxd TX_ROUTED (Or.inr rfl)
    exact ⟨this.1, this.2.1⟩
  obtain ⟨A, hA1, hA2, hA3⟩ := listen_addrs cfg hcfg _ hny Pj hPj (hopPipe x dd) hp1 hp5
  have hnode : s.node = s.nodeAt s.cur := rfl
  have hWf : s.drv.Wf := hn6
  obtain ⟨D, e3, r3, l3, f3, N3, x3, lr3, ⟨pid, hrb⟩, hoth3⟩ := nodeWrite_hop_plain hc f s L P Pj j
    (hopPipe x dd) (val dd) (val (nextHopSpec x dd)) (hopPipe x dd) TX_ROUTED t A pk hi hok.closed hf hq hWf hN
    hj hji (fun k hk hkc => (hok.inj k s.cur hk hi hkc).2) hNj
    (by rw [hnode, hn3]; exact hA1) hA2 hp1 hp5 hA3 (by rw [hroom]; decide)
    (fun pid e => hdup _ e rfl)
    (fun r pid hri hrj => hok.hothers (i := s.cur) hcfg hj (by rw [htj]; exact hPj) hp1 hp5 hA2 pk r pid hri hrj)
    hok.faults (by rw [hbuf]; exact R.len) (by rw [hbuf]; exact R.pack)
    (by
      rw [hnode, hn2]
      exact fun e => nextHop_ne_self hxd (val_inj hny.1 hn1.1 e))
    (by rw [hbuf]; exact R.ty)
    (by rw [hnode, hn2, l2p_tree hn1 R.hd (Or.inr rfl)])
    (by
      rcases hplain with h | h
      · exact Or.inl h
      · exact Or.inr ⟨rfl, fun e => h (val_inj hny.1 R.hd.1 e)⟩)
  have hrb' : D.w.radio (s.ridAt j) = (s.radioAt j).withRx [{ pipe := hopPipe x dd, data := pk }]
      { pid := pid, addr := A, data := pk } := by
    rw [hrb, hroom]; rfl
  have hsame : Same s (s.afterRf D) := by
    refine Same.afterRf s D hi r3 l3 ?_
    intro r hr
    exact hoth3 r (fun e => hr s.cur hi e.symm) (fun e => hr j hj e.symm)
  have hradc : (s.afterRf D).radioAt s.cur = D.radio := radioAt_afterRf_cur s D hi
  have hDrad : D.radio = D.w.radio (s.ridAt s.cur) := by
    show D.w.radio D.d.rid = _
    rw [r3]; rfl
  have hradj : (s.afterRf D).radioAt j = (s.radioAt j).withRx [{ pipe := hopPipe x dd, data := pk }]
      { pid := pid, addr := A, data := pk } := by
    rw [radioAt_afterRf_ne s D j hji, hrb']
  have hrad : ∀ k, k < s.nodes.length → k ≠ s.cur → k ≠ j → (s.afterRf D).radioAt k = s.radioAt k := by
    intro k hk hkc hkj
    rw [radioAt_afterRf_ne s D k hkc]
    exact hoth3 _ (hok.inj k s.cur hk hi hkc).2 (hok.inj k j hk hj hkj).2
  refine ⟨s.afterRf D, pid, A, e3, ?_, rfl, rfl, hsame, hradj, ?_, ?_, hrad, fun k => queue_afterRf s D k,
    fun k hk => nodeAt_afterRf_ne s D k hk⟩
  · refine hok.of_same hsame (by show D.w.faults = []; exact f3) ?_
    intro k hk P' hP' hN'
    by_cases hkc : k = s.cur
    · subst hkc
      rw [hx] at hP'
      have : P' = P := Except.ok.inj (hP'.symm.trans hP)
      subst this
      rw [hradc, nodeAt_afterRf, if_pos ⟨rfl, hi⟩]
      exact N3
    · rw [nodeAt_afterRf_ne s D k hkc]
      by_cases hkj : k = j
      · subst hkj; rw [hradj]; exact hN'.withRx _ _ _ hp5
      · rw [hrad k hk hkc hkj]; exact hN'
  · rw [hradc, x3]; rfl
  · rw [hradc, lr3]; rfl

/-- **One relaying iteration of `_net_update()`** once the frame has been read: dispatch, `_write`, and
    the loop goes on from a state in which the invariant holds again -/
theorem relay_step (hc : L3Contracts) (cfg : AddrCfg) (hcfg : CfgOk cfg) (L : LinkCfg) (tree : Nat → List Nat)
    (fr : Frame) (pk : Bytes) (t : Nat) (o dd : List Nat) (R : Relay fr pk t o dd)
    (hndef : ∀ i, val (tree i) ≠ NETWORK_DEFAULT_ADDR)
    (s s1 : NetState) (i j f rv : Nat) (hread : nexec (rfRead (f + 3)) s = (.ok (some pk), s1))
    (hok : NetOk cfg L tree s1) (hcur : s1.cur = i) (hi : i < s1.nodes.length)
    (hxd : tree i ≠ dd) (hj : j < s1.nodes.length) (htj : tree j = nextHopSpec (tree i) dd)
    (hplain : ¬ (64 < t ∧ t < 192) ∨ nextHopSpec (tree i) dd ≠ dd)
    (hq : Quiet s1) (hroom : (s1.radioAt j).rxFifo = [])
    (hdup : ∀ l, (s1.radioAt j).lastRx = some l → l.data ≠ pk) (hf : s1.nodes.length + 2 ≤ f) :
    ∃ s3 pid A, nexec (netUpdate (f + 4) rv) s = nexec (netUpdate (f + 3) 0) s3 ∧
      NetOk cfg L tree s3 ∧ s3.cur = i ∧ s3.active = s1.active ∧ Same s1 s3 ∧
      s3.radioAt j = (s1.radioAt j).withRx [{ pipe := hopPipe (tree i) dd, data := pk }]
        { pid := pid, addr := A, data := pk } ∧
      (s3.radioAt i).rxFifo = (s1.radioAt i).rxFifo ∧ (s3.radioAt i).lastRx = (s1.radioAt i).lastRx ∧
      (∀ k, k < s1.nodes.length → k ≠ i → k ≠ j → s3.radioAt k = s1.radioAt k) ∧
      (∀ k, (s3.nodeAt k).queue = (s1.nodeAt k).queue) ∧ (∀ k, k ≠ i → s3.nodeAt k = s1.nodeAt k) := by
  obtain ⟨hn1, hn2, _⟩ := hok.node i hi
  have hcl : s1.cur < s1.nodes.length := by rw [hcur]; exact hi
  have hq2 : Quiet (s1.withFrame fr) := by
    intro k hk hkc hka
    rw [radioAt_withFrame]
    exact hq k (by simpa using hk) hkc hka
  obtain ⟨s3, pid, A, e, ok3, c3, a3, same3, rj, xi, lri, rad, q3, nd3⟩ := relay_write hc cfg hcfg L tree fr pk t o dd R
    (s1.withFrame fr) i j f (netOk_withFrame hok fr) hcur (by simpa using hi)
    (by rw [withFrame_node _ _ hcl]) hxd (by simpa using hj) htj hplain hq2
    (by rw [radioAt_withFrame]; exact hroom) (by rw [radioAt_withFrame]; exact hdup) (by simpa using hf)
  refine ⟨s3, pid, A, ?_, ok3, c3, a3, (Same.withFrame s1 fr).trans same3, ?_, ?_, ?_, ?_, ?_, ?_⟩
  · rw [show f + 4 = (f + 2) + 2 from rfl,
      netUpdate_relay_eq (f + 2) rv s s1 fr pk t o dd (tree i) R hread hcl
        (by rw [node_eq_nodeAt, hcur]; exact hn2) hn1 hxd (hndef i), e]
  · rw [rj, radioAt_withFrame]
  · rw [xi, radioAt_withFrame]
  · rw [lri, radioAt_withFrame]
  · intro k hk hki hkj
    rw [rad k (by simpa using hk) hki hkj, radioAt_withFrame]
  · intro k; rw [q3, queue_withFrame]
  · intro k hk
    rw [nd3 k hk, nodeAt_withFrame_ne _ _ _ (by rw [hcur]; exact hk)]

end Nrf.Net.Hops
