/-
Symbolic execution of `NetM` computations (the node layer, `NrfModel/Net/Node.lean`):
`nexec m s = (result, final state)` and the rewrite rules that push `nexec` through the monad
operations — the `NetM` counterpart of `NrfProofs/Exec.lean`.  Generic rules only.
-/
import NrfModel.Net.Api
import NrfProofs.Exec
import NrfProofs.NetExecCore

namespace Nrf.Net
open Nrf

-- `nexec`, `NetState.node`, `NetState.setNode`, `NetState.drv`: NrfProofs/NetExecCore.lean (shared with the C07 stack)

/-- the state after an `RF24` method of the running node's radio object ran to the driver state `d` -/
def NetState.afterRf (s : NetState) (d : DrvState) : NetState :=
  { s with nodes := s.nodes.modify s.cur (fun n => { n with rf := d.d }), w := d.w }

@[simp] theorem nexec_pure {α} (a : α) (s : NetState) : nexec (pure a : NetM α) s = (.ok a, s) := rfl

theorem nexec_bind {α β} (x : NetM α) (f : α → NetM β) (s : NetState) :
    nexec (x >>= f) s =
      match nexec x s with
      | (.ok a, s') => nexec (f a) s'
      | (.error e, s') => (.error e, s') := by
  unfold nexec
  simp only [ExceptT.run_bind]
  show (x.run >>= _).run s = _
  rw [StateT.run_bind]
  show (match x.run.run s with | (a, s') => _) = _
  rcases h : x.run.run s with ⟨r, s'⟩
  cases r <;> rfl

@[simp] theorem nexec_throw {α} (e : PyErr) (s : NetState) : nexec (throw e : NetM α) s = (.error e, s) := rfl
@[simp] theorem nexec_get (s : NetState) : nexec (get : NetM NetState) s = (.ok s, s) := rfl
@[simp] theorem nexec_set (s' s : NetState) : nexec (set s' : NetM Unit) s = (.ok (), s') := rfl
@[simp] theorem nexec_modify (f : NetState → NetState) (s : NetState) :
    nexec (modify f : NetM Unit) s = (.ok (), f s) := rfl
@[simp] theorem nexec_getNode (s : NetState) : nexec getNode s = (.ok s.node, s) := rfl
@[simp] theorem nexec_modNode (f : Node → Node) (s : NetState) :
    nexec (modNode f) s = (.ok (), s.setNode f) := rfl
@[simp] theorem nexec_setHdr (f : Header → Header) (s : NetState) :
    nexec (setHdr f) s =
      (.ok (), s.setNode fun n => { n with frameBuf := { n.frameBuf with header := f n.frameBuf.header } }) := rfl
@[simp] theorem nexec_nowNs (s : NetState) : nexec nowNs s = (.ok s.w.clock, s) := rfl
@[simp] theorem nexec_sleepNs (n : Nat) (s : NetState) :
    nexec (sleepNs n) s = (.ok (), { s with w := s.w.sleep n }) := rfl
@[simp] theorem nexec_takeId (s : NetState) :
    nexec takeId s = (.ok s.nextId, { s with nextId := (s.nextId + 1) &&& 0xFFFF }) := rfl

@[simp] theorem nexec_liftRf {α} (m : DrvM α) (s : NetState) :
    nexec (liftRf m) s = ((exec m s.drv).1, s.afterRf (exec m s.drv).2) := rfl

@[simp] theorem nexec_liftPy_ok {α} (a : α) (s : NetState) : nexec (liftPy (.ok a)) s = (.ok a, s) := rfl
@[simp] theorem nexec_liftPy_error {α} (e : PyErr) (s : NetState) :
    nexec (liftPy (.error e : PyM α)) s = (.error e, s) := rfl

theorem nexec_liftPy {α} (x : PyM α) (s : NetState) :
    nexec (liftPy x) s = (x, s) := by cases x <;> rfl

@[simp] theorem nexec_ite {α} (c : Prop) [Decidable c] (a b : NetM α) (s : NetState) :
    nexec (if c then a else b) s = if c then nexec a s else nexec b s := by
  split <;> rfl

theorem nexec_tryCatch {α} (x : NetM α) (h : PyErr → NetM α) (s : NetState) :
    nexec (tryCatch x h) s =
      match nexec x s with
      | (.ok a, s') => (.ok a, s')
      | (.error e, s') => nexec (h e) s' := by
  unfold nexec
  show (ExceptT.run (ExceptT.tryCatch x h)).run s = _
  unfold ExceptT.tryCatch
  simp only [ExceptT.run_mk]
  show (x.run >>= _).run s = _
  rw [StateT.run_bind]
  show (match x.run.run s with | (a, s') => _) = _
  rcases hx : x.run.run s with ⟨r, s'⟩
  cases r <;> rfl

theorem nexec_map {α β} (g : α → β) (x : NetM α) (s : NetState) :
    nexec (g <$> x) s =
      match nexec x s with
      | (.ok a, s') => (.ok (g a), s')
      | (.error e, s') => (.error e, s') := by
  rw [map_eq_pure_bind, nexec_bind]
  rcases nexec x s with ⟨r, s'⟩
  cases r <;> rfl

/-! ### relational forms (for invariants and safety proofs) -/

/-- a bind ends normally iff both parts do -/
theorem nexec_bind_ok {α β} {x : NetM α} {f : α → NetM β} {s s'' : NetState} {b : β} :
    nexec (x >>= f) s = (.ok b, s'') ↔
      ∃ a s', nexec x s = (.ok a, s') ∧ nexec (f a) s' = (.ok b, s'') := by
  rw [nexec_bind]
  rcases h : nexec x s with ⟨r, s'⟩
  cases r with
  | ok a =>
    constructor
    · intro h'; exact ⟨a, s', rfl, h'⟩
    · rintro ⟨a', s1, h1, h2⟩
      simp only [Prod.mk.injEq, Except.ok.injEq] at h1
      obtain ⟨rfl, rfl⟩ := h1
      exact h2
  | error e => simp

/-- every outcome of a bind: the first part failed, or it ended normally and the second part
    produced the outcome -/
theorem nexec_bind_cases {α β} {x : NetM α} {f : α → NetM β} {s s'' : NetState} {r : Except PyErr β}
    (h : nexec (x >>= f) s = (r, s'')) :
    (∃ e, nexec x s = (.error e, s'') ∧ r = .error e) ∨
      ∃ a s', nexec x s = (.ok a, s') ∧ nexec (f a) s' = (r, s'') := by
  rw [nexec_bind] at h
  rcases hx : nexec x s with ⟨rx, s'⟩
  rw [hx] at h
  cases rx with
  | ok a => exact Or.inr ⟨a, s', rfl, h⟩
  | error e =>
    simp only [Prod.mk.injEq] at h
    exact Or.inl ⟨e, by rw [h.2], h.1.symm⟩

end Nrf.Net
