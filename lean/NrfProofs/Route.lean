/-
Pure list facts about the tree spec: longest common prefix, the closed form of the position after
`n` hops of `nextHopSpec`, and the model's `_logi_2_phys` against `nextHopSpec`.
-/
import NrfProofs.Tree

namespace Nrf.Proofs
open Nrf.Net Nrf.Spec

/-! ### longest common prefix -/

theorem lcp_prefix_left (s d : List Nat) : lcp s d <+: s := by
  induction s generalizing d with
  | nil => simp [lcp]
  | cons a s ih =>
    cases d with
    | nil => simp [lcp]
    | cons b d =>
      simp only [lcp]
      split
      · simp [ih d]
      · simp

theorem lcp_prefix_right (s d : List Nat) : lcp s d <+: d := by
  induction s generalizing d with
  | nil => simp [lcp]
  | cons a s ih =>
    cases d with
    | nil => simp [lcp]
    | cons b d =>
      simp only [lcp]
      split
      · rename_i h; subst h; simp [ih d]
      · simp

/-- every common ancestor is an ancestor of the longest common prefix -/
theorem lcp_max {p s d : List Nat} (hs : p <+: s) (hd : p <+: d) : p <+: lcp s d := by
  induction p generalizing s d with
  | nil => simp
  | cons x p ih =>
    cases s with
    | nil => simp at hs
    | cons a s =>
      cases d with
      | nil => simp at hd
      | cons b d =>
        rw [List.cons_prefix_cons] at hs hd
        obtain ⟨rfl, hs⟩ := hs
        obtain ⟨rfl, hd⟩ := hd
        simp [lcp, ih hs hd]

theorem lcp_length_le_left (s d : List Nat) : (lcp s d).length ≤ s.length :=
  (lcp_prefix_left s d).length_le

theorem lcp_length_le_right (s d : List Nat) : (lcp s d).length ≤ d.length :=
  (lcp_prefix_right s d).length_le

theorem lcp_eq_take_left (s d : List Nat) : lcp s d = s.take (lcp s d).length :=
  List.prefix_iff_eq_take.mp (lcp_prefix_left s d)

theorem lcp_eq_take_right (s d : List Nat) : lcp s d = d.take (lcp s d).length :=
  List.prefix_iff_eq_take.mp (lcp_prefix_right s d)

theorem lcp_of_prefix {s d : List Nat} (h : s <+: d) : lcp s d = s :=
  (lcp_prefix_left s d).eq_of_length_le (lcp_max (List.prefix_refl s) h).length_le

/-- an ancestor `s.take m` of `s` is an ancestor of `d` exactly when it is not deeper than the
    longest common prefix -/
theorem take_prefix_iff {s d : List Nat} {m : Nat} (hm : m ≤ s.length) :
    s.take m <+: d ↔ m ≤ (lcp s d).length := by
  constructor
  · intro h
    have := (lcp_max (List.take_prefix m s) h).length_le
    simpa [List.length_take, Nat.min_eq_left hm] using this
  · intro h
    have h1 : s.take m <+: s.take (lcp s d).length := List.take_prefix_take_left h
    rw [← lcp_eq_take_left] at h1
    exact h1.trans (lcp_prefix_right s d)

theorem not_prefix_lcp_lt {s d : List Nat} (h : ¬ s <+: d) : (lcp s d).length < s.length := by
  apply Nat.lt_of_le_of_ne (lcp_length_le_left s d)
  intro he
  apply h
  have := (lcp_prefix_left s d).eq_of_length he
  rw [← this]
  exact lcp_prefix_right s d

theorem lcp_dropLast {s d : List Nat} (h : ¬ s <+: d) : lcp s.dropLast d = lcp s d := by
  have hlt := not_prefix_lcp_lt h
  have h1 : lcp s d <+: s.dropLast := by
    rw [List.dropLast_eq_take, List.prefix_take_iff]
    exact ⟨lcp_prefix_left s d, by omega⟩
  have h2 : lcp s.dropLast d <+: s :=
    (lcp_prefix_left _ d).trans (by rw [List.dropLast_eq_take]; exact List.take_prefix _ _)
  have a := lcp_max h1 (lcp_prefix_right s d)
  have b := lcp_max h2 (lcp_prefix_right _ d)
  exact b.eq_of_length_le a.length_le

/-! ### hops -/

theorem nextHop_of_prefix {s d : List Nat} (h : s <+: d) :
    nextHopSpec s d = d.take (s.length + 1) := by simp [nextHopSpec, h]

theorem nextHop_of_not_prefix {s d : List Nat} (h : ¬ s <+: d) :
    nextHopSpec s d = s.dropLast := by simp [nextHopSpec, h, parent]

/-- below a common ancestor the frame only descends -/
theorem hops_down {s d : List Nat} (h : s <+: d) (n : Nat) : hops n s d = d.take (s.length + n) := by
  induction n generalizing s with
  | zero => simpa [hops] using List.prefix_iff_eq_take.mp h
  | succ n ih =>
    have hl := h.length_le
    rw [hops, nextHop_of_prefix h, ih (List.take_prefix _ _), List.length_take]
    by_cases hlt : s.length + 1 ≤ d.length
    · rw [Nat.min_eq_left hlt]; congr 1; omega
    · rw [List.take_of_length_le (i := s.length + (n + 1)) (by omega),
        List.take_of_length_le (by omega)]

/-- position after `n` hops: `n` steps up while above the common ancestor, then down -/
theorem hops_eq (s d : List Nat) (n : Nat) :
    hops n s d =
      if n ≤ s.length - (lcp s d).length then s.take (s.length - n)
      else d.take ((lcp s d).length + (n - (s.length - (lcp s d).length))) := by
  induction hk : s.length generalizing s n with
  | zero =>
    have : s = [] := List.length_eq_zero_iff.mp hk
    subst this
    have := hops_down (List.nil_prefix (l := d)) n
    simp only [List.length_nil, Nat.zero_add] at this
    cases n with
    | zero => simp [hops]
    | succ n => rw [this]; simp [lcp]
  | succ k ih =>
    by_cases hp : s <+: d
    · rw [lcp_of_prefix hp, hops_down hp, hk]
      cases n with
      | zero => simp [← hk]; exact (List.prefix_iff_eq_take.mp hp).symm
      | succ n => simp
    · have hlt := not_prefix_lcp_lt hp
      cases n with
      | zero => simp [hops, ← hk]
      | succ n =>
        have hlen : s.dropLast.length = k := by simp [hk]
        rw [hops, nextHop_of_not_prefix hp, ih s.dropLast n hlen, lcp_dropLast hp]
        rw [hk] at hlt
        by_cases hc : n ≤ k - (lcp s d).length
        · rw [if_pos hc, if_pos (by omega), List.dropLast_eq_take, List.take_take, hk]
          congr 1; omega
        · rw [if_neg hc, if_neg (by omega)]
          congr 1; omega

theorem dist_eq (s d : List Nat) :
    dist s d = (s.length - (lcp s d).length) + (d.length - (lcp s d).length) := by
  have := lcp_length_le_left s d
  have := lcp_length_le_right s d
  unfold dist; omega

/-- after `dist s d` hops the frame is at `d` -/
theorem hops_dist (s d : List Nat) : hops (dist s d) s d = d := by
  have h1 := lcp_length_le_left s d
  have h2 := lcp_length_le_right s d
  rw [hops_eq, dist_eq]
  split
  · rename_i h
    have hc : d.length = (lcp s d).length := by omega
    have : s.length - (s.length - (lcp s d).length + (d.length - (lcp s d).length))
        = (lcp s d).length := by omega
    rw [this, ← lcp_eq_take_left]
    exact (lcp_prefix_right s d).eq_of_length hc.symm
  · apply List.take_of_length_le; omega

/-- … and not earlier -/
theorem hops_ne_before {s d : List Nat} {n : Nat} (h : n < dist s d) : hops n s d ≠ d := by
  have h1 := lcp_length_le_left s d
  have h2 := lcp_length_le_right s d
  rw [dist_eq] at h
  rw [hops_eq]
  intro he
  split at he
  · rename_i hle
    have hp : s.take (s.length - n) <+: d := by rw [he]; exact List.prefix_refl d
    rw [take_prefix_iff (by omega)] at hp
    have hl := congrArg List.length he
    rw [List.length_take] at hl
    omega
  · have hl := congrArg List.length he
    rw [List.length_take] at hl
    omega

/-- the nodes visited are the positions after 0, 1, …, k hops, `k` the first time `d` is reached -/
theorem routeSpec_eq_map_hops {f k : Nat} {s d : List Nat} (hk : k ≤ f) (hd : hops k s d = d)
    (hb : ∀ i, i < k → hops i s d ≠ d) :
    routeSpec f s d = (List.range (k + 1)).map fun i => hops i s d := by
  induction f generalizing s k with
  | zero =>
    have : k = 0 := by omega
    subst this; simp [routeSpec, hops]
  | succ f ih =>
    rw [routeSpec]
    by_cases hsd : s = d
    · have : k = 0 := by
        cases k with
        | zero => rfl
        | succ k => exact absurd (by simpa [hops] using hsd) (hb 0 (by omega))
      subst this; simp [hsd, hops]
    · cases k with
      | zero => exact absurd (by simpa [hops] using hd) hsd
      | succ k =>
        rw [if_neg hsd, ih (k := k) (by omega) (by simpa [hops] using hd)
          (fun i hi => by simpa [hops] using hb (i + 1) (by omega))]
        rw [List.range_succ_eq_map (n := k + 1)]
        simp [hops, List.map_map, Function.comp_def]

/-- the positions after 0 … `dist s d` hops are exactly the tree path -/
theorem map_hops_eq_treePath (s d : List Nat) :
    ((List.range (dist s d + 1)).map fun i => hops i s d) = treePath s d := by
  have h1 := lcp_length_le_left s d
  have h2 := lcp_length_le_right s d
  have : dist s d + 1 = (s.length - (lcp s d).length) + (d.length - (lcp s d).length + 1) := by
    rw [dist_eq]; omega
  rw [this, List.range_add, List.map_append, treePath]
  congr 1
  · apply List.map_congr_left
    intro i hi
    rw [List.mem_range] at hi
    rw [hops_eq, if_pos (by omega)]
  · rw [List.map_map]
    apply List.map_congr_left
    intro j hj
    rw [List.mem_range] at hj
    simp only [Function.comp_def]
    rw [hops_eq]
    split
    · rename_i hle
      have hj0 : j = 0 := by omega
      subst hj0
      have : s.length - (s.length - (lcp s d).length + 0) = (lcp s d).length := by omega
      rw [this, ← lcp_eq_take_left, Nat.add_zero, ← lcp_eq_take_right]
    · congr 1; omega

theorem routeSpec_eq_treePath {f : Nat} {s d : List Nat} (hf : dist s d ≤ f) :
    routeSpec f s d = treePath s d := by
  rw [routeSpec_eq_map_hops hf (hops_dist s d) (fun i hi => hops_ne_before hi),
    map_hops_eq_treePath]

/-- every hop goes to the parent or to a direct child -/
theorem nextHop_parent_or_child {s d : List Nat} (hsd : s ≠ d) :
    (s ≠ [] ∧ nextHopSpec s d = parent s) ∨ (parent (nextHopSpec s d) = s ∧ nextHopSpec s d ≠ []) := by
  by_cases hp : s <+: d
  · right
    have hl : s.length < d.length := by
      apply Nat.lt_of_le_of_ne hp.length_le
      intro he; exact hsd (hp.eq_of_length he)
    rw [nextHop_of_prefix hp, parent, List.dropLast_eq_take, List.take_take, List.length_take]
    constructor
    · have : min (min (s.length + 1) d.length - 1) (s.length + 1) = s.length := by omega
      rw [this]; exact (List.prefix_iff_eq_take.mp hp).symm
    · intro h0
      have := congrArg List.length h0
      rw [List.length_take, List.length_nil] at this
      omega
  · left
    refine ⟨?_, nextHop_of_not_prefix hp⟩
    intro h0; subst h0; exact hp List.nil_prefix

theorem nextHop_ne_self {s d : List Nat} (hsd : s ≠ d) : nextHopSpec s d ≠ s := by
  intro he
  rcases nextHop_parent_or_child hsd with ⟨hne, hp⟩ | ⟨hp, hne⟩
  · rw [he] at hp
    have := congrArg List.length hp
    have hl : 0 < s.length := List.length_pos_iff.mpr hne
    simp [parent] at this
    omega
  · rw [he] at hp hne
    have := congrArg List.length hp
    have hl : 0 < s.length := List.length_pos_iff.mpr hne
    simp [parent] at this
    omega

theorem isNode_nextHop {s d : List Nat} (hs : IsNode s) (hd : IsNode d) : IsNode (nextHopSpec s d) := by
  unfold nextHopSpec parent
  split
  · exact isNode_take hd _
  · exact isNode_dropLast hs

theorem dist_le_eight {s d : List Nat} (hs : IsNode s) (hd : IsNode d) : dist s d ≤ 8 := by
  have := hs.2; have := hd.2; unfold dist; omega

/-! ### the model's next hop -/

theorem pow8_le {n : Nat} (h : n ≤ 4) : 8 ^ n ≤ 4096 := by
  have : (8 : Nat) ^ n ≤ 8 ^ 4 := Nat.pow_le_pow_right (by omega) h
  simpa using this

theorem val_lt_4096 {d : List Nat} (hd : IsNode d) : val d < 4096 :=
  Nat.lt_of_lt_of_le (val_lt (digitsOk_lt8 hd.1)) (pow8_le hd.2)

/-- `_begin` on a tree node -/
theorem begin_node {s : List Nat} (hs : IsNode s) :
    beginAddr (val s) = some (nodeOf (val s) s.length) := begin_num (levelOf_val hs)

/-- `_logi_2_phys` of node `s` towards node `d` is the tree neighbour of the spec; downwards on
    pipe 5, upwards on the pipe numbered like the sender's own last digit -/
theorem l2p_node {s d : List Nat} (hs : IsNode s) (hd : IsNode d) {st : Nat} (hst : st ≤ 1) :
    logi2phys (nodeOf (val s) s.length) (val d) st =
      (val (nextHopSpec s d), if s <+: d then 5 else s.getLast?.getD 0, false) := by
  rw [l2p_num hs.2 _ _ (val_lt_4096 hd), if_neg (by omega)]
  by_cases hp : s <+: d
  · rw [if_pos ((prefix_iff_mod hs.1 hd.1).mp hp), if_pos hp, nextHop_of_prefix hp,
      val_take (digitsOk_lt8 hd.1)]
  · have hne : s ≠ [] := by intro h0; subst h0; exact hp List.nil_prefix
    rw [if_neg (fun h => hp ((prefix_iff_mod hs.1 hd.1).mpr h)), if_neg hp,
      nextHop_of_not_prefix hp, val_dropLast (digitsOk_lt8 hs.1),
      getLast?_eq_div (digitsOk_lt8 hs.1) hne]
    rfl

end Nrf.Proofs
