/-
C05 helper lemmas, part 8: `NetQueue.enqueue` (the by-value `FrameQueueFrag` of the node model) fed
with the fragments FIRST, MORE*, LAST of one message, in sequence, rebuilds the message.
-/
import NrfProofs.C05Local
import NrfProofs.C05Closed
import NrfProofs.Frag

namespace Nrf.Net
open Nrf Nrf.Spec

/-- fragment `k` of `n` of a message `(a, b, i, msgT, msg)` as the receiver unpacks it -/
def rxFrag (a b i msgT n : Nat) (msg : Bytes) (k : Nat) : Frame :=
  if k + 1 = n then ⟨⟨a, b, i, .int MSG_FRAG_LAST, msgT⟩, msg.drop (24 * k)⟩
  else if k = 0 then ⟨⟨a, b, i, .int MSG_FRAG_FIRST, n⟩, msg.take 24⟩
  else ⟨⟨a, b, i, .int MSG_FRAG_MORE, n - k⟩, (msg.drop (24 * k)).take 24⟩

/-- the fields of a header that fit the wire are unchanged by the wire copy -/
theorem wireCopy_id (a b i t r : Nat) (m : Bytes) (ha : a < 4096) (hb : b < 4096) (hi : i < 65536)
    (ht : t < 256) (hr : r < 256) : wireCopy ⟨⟨a, b, i, .int t, r⟩, m⟩ = ⟨⟨a, b, i, .int t, r⟩, m⟩ := by
  unfold wireCopy
  simp only [Header.ty]
  have e1 : a &&& 0xFFF = a := by
    have := Nat.and_two_pow_sub_one_eq_mod a 12; simp at this; rw [this]; exact Nat.mod_eq_of_lt ha
  have e2 : b &&& 0xFFF = b := by
    have := Nat.and_two_pow_sub_one_eq_mod b 12; simp at this; rw [this]; exact Nat.mod_eq_of_lt hb
  have e3 : i &&& 0xFFFF = i := by
    have := Nat.and_two_pow_sub_one_eq_mod i 16; simp at this; rw [this]; exact Nat.mod_eq_of_lt hi
  have e4 : t &&& 0xFF = t := by
    have := Nat.and_two_pow_sub_one_eq_mod t 8; simp at this; rw [this]; exact Nat.mod_eq_of_lt ht
  have e5 : r &&& 0xFF = r := by
    have := Nat.and_two_pow_sub_one_eq_mod r 8; simp at this; rw [this]; exact Nat.mod_eq_of_lt hr
  rw [e1, e2, e3, e4, e5]

/-- the reassembly cache after fragments `0 .. k` (k ≤ n − 2) -/
def cacheAfter (a b i n : Nat) (msg : Bytes) (k : Nat) : Frame :=
  ⟨⟨a, b, i, .int (if k = 0 then MSG_FRAG_FIRST else MSG_FRAG_MORE), n - k⟩, msg.take (24 * (k + 1))⟩

section
variable (a b i msgT n : Nat) (msg : Bytes) (ha : a < 4096) (hb : b < 4096) (hi : i < 65536) (hn2 : 2 ≤ n)
  (hn : n < 256)
include ha hb hi hn2 hn

/-- FIRST: the cache is (re)started with the fragment -/
theorem enqueue_first (q : NetQueue) (hq : q.frag = true) :
    q.enqueue (rxFrag a b i msgT n msg 0) =
      ({ q with cache := cacheAfter a b i n msg 0, cacheValid := true }, true, rxFrag a b i msgT n msg 0) := by
  have h0 : ¬ (0 + 1 = n) := by omega
  unfold rxFrag NetQueue.enqueue
  simp only [h0, if_false, if_true, hq, Bool.not_true, Bool.false_eq_true, Header.ty, true_or]
  rw [wireCopy_id a b i MSG_FRAG_FIRST n _ ha hb hi (by decide) hn]
  rfl

/-- MORE `k` (1 ≤ k ≤ n − 2) on the cache after `0 .. k−1`: appended -/
theorem enqueue_more (q : NetQueue) (hq : q.frag = true) (k : Nat) (hk1 : 1 ≤ k) (hk : k + 2 ≤ n)
    (hc : q.cache = cacheAfter a b i n msg (k - 1)) (hv : q.cacheValid = true) :
    q.enqueue (rxFrag a b i msgT n msg k) =
      ({ q with cache := cacheAfter a b i n msg k }, true, rxFrag a b i msgT n msg k) := by
  have h0 : ¬ (k + 1 = n) := by omega
  have h1 : ¬ (k = 0) := by omega
  unfold rxFrag NetQueue.enqueue
  simp only [h0, h1, if_false, hq, Bool.not_true, Bool.false_eq_true, Header.ty]
  have hty : (MSG_FRAG_MORE = MSG_FRAG_FIRST ∨ MSG_FRAG_MORE = MSG_FRAG_MORE ∨ MSG_FRAG_MORE = MSG_FRAG_LAST) := by
    decide
  have hnf : ¬ (MSG_FRAG_MORE = MSG_FRAG_FIRST) := by decide
  have hnl : ¬ (MSG_FRAG_MORE = MSG_FRAG_LAST) := by decide
  simp only [hty, if_true, hnf, if_false, hv, hc, cacheAfter, beq_self_eq_true, Bool.and_self, hnl]
  have hseq : ((n - (k - 1) : Nat) : Int) - 1 = ((n - k : Nat) : Int) := by omega
  simp only [hseq, decide_true, Bool.not_true, Bool.false_eq_true, if_false]
  have hw := wireCopy_id a b i MSG_FRAG_MORE (n - k) [] ha hb hi (by decide) (by omega)
  simp only [hw]
  congr 2
  · simp [cacheAfter, h1]
    -- the bytes: take (24 k) ++ take 24 (drop (24 k)) = take (24 (k+1))
    have : msg.take (24 * (k - 1 + 1)) ++ (msg.drop (24 * k)).take 24 = msg.take (24 * (k + 1)) := by
      rw [show k - 1 + 1 = k from by omega, show 24 * (k + 1) = 24 * k + 24 from by omega, List.take_add]
    exact this

/-- LAST on the cache after `0 .. n−2`: the message is complete and goes through the plain queue,
    with its own type again; the cache is invalidated -/
theorem enqueue_last (q : NetQueue) (hq : q.frag = true) (hm : msgT < 256) (hne : msgT ≠ NETWORK_EXT_DATA)
    (hc : q.cache = cacheAfter a b i n msg (n - 2)) (hv : q.cacheValid = true)
    (hroom : (q.frames.length : Int) < q.maxSize)
    (hnew : ∀ g ∈ q.frames, ¬ (g.header.fromNode = a ∧ g.header.frameId = i ∧ g.header.ty = msgT)) :
    q.enqueue (rxFrag a b i msgT n msg (n - 1)) =
      ({ q with cache := ⟨⟨a, b, i, .int msgT, msgT⟩, msg⟩, cacheValid := false,
                frames := q.frames ++ [⟨⟨a, b, i, .int msgT, msgT⟩, msg⟩] }, true,
       rxFrag a b i msgT n msg (n - 1)) := by
  have h0 : n - 1 + 1 = n := by omega
  cases q with
  | mk frs ms fg ca cv =>
    simp only at hq hv hc hroom hnew
    subst hq hv hc
    unfold rxFrag NetQueue.enqueue
    simp only [h0, if_true, Bool.not_true, Bool.false_eq_true, if_false, Header.ty]
    have hty : (MSG_FRAG_LAST = MSG_FRAG_FIRST ∨ MSG_FRAG_LAST = MSG_FRAG_MORE ∨ MSG_FRAG_LAST = MSG_FRAG_LAST) := by
      decide
    have hnf : ¬ (MSG_FRAG_LAST = MSG_FRAG_FIRST) := by decide
    simp only [hty, if_true, hnf, if_false, cacheAfter, beq_self_eq_true, Bool.and_self]
    have hseq : ((n - (n - 2) : Nat) : Int) - 1 ≤ 1 := by omega
    simp only [hseq, decide_true, Bool.not_true, Bool.false_eq_true, if_false, if_neg hne]
    have hw := wireCopy_id a b i MSG_FRAG_LAST msgT [] ha hb hi (by decide) hm
    simp only [hw, Header.setTy]
    have hmsg : msg.take (24 * (n - 2 + 1)) ++ msg.drop (24 * (n - 1)) = msg := by
      rw [show n - 2 + 1 = n - 1 from by omega]; exact List.take_append_drop _ _
    rw [hmsg]
    have hwF := wireCopy_id a b i msgT msgT msg ha hb hi hm hm
    generalize hF : (⟨⟨a, b, i, .int msgT, msgT⟩, msg⟩ : Frame) = Fm at hwF ⊢
    have hFa : Fm.header.fromNode = a ∧ Fm.header.frameId = i ∧ Fm.header.ty = msgT := by
      rw [← hF]; exact ⟨rfl, rfl, rfl⟩
    have hb' : ∀ Q : NetQueue, Q.frames = frs → Q.maxSize = ms →
        Q.enqueueBase Fm = ({ Q with frames := frs ++ [Fm] }, true) := by
      intro Q h1 h2
      rw [enqueueBase_ok Q Fm (by rw [h1, h2]; exact hroom) (by
        intro g hg hh
        rw [h1] at hg
        rw [hFa.1, hFa.2.1, hFa.2.2] at hh
        exact hnew g hg hh), hwF, h1]
    rw [hb' _ rfl rfl]
    simp

/-- feed a list of frames to the queue -/
def feed (q : NetQueue) (fs : List Frame) : NetQueue := fs.foldl (fun q f => (q.enqueue f).1) q

theorem feed_more (q : NetQueue) (hq : q.frag = true) : ∀ (cnt k : Nat), 1 ≤ k → k + cnt + 1 ≤ n →
    q.cache = cacheAfter a b i n msg (k - 1) → q.cacheValid = true →
    feed q ((List.range' k cnt).map (rxFrag a b i msgT n msg)) =
      (if cnt = 0 then q else { q with cache := cacheAfter a b i n msg (k + cnt - 1) }) := by
  intro cnt
  induction cnt generalizing q with
  | zero => intro k _ _ _ _; simp [feed]
  | succ cnt ih =>
    intro k hk1 hk hc hv
    rw [List.range'_succ, List.map_cons]
    unfold feed
    rw [List.foldl_cons, enqueue_more a b i msgT n msg ha hb hi hn2 hn q hq k hk1 (by omega) hc hv]
    have := ih ({ q with cache := cacheAfter a b i n msg k } : NetQueue) hq (k + 1) (by omega) (by omega)
      (by simp) hv
    unfold feed at this
    rw [this]
    by_cases hcnt : cnt = 0
    · subst hcnt; simp
    · simp only [hcnt, if_false, Nat.succ_ne_zero]
      congr 2; omega

/-- **FIRST, MORE*, LAST in sequence rebuild the message**: fed with the `n ≥ 2` fragments of one
    message in order, a `FrameQueueFrag` with room and without a frame of the same origin, id and type
    ends up with exactly one more frame — origin, destination, id, the message's own type, and the
    complete message — and an invalidated cache. -/
theorem feed_message (q : NetQueue) (hq : q.frag = true) (hm : msgT < 256) (hne : msgT ≠ NETWORK_EXT_DATA)
    (hroom : (q.frames.length : Int) < q.maxSize)
    (hnew : ∀ g ∈ q.frames, ¬ (g.header.fromNode = a ∧ g.header.frameId = i ∧ g.header.ty = msgT)) :
    feed q ((List.range n).map (rxFrag a b i msgT n msg)) =
      { q with cache := ⟨⟨a, b, i, .int msgT, msgT⟩, msg⟩, cacheValid := false,
               frames := q.frames ++ [⟨⟨a, b, i, .int msgT, msgT⟩, msg⟩] } := by
  obtain ⟨m, rfl⟩ : ∃ m, n = m + 2 := ⟨n - 2, by omega⟩
  have hsplit : List.range (m + 2) = 0 :: (List.range' 1 m ++ [m + 1]) := by
    rw [List.range_eq_range', List.range'_succ, List.range'_concat]
    simp; omega
  rw [hsplit, List.map_cons, List.map_append, List.map_cons, List.map_nil]
  unfold feed
  rw [List.foldl_cons, enqueue_first a b i msgT (m + 2) msg ha hb hi hn2 hn q hq, List.foldl_append]
  have h1 := feed_more a b i msgT (m + 2) msg ha hb hi hn2 hn
    ({ q with cache := cacheAfter a b i (m + 2) msg 0, cacheValid := true } : NetQueue) hq m 1 (by omega) (by omega)
    (by simp) rfl
  unfold feed at h1
  rw [h1, List.foldl_cons, List.foldl_nil]
  have hlast := fun q' hq' hc' hv' hroom' hnew' =>
    enqueue_last a b i msgT (m + 2) msg ha hb hi hn2 hn q' hq' hm hne hc' hv' hroom' hnew'
  simp only [show m + 2 - 1 = m + 1 from by omega, show m + 2 - 2 = m from by omega] at hlast
  by_cases hm0 : m = 0
  · subst hm0
    simp only [if_true]
    have := hlast ({ q with cache := cacheAfter a b i (0 + 2) msg 0, cacheValid := true } : NetQueue) hq rfl rfl
      hroom hnew
    rw [this]
  · simp only [hm0, if_false]
    have := hlast ({ q with cache := cacheAfter a b i (m + 2) msg (1 + m - 1), cacheValid := true } : NetQueue) hq
      (by simp) rfl hroom hnew
    rw [this]

end

/-! ### what the sender's plan looks like at the receiver -/

/-- the payloads of the sender's fragment plan, unpacked by a receiver (into any frame object), are
    the fragments `rxFrag` -/
theorem fragPlan_unpack (a b i msgT n : Nat) (msg : Bytes) (ha : a < 4096) (hb : b < 4096) (hi : i < 65536)
    (hn2 : 2 ≤ n) (hn : n < 256) (hm : msgT < 256) (hlen : msg.length ≤ 24 * n) (f0 : Frame) :
    ∀ (m : Nat) (h : Header), m ≤ n → h.fromNode = a → h.toNode = b → h.frameId = i →
      (fragPlan msg n msgT m h).map (fun p => f0.unpack p.2) =
        (List.range' (n - m) m).map (fun k => (rxFrag a b i msgT n msg k, true)) := by
  intro m
  induction m with
  | zero => intro h _ _ _ _; rfl
  | succ m ih =>
    intro h hmn hfa hfb hfi
    rw [fragPlan, List.range'_succ, List.map_cons, List.map_cons]
    have hst : ∃ T R E, fragStep msg n msgT (n - (m + 1)) h = (⟨a, b, i, .int T, R⟩, E) ∧ T < 256 ∧ R < 256 ∧
        (⟨⟨a, b, i, .int T, R⟩, pySlice msg ((n - (m + 1)) * MAX_FRAG_SIZE) E⟩ : Frame) = rxFrag a b i msgT n msg (n - (m + 1)) := by
      unfold fragStep rxFrag MAX_FRAG_SIZE
      by_cases hl : n - (m + 1) = n - 1
      · have hl' : n - (m + 1) + 1 = n := by omega
        refine ⟨MSG_FRAG_LAST, msgT, msg.length, ?_, by decide, hm, ?_⟩
        · rw [if_pos hl]; cases h; simp_all
        · rw [if_pos hl']
          congr 1
          have := Nrf.Proofs.pySlice_last msg (n - (m + 1)) (by omega)
          rw [this, List.take_of_length_le (by simp; omega)]
      · have hl' : ¬ (n - (m + 1) + 1 = n) := by omega
        by_cases h0 : n - (m + 1) = 0
        · refine ⟨MSG_FRAG_FIRST, n - (n - (m + 1)), (n - (m + 1)) * 24 + 24, ?_, by decide, by omega, ?_⟩
          · rw [if_neg hl, if_pos h0]; cases h; simp_all
          · rw [if_neg hl', if_pos h0, h0]
            simp [pySlice]
        · refine ⟨MSG_FRAG_MORE, n - (n - (m + 1)), (n - (m + 1)) * 24 + 24, ?_, by decide, by omega, ?_⟩
          · rw [if_neg hl, if_neg h0]; cases h; simp_all
          · rw [if_neg hl', if_neg h0, Nrf.Proofs.pySlice_frag]
    obtain ⟨T, R, E, hst1, hT, hR, hfr⟩ := hst
    simp only [hst1]
    have hpk : (⟨⟨a, b, i, .int T, R⟩, pySlice msg ((n - (m + 1)) * MAX_FRAG_SIZE) E⟩ : Frame).pack =
        .ok (hdrBytes ⟨a, b, i, .int T, R⟩ ++ pySlice msg ((n - (m + 1)) * MAX_FRAG_SIZE) E) := by
      unfold Frame.pack
      rw [pack_int _ T rfl]; rfl
    have hun := unpack_of_pack _ f0 T rfl _ hpk
    rw [wireCopy_id a b i T R _ ha hb hi hT hR, hfr] at hun
    rw [hun]
    congr 1
    have := ih ⟨a, b, i, .int T, R⟩ (by omega) rfl rfl rfl
    rw [this]
    congr 2; omega

end Nrf.Net
