/-
C09 helper lemmas: systems whose objects are all produced by `RF24.__init__`, on chips of any variant
in any ACTIVATE state.  The constructor unlocks the feature registers of its radio and nothing the
driver does afterwards locks them again, so the hypothesis "FEATURE/DYNPD accessible" of `C09_enter`
/ `C09_history_contract_partial` (`WorldOk`) / `C09_history_calls` (`WorldOkC`, via `NrfProofs/C09Calls.lean`) is
established by construction instead of being assumed.
-/
import NrfProofs.C09Ble

namespace Nrf
open Rf24 Spec

/-- what the constructors need of a world: every radio is there, with the chip's register shape and
    bytes in RX_ADDR_P2..5 — of ANY variant, feature registers locked or unlocked, any contents -/
def WorldPre (n : Nat) (w : World) : Prop :=
  w.radios.length = n ∧ ∀ j, j < n → RadioShape (w.radio j) ∧ ∀ x ∈ (w.radio j).rxAddrN, x < 256

/-- `RF24.__init__` on radio `rid` of such a world -/
theorem init_worldPre (n rid : Nat) (w : World) (hw : WorldPre n w) (hrid : rid < n) :
    let out := exec init ⟨{ rid := rid }, w⟩
    out.1 = .ok () ∧ WorldPre n out.2.w ∧ (out.2.w.radio rid).featureVisible = true ∧
    out.2.d.rid = rid ∧ InRange out.2.d ∧ out.2.d.isPlus = (w.radio rid).plus ∧
    ShadowEq out.2.d (out.2.w.radio rid) ∧
    ∀ j, j ≠ rid → (out.2.w.radio j).cfgOf = (w.radio j).cfgOf := by
  intro out
  have hrid' : rid < w.radios.length := by rw [hw.1]; exact hrid
  obtain ⟨hs, hb⟩ := hw.2 rid hrid
  obtain ⟨s', hex, hre, hok, hip, _, hvis, hregs⟩ := init_variant_spec ⟨{ rid := rid }, w⟩ hrid' rfl hb
  have hout : out = (.ok (), s') := hex
  rw [hout]
  obtain ⟨hrid1, _, hfr⟩ := hre.frame hrid'
  have hrid1' : s'.d.rid = rid := hrid1
  have hc : s'.cfg = (s'.w.radio rid).cfgOf := by unfold DrvState.cfg; rw [hrid1']
  have hregs' : regsOf (s'.w.radio rid) = shadowRegs s'.d := by
    have := hregs hs
    rw [hc] at this
    exact this
  have hvis' : (s'.w.radio rid).featureVisible = true := by
    rw [hc] at hvis; exact hvis
  refine ⟨rfl, ⟨hre.length.trans hw.1, fun j hj => ?_⟩, hvis', hrid1', hok.range, hip, hregs', fun j hj => hfr j hj⟩
  by_cases hji : j = rid
  · subst hji
    refine ⟨radioShape_of_shadowEq hregs' hok.range, ?_⟩
    have e : (s'.w.radio j).rxAddrN = s'.d.pipesN := congrArg CfgRegs.rxAddrN hregs'
    rw [e]
    exact hok.range.2.2.2.2.2.2.2.2.2.2.2.2.2.1.2
  · have hfj : (s'.w.radio j).cfgOf = (w.radio j).cfgOf := hfr j hji
    obtain ⟨hsj, hbj⟩ := hw.2 j hj
    refine ⟨?_, ?_⟩
    · rw [← radioShape_cfgOf, hfj, radioShape_cfgOf]; exact hsj
    · have e : (s'.w.radio j).cfgOf.rxAddrN = (w.radio j).cfgOf.rxAddrN := congrArg Radio.rxAddrN hfj
      have e : (s'.w.radio j).rxAddrN = (w.radio j).rxAddrN := e
      rw [e]; exact hbj

/-- constructing RF24 objects one after the other on the radios `rids` of a world: the objects'
    shadow states (in construction order) and the world they leave -/
def construct : List Nat → World → List Rf24 × World
  | [], w => ([], w)
  | rid :: rest, w =>
    let out := exec init ⟨{ rid := rid }, w⟩
    ((out.2.d :: (construct rest out.2.w).1), (construct rest out.2.w).2)

/-- after constructing objects on the radios `rids`: the world is still in shape; every object is
    in range and drives its radio; every radio that got an object — or was accessible before — has
    accessible feature registers -/
theorem construct_spec (n : Nat) (rids : List Nat) : ∀ (w : World), WorldPre n w → (∀ r ∈ rids, r < n) →
    WorldPre n (construct rids w).2 ∧ (construct rids w).1.length = rids.length ∧
    (∀ i, i < rids.length → ((construct rids w).1.getD i default).rid = rids.getD i 0 ∧
      InRange ((construct rids w).1.getD i default)) ∧
    (∀ j, j < n → (j ∈ rids ∨ (w.radio j).featureVisible = true) →
      ((construct rids w).2.radio j).featureVisible = true) := by
  induction rids with
  | nil =>
    intro w hw _
    refine ⟨hw, rfl, fun i hi => absurd hi (Nat.not_lt_zero _), fun j _ hj => ?_⟩
    rcases hj with h | h
    · cases h
    · exact h
  | cons rid rest ih =>
    intro w hw hr
    obtain ⟨_, hw1, hv1, hrid1, hin1, _, _, hfr1⟩ := init_worldPre n rid w hw (hr rid (List.mem_cons_self))
    obtain ⟨k1, k2, k3, k4⟩ := ih (exec init ⟨{ rid := rid }, w⟩).2.w hw1 (fun r h => hr r (List.mem_cons_of_mem _ h))
    refine ⟨k1, by simp only [construct, List.length_cons, k2], fun i hi => ?_, fun j hj hjv => ?_⟩
    · cases i with
      | zero => exact ⟨hrid1, hin1⟩
      | succ i =>
        have := k3 i (by simpa using hi)
        simpa only [construct, List.getD_cons_succ] using this
    · show ((construct rest (exec init ⟨{ rid := rid }, w⟩).2.w).2.radio j).featureVisible = true
      refine k4 j hj ?_
      by_cases hji : j = rid
      · right; rw [hji]; exact hv1
      · rcases hjv with h | h
        · left
          rcases List.mem_cons.1 h with h | h
          · exact absurd h hji
          · exact h
        · right
          rw [← featureVisible_cfgOf, hfr1 j hji, featureVisible_cfgOf]; exact h

end Nrf
