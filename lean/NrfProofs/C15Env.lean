/-
C15 — the moves of the environment between two `update()` calls keep the invariant `TI`:
an arrival is scripted, a payload lands in the RX FIFO, the fault list is replaced.
-/
import NrfProofs.C15Master

namespace Nrf.Net
open Nrf Rf24 Nrf.Spec Nrf.Proofs

section
variable {Lm tt rt : Nat} {s : NetState}

/-- the environment scripts one more arrival, of 0..32 bytes -/
theorem TI.arrive0 (h : TI Lm tt rt s) (due pipe : Nat) (data : Bytes) (hd : data = [] ∨ RxOk data) :
    TI Lm tt rt (s.setNode fun n => { n with arrivals := n.arrivals ++ [(due, pipe, data)] }) ∧
    (s.setNode fun n => { n with arrivals := n.arrivals ++ [(due, pipe, data)] }).M = s.M + 1 ∧
    (s.setNode fun n => { n with arrivals := n.arrivals ++ [(due, pipe, data)] }).node
      = { s.node with arrivals := s.node.arrivals ++ [(due, pipe, data)] } := by
  have hn := NetState.node_setNode s (fun n => { n with arrivals := n.arrivals ++ [(due, pipe, data)] }) h.cur
  have hdrv : (s.setNode fun n => { n with arrivals := n.arrivals ++ [(due, pipe, data)] }).drv = s.drv :=
    NetState.drv_setNode _ h.cur rfl
  have hrx : (s.setNode fun n => { n with arrivals := n.arrivals ++ [(due, pipe, data)] }).rxq = s.rxq := by
    unfold NetState.rxq; rw [hn]; rfl
  refine ⟨?_, ?_, hn⟩
  · exact
      { open_ := h.open_
        cur := by simpa using h.cur
        good := by rw [hn]; exact h.good
        tree := by rw [hn]; exact h.tree
        tt := by rw [hn]; exact h.tt
        rt := by rw [hn]; exact h.rt
        dyn := by rw [hn]; exact h.dyn
        feat := by rw [hn]; exact h.feat
        txs := by rw [hdrv]; exact h.txs
        msg := by rw [hn]; exact h.msg
        rx := by rw [hrx]; exact h.rx
        arr := by
          rw [hn]
          intro a ha
          rcases List.mem_append.1 ha with ha | ha
          · exact h.arr a ha
          · simp only [List.mem_singleton] at ha
            rw [ha]; exact hd
        tab := by rw [hn]; exact h.tab }
  · unfold NetState.M
    rw [hrx, hn]
    simp only [List.length_append, List.length_singleton]
    omega

/-- the environment scripts one more arrival of 1..32 bytes -/
theorem TI.arrive (h : TI Lm tt rt s) (due pipe : Nat) (data : Bytes) (hd : RxOk data) :
    TI Lm tt rt (s.setNode fun n => { n with arrivals := n.arrivals ++ [(due, pipe, data)] }) ∧
    (s.setNode fun n => { n with arrivals := n.arrivals ++ [(due, pipe, data)] }).M = s.M + 1 ∧
    (s.setNode fun n => { n with arrivals := n.arrivals ++ [(due, pipe, data)] }).node
      = { s.node with arrivals := s.node.arrivals ++ [(due, pipe, data)] } :=
  h.arrive0 due pipe data (Or.inr hd)

/-- a payload lands in the RX FIFO of the node's radio (or is lost: FIFO full, pipe closed, …) -/
theorem TI.inject (h : TI Lm tt rt s) (pipe : Nat) (data : Bytes) (hd : RxOk data) :
    TI Lm tt rt { s with w := s.w.inject s.node.rf.rid pipe data } ∧
    ({ s with w := s.w.inject s.node.rf.rid pipe data } : NetState).M ≤ s.M + 1 := by
  obtain ⟨add, h1, h2, h3⟩ := injects_rx [(0, pipe, data)] s.node.rf.rid s.w
  have h1' : ((s.w.inject s.node.rf.rid pipe data).radio s.node.rf.rid).rxFifo = s.rxq ++ add := h1
  have hrx : ({ s with w := s.w.inject s.node.rf.rid pipe data } : NetState).rxq = s.rxq ++ add := h1'
  refine ⟨?_, ?_⟩
  · exact
      { open_ := h.open_, cur := h.cur, good := h.good, tree := h.tree, tt := h.tt, rt := h.rt, dyn := h.dyn
        feat := h.feat
        txs := inject_txs s.drv s.node.rf.rid pipe data h.txs
        msg := h.msg
        rx := by
          rw [hrx]
          intro e he
          rcases List.mem_append.1 he with he | he
          · exact h.rx e he
          · obtain ⟨a, ha, hda⟩ := h3 e he
            simp only [List.mem_singleton] at ha
            rw [hda, ha]; exact Or.inr hd
        arr := h.arr, tab := h.tab }
  · unfold NetState.M
    rw [hrx]
    show (s.rxq ++ add).length + s.node.arrivals.length ≤ _
    simp only [List.length_append, List.length_singleton] at h2 ⊢
    omega

/-- another fault list -/
theorem TI.faults (h : TI Lm tt rt s) (l : List Nrf.Outcome) :
    TI Lm tt rt { s with w := { s.w with faults := l } } ∧
    ({ s with w := { s.w with faults := l } } : NetState).M = s.M :=
  ⟨{ open_ := h.open_, cur := h.cur, good := h.good, tree := h.tree, tt := h.tt, rt := h.rt, dyn := h.dyn
     feat := h.feat, txs := h.txs, msg := h.msg, rx := h.rx, arr := h.arr, tab := h.tab }, rfl⟩

end

end Nrf.Net
