/-
Traffic lemmas, part 1 — the complement of `Frame.lean`: what one SPI transaction / one CE edge does
to FIFOs, flags and the air.

* bits of the STATUS byte (`Radio.status_*`),
* `Radio.txReady`: the exact condition under which `World.tryTransmit` starts a transmit cycle;
  when it is false ("the radio is idle") `tryTransmit` is the identity,
* `World.spiQ` / `World.setCEQ`: the effect of an SPI transaction / CE edge *without* the
  transmission it may trigger; `World.spi = tryTransmit ∘ spiQ` always, `= spiQ` when idle,
* the STATUS byte / data bytes returned by `World.spi` are those of `Radio.xfer` on the radio as
  it was before the transaction — unconditionally,
* `Radio.xfer` on the concrete command bytes the driver uses.
-/
import NrfProofs.Hoare

namespace Nrf

/-! ### masks -/

/-- masking with `M < 2^k` only looks at the low `k` bits -/
theorem and_mask_mod (n M k : Nat) (h : M < 2 ^ k) : n &&& M = (n % 2 ^ k) &&& M := by
  have h1 : (2 ^ k - 1) &&& M = M := by
    rw [Nat.and_comm, Nat.and_two_pow_sub_one_eq_mod]; exact Nat.mod_eq_of_lt h
  calc n &&& M = n &&& ((2 ^ k - 1) &&& M) := by rw [h1]
    _ = (n &&& (2 ^ k - 1)) &&& M := by rw [Nat.and_assoc]
    _ = (n % 2 ^ k) &&& M := by rw [Nat.and_two_pow_sub_one_eq_mod]

/-- the STATUS byte, decoded: for all flag bytes, pipe fields and TX_FULL bits -/
theorem status_tbl : ∀ (f : Fin 128) (p : Fin 8) (t : Bool),
    let st := (f.val &&& 0x70) ||| (p.val <<< 1) ||| (if t then 1 else 0)
    (st >>> 1) &&& 7 = p.val ∧ (st &&& 1 ≠ 0 ↔ t = true) ∧ st &&& 0x70 = f.val &&& 0x70 ∧
    st &&& 0x40 = f.val &&& 0x40 ∧ st &&& 0x20 = f.val &&& 0x20 ∧ st &&& 0x10 = f.val &&& 0x10 ∧
    st &&& 0x30 = f.val &&& 0x30 ∧ st &&& 0x60 = f.val &&& 0x60 ∧ st < 256 := by
  decide +kernel

namespace Radio

/-- every stored payload is tagged with a real pipe number -/
def RxPipes (r : Radio) : Prop := ∀ e ∈ r.rxFifo, e.pipe ≤ 5

/-- every stored payload is tagged with a real pipe number and is not empty -/
def RxWf (r : Radio) : Prop := ∀ e ∈ r.rxFifo, e.pipe ≤ 5 ∧ e.data ≠ []

instance (r : Radio) : Decidable r.RxWf := by unfold RxWf; infer_instance
instance (r : Radio) : Decidable r.RxPipes := by unfold RxPipes; infer_instance

theorem RxWf.pipes {r : Radio} (h : r.RxWf) : r.RxPipes := fun e he => (h e he).1

theorem rxPNo_leP (r : Radio) (h : r.RxPipes) : r.rxPNo ≤ 7 := by
  unfold rxPNo
  split
  · exact Nat.le_refl _
  · rename_i e rest he
    have := h e (by rw [he]; exact List.mem_cons_self)
    omega

/-- the RX FIFO is non-empty iff RX_P_NO is a pipe number -/
theorem rxPNo_lt_sixP (r : Radio) (h : r.RxPipes) : r.rxPNo < 6 ↔ r.rxFifo ≠ [] := by
  unfold rxPNo
  split
  · rename_i he; simp [he]
  · rename_i e rest he
    have := h e (by rw [he]; exact List.mem_cons_self)
    simp [he]; omega

theorem status_decodeP (r : Radio) (h : r.RxPipes) :
    (r.status >>> 1) &&& 7 = r.rxPNo ∧ (r.status &&& 1 ≠ 0 ↔ r.txFull = true) ∧
    r.status &&& 0x70 = r.flags &&& 0x70 ∧
    r.status &&& 0x40 = r.flags &&& 0x40 ∧ r.status &&& 0x20 = r.flags &&& 0x20 ∧
    r.status &&& 0x10 = r.flags &&& 0x10 ∧ r.status &&& 0x30 = r.flags &&& 0x30 ∧
    r.status &&& 0x60 = r.flags &&& 0x60 ∧ r.status < 256 := by
  have hp := rxPNo_leP r h
  have ht := status_tbl ⟨r.flags % 128, Nat.mod_lt _ (by decide)⟩ ⟨r.rxPNo, by omega⟩ r.txFull
  simp only at ht
  have e70 := and_mask_mod r.flags 0x70 7 (by decide)
  have e40 := and_mask_mod r.flags 0x40 7 (by decide)
  have e20 := and_mask_mod r.flags 0x20 7 (by decide)
  have e10 := and_mask_mod r.flags 0x10 7 (by decide)
  have e30 := and_mask_mod r.flags 0x30 7 (by decide)
  have e60 := and_mask_mod r.flags 0x60 7 (by decide)
  simp only [Nat.reducePow] at e70 e40 e20 e10 e30 e60
  unfold status
  rw [e70, e40, e20, e10, e30, e60]
  exact ht

theorem rxPNo_le (r : Radio) (h : r.RxWf) : r.rxPNo ≤ 7 := rxPNo_leP r h.pipes
theorem rxPNo_lt_six (r : Radio) (h : r.RxWf) : r.rxPNo < 6 ↔ r.rxFifo ≠ [] := rxPNo_lt_sixP r h.pipes
theorem status_decode (r : Radio) (h : r.RxWf) :
    (r.status >>> 1) &&& 7 = r.rxPNo ∧ (r.status &&& 1 ≠ 0 ↔ r.txFull = true) ∧
    r.status &&& 0x70 = r.flags &&& 0x70 ∧
    r.status &&& 0x40 = r.flags &&& 0x40 ∧ r.status &&& 0x20 = r.flags &&& 0x20 ∧
    r.status &&& 0x10 = r.flags &&& 0x10 ∧ r.status &&& 0x30 = r.flags &&& 0x30 ∧
    r.status &&& 0x60 = r.flags &&& 0x60 ∧ r.status < 256 := status_decodeP r h.pipes

theorem status_pipe (r : Radio) (h : r.RxWf) : (r.status >>> 1) &&& 7 = r.rxPNo := (status_decode r h).1
theorem status_txFull (r : Radio) (h : r.RxWf) : (r.status &&& 1 ≠ 0 ↔ r.txFull = true) := (status_decode r h).2.1
theorem status_70 (r : Radio) (h : r.RxWf) : r.status &&& 0x70 = r.flags &&& 0x70 := (status_decode r h).2.2.1
theorem status_40 (r : Radio) (h : r.RxWf) : r.status &&& 0x40 = r.flags &&& 0x40 := (status_decode r h).2.2.2.1
theorem status_20 (r : Radio) (h : r.RxWf) : r.status &&& 0x20 = r.flags &&& 0x20 := (status_decode r h).2.2.2.2.1
theorem status_10 (r : Radio) (h : r.RxWf) : r.status &&& 0x10 = r.flags &&& 0x10 := (status_decode r h).2.2.2.2.2.1
theorem status_30 (r : Radio) (h : r.RxWf) : r.status &&& 0x30 = r.flags &&& 0x30 := (status_decode r h).2.2.2.2.2.2.1
theorem status_60 (r : Radio) (h : r.RxWf) : r.status &&& 0x60 = r.flags &&& 0x60 := (status_decode r h).2.2.2.2.2.2.2.1
theorem status_lt (r : Radio) (h : r.RxWf) : r.status < 256 := (status_decode r h).2.2.2.2.2.2.2.2

/-! ### when does the chip start transmitting -/

/-- the head of the TX FIFO is something a PTX sends (not an ACK payload) -/
def headSendable (f : List TxEntry) : Bool :=
  match f with
  | [] => false
  | e :: _ => match e.kind with
    | .ackFor _ => false
    | _ => true

/-- the exact condition under which `tryTransmit` runs a transmit cycle: TX mode (PWR_UP, ¬PRIM_RX,
    CE high), MAX_RT not latched, a sendable payload at the head of the TX FIFO -/
def txReady (r : Radio) : Bool :=
  r.txMode && decide (r.flags &&& 0x10 = 0) && headSendable r.txFifo

/-- idle = not about to transmit -/
abbrev Idle (r : Radio) : Prop := r.txReady = false

theorem idle_of_ce (r : Radio) (h : r.ce = false) : r.Idle := by
  simp [Idle, txReady, txMode, h]

theorem idle_of_empty (r : Radio) (h : r.txFifo = []) : r.Idle := by
  simp [Idle, txReady, headSendable, h]

theorem idle_of_maxrt (r : Radio) (h : r.flags &&& 0x10 ≠ 0) : r.Idle := by
  simp [Idle, txReady, h]

theorem idle_of_primRx (r : Radio) (h : r.primRx = true) : r.Idle := by
  simp [Idle, txReady, txMode, h]

theorem idle_of_pwrDown (r : Radio) (h : r.pwrUp = false) : r.Idle := by
  simp [Idle, txReady, txMode, h]

/-- idleness depends only on CONFIG, CE, the MAX_RT flag and the TX FIFO -/
theorem txReady_congr (r r' : Radio) (hc : r'.config = r.config) (hce : r'.ce = r.ce)
    (hf : r'.flags &&& 0x10 = r.flags &&& 0x10) (ht : r'.txFifo = r.txFifo) : r'.txReady = r.txReady := by
  simp only [txReady, txMode, pwrUp, primRx, hc, hce, hf, ht]

end Radio

namespace World

theorem tryTransmit_idle (s f : Nat) (w : World) (h : (w.radio s).Idle) : tryTransmit s f w = w := by
  cases f with
  | zero => rfl
  | succ f =>
    unfold tryTransmit
    dsimp only
    simp only [Radio.Idle, Radio.txReady, Radio.headSendable] at h
    split
    · rename_i hc
      rw [hc] at h
      split
      · rfl
      · rename_i e rest he
        rw [he] at h
        split
        · rfl
        · rename_i hk
          exfalso
          cases hke : e.kind with
          | payload => simp [hke] at h
          | payloadNoAck => simp [hke] at h
          | ackFor p => exact hk p hke
    · rfl

/-- one step of `tryTransmit` on a ready radio -/
theorem tryTransmit_ready (s f : Nat) (w : World) (e : TxEntry) (rest : List TxEntry)
    (hf : (w.radio s).txFifo = e :: rest) (h : (w.radio s).txReady = true) :
    tryTransmit s (f + 1) w = tryTransmit s f (w.cycle s e rest) := by
  conv => lhs; unfold tryTransmit
  dsimp only
  simp only [Radio.txReady, Radio.headSendable, hf, Bool.and_eq_true] at h
  obtain ⟨hc, hk⟩ := h
  have hc' : ((w.radio s).txMode && decide ((w.radio s).flags &&& 0x10 = 0)) = true := by
    simpa using hc
  rw [hc']
  simp only [↓reduceIte, hf]
  cases hke : e.kind with
  | payload => rfl
  | payloadNoAck => rfl
  | ackFor p => simp [hke] at hk

@[simp] theorem setRadio_length (w : World) (i : Nat) (r : Radio) : (w.setRadio i r).radios.length = w.radios.length := by
  simp [setRadio]

theorem radio_setRadio_self (w : World) (i : Nat) (r : Radio) (h : i < w.radios.length) :
    (w.setRadio i r).radio i = r := by
  rw [radio_setRadio]; simp [h]

theorem radio_setRadio_ne (w : World) (i j : Nat) (r : Radio) (h : j ≠ i) :
    (w.setRadio i r).radio j = w.radio j := by
  rw [radio_setRadio]; simp [h]

/-- `w'` differs from `w` at most in radio `i`, the clock and the SPI counter: every other radio,
    the fault pattern, the air log and the busy times are the same -/
def Only (i : Nat) (w w' : World) : Prop :=
  (∀ j, j ≠ i → w'.radio j = w.radio j) ∧ w'.faults = w.faults ∧ w'.air = w.air ∧
  w'.busyUntil = w.busyUntil ∧ w'.radios.length = w.radios.length ∧ w.clock ≤ w'.clock

theorem Only.refl (i : Nat) (w : World) : Only i w w := ⟨fun _ _ => rfl, rfl, rfl, rfl, rfl, Nat.le_refl _⟩
theorem Only.trans {i : Nat} {a b c : World} (h1 : Only i a b) (h2 : Only i b c) : Only i a c :=
  ⟨fun j hj => (h2.1 j hj).trans (h1.1 j hj), h2.2.1.trans h1.2.1, h2.2.2.1.trans h1.2.2.1,
   h2.2.2.2.1.trans h1.2.2.2.1, h2.2.2.2.2.1.trans h1.2.2.2.2.1, Nat.le_trans h1.2.2.2.2.2 h2.2.2.2.2.2⟩

/-- the effect of an SPI transaction on radio `s`, without the transmission it may trigger -/
def spiQ (w : World) (s : Nat) (out : Bytes) : World :=
  { (w.setRadio s ((w.radio s).xfer out).1) with
      clock := max w.clock (w.busyUntil.getD s 0) + SPI_COST_NS, spiCount := w.spiCount + 1 }

/-- the effect of a CE edge on radio `s`, without the transmission it may trigger -/
def setCEQ (w : World) (s : Nat) (v : Bool) : World :=
  { (w.setRadio s { (w.radio s) with ce := v }) with clock := max w.clock (w.busyUntil.getD s 0) }

theorem spi_eq (w : World) (s : Nat) (out : Bytes) :
    w.spi s out = (tryTransmit s 4 (w.spiQ s out), ((w.radio s).xfer out).2) := rfl

theorem setCE_eq (w : World) (s : Nat) (v : Bool) : w.setCE s v = tryTransmit s 4 (w.setCEQ s v) := rfl

/-- MISO bytes: STATUS and data as the radio was before the transaction — always -/
theorem spi_snd (w : World) (s : Nat) (out : Bytes) : (w.spi s out).2 = ((w.radio s).xfer out).2 := rfl

@[simp] theorem spiQ_length (w : World) (s : Nat) (out : Bytes) : (w.spiQ s out).radios.length = w.radios.length := by
  simp [spiQ]
@[simp] theorem setCEQ_length (w : World) (s : Nat) (v : Bool) : (w.setCEQ s v).radios.length = w.radios.length := by
  simp [setCEQ]

theorem spiQ_radio_self (w : World) (s : Nat) (out : Bytes) (h : s < w.radios.length) :
    (w.spiQ s out).radio s = ((w.radio s).xfer out).1 := radio_setRadio_self w s _ h
theorem spiQ_radio_ne (w : World) (s j : Nat) (out : Bytes) (h : j ≠ s) :
    (w.spiQ s out).radio j = w.radio j := radio_setRadio_ne w s j _ h
theorem setCEQ_radio_self (w : World) (s : Nat) (v : Bool) (h : s < w.radios.length) :
    (w.setCEQ s v).radio s = { (w.radio s) with ce := v } := radio_setRadio_self w s _ h
theorem setCEQ_radio_ne (w : World) (s j : Nat) (v : Bool) (h : j ≠ s) :
    (w.setCEQ s v).radio j = w.radio j := radio_setRadio_ne w s j _ h

@[simp] theorem spiQ_faults (w : World) (s : Nat) (out : Bytes) : (w.spiQ s out).faults = w.faults := rfl
@[simp] theorem spiQ_air (w : World) (s : Nat) (out : Bytes) : (w.spiQ s out).air = w.air := rfl
@[simp] theorem spiQ_busy (w : World) (s : Nat) (out : Bytes) : (w.spiQ s out).busyUntil = w.busyUntil := rfl
@[simp] theorem spiQ_clock (w : World) (s : Nat) (out : Bytes) :
    (w.spiQ s out).clock = max w.clock (w.busyUntil.getD s 0) + SPI_COST_NS := rfl
@[simp] theorem setCEQ_faults (w : World) (s : Nat) (v : Bool) : (w.setCEQ s v).faults = w.faults := rfl
@[simp] theorem setCEQ_air (w : World) (s : Nat) (v : Bool) : (w.setCEQ s v).air = w.air := rfl
@[simp] theorem setCEQ_busy (w : World) (s : Nat) (v : Bool) : (w.setCEQ s v).busyUntil = w.busyUntil := rfl
@[simp] theorem setCEQ_clock (w : World) (s : Nat) (v : Bool) :
    (w.setCEQ s v).clock = max w.clock (w.busyUntil.getD s 0) := rfl

theorem spiQ_only (w : World) (s : Nat) (out : Bytes) : Only s w (w.spiQ s out) :=
  ⟨fun j hj => spiQ_radio_ne w s j out hj, rfl, rfl, rfl, spiQ_length _ _ _, by
    simp only [spiQ_clock]; omega⟩

theorem setCEQ_only (w : World) (s : Nat) (v : Bool) : Only s w (w.setCEQ s v) :=
  ⟨fun j hj => setCEQ_radio_ne w s j v hj, rfl, rfl, rfl, setCEQ_length _ _ _, by
    simp only [setCEQ_clock]; omega⟩

/-- **SPI on an idle radio**: if the radio is not about to transmit after the command, the
    transaction is `spiQ` — radio `s` runs the command, nothing else in the world changes -/
theorem spi_idle (w : World) (s : Nat) (out : Bytes) (hs : s < w.radios.length)
    (h : ((w.radio s).xfer out).1.Idle) :
    w.spi s out = (w.spiQ s out, ((w.radio s).xfer out).2) := by
  rw [spi_eq, tryTransmit_idle]
  rw [spiQ_radio_self _ _ _ hs]; exact h

/-- lowering CE never transmits -/
theorem setCE_false (w : World) (s : Nat) (hs : s < w.radios.length) : w.setCE s false = w.setCEQ s false := by
  rw [setCE_eq, tryTransmit_idle]
  rw [setCEQ_radio_self _ _ _ hs]
  exact Radio.idle_of_ce _ rfl

theorem setCE_idle (w : World) (s : Nat) (v : Bool) (hs : s < w.radios.length)
    (h : Radio.Idle { (w.radio s) with ce := v }) : w.setCE s v = w.setCEQ s v := by
  rw [setCE_eq, tryTransmit_idle]
  rw [setCEQ_radio_self _ _ _ hs]; exact h

end World

/-! ### the commands the driver uses, on one radio -/
namespace Radio

theorem xfer_nop (r : Radio) : r.xfer [0xFF] = (r, [r.status]) := by
  simp [xfer, runCmd, decodeCmd, zeros]

theorem xfer_flushRx (r : Radio) : r.xfer [0xE2] = ({ r with rxFifo := [] }, [r.status]) := by
  simp [xfer, runCmd, decodeCmd, zeros]

theorem xfer_flushTx (r : Radio) : r.xfer [0xE1] = ({ r with txFifo := [] }, [r.status]) := by
  simp [xfer, runCmd, decodeCmd, zeros]

/-- length of the head payload of the RX FIFO, 0 when empty -/
def headLen (r : Radio) : Nat :=
  match r.rxFifo with
  | [] => 0
  | e :: _ => e.data.length

/-- R_RX_PL_WID -/
theorem xfer_plWid (r : Radio) : r.xfer [0x60, 0] = (r, [r.status, r.headLen]) := by
  unfold headLen
  cases h : r.rxFifo <;> simp [xfer, runCmd, decodeCmd, clockOut, zeros, h]

/-- R_RX_PAYLOAD with `n` data bytes -/
theorem xfer_rxPayload (r : Radio) (n : Nat) :
    r.xfer (0x61 :: zeros n) = ((r.readPayload n).1, r.status :: (r.readPayload n).2) := by
  simp [xfer, runCmd, decodeCmd, zeros]

theorem xfer_rreg (r : Radio) (reg : Nat) (h : reg < 0x20) :
    r.xfer [reg, 0] = (r, [r.status, (r.readReg reg).headD 0]) := by
  unfold xfer
  simp only [decodeCmd_r reg h, runCmd, clockOut, zeros, List.length_cons, List.length_nil]
  cases hh : r.readReg reg <;> simp

theorem xfer_wreg (r : Radio) (reg v : Nat) (h : reg < 0x20) :
    r.xfer [0x20 ||| reg, v] = (r.writeReg reg [v], [r.status, 0]) := by
  unfold xfer
  simp only [decodeCmd_w reg h, runCmd, List.length_cons, List.length_nil]
  rfl

/-- W_REGISTER STATUS: write-one-to-clear -/
theorem writeReg_status (r : Radio) (v : Nat) :
    r.writeReg 7 [v] = { r with flags := r.flags &&& (0x70 ^^^ (v &&& 0x70)) } := rfl

/-- W_TX_PAYLOAD / W_TX_PAYLOAD_NOACK -/
theorem xfer_wTx (r : Radio) (d : Bytes) :
    r.xfer (0xA0 :: d) = (r.writePayload .payload d, r.status :: zeros d.length) := by
  simp [xfer, runCmd, decodeCmd]

theorem xfer_wTxNoAck (r : Radio) (d : Bytes) :
    r.xfer (0xB0 :: d) = (r.writePayload .payloadNoAck d, r.status :: zeros d.length) := by
  simp [xfer, runCmd, decodeCmd]

end Radio

/-! ### driver states -/

/-- the radio the driver object talks to -/
def DrvState.rad (s : DrvState) : Radio := s.w.radio s.d.rid

instance (s : DrvState) : Decidable s.Wf := by unfold DrvState.Wf; infer_instance

/-- the state after an SPI transaction that triggers no transmission -/
def DrvState.spiQ (s : DrvState) (out : Bytes) : DrvState :=
  { d := { s.d with status := (s.rad.xfer out).2.headD s.d.status }, w := s.w.spiQ s.d.rid out }

/-- the cached status byte after any (non-empty) transaction is the STATUS of the radio as it was
    when the transaction began -/
theorem spiStep_status (s : DrvState) (c : Nat) (out : Bytes) :
    (s.spiStep (c :: out)).d.status = s.rad.status := by
  unfold DrvState.spiStep
  simp only [World.spi_snd]
  rfl

theorem spiStep_shadow (s : DrvState) (c : Nat) (out : Bytes) :
    (s.spiStep (c :: out)).d = { s.d with status := s.rad.status } := by
  rw [spiStep_d, spiStep_status]

/-- data bytes read by a transaction: those of `Radio.xfer` on the radio before it -/
theorem spiStep_data (s : DrvState) (out : Bytes) : (s.w.spi s.d.rid out).2 = (s.rad.xfer out).2 := rfl

theorem spiStep_idle (s : DrvState) (out : Bytes) (hw : s.Wf) (h : (s.rad.xfer out).1.Idle) :
    s.spiStep out = s.spiQ out := by
  unfold DrvState.spiStep DrvState.spiQ
  rw [World.spi_idle _ _ _ hw h]
  rfl

@[simp] theorem spiQ_rid (s : DrvState) (out : Bytes) : (s.spiQ out).d.rid = s.d.rid := rfl
@[simp] theorem spiQ_wf (s : DrvState) (out : Bytes) : (s.spiQ out).Wf ↔ s.Wf := by
  simp [DrvState.Wf, DrvState.spiQ]

theorem spiQ_rad (s : DrvState) (out : Bytes) (hw : s.Wf) : (s.spiQ out).rad = (s.rad.xfer out).1 :=
  World.spiQ_radio_self _ _ _ hw

theorem spiQ_other (s : DrvState) (out : Bytes) (j : Nat) (hj : j ≠ s.d.rid) :
    (s.spiQ out).w.radio j = s.w.radio j := World.spiQ_radio_ne _ _ _ _ hj

theorem spiQ_shadow (s : DrvState) (c : Nat) (out : Bytes) :
    (s.spiQ (c :: out)).d = { s.d with status := s.rad.status } := rfl

theorem spiQ_only (s : DrvState) (out : Bytes) : World.Only s.d.rid s.w (s.spiQ out).w := World.spiQ_only _ _ _

@[simp] theorem spiQ_faults (s : DrvState) (out : Bytes) : (s.spiQ out).w.faults = s.w.faults := rfl
@[simp] theorem spiQ_air (s : DrvState) (out : Bytes) : (s.spiQ out).w.air = s.w.air := rfl

end Nrf
