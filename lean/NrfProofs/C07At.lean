/-
C07 / C15 — stepping through configuring `RF24` methods with opaque states.

`At s0 s d c` : state `s` was reached from `s0` by driver steps, its driver object is `d` (up to the
cached status byte) and the configuration part of its radio is `c`.  One lemma per primitive.
-/
import NrfProofs.C07Frame

namespace Nrf
open Rf24 Nrf.Net

/-- the driver object with another cached status byte -/
def Rf24.withStatus (d : Rf24) (st : Nat) : Rf24 := { d with status := st }

@[simp] theorem Rf24.withStatus_status (d : Rf24) (st : Nat) : (d.withStatus st).status = st := rfl
@[simp] theorem Rf24.withStatus_withStatus (d : Rf24) (a b : Nat) : (d.withStatus a).withStatus b = d.withStatus b := rfl
theorem Rf24.withStatus_self (d : Rf24) : d.withStatus d.status = d := rfl

/-! compact names for the record updates (keeps terms small) -/
def Radio.withCE (r : Radio) (v : Bool) : Radio := { r with ce := v }
/-- a register write seen on the configuration part -/
def Radio.wr (r : Radio) (reg : Nat) (b : Bytes) : Radio := (r.writeReg reg b).cfgOf

namespace Rf24
def withConfig (d : Rf24) (v : Nat) : Rf24 := { d with config := v }
def withOpenPipes (d : Rf24) (v : Nat) : Rf24 := { d with openPipes := v }
def withPipes0 (d : Rf24) (b : Bytes) : Rf24 := { d with pipes0 := b }
def withPipes1 (d : Rf24) (b : Bytes) : Rf24 := { d with pipes1 := b }
def withPipesN (d : Rf24) (l : List Nat) : Rf24 := { d with pipesN := l }
def withAa (d : Rf24) (v : Nat) : Rf24 := { d with aa := v }
def withTxAddress (d : Rf24) (b : Bytes) : Rf24 := { d with txAddress := b }
def withPipe0Read (d : Rf24) (o : Option Bytes) : Rf24 := { d with pipe0ReadAddr := o }
def withRetry (d : Rf24) (v : Nat) : Rf24 := { d with retrySetup := v }
end Rf24

structure At (s0 s : DrvState) (d : Rf24) (c : Radio) : Prop where
  fr : Fr s0 s
  d : s.d = d.withStatus s.d.status
  c : s.cfg = c

theorem At.start (s : DrvState) (hw : s.Wf) : At s s s.d s.cfg := ⟨Fr.refl s hw, rfl, rfl⟩

theorem At.wf {s0 s d c} (h : At s0 s d c) : s.Wf := h.fr.wf

theorem At.rid {s0 s d c} (h : At s0 s d c) : s.d.rid = d.rid := by rw [h.d]; rfl

theorem spiStep_withStatus (s : DrvState) (out : Bytes) (d : Rf24) (h : s.d = d.withStatus s.d.status) :
    (s.spiStep out).d = d.withStatus (s.spiStep out).d.status := by
  calc (s.spiStep out).d = s.d.withStatus (s.spiStep out).d.status := rfl
    _ = (d.withStatus s.d.status).withStatus (s.spiStep out).d.status := by rw [← h]
    _ = _ := rfl

section
variable {α : Type} {E : PyErr → DrvState → Prop} {s0 s : DrvState} {d : Rf24} {c : Radio}

theorem at_setCE (h : At s0 s d c) (v : Bool) {Q : Unit → DrvState → Prop}
    (hQ : ∀ s', At s0 s' d (c.withCE v) → Q () s') : dwp E (setCE v) Q s := by
  rw [dwp_setCE']
  exact hQ _ ⟨h.fr.trans (Fr.ce s v h.wf), h.d, by rw [ceStep_cfg _ _ h.wf, h.c]; rfl⟩

theorem at_sleepNs (h : At s0 s d c) (n : Nat) {Q : Unit → DrvState → Prop}
    (hQ : ∀ s', At s0 s' d c → Q () s') : dwp E (Rf24.sleepNs n) Q s := by
  rw [dwp_sleepNs']
  exact hQ _ ⟨h.fr.trans (Fr.sleep s n h.wf), h.d, h.c⟩

theorem at_nowNs (_h : At s0 s d c) {Q : Nat → DrvState → Prop}
    (hQ : ∀ t, Q t s) : dwp E Rf24.nowNs Q s := by
  rw [dwp_nowNs]; exact hQ _

theorem at_getD (h : At s0 s d c) {Q : Rf24 → DrvState → Prop}
    (hQ : ∀ st, Q (d.withStatus st) s) : dwp E getD Q s := by
  rw [dwp_getD, h.d]; exact hQ _

/-- a change of shadow attributes that neither reads nor writes the cached status byte -/
theorem at_modD (h : At s0 s d c) {f : Rf24 → Rf24} {Q : Unit → DrvState → Prop} (d' : Rf24)
    (hd' : f d = d') (hQ : ∀ s', At s0 s' d' c → Q () s')
    (hf : ∀ x st, f (x.withStatus st) = (f x).withStatus st) (hr : ∀ x, (f x).rid = x.rid) :
    dwp E (modD f) Q s := by
  rw [dwp_modD]
  subst hd'
  refine hQ _ ⟨h.fr.trans (Fr.modShadow s f h.wf (hr _)), ?_, ?_⟩
  · have := hf d s.d.status
    rw [← h.d] at this
    show f s.d = (f d).withStatus (f s.d).status
    rw [this]; rfl
  · rw [modShadow_cfg _ _ (hr _), h.c]

theorem at_regWrite (h : At s0 s d c) (reg n : Nat) (hr : reg < 0x20) (hn : n ≤ 255)
    {Q : Unit → DrvState → Prop}
    (hQ : ∀ s', At s0 s' d (c.wr reg [n]) → Q () s') : dwp E (regWrite reg (n : Int)) Q s := by
  rw [dwp_regWrite_nat _ _ _ _ _ (by omega)]
  have : ¬ n > 255 := by omega
  simp only [this, ↓reduceIte]
  refine hQ _ ⟨h.fr.trans (Fr.spi s _ h.wf), ?_, ?_⟩
  · exact spiStep_withStatus _ _ _ h.d
  · rw [spiStep_cfg _ _ h.wf, xfer_wreg_cfg _ _ _ hr, h.c]; rfl

theorem at_regWriteBytes (h : At s0 s d c) (reg : Nat) (b : Bytes) (hr : reg < 0x20) (hb : b ≠ [])
    {Q : Unit → DrvState → Prop}
    (hQ : ∀ s', At s0 s' d (c.wr reg b) → Q () s') : dwp E (regWriteBytes reg b) Q s := by
  rw [dwp_regWriteBytes]
  refine hQ _ ⟨h.fr.trans (Fr.spi s _ h.wf), ?_, ?_⟩
  · exact spiStep_withStatus _ _ _ h.d
  · rw [spiStep_cfg _ _ h.wf, xfer_wregs_cfg _ _ _ hr hb, h.c]; rfl

/-- reading a configuration register returns what the configuration part holds -/
theorem at_regRead (h : At s0 s d c) (reg : Nat) (hr : reg < 0x20)
    (hc : reg ≠ 7 ∧ reg ≠ 8 ∧ reg ≠ 9 ∧ reg ≠ 0x17) {Q : Nat → DrvState → Prop}
    (hQ : ∀ s', At s0 s' d c → Q ((c.readReg reg).headD 0) s') : dwp E (regRead reg) Q s := by
  rw [dwp_regRead, spi_read_cfg _ _ _ hr hc]
  have e : (s.w.radio s.d.rid).cfgOf = c := h.c
  rw [e]
  refine hQ _ ⟨h.fr.trans (Fr.spi s _ h.wf), ?_, ?_⟩
  · exact spiStep_withStatus _ _ _ h.d
  · rw [spiStep_cfg _ _ h.wf, xfer_rreg_cfg _ _ _ hr, h.c]
    exact e ▸ Radio.cfgOf_cfgOf _

theorem at_regCmd (h : At s0 s d c) (k : Nat) (hk : 0x40 ≤ k) (h50 : k ≠ 0x50)
    {Q : Unit → DrvState → Prop} (hQ : ∀ s', At s0 s' d c → Q () s') : dwp E (regCmd k) Q s := by
  rw [dwp_regCmd]
  refine hQ _ ⟨h.fr.trans (Fr.spi s _ h.wf), ?_, ?_⟩
  · exact spiStep_withStatus _ _ _ h.d
  · rw [spiStep_cfg _ _ h.wf, harmless_cmd _ _ hk h50, ← h.c]
    exact Radio.cfgOf_cfgOf _

/-- anything that `Keeps` -/
theorem at_keeps (h : At s0 s d c) {m : DrvM α} (hk : Keeps false m) {Q : α → DrvState → Prop}
    (hE : ∀ e s', At s0 s' d c → E e s') (hQ : ∀ a s', At s0 s' d c → Q a s') : dwp E m Q s := by
  have conv : ∀ s', Same false s s' → At s0 s' d c := fun s' hs' =>
    ⟨h.fr.trans hs'.toFr, by rw [hs'.d]; show ({ s.d with status := _ } : Rf24) = _; rw [h.d]; rfl,
     by rw [hs'.cfg, h.c]⟩
  exact hk.use (Same.refl _ _ h.wf) (fun e s' hs' => hE e s' (conv s' hs')) (fun a s' hs' => hQ a s' (conv s' hs'))

end

/-- push `dwp` through the binds in sight -/
macro "wb" : tactic => `(tactic| try simp only [dwp_bind])

/-- step through a `modD` whose function is a plain record update -/
macro "step_modD " h:term " => " d:term : tactic =>
  `(tactic| (apply at_modD $h $d rfl <;> first | (intro _ _; rfl) | (intro _; rfl) | skip))

end Nrf
