/-
C02 helper lemmas, part 3: `resend()` and `send()` decomposed, and their steps on the states that
occur in send/resend histories.
-/
import NrfProofs.C02Armed

namespace Nrf
open Rf24 Spec.Link

/-! ### the methods, cut at the places the proofs stop at -/

/-- `resend()` / `send()` after the transmission has been triggered and polled once: poll, then
    decide the result -/
def resendFinish (sendOnly : Bool) : DrvM SendRes := do
  pollFlags POLL_FUEL
  let result := (← getD).status &&& 0x20 ≠ 0
  if result ∧ (← getD).status &&& 0x40 ≠ 0 ∧ !sendOnly then
    return .payload (← Rf24.read)
  return .bool result

/-- `resend()` from `ce = True` on -/
def resendFire (sendOnly : Bool) : DrvM SendRes :=
  (setCE true >>= fun _ => update) >>= fun _ => resendFinish sendOnly

/-- `resend()` from `clear_status_flags()` on -/
def resendTail (sendOnly : Bool) : DrvM SendRes := do
  clearStatusFlags
  resendFire sendOnly

theorem resend_eq (sendOnly : Bool) :
    resend sendOnly = (do
      let f ← fifo true (some true)
      if f ≠ 0 then pure (.bool false) else do
        setCE false
        let d ← getD
        if (!sendOnly) = true ∧ rxPipeField d < 6 then (do flushRx; resendTail sendOnly) else resendTail sendOnly) := rfl

/-- `write()` after the payload has been padded / checked -/
def writeTail (buf b : Bytes) (askNoAck : Bool) : DrvM (Bool × Bytes) := do
  clearStatusFlags
  if (← getD).status &&& 1 ≠ 0 then return (false, buf)
  regWriteBytes (0xA0 ||| (b2n askNoAck <<< 4)) b
  setCE true
  return (true, buf)

/-- the bytes `write()` loads -/
def writeBytes (d : Rf24) (buf : Bytes) : Bytes :=
  if d.dynPl &&& 1 = 0 then staticPayload buf (d.plLen.getD 0 0) else buf

theorem write_eq (buf : Bytes) (m askNoAck : Bool) :
    write buf m askNoAck = (do
      let d ← getD
      if d.dynPl &&& 1 ≠ 0 ∧ (buf.isEmpty ∨ buf.length > 32) then raise .valueError
      else writeTail buf (writeBytes d buf) askNoAck) := by
  unfold write writeTail writeBytes
  simp only [Bool.not_false, ↓reduceIte]
  rfl

/-- `send()` after `write()` -/
def sendFinish (caller : Bytes) (forceRetry : Int) (sendOnly : Bool) : DrvM (SendRes × Bytes) := do
  pollFlags POLL_FUEL
  let result := (← getD).status &&& 0x20 ≠ 0
  let res ← forceRetryLoop sendOnly (forceRetry.natAbs + 1) forceRetry (.bool result)
  if res = .bool true ∧ (← getD).status &&& 0x60 = 0x60 ∧ !sendOnly then
    return (.payload (← Rf24.read), caller)
  return (res, caller)

def sendTail (buf : Bytes) (m askNoAck : Bool) (forceRetry : Int) (sendOnly : Bool) : DrvM (SendRes × Bytes) := do
  let x ← write buf m askNoAck
  sendFinish x.2 forceRetry sendOnly

def sendMid (buf : Bytes) (m askNoAck : Bool) (forceRetry : Int) (sendOnly : Bool) : DrvM (SendRes × Bytes) := do
  let d ← getD
  if (!sendOnly) = true ∧ rxPipeField d < 6 then (do flushRx; sendTail buf m askNoAck forceRetry sendOnly)
  else sendTail buf m askNoAck forceRetry sendOnly

theorem send_eq (buf : Bytes) (m askNoAck : Bool) (forceRetry : Int) (sendOnly : Bool) :
    send buf m askNoAck forceRetry sendOnly = (do
      setCE false
      let d ← getD
      if d.status &&& 0x10 ≠ 0 ∨ d.status &&& 1 ≠ 0 then (do flushTx; sendMid buf m askNoAck forceRetry sendOnly)
      else sendMid buf m askNoAck forceRetry sendOnly) := rfl

/-! ### polling -/

theorem exec_pollFlags_done (f : Nat) (s : DrvState) (h : s.d.status &&& 0x30 ≠ 0) :
    exec (pollFlags (f + 1)) s = (.ok (), s) := by
  unfold pollFlags
  simp only [exec_bind, exec_getD, exec_ite, h, ↓reduceIte, exec_pure]

theorem exec_pollFlags_step (f : Nat) (s : DrvState) (h : s.d.status &&& 0x30 = 0) :
    exec (pollFlags (f + 1)) s = exec (pollFlags f) (exec update s).2 := by
  conv => lhs; unfold pollFlags
  simp only [exec_bind, exec_getD, exec_ite, h, ↓reduceIte, exec_update]

/-! ### quiet transactions with CE low -/

/-- a transaction while CE is low: the radio runs the command, nothing is transmitted -/
theorem spiStep_ceLow (s : DrvState) (c : Nat) (out : Bytes) (hw : s.Wf) (hce : (s.rad.xfer (c :: out)).1.ce = false) :
    (s.spiStep (c :: out)).d = { s.d with status := s.rad.status } ∧
    (s.spiStep (c :: out)).rad = (s.rad.xfer (c :: out)).1 ∧
    World.Only s.d.rid s.w (s.spiStep (c :: out)).w ∧ (s.spiStep (c :: out)).Wf ∧
    (s.spiStep (c :: out)).w.eff s.d.rid = s.w.eff s.d.rid + SPI_COST_NS ∧
    ∀ k, (s.spiStep (c :: out)).w.ackMap s.d.rid k = s.w.ackMap s.d.rid k := by
  have hi : (s.rad.xfer (c :: out)).1.Idle := Radio.idle_of_ce _ hce
  obtain ⟨h1, h2, h3, h4⟩ := spiStep_quiet s c out hw hi
  refine ⟨h1, h2, h3, h4, ?_, ?_⟩
  · rw [spiStep_idle s _ hw hi]; exact World.spiQ_eff _ _ _
  · intro k; rw [spiStep_idle s _ hw hi]; exact World.ackMap_spiQ _ _ _ _

/-- a transaction on an idle radio, with the time it takes -/
theorem spiStep_quiet' (s : DrvState) (c : Nat) (out : Bytes) (hw : s.Wf) (hi : (s.rad.xfer (c :: out)).1.Idle) :
    (s.spiStep (c :: out)).d = { s.d with status := s.rad.status } ∧
    (s.spiStep (c :: out)).rad = (s.rad.xfer (c :: out)).1 ∧
    World.Only s.d.rid s.w (s.spiStep (c :: out)).w ∧ (s.spiStep (c :: out)).Wf ∧
    (s.spiStep (c :: out)).w.eff s.d.rid = s.w.eff s.d.rid + SPI_COST_NS ∧
    ∀ k, (s.spiStep (c :: out)).w.ackMap s.d.rid k = s.w.ackMap s.d.rid k := by
  obtain ⟨h1, h2, h3, h4⟩ := spiStep_quiet s c out hw hi
  refine ⟨h1, h2, h3, h4, ?_, ?_⟩
  · rw [spiStep_idle s _ hw hi]; exact World.spiQ_eff _ _ _
  · intro k; rw [spiStep_idle s _ hw hi]; exact World.ackMap_spiQ _ _ _ _

theorem ceQ_eff (s : DrvState) (v : Bool) : (s.ceQ v).w.eff s.d.rid = s.w.eff s.d.rid := World.setCEQ_eff _ _ _
theorem ceQ_ackMap (s : DrvState) (v : Bool) (k : Packet) : (s.ceQ v).w.ackMap s.d.rid k = s.w.ackMap s.d.rid k :=
  World.ackMap_setCEQ _ _ _ _

/-- what a step may change besides radio `i` and the clocks: nothing (`Only`), in the form the
    send proofs use -/
structure Kept (i : Nat) (k : Packet) (w w' : World) (spis : Nat) : Prop where
  faults : w'.faults = w.faults
  air : w'.air = w.air
  ackMap : w'.ackMap i k = w.ackMap i k
  len : w'.radios.length = w.radios.length
  eff : w'.eff i ≤ w.eff i + spis * SPI_COST_NS
  others : ∀ j, j ≠ i → w'.radio j = w.radio j

theorem Kept.refl (i : Nat) (k : Packet) (w : World) : Kept i k w w 0 :=
  ⟨rfl, rfl, rfl, rfl, by omega, fun _ _ => rfl⟩

theorem Kept.trans {i : Nat} {k : Packet} {a b c : World} {m n : Nat} (h1 : Kept i k a b m) (h2 : Kept i k b c n) :
    Kept i k a c (m + n) :=
  ⟨h2.faults.trans h1.faults, h2.air.trans h1.air, h2.ackMap.trans h1.ackMap, h2.len.trans h1.len, by
    have := h1.eff; have := h2.eff; rw [Nat.add_mul]; omega, fun j hj => (h2.others j hj).trans (h1.others j hj)⟩

theorem Kept.mono {i : Nat} {k : Packet} {a b : World} {m n : Nat} (h : Kept i k a b m) (hmn : m ≤ n) : Kept i k a b n :=
  ⟨h.faults, h.air, h.ackMap, h.len, by
    have := h.eff
    have : m * SPI_COST_NS ≤ n * SPI_COST_NS := Nat.mul_le_mul_right _ hmn
    omega, h.others⟩

/-- what the send proofs track from state to state: same object, shadows untouched apart from the
    cached status byte, world `Kept` -/
structure Rel (k : Packet) (s s' : DrvState) (spis : Nat) : Prop where
  rid : s'.d.rid = s.d.rid
  d : s'.d = { s.d with status := s'.d.status }
  kept : Kept s.d.rid k s.w s'.w spis
  wf : s'.Wf
  /-- no new payload went on the air: the PID counter is where it was -/
  npid : s'.rad.nextPid = s.rad.nextPid

theorem Rel.refl (k : Packet) (s : DrvState) (hw : s.Wf) : Rel k s s 0 := ⟨rfl, rfl, Kept.refl _ _ _, hw, rfl⟩

theorem Rel.trans {k : Packet} {a b c : DrvState} {m n : Nat} (h1 : Rel k a b m) (h2 : Rel k b c n) : Rel k a c (m + n) :=
  ⟨h2.rid.trans h1.rid, by rw [h2.d, h1.d], by have := h2.kept; rw [h1.rid] at this; exact h1.kept.trans this, h2.wf,
   h2.npid.trans h1.npid⟩

theorem Rel.mono {k : Packet} {a b : DrvState} {m n : Nat} (h : Rel k a b m) (hmn : m ≤ n) : Rel k a b n :=
  ⟨h.rid, h.d, h.kept.mono hmn, h.wf, h.npid⟩

theorem writeReg_nextPid (r : Radio) (reg : Nat) (d : Bytes) : (r.writeReg reg d).nextPid = r.nextPid := by
  unfold Radio.writeReg
  split <;> first | rfl | (split <;> rfl)

/-- no SPI command touches the PID counter -/
theorem xfer_nextPid (r : Radio) (out : Bytes) : (r.xfer out).1.nextPid = r.nextPid := by
  unfold Radio.xfer
  cases out with
  | nil => rfl
  | cons c d =>
    dsimp only
    unfold Radio.runCmd
    cases Radio.decodeCmd c with
    | rRegister reg => rfl
    | wRegister reg => dsimp only; split; · rfl
                       exact writeReg_nextPid _ _ _
    | activate => rfl
    | rRxPlWid => rfl
    | rRxPayload => dsimp only; unfold Radio.readPayload; split <;> rfl
    | wTxPayload => dsimp only; unfold Radio.writePayload; split <;> rfl
    | wTxPayloadNoAck => dsimp only; unfold Radio.writePayload; split <;> rfl
    | wAckPayload p => dsimp only; unfold Radio.writePayload; split <;> rfl
    | flushTx => rfl
    | flushRx => rfl
    | nop => rfl

/-- one transaction on a radio that stays idle -/
theorem step_spi (k : Packet) (s : DrvState) (c : Nat) (out : Bytes) (hw : s.Wf) (hi : (s.rad.xfer (c :: out)).1.Idle) :
    Rel k s (s.spiStep (c :: out)) 1 ∧ (s.spiStep (c :: out)).rad = (s.rad.xfer (c :: out)).1 ∧
    (s.spiStep (c :: out)).d.status = s.rad.status := by
  obtain ⟨h1, h2, h3, h4, h5, h6⟩ := spiStep_quiet' s c out hw hi
  refine ⟨⟨rfl, ?_, ⟨h3.2.1, h3.2.2.1, h6 k, h3.2.2.2.2.1, by rw [h5]; omega, h3.1⟩, h4, by rw [h2, xfer_nextPid]⟩, h2,
    by rw [h1]⟩
  rw [h1]

/-- the CE pin driven without a transmission starting -/
theorem step_ce (k : Packet) (s : DrvState) (v : Bool) (hw : s.Wf) :
    Rel k s (s.ceQ v) 0 ∧ (s.ceQ v).rad = { s.rad with ce := v } ∧ (s.ceQ v).d = s.d := by
  have ho := ceQ_only s v
  refine ⟨⟨rfl, rfl, ⟨ho.2.1, ho.2.2.1, ceQ_ackMap s v k, ho.2.2.2.2.1, by rw [ceQ_eff]; omega, ho.1⟩, ceQ_wf s v hw,
    by rw [ceQ_rad s v hw]⟩,
    ceQ_rad s v hw, rfl⟩

/-- a failed transmission is pending: exactly `e` queued (it goes on the air as `k`), MAX_RT and
    nothing else latched -/
structure FailedSt (R : Radio) (e : TxEntry) (k : Packet) (s : DrvState) : Prop where
  wf : s.Wf
  regs : s.rad.regs = R.regs
  fifo : s.rad.txFifo = [e]
  flags : s.rad.flags = 0x10
  pipes : s.rad.RxPipes
  pkt : s.rad.packetFor e = k
  sendable : Radio.headSendable [e] = true
  hpid : ∃ p, e.pid = some p
  /-- the PID counter stands one past the PID of the pending packet -/
  npid : s.rad.nextPid = (k.pid + 1) % 4

theorem rxPipes_congr (r r' : Radio) (h : r'.rxFifo = r.rxFifo) (hp : r.RxPipes) : r'.RxPipes := by
  unfold Radio.RxPipes; rw [h]; exact hp

theorem rxPipes_nil (r : Radio) (h : r.rxFifo = []) : r.RxPipes := by
  unfold Radio.RxPipes; rw [h]; intro e he; cases he

/-- **`resend()` on a pending failed transmission, up to the moment CE is raised**: the FIFO
    check passes, CE goes low, the RX FIFO is flushed iff `send_only` is off and it holds
    something, all flags are cleared — the transmitter is armed with the same entry, nothing else
    in the world has changed, 3 transactions at most -/
theorem resend_arm (R : Radio) (e : TxEntry) (k : Packet) (s : DrvState) (sendOnly : Bool) (h : FailedSt R e k s) :
    ∃ s4, Armed R e k s4 ∧ Rel k s s4 3 ∧
      (sendOnly = false → s4.rad.rxFifo = []) ∧ (s4.rad.rxFifo = [] ∨ s4.rad.rxFifo = s.rad.rxFifo) ∧
      s4.rad.pidFor e = s.rad.pidFor e ∧
      exec (resend sendOnly) s = exec (resendFire sendOnly) s4 := by
  rw [resend_eq]
  simp only [exec_bind, exec_fifo]
  have hfa : fifoAnswer (fifoOf s.rad true) (some true) = 0 := by
    unfold fifoOf fifoAnswer; simp [h.fifo]
  simp only [hfa, ne_eq, not_true_eq_false, ↓reduceIte]
  -- R_REGISTER FIFO_STATUS: the radio is idle (MAX_RT latched)
  have hx1 : (s.rad.xfer [0x17, 0]).1 = s.rad := by rw [Radio.xfer_rreg _ _ (by decide)]
  obtain ⟨hrel1, hr1, hst1⟩ := step_spi k s 0x17 [0] h.wf
    (by rw [hx1]; exact Radio.idle_of_maxrt _ (by rw [h.flags]; decide))
  rw [hx1] at hr1
  generalize s.spiStep [0x17, 0] = s1 at *
  -- CE low
  simp only [exec_bind, exec_setCE_false s1 hrel1.wf, exec_getD]
  obtain ⟨hrel2, hr2, hd2⟩ := step_ce k s1 false hrel1.wf
  rw [hr1] at hr2
  generalize hs2 : s1.ceQ false = s2 at *
  have hpf : rxPipeField s2.d = s.rad.rxPNo := by
    unfold rxPipeField; rw [hd2, hst1]; exact (Radio.status_decodeP s.rad h.pipes).1
  have hrel12 := hrel1.trans hrel2
  -- the common tail
  have tail : ∀ s3 : DrvState, Rel k s s3 2 → s3.rad.regs = R.regs → s3.rad.txFifo = [e] → s3.rad.ce = false →
      s3.rad.flags = 0x10 → s3.rad.RxPipes → s3.rad.packetFor e = k → s3.rad.pidFor e = s.rad.pidFor e →
      ∃ s4, Armed R e k s4 ∧ Rel k s s4 3 ∧ s4.rad.rxFifo = s3.rad.rxFifo ∧ s4.rad.pidFor e = s.rad.pidFor e ∧
        exec (resendTail sendOnly) s3 = exec (resendFire sendOnly) s4 := by
    intro s3 hrel3 hregs3 hf3 hce3 hfl3 hp3 hk3 hpid3
    unfold resendTail
    simp only [exec_bind, exec_clearStatusFlags]
    have hx4 : (s3.rad.xfer [0x27, clearMask true true true]).1 = { s3.rad with flags := 0 } := by
      rw [show (0x27 : Nat) = 0x20 ||| 7 from rfl, Radio.xfer_wreg _ 7 _ (by decide), Radio.writeReg_status]
      have : s3.rad.flags &&& (0x70 ^^^ (clearMask true true true &&& 0x70)) = 0 := by
        rw [hfl3]; decide
      rw [this]
    obtain ⟨hrel4, hr4, _⟩ := step_spi k s3 0x27 [clearMask true true true] hrel3.wf
      (by rw [hx4]; exact Radio.idle_of_ce _ hce3)
    rw [hx4] at hr4
    refine ⟨_, ⟨hrel4.wf, ?_, ?_, ?_, ?_, ?_, h.sendable, fun _ _ => by rw [(hrel3.trans hrel4).npid]; exact h.npid⟩,
      (hrel3.trans hrel4), ?_, ?_, rfl⟩
    · rw [hr4]; exact hregs3
    · rw [hr4]; exact hf3
    · rw [hr4]
    · rw [hr4]; exact rxPipes_congr _ _ rfl hp3
    · rw [hr4]; exact hk3
    · rw [hr4]
    · rw [hr4]; exact hpid3
  have hregs2 : s2.rad.regs = R.regs := by rw [hr2]; exact h.regs
  by_cases hc : (!sendOnly) = true ∧ rxPipeField s2.d < 6
  · simp only [hc, and_self, ↓reduceIte, exec_flushRx]
    have hx3 : (s2.rad.xfer [0xE2]).1 = { s.rad with ce := false, rxFifo := [] } := by
      rw [Radio.xfer_flushRx, hr2]
    obtain ⟨hrel3, hr3, _⟩ := step_spi k s2 0xE2 [] hrel2.wf (by rw [hx3]; exact Radio.idle_of_ce _ rfl)
    rw [hx3] at hr3
    obtain ⟨s4, ha, hr, hrx, hpid, hex⟩ := tail (s2.spiStep [0xE2]) (hrel12.trans hrel3)
      (by rw [hr3]; exact h.regs) (by rw [hr3]; exact h.fifo) (by rw [hr3]) (by rw [hr3]; exact h.flags)
      (by rw [hr3]; exact rxPipes_nil _ rfl) (by rw [hr3]; exact h.pkt) (by rw [hr3]; rfl)
    refine ⟨s4, ha, hr, fun _ => by rw [hrx, hr3], Or.inl (by rw [hrx, hr3]), hpid, hex⟩
  · simp only [hc, ↓reduceIte]
    obtain ⟨s4, ha, hr, hrx, hpid, hex⟩ := tail s2 (hrel12.mono (by omega))
      hregs2 (by rw [hr2]; exact h.fifo) (by rw [hr2]) (by rw [hr2]; exact h.flags)
      (by rw [hr2]; exact rxPipes_congr _ _ rfl h.pipes) (by rw [hr2]; exact h.pkt) (by rw [hr2]; rfl)
    refine ⟨s4, ha, hr, ?_, Or.inr (by rw [hrx, hr2]), hpid, hex⟩
    intro hso
    rw [hrx, hr2]
    show s.rad.rxFifo = []
    have hnot : ¬ (s.rad.rxPNo < 6) := by
      intro h6; apply hc; rw [hso, hpf]; exact ⟨rfl, h6⟩
    by_cases hne : s.rad.rxFifo = []
    · exact hne
    · exact absurd ((Radio.rxPNo_lt_sixP s.rad h.pipes).2 hne) hnot

/-- the entry as it stays queued after a failed cycle -/
def TxEntry.withPid (e : TxEntry) (pid : Nat) : TxEntry := { e with pid := some pid }

theorem sendable_withPid (e : TxEntry) (pid : Nat) : Radio.headSendable [e.withPid pid] = Radio.headSendable [e] := rfl

/-- **the two outcomes of a fire**, with the transmitter's FIFOs and flags -/
theorem fired_cases (R : Radio) (e : TxEntry) (k : Packet) (s : DrvState) (h : Armed R e k s) :
    (cycleOkSpec (R.awaitsAck e) (s.w.acked s.d.rid k) s.w.faults (World.arcOf R + 1) = false →
      FailedSt R (e.withPid (s.rad.pidFor e)) k (s.fired e) ∧ (s.fired e).rad.rxFifo = s.rad.rxFifo ∧
      (s.fired e).rad.arcCnt = World.arcOf R) ∧
    (cycleOkSpec (R.awaitsAck e) (s.w.acked s.d.rid k) s.w.faults (World.arcOf R + 1) = true →
      (s.fired e).rad.txFifo = [] ∧ (s.fired e).rad.RxPipes ∧
      (s.fired e).rad.flags = 0x20 ||| (if (ackTaken (R.awaitsAck e) (s.w.deliver s.d.rid k).2 R.ackPayRx
          (decide (s.rad.rxFifo.length < 3))).isSome then 0x40 else 0) ∧
      (s.fired e).rad.rxFifo = (match ackTaken (R.awaitsAck e) (s.w.deliver s.d.rid k).2 R.ackPayRx
          (decide (s.rad.rxFifo.length < 3)) with
        | some d => s.rad.rxFifo ++ [⟨0, d⟩]
        | none => s.rad.rxFifo) ∧
      (s.fired e).rad.arcCnt =
        cycleAttemptsSpec (R.awaitsAck e) (s.w.acked s.d.rid k) s.w.faults (World.arcOf R + 1) - 1) := by
  obtain ⟨hwf, hd, hregs, hce, _⟩ := fire_common R e k s h
  have hregs1 : Radio.regs { s.rad with ce := true } = R.regs := h.regs
  constructor
  · intro hok
    have hr := fire_failed R e k s h hok
    refine ⟨⟨hwf, hregs, ?_, ?_, ?_, ?_, h.sendable, ⟨_, rfl⟩, fired_npid R e k s h⟩, ?_, ?_⟩
    · rw [hr]; rfl
    · rw [hr]; show s.rad.flags ||| 0x10 = 0x10; rw [h.flags]; rfl
    · rw [hr]; exact rxPipes_congr _ _ rfl h.pipes
    · rw [← h.pkt]
      exact Radio.packetFor_regs _ _ _ _ (by rw [hregs, h.regs]) rfl rfl rfl
    · rw [hr]; rfl
    · rw [hr]; show s.rad.setupRetr &&& 0x0F = World.arcOf R
      rw [← Radio.arcOf_regs _ _ h.regs]; rfl
  · intro hok
    cases haw : R.awaitsAck e with
    | false =>
      have hr := fire_noack R e k s h haw
      have hat : ackTaken false (s.w.deliver s.d.rid k).2 R.ackPayRx (decide (s.rad.rxFifo.length < 3)) = none := rfl
      rw [hat]
      refine ⟨by rw [hr]; rfl, by rw [hr]; exact rxPipes_congr _ _ rfl h.pipes, ?_, by rw [hr]; rfl, ?_⟩
      · rw [hr]; show s.rad.flags ||| 0x20 = _; rw [h.flags]; rfl
      · rw [hr]; rfl
    | true =>
      rw [haw] at hok
      obtain ⟨a, ha, hr⟩ := fire_acked R e k s h haw hok
      rw [ha]
      have hcan : Radio.ackPayRx (Radio.takePid { s.rad with ce := true } e) = R.ackPayRx :=
        Radio.ackPayRx_regs _ _ (by rw [← hregs1]; rfl)
      have hcan' : (decide ((Radio.takePid { s.rad with ce := true } e).feature &&& 2 ≠ 0) &&
          (Radio.takePid { s.rad with ce := true } e).dplOn 0) = R.ackPayRx := hcan
      cases a with
      | none =>
        have hat : ackTaken true (some none) R.ackPayRx (decide (s.rad.rxFifo.length < 3)) = none := by
          unfold ackTaken; split <;> rfl
        rw [hat]
        refine ⟨by rw [hr]; rfl, by rw [hr]; exact rxPipes_congr _ _ rfl h.pipes, ?_, by rw [hr]; rfl, by rw [hr]; rfl⟩
        rw [hr]; show s.rad.flags ||| 0x20 ||| 0 = _; rw [h.flags]; rfl
      | some d =>
        have hrx0 : (Radio.takePid { s.rad with ce := true } e).rxFifo = s.rad.rxFifo := rfl
        by_cases hg : (R.ackPayRx && decide (s.rad.rxFifo.length < 3)) = true
        · have hat : ackTaken true (some (some d)) R.ackPayRx (decide (s.rad.rxFifo.length < 3)) = some d := by
            unfold ackTaken; simp only [Bool.true_and, hg, ↓reduceIte]
          rw [hat]
          have hgets : (decide ((Radio.takePid { s.rad with ce := true } e).feature &&& 2 ≠ 0) &&
              (Radio.takePid { s.rad with ce := true } e).dplOn 0 &&
              decide ((Radio.takePid { s.rad with ce := true } e).rxFifo.length < 3)) = true := by
            rw [hcan', hrx0]; exact hg
          have hrxF : (s.fired e).rad.rxFifo = s.rad.rxFifo ++ [⟨0, d⟩] := by
            rw [hr]; unfold Radio.txDoneAcked; simp only [hgets, ↓reduceIte, Option.getD_some]; rfl
          refine ⟨by rw [hr]; rfl, ?_, ?_, hrxF, by rw [hr]; rfl⟩
          · unfold Radio.RxPipes; rw [hrxF]
            intro x hx
            rcases List.mem_append.1 hx with hx | hx
            · exact h.pipes x hx
            · simp only [List.mem_cons, List.not_mem_nil, or_false] at hx; subst hx; exact Nat.zero_le _
          · rw [hr]; unfold Radio.txDoneAcked; simp only [hgets, ↓reduceIte]
            show s.rad.flags ||| 0x20 ||| 0x40 = _; rw [h.flags]; rfl
        · have hat : ackTaken true (some (some d)) R.ackPayRx (decide (s.rad.rxFifo.length < 3)) = none := by
            unfold ackTaken; simp only [Bool.true_and, hg, Bool.false_eq_true, ↓reduceIte]
          rw [hat]
          have hgets : (decide ((Radio.takePid { s.rad with ce := true } e).feature &&& 2 ≠ 0) &&
              (Radio.takePid { s.rad with ce := true } e).dplOn 0 &&
              decide ((Radio.takePid { s.rad with ce := true } e).rxFifo.length < 3)) = false := by
            rw [hcan', hrx0]; simpa using hg
          have hrxF : (s.fired e).rad.rxFifo = s.rad.rxFifo := by
            rw [hr]; unfold Radio.txDoneAcked; simp only [hgets, Bool.false_eq_true, ↓reduceIte]; rfl
          refine ⟨by rw [hr]; rfl, rxPipes_congr _ _ hrxF h.pipes, ?_, hrxF, by rw [hr]; rfl⟩
          rw [hr]; unfold Radio.txDoneAcked; simp only [hgets, Bool.false_eq_true, ↓reduceIte]
          show s.rad.flags ||| 0x20 ||| 0 = _; rw [h.flags]; rfl

/-! ### deciding the result -/

theorem pollFuel_succ : POLL_FUEL = 7 + 1 := rfl

/-- after a failed cycle (cache fresh): `False`, no further transaction -/
theorem resendFinish_failed (R : Radio) (e : TxEntry) (k : Packet) (s : DrvState) (sendOnly : Bool)
    (h : FailedSt R e k s) (hfresh : s.d.status = s.rad.status) :
    exec (resendFinish sendOnly) s = (.ok (.bool false), s) := by
  obtain ⟨_, _, _, _, h20, _, h30, _, _⟩ := Radio.status_decodeP s.rad h.pipes
  rw [h.flags] at h20 h30
  have hp : s.d.status &&& 0x30 ≠ 0 := by rw [hfresh, h30]; decide
  have hr : ¬ (s.d.status &&& 0x20 ≠ 0) := by rw [hfresh, h20]; decide
  unfold resendFinish
  rw [pollFuel_succ]
  simp only [exec_bind, exec_pollFlags_done _ _ hp, exec_getD, hr, false_and, ↓reduceIte, exec_pure, decide_false]

/-- after a successful cycle with no ACK payload to read (none taken, or `send_only`): `True` -/
theorem resendFinish_true (s : DrvState) (sendOnly : Bool) (hp : s.rad.RxPipes) (hfresh : s.d.status = s.rad.status)
    (t : Bool) (hfl : s.rad.flags = 0x20 ||| (if t then 0x40 else 0)) (ht : t = false ∨ sendOnly = true) :
    exec (resendFinish sendOnly) s = (.ok (.bool true), s) := by
  obtain ⟨_, _, _, h40, h20, _, h30, _, _⟩ := Radio.status_decodeP s.rad hp
  rw [hfl] at h20 h30 h40
  have hp : s.d.status &&& 0x30 ≠ 0 := by rw [hfresh, h30]; cases t <;> decide
  have hr : s.d.status &&& 0x20 ≠ 0 := by rw [hfresh, h20]; cases t <;> decide
  have hc : ¬ (s.d.status &&& 0x40 ≠ 0 ∧ (!sendOnly) = true) := by
    rintro ⟨h1, h2⟩
    rcases ht with ht | ht
    · subst ht; rw [hfresh, h40] at h1; exact h1 (by decide)
    · subst ht; cases h2
  unfold resendFinish
  rw [pollFuel_succ]
  simp only [exec_bind, exec_pollFlags_done _ _ hp, exec_getD, hr, hc, not_false_eq_true, true_and, ↓reduceIte,
    exec_pure, decide_true, ne_eq]

/-- after a successful cycle whose ACK payload `d` sits alone in the RX FIFO, `send_only` off:
    `read()` returns it -/
theorem resendFinish_payload (s : DrvState) (hw : s.Wf) (hfresh : s.d.status = s.rad.status) (d : Bytes) (hd : d ≠ [])
    (hfl : s.rad.flags = 0x60) (hrx : s.rad.rxFifo = [⟨0, d⟩]) (htx : s.rad.txFifo = [])
    (hfeat : s.d.features &&& 4 ≠ 0) :
    (exec (resendFinish false) s).1 = .ok (.payload (some d)) ∧
    (exec (resendFinish false) s).2.rad = { s.rad with rxFifo := [], flags := 0x20, lastByte := d.getLastD s.rad.lastByte } ∧
    World.Only s.d.rid s.w (exec (resendFinish false) s).2.w ∧
    (exec (resendFinish false) s).2.d = { s.d with status := ({ s.rad with rxFifo := [] } : Radio).status } ∧
    (exec (resendFinish false) s).2.w.eff s.d.rid = s.w.eff s.d.rid + 3 * SPI_COST_NS := by
  have hwf : s.rad.RxWf := by
    intro x hx; rw [hrx] at hx
    simp only [List.mem_cons, List.not_mem_nil, or_false] at hx; subst hx; exact ⟨Nat.zero_le _, hd⟩
  obtain ⟨_, _, _, h40, h20, _, h30, _, _⟩ := Radio.status_decode s.rad hwf
  rw [hfl] at h20 h30 h40
  have hp : s.d.status &&& 0x30 ≠ 0 := by rw [hfresh, h30]; decide
  have hr : s.d.status &&& 0x20 ≠ 0 := by rw [hfresh, h20]; decide
  have hc : s.d.status &&& 0x40 ≠ 0 := by rw [hfresh, h40]; decide
  obtain ⟨r1, r2, _, _, _, r6, r7⟩ := read_head_spec s hw hwf (Radio.idle_of_empty _ htx) ⟨0, d⟩ [] hrx
    (fun h => absurd h hfeat)
  have hex : exec (resendFinish false) s =
      ((match (exec (Rf24.read none) s).1 with | .ok a => .ok (.payload a) | .error e => .error e),
       (exec (Rf24.read none) s).2) := by
    unfold resendFinish
    rw [pollFuel_succ]
    simp only [exec_bind, exec_pollFlags_done _ _ hp, exec_getD, hr, hc, not_false_eq_true, true_and, ↓reduceIte,
      exec_pure, ne_eq, Bool.not_false, and_self]
    rcases hh : exec (Rf24.read none) s with ⟨res, s'⟩
    cases res <;> rfl
  have r8 := read_head_eff s hw hwf (Radio.idle_of_empty _ htx) ⟨0, d⟩ [] hrx (fun h => absurd h hfeat)
  rw [hex]
  simp only [r1]
  refine ⟨trivial, ?_, r6, r7, r8⟩
  rw [r2, hfl]
  rfl

end Nrf
