/-
C05 helper lemmas, part 9 (fragmented messages end to end, closed system), A:

* generic facts about `NetQueue.enqueue` (the by-value `FrameQueueFrag`): it never changes the
  `fragmentation` flag, and it hands the frame back unchanged unless it is a LAST fragment of external data;
* `NetState.enq` — the state after `queue.enqueue(self.frame_buf)`, whatever the queue does with the frame;
* `netUpdate_enq` — the generalisation of `netUpdate_deliver` (NrfProofs/C05Closed.lean) from user frames
  to **any** frame the node enqueues (user types and the three fragment types): one `_net_update()` of a
  listening node with exactly one payload in its RX FIFO, in a quiet closed network;
* `nodeUpdate_enq` — the same for `update()`, in relational form (`RcvUpd`).
-/
import NrfProofs.C05Reasm

namespace Nrf.Net
open Nrf Nrf.Spec Nrf.Proofs

/-! ### `NetQueue.enqueue`, generically -/

theorem enqueueBase_frag (q : NetQueue) (f : Frame) : (q.enqueueBase f).1.frag = q.frag := by
  unfold NetQueue.enqueueBase
  split
  · rfl
  · split <;> rfl

theorem enqueueBase_maxSize (q : NetQueue) (f : Frame) : (q.enqueueBase f).1.maxSize = q.maxSize := by
  unfold NetQueue.enqueueBase
  split
  · rfl
  · split <;> rfl

/-- `enqueue` never touches the `fragmentation` flag of the queue -/
theorem enqueue_frag (q : NetQueue) (f : Frame) : (q.enqueue f).1.frag = q.frag := by
  unfold NetQueue.enqueue
  simp only []
  repeat' split
  all_goals first | rfl | exact enqueueBase_frag _ _

/-- `enqueue` hands the caller's frame back unchanged — except the LAST fragment of external data, whose
    type it changes by reference -/
theorem enqueue_frame (q : NetQueue) (f : Frame)
    (h : f.header.ty ≠ MSG_FRAG_LAST ∨ f.header.reserved ≠ NETWORK_EXT_DATA) : (q.enqueue f).2.2 = f := by
  unfold NetQueue.enqueue
  simp only []
  repeat' split
  all_goals first | rfl | (rcases h with h | h <;> contradiction)

/-- a FIRST or MORE fragment never consumes a header id, whatever the cache does with it -/
theorem enqueue_noId (q : NetQueue) (f : Frame) (hq : q.frag = true)
    (h : f.header.ty = MSG_FRAG_FIRST ∨ f.header.ty = MSG_FRAG_MORE) :
    ¬ ((q.enqueue f).2.1 = true ∧ ((q.enqueue f).2.2.header.ty ≠ MSG_FRAG_FIRST ∧
        (q.enqueue f).2.2.header.ty ≠ MSG_FRAG_MORE ∨ (!q.frag) = true)) := by
  have hne : f.header.ty ≠ MSG_FRAG_LAST := by
    rcases h with h | h <;> rw [h] <;> decide
  rw [enqueue_frame q f (Or.inl hne), hq]
  rintro ⟨_, ⟨h1, h2⟩ | h3⟩
  · rcases h with h | h
    · exact h1 h
    · exact h2 h
  · cases h3

/-! ### the state after `queue.enqueue(self.frame_buf)` -/

/-- the state after `queue.enqueue(self.frame_buf)` of the running node -/
def NetState.enq (s : NetState) : NetState := (nexec enqueueFrameBuf s).2

theorem nexec_enqueueFrameBuf (s : NetState) :
    nexec enqueueFrameBuf s = (.ok (s.node.queue.enqueue s.node.frameBuf).2.1, s.enq) := by
  unfold NetState.enq
  rw [enqueueFrameBuf_eq]

theorem enq_eq (s : NetState) :
    s.enq = (let e := s.node.queue.enqueue s.node.frameBuf
      let s1 := s.setNode fun n => { n with queue := e.1, frameBuf := e.2.2 }
      if e.2.1 = true ∧ (e.2.2.header.ty ≠ MSG_FRAG_FIRST ∧ e.2.2.header.ty ≠ MSG_FRAG_MORE
           ∨ (!s.node.queue.frag) = true)
       then { s1 with nextId := (s1.nextId + 1) &&& 0xFFFF } else s1) := by
  unfold NetState.enq
  rw [enqueueFrameBuf_eq]

@[simp] theorem enq_cur (s : NetState) : s.enq.cur = s.cur := by rw [enq_eq]; simp only []; split <;> rfl
@[simp] theorem enq_active (s : NetState) : s.enq.active = s.active := by rw [enq_eq]; simp only []; split <;> rfl
@[simp] theorem enq_w (s : NetState) : s.enq.w = s.w := by rw [enq_eq]; simp only []; split <;> rfl
@[simp] theorem enq_closed (s : NetState) : s.enq.closed = s.closed := by rw [enq_eq]; simp only []; split <;> rfl
@[simp] theorem enq_len (s : NetState) : s.enq.nodes.length = s.nodes.length := by
  rw [enq_eq]; simp only []; split <;> simp [NetState.setNode]

theorem enq_nodes (s : NetState) :
    s.enq.nodes = (s.setNode fun n => { n with queue := (s.node.queue.enqueue s.node.frameBuf).1,
                                               frameBuf := (s.node.queue.enqueue s.node.frameBuf).2.2 }).nodes := by
  rw [enq_eq]; simp only []; split <;> rfl

theorem enq_node (s : NetState) (hcur : s.cur < s.nodes.length) :
    s.enq.node = { s.node with queue := (s.node.queue.enqueue s.node.frameBuf).1,
                               frameBuf := (s.node.queue.enqueue s.node.frameBuf).2.2 } := by
  have : s.enq.node = (s.setNode fun n => { n with queue := (s.node.queue.enqueue s.node.frameBuf).1, frameBuf := (s.node.queue.enqueue s.node.frameBuf).2.2 }).node := by
    unfold NetState.node
    rw [enq_nodes, enq_cur]
    rfl
  rw [this, node_setNode _ _ hcur]

theorem nodeAt_enq_ne (s : NetState) (i : Nat) (h : i ≠ s.cur) : s.enq.nodeAt i = s.nodeAt i := by
  unfold NetState.nodeAt
  rw [enq_nodes]
  show (NetState.setNode _ _).nodeAt i = _
  rw [nodeAt_setNode, if_neg (fun hh => h hh.1)]
  rfl

/-- the id counter after the enqueue of a FIRST or MORE fragment (fragmentation on): unchanged -/
theorem enq_nextId_frag (s : NetState) (hq : s.node.queue.frag = true)
    (h : s.node.frameBuf.header.ty = MSG_FRAG_FIRST ∨ s.node.frameBuf.header.ty = MSG_FRAG_MORE) :
    s.enq.nextId = s.nextId := by
  rw [enq_eq]
  simp only []
  rw [if_neg (enqueue_noId _ _ hq h)]
  rfl

/-! ### one `_net_update()` with one frame to enqueue -/

/-- **A frame waiting at its destination is enqueued by one `_net_update()`** — user types and fragment
    types alike: quiet closed network, the running node listening with exactly one payload `pk` in its RX
    FIFO, which unpacks to the frame `g` addressed to this node, of a user type or a fragment type, and
    the enqueue does not complete a message of external data.  The call returns the type of `g`; `g` was
    put into `frame_buf` and handed to `queue.enqueue` once (`NetState.enq`); the RX FIFO is empty. -/
theorem netUpdate_enq (hc : L3Contracts) (f : Nat) (s : NetState) (L : LinkCfg) (P : List Bytes)
    (p : Nat) (pk : Bytes) (g : Frame)
    (hcur : s.cur < s.nodes.length) (hclosed : s.closed = true) (hfuel : s.nodes.length + 2 ≤ f)
    (hq : Quiet s) (hWf : s.drv.Wf) (hN : NodeRadio L P true true 0x3E s.node.rf s.drv.radio)
    (harr : s.node.arrivals = []) (hfifo : s.drv.radio.rxFifo = [{ pipe := p, data := pk }]) (hp : p ≤ 5)
    (hl1 : 1 ≤ pk.length) (hl32 : pk.length ≤ 32)
    (hun : s.node.frameBuf.unpack pk = (g, true))
    (hto : g.header.toNode = s.node.a.addr)
    (hvt : isValid g.header.toNode = true) (hvf : isValid g.header.fromNode = true)
    (hty : g.header.ty ≤ MAX_USR_DEF_MSG_TYPE ∨ g.header.ty = MSG_FRAG_FIRST ∨
      g.header.ty = MSG_FRAG_MORE ∨ g.header.ty = MSG_FRAG_LAST)
    (hext : (s.node.queue.enqueue g).2.2.header.ty ≠ NETWORK_EXT_DATA) :
    ∃ D1 D2 : DrvState, nexec (netUpdate (f + 3) 0) s =
        (.ok g.header.ty, (((s.afterRf D1).withFrame g).enq).afterRf D2) ∧
      DrvFrame s.drv D1 ∧ DrvFrame D1 D2 ∧ NodeRadio L P true true 0x3E D2.d D2.radio ∧ D2.radio.rxFifo = [] := by
  -- first read: the frame
  obtain ⟨D1, e1, F1, N1, x1⟩ := rfRead_head hc (f + 1) s L P true true 0x3E hcur hclosed (by omega) hq hWf hN harr
    (by
      intro e he
      rw [hfifo] at he
      simp only [List.mem_singleton] at he
      subst he
      exact ⟨hp, hl1, hl32⟩)
  rw [hfifo] at e1 x1
  simp only [List.head?_cons, Option.map_some, List.tail_cons] at e1 x1
  have hn1 : (s.afterRf D1).node = { s.node with rf := D1.d } := afterRf_node s D1 hcur
  have hun1 : (s.afterRf D1).node.frameBuf.unpack pk = (g, true) := by rw [hn1]; exact hun
  rw [show f + 3 = (f + 2) + 1 from rfl, netUpdate_step, e1]
  simp only [hun1, hvt, hvf, Bool.not_true, Bool.or_self, Bool.false_eq_true, if_false]
  have hto' : g.header.toNode = (s.afterRf D1).node.a.addr := by rw [hn1]; exact hto
  simp only [if_pos hto']
  -- dispatch: enqueue
  have hc1 : (s.afterRf D1).cur < (s.afterRf D1).nodes.length := by simpa using hcur
  have hc2 : ((s.afterRf D1).withFrame g).cur < ((s.afterRf D1).withFrame g).nodes.length := by
    simpa using hcur
  have hn2 : ((s.afterRf D1).withFrame g).node = { s.node with rf := D1.d, frameBuf := g } := by
    rw [withFrame_node _ _ hc1, hn1]
  have hne : g.header.ty ≠ NETWORK_PING ∧ g.header.ty ≠ MESH_ADDR_RESPONSE ∧ g.header.ty ≠ MESH_ADDR_REQUEST := by
    unfold MAX_USR_DEF_MSG_TYPE MSG_FRAG_FIRST MSG_FRAG_MORE MSG_FRAG_LAST at hty
    unfold NETWORK_PING MESH_ADDR_RESPONSE MESH_ADDR_REQUEST
    omega
  rw [show f + 2 = (f + 1) + 1 from rfl, handleThis_enqueue (f + 1) _ _ hne.1 hne.2.1 hne.2.2 hty,
    nexec_enqueueFrameBuf]
  simp only []
  generalize hs3 : ((s.afterRf D1).withFrame g).enq = s3
  have hs3c : s3.cur = s.cur := by rw [← hs3]; simp
  have hs3a : s3.active = s.active := by rw [← hs3]; simp
  have hs3l : s3.nodes.length = s.nodes.length := by rw [← hs3]; simp
  have hs3w : s3.w = D1.w := by rw [← hs3]; simp
  have hs3cl : s3.closed = true := by rw [← hs3]; simpa using hclosed
  have hs3n : s3.node = { s.node with rf := D1.d, queue := (s.node.queue.enqueue g).1, frameBuf := (s.node.queue.enqueue g).2.2 } := by
    rw [← hs3, enq_node _ hc2, hn2]
  have hnot : ¬ s3.node.frameBuf.header.ty = NETWORK_EXT_DATA := by rw [hs3n]; exact hext
  simp only [if_neg hnot, if_true]
  -- second read: nothing
  have hs3d : s3.drv = D1 := by
    unfold NetState.drv; rw [hs3n, hs3w]
  have hs3q : Quiet s3 := by
    apply hq.of_eq hs3l hs3c hs3a
    intro i hi hic hia
    unfold NetState.radioAt NetState.ridAt
    have : s3.nodeAt i = s.nodeAt i := by
      rw [← hs3, nodeAt_enq_ne _ i (by simpa using hic), nodeAt_withFrame_ne _ _ i (by simpa using hic),
        nodeAt_afterRf_ne s D1 i hic]
    rw [this, hs3w]
    by_cases h : (s.nodeAt i).rf.rid = s.drv.d.rid
    · have h0 := hq i hi hic hia
      unfold NetState.radioAt NetState.ridAt at h0
      rw [h0, h, ← F1.rid]
      exact x1
    · rw [F1.others _ h]; rfl
  obtain ⟨D2, e2, F2, N2, x2⟩ := rfRead_head hc f s3 L P true true 0x3E (by rw [hs3c, hs3l]; exact hcur) hs3cl
    (by rw [hs3l]; omega) hs3q (by rw [hs3d]; exact F1.wf hWf) (by rw [hs3n, hs3d]; exact N1)
    (by rw [hs3n]; exact harr) (by rw [hs3d, x1]; simp)
  rw [hs3d, x1] at e2 x2
  simp only [List.head?_nil, Option.map_none, List.tail_nil] at e2 x2
  rw [netUpdate_step, e2]
  simp only []
  exact ⟨D1, D2, by rw [hs3], F1, hs3d ▸ F2, N2, x2⟩

/-- what `update()` of a listening node did that found one frame to enqueue: the node is the same but for
    its radio object (`D.d`), its queue `q'` and `frame_buf`; the other node objects, the scheduling
    state and the id counter's owner are untouched; the world is `D.w`, reached by RF24 calls of this
    node only (`DrvFrame`), with the node radio listening as before and its RX FIFO empty -/
structure RcvUpd (L : LinkCfg) (P : List Bytes) (t t' : NetState) (q' : NetQueue) (fb' : Frame) : Prop where
  cur : t'.cur = t.cur
  active : t'.active = t.active
  closed : t'.closed = t.closed
  len : t'.nodes.length = t.nodes.length
  others : ∀ j, j ≠ t.cur → t'.nodeAt j = t.nodeAt j
  node : ∃ d : Rf24, t'.node = { t.node with rf := d, queue := q', frameBuf := fb' } ∧
    DrvFrame t.drv ⟨d, t'.w⟩ ∧ NodeRadio L P true true 0x3E d (t'.w.radio d.rid) ∧ (t'.w.radio d.rid).rxFifo = []

/-- **`update()` of a node that is not a mesh master, one frame to enqueue** (`netUpdate_enq` in relational
    form) -/
theorem nodeUpdate_enq (hc : L3Contracts) (f : Nat) (s : NetState) (L : LinkCfg) (P : List Bytes)
    (p : Nat) (pk : Bytes) (g : Frame)
    (hcur : s.cur < s.nodes.length) (hclosed : s.closed = true) (hfuel : s.nodes.length + 2 ≤ f)
    (hq : Quiet s) (hWf : s.drv.Wf) (hN : NodeRadio L P true true 0x3E s.node.rf s.drv.radio)
    (harr : s.node.arrivals = []) (hkind : s.node.kind ≠ .meshMaster)
    (hfifo : s.drv.radio.rxFifo = [{ pipe := p, data := pk }]) (hp : p ≤ 5)
    (hl1 : 1 ≤ pk.length) (hl32 : pk.length ≤ 32)
    (hun : s.node.frameBuf.unpack pk = (g, true))
    (hto : g.header.toNode = s.node.a.addr)
    (hvt : isValid g.header.toNode = true) (hvf : isValid g.header.fromNode = true)
    (hty : g.header.ty ≤ MAX_USR_DEF_MSG_TYPE ∨ g.header.ty = MSG_FRAG_FIRST ∨
      g.header.ty = MSG_FRAG_MORE ∨ g.header.ty = MSG_FRAG_LAST)
    (hext : (s.node.queue.enqueue g).2.2.header.ty ≠ NETWORK_EXT_DATA) :
    ∃ s', nexec (nodeUpdate (f + 4)) s = (.ok g.header.ty, s') ∧
      RcvUpd L P s s' (s.node.queue.enqueue g).1 (s.node.queue.enqueue g).2.2 := by
  obtain ⟨D1, D2, e, F1, F2, N2, x2⟩ := netUpdate_enq hc f s L P p pk g hcur hclosed hfuel hq hWf hN harr hfifo hp
    hl1 hl32 hun hto hvt hvf hty hext
  have hc1 : (s.afterRf D1).cur < (s.afterRf D1).nodes.length := by simpa using hcur
  have hc2 : ((s.afterRf D1).withFrame g).cur < ((s.afterRf D1).withFrame g).nodes.length := by
    simpa using hcur
  have hc3 : ((s.afterRf D1).withFrame g).enq.cur < ((s.afterRf D1).withFrame g).enq.nodes.length := by
    simpa using hcur
  have hn2 : ((s.afterRf D1).withFrame g).node = { s.node with rf := D1.d, frameBuf := g } := by
    rw [withFrame_node _ _ hc1, afterRf_node s D1 hcur]
  have hnode : ((((s.afterRf D1).withFrame g).enq).afterRf D2).node =
      { s.node with rf := D2.d, queue := (s.node.queue.enqueue g).1, frameBuf := (s.node.queue.enqueue g).2.2 } := by
    rw [afterRf_node _ _ hc3, enq_node _ hc2, hn2]
  refine ⟨((((s.afterRf D1).withFrame g).enq).afterRf D2), ?_, ?_⟩
  · show nexec (nodeUpdate ((f + 3) + 1)) s = _
    refine nodeUpdate_plain (f + 3) s _ _ e ?_
    rw [hnode]; exact hkind
  · refine ⟨by simp, by simp, by simp, by simp, ?_, ⟨D2.d, hnode, F1.trans F2, N2, x2⟩⟩
    intro j hj
    rw [nodeAt_afterRf_ne _ _ _ (by simpa using hj), nodeAt_enq_ne _ _ (by simpa using hj),
      nodeAt_withFrame_ne _ _ _ (by simpa using hj), nodeAt_afterRf_ne _ _ _ hj]

end Nrf.Net
