/-
Discharging `L3Contracts`, part 4: the air.  Raising CE on a transmitter with one payload queued,
pipe 0 open on the TX address, loss-free air and some other radio that acknowledges: one transmit
cycle, acknowledged on the first attempt; **every** other radio has `receive`d the packet, exactly
once.  (World-level lemmas in the style of NrfProofs/C08Ack.lean / C08Send.lean, which track the
transmitter only.)
-/
import NrfProofs.L3Base

namespace Nrf.L3
open Nrf Nrf.Rf24

/-- the ACK-reception condition of the transmitter (Air.lean, `attemptLoop`) -/
def canHear (r : Radio) : Bool := Radio.bit r.enRxAddr 0 && r.rxAddr0.take r.aw == r.txAddr.take r.aw

theorem radio_eq_getElem (w : World) (i : Nat) (h : i < w.radios.length) : w.radio i = w.radios[i] := by
  unfold World.radio
  simp [List.getD_eq_getElem?_getD, List.getElem?_eq_getElem h]

/-- a radio slot that does not exist reads as the default radio, which ignores every packet -/
theorem default_receive (k : Packet) : (default : Radio).receive k = (default, none) := by
  apply Radio.receive_ignore
  apply Radio.listensTo_not_rx
  rfl

theorem radio_default (w : World) (i : Nat) (h : ¬ i < w.radios.length) : w.radio i = default := by
  unfold World.radio
  simp [List.getD_eq_getElem?_getD, List.getElem?_eq_none (Nat.le_of_not_lt h)]

/-- the transmitter itself is not touched by the delivery of its own packet -/
theorem deliver_radio_self (w : World) (s : Nat) (k : Packet) : (w.deliver s k).1.radio s = w.radio s := by
  unfold World.deliver World.deliverEach World.radio
  simp only [List.getD_eq_getElem?_getD, List.map_map, List.getElem?_map, List.getElem?_zipIdx]
  cases h : w.radios[s]? with
  | none => simp
  | some r => simp

/-- every other radio has received the packet -/
theorem deliver_radio_other (w : World) (s i : Nat) (k : Packet) (hi : i ≠ s) :
    (w.deliver s k).1.radio i = ((w.radio i).receive k).1 := by
  unfold World.deliver World.deliverEach World.radio
  simp only [List.getD_eq_getElem?_getD, List.map_map, List.getElem?_map, List.getElem?_zipIdx]
  cases h : w.radios[i]? with
  | none => simp [default_receive]
  | some r => simp [hi]

theorem deliver_faults (w : World) (s : Nat) (k : Packet) : (w.deliver s k).1.faults = w.faults := rfl
theorem deliver_length (w : World) (s : Nat) (k : Packet) : (w.deliver s k).1.radios.length = w.radios.length := by
  unfold World.deliver World.deliverEach; simp

/-- some acknowledgement comes back when a radio other than the sender acknowledges -/
theorem deliver_ack (w : World) (s b : Nat) (k : Packet) (hb : b < w.radios.length) (hbs : b ≠ s)
    (hack : ((w.radio b).receive k).2.isSome = true) : (w.deliver s k).2.isSome = true := by
  unfold World.deliver
  simp only
  have hmem : ((w.radio b).receive k) ∈ w.deliverEach s k := by
    unfold World.deliverEach
    rw [List.mem_map]
    refine ⟨(w.radios[b], b), ?_, ?_⟩
    · rw [List.mem_iff_getElem]
      refine ⟨b, by simpa using hb, ?_⟩
      simp
    · simp only [hbs, ↓reduceIte]
      rw [radio_eq_getElem w b hb]
  obtain ⟨x, hx⟩ := Option.isSome_iff_exists.mp hack
  have hin : x ∈ (w.deliverEach s k).filterMap (·.2) := by
    rw [List.mem_filterMap]
    exact ⟨_, hmem, hx⟩
  cases hl : (w.deliverEach s k).filterMap (·.2) with
  | nil => rw [hl] at hin; cases hin
  | cons y ys => rfl

/-- first attempt of the acknowledged cycle succeeds -/
theorem attemptLoop_first (s : Nat) (k : Packet) (left made : Nat) (w : World) (hf : w.faults = [])
    (hcan : canHear (w.radio s) = true) (hack : (w.deliver s k).2.isSome = true) :
    World.attemptLoop s k (left + 1) made w = ((w.deliver s k).1, made + 1, (w.deliver s k).2) := by
  unfold World.attemptLoop
  have hnf : w.nextFault = (w, .delivered) := by unfold World.nextFault; rw [hf]
  simp only [hnf]
  obtain ⟨x, hx⟩ := Option.isSome_iff_exists.mp hack
  have hc : (Radio.bit ((w.deliver s k).1.radio s).enRxAddr 0 &&
      ((w.deliver s k).1.radio s).rxAddr0.take ((w.deliver s k).1.radio s).aw ==
        ((w.deliver s k).1.radio s).txAddr.take ((w.deliver s k).1.radio s).aw) = true := by
    rw [deliver_radio_self]; exact hcan
  simp only [hx, hc, ↓reduceIte]

theorem updRadio_radio_self (w : World) (s : Nat) (f : Radio → Radio) (hs : s < w.radios.length) :
    (w.updRadio s f).radio s = f (w.radio s) := by
  unfold World.updRadio; rw [World.radio_setRadio]; simp [hs]

theorem updRadio_radio_other (w : World) (s j : Nat) (f : Radio → Radio) (hj : j ≠ s) :
    (w.updRadio s f).radio j = w.radio j := by
  unfold World.updRadio; rw [World.radio_setRadio]; simp [hj]

theorem updRadio_length (w : World) (s : Nat) (f : Radio → Radio) :
    (w.updRadio s f).radios.length = w.radios.length := by
  unfold World.updRadio World.setRadio; simp

theorem stamp_radio (w : World) (s t : Nat) (a : AirRec) (j : Nat) : (w.stamp s t a).radio j = w.radio j := rfl

/-- an acknowledged transmit cycle under the loss-free fault list, with a peer that acknowledges and
    a transmitter that can hear it: one attempt, TX_DS; every other radio `receive`s the packet -/
theorem cycle_acked (w : World) (a b : Nat) (e : TxEntry) (rest : List TxEntry) (ha : a < w.radios.length)
    (hf : w.faults = []) (haw : (w.radio a).awaitsAck e = true) (hcan : canHear (w.radio a) = true)
    (hb : b < w.radios.length) (hba : b ≠ a)
    (hack : ((w.radio b).receive ((w.radio a).packetFor e)).2.isSome = true) :
    ∃ x, (w.cycle a e rest).radio a = (((w.radio a).takePid e).txDoneAcked rest 1 x) ∧
      (w.cycle a e rest).faults = [] ∧ (w.cycle a e rest).radios.length = w.radios.length ∧
      (∀ i, i ≠ a → (w.cycle a e rest).radio i = ((w.radio i).receive ((w.radio a).packetFor e)).1) := by
  unfold World.cycle
  simp only [haw, Bool.not_true, Bool.false_eq_true, ↓reduceIte]
  generalize hw1 : w.updRadio a (fun x => x.takePid e) = w1
  have hlen1 : w1.radios.length = w.radios.length := by rw [← hw1]; exact updRadio_length _ _ _
  have hf1 : w1.faults = [] := by rw [← hw1]; exact hf
  have hra : w1.radio a = (w.radio a).takePid e := by rw [← hw1]; exact updRadio_radio_self _ _ _ ha
  have hro : ∀ i, i ≠ a → w1.radio i = w.radio i := by
    intro i hi; rw [← hw1]; exact updRadio_radio_other _ _ _ _ hi
  have hcan1 : canHear (w1.radio a) = true := by rw [hra]; exact hcan
  have hack1 : (w1.deliver a ((w.radio a).packetFor e)).2.isSome = true :=
    deliver_ack w1 a b _ (by rw [hlen1]; exact hb) hba (by rw [hro b hba]; exact hack)
  rw [attemptLoop_first a ((w.radio a).packetFor e) ((w.radio a).setupRetr &&& 0x0F) 0 w1 hf1 hcan1 hack1]
  obtain ⟨x, hx⟩ := Option.isSome_iff_exists.mp hack1
  simp only [hx, Nat.zero_add]
  refine ⟨x, ?_, ?_, ?_, ?_⟩
  · rw [stamp_radio, updRadio_radio_self _ _ _ (by rw [deliver_length, hlen1]; exact ha), deliver_radio_self, hra]
  · exact hf1
  · show (((w1.deliver a ((w.radio a).packetFor e)).1.updRadio a fun r => r.txDoneAcked rest 1 x)).radios.length = _
    rw [updRadio_length, deliver_length, hlen1]
  · intro i hi
    rw [stamp_radio, updRadio_radio_other _ _ _ _ hi, deliver_radio_other _ _ _ _ hi, hro i hi]

/-- raising CE on a transmitter with one payload queued, an acknowledging peer, loss-free air and
    pipe 0 open on the TX address -/
theorem setCE_transmit (w : World) (a b : Nat) (e : TxEntry) (ha : a < w.radios.length) (hf : w.faults = [])
    (hfifo : (w.radio a).txFifo = [e]) (hkind : e.kind = .payload)
    (hpwr : (w.radio a).pwrUp = true) (hrole : (w.radio a).primRx = false) (hfl : (w.radio a).flags &&& 0x10 = 0)
    (haw : (w.radio a).awaitsAck e = true) (hcan : canHear (w.radio a) = true)
    (hb : b < w.radios.length) (hba : b ≠ a)
    (hack : ((w.radio b).receive ((w.radio a).packetFor e)).2.isSome = true) :
    ∃ x, (w.setCE a true).radio a = (({ (w.radio a) with ce := true } : Radio).takePid e).txDoneAcked [] 1 x ∧
      (w.setCE a true).faults = [] ∧ (w.setCE a true).radios.length = w.radios.length ∧
      (∀ i, i ≠ a → (w.setCE a true).radio i = ((w.radio i).receive ((w.radio a).packetFor e)).1) := by
  have hl : a < (w.jump a).radios.length := ha
  unfold World.setCE
  simp only [jump_radio]
  generalize hw0 : (w.jump a).setRadio a { (w.radio a) with ce := true } = w0
  have hr0 : w0.radio a = { (w.radio a) with ce := true } := by rw [← hw0, World.radio_setRadio]; simp [hl]
  have hro : ∀ i, i ≠ a → w0.radio i = w.radio i := by
    intro i hi; rw [← hw0, World.radio_setRadio]; simp [hi]; rfl
  have hlen0 : w0.radios.length = w.radios.length := by rw [← hw0]; simp [World.setRadio, World.jump]
  have hf0 : w0.faults = [] := by rw [← hw0]; exact hf
  have htx : (w0.radio a).txMode = true := by
    rw [hr0]; unfold Radio.txMode Radio.pwrUp Radio.primRx at *
    simp only at hpwr hrole ⊢
    rw [hpwr, hrole]; rfl
  have hfl0 : (w0.radio a).flags &&& 0x10 = 0 := by rw [hr0]; exact hfl
  have hfifo0 : (w0.radio a).txFifo = [e] := by rw [hr0]; exact hfifo
  have hpk : (w0.radio a).packetFor e = (w.radio a).packetFor e := by rw [hr0]; rfl
  obtain ⟨x, hx, hfx, hlx, hox⟩ := cycle_acked w0 a b e [] (by rw [hlen0]; exact ha) hf0
    (by rw [hr0]; exact haw) (by rw [hr0]; exact hcan) (by rw [hlen0]; exact hb) hba
    (by rw [hro b hba, hpk]; exact hack)
  refine ⟨x, ?_⟩
  show (World.tryTransmit a 4 w0).radio a = _ ∧ (World.tryTransmit a 4 w0).faults = [] ∧
    (World.tryTransmit a 4 w0).radios.length = _ ∧ ∀ i, i ≠ a → (World.tryTransmit a 4 w0).radio i = _
  have hstep : World.tryTransmit a 4 w0 = w0.cycle a e [] := by
    unfold World.tryTransmit
    simp only [htx, hfl0, decide_true, Bool.and_self, ↓reduceIte, hfifo0, hkind]
    exact tryTransmit_idle a 3 _ (Or.inl (by rw [hx]; rfl))
  rw [hstep]
  refine ⟨by rw [hx, hr0], hfx, hlx.trans hlen0, ?_⟩
  intro i hi
  rw [hox i hi, hro i hi, hpk]

end Nrf.L3
