/-
C17, lookups end to end, part 3: `_lookup_2_master`, `lookup_address(id)`, `lookup_node_id(addr)` of a
connected node in the closed two-node system, as functions of the master's table.

`Conn` — the invariant of the two-node system between API calls of the connected node `x` (address `ax`,
a child of the master `m`): both listening on their own addresses with empty RX FIFOs, nothing scripted,
no fault scripted, no third radio listening, the master with `_do_dhcp` clear.  Every lookup
re-establishes it with **the master's table unchanged**.
-/
import NrfProofs.C17Lookup2

namespace Nrf.Net.Join
open Nrf Nrf.Net Nrf.Spec Nrf.Proofs

/-- the two-node system — master `m`, connected node `x` at address `ax` — between two API calls of `x` -/
structure Conn (L : LinkCfg) (Pm Px : List Bytes) (m x px ax : Nat) (Am Ax : Bytes) (s : NetState) : Prop where
  len : s.nodes.length = 2
  hm : m < 2
  hx : x < 2
  hmx : m ≠ x
  cur : s.cur = x
  act : s.active = [x]
  closed : s.closed = true
  faults : s.w.faults = []
  nextId : s.nextId < 65536
  ridm : s.ridAt m < s.w.radios.length
  ridx : s.ridAt x < s.w.radios.length
  ridne : s.ridAt m ≠ s.ridAt x
  others : ∀ i, i ≠ s.ridAt m → i ≠ s.ridAt x → (s.w.radio i).rxMode = false
  Nm : NodeRadio L Pm true true 0x3E (s.nodeAt m).rf (s.radioAt m)
  Nx : NodeRadio L Px true true 0x3E (s.nodeAt x).rf (s.radioAt x)
  fm : (s.radioAt m).rxFifo = []
  fx : (s.radioAt x).rxFifo = []
  arrm : (s.nodeAt m).arrivals = []
  arrx : (s.nodeAt x).arrivals = []
  pAm : Pm[px]? = some Am
  px1 : 1 ≤ px
  px5 : px ≤ 5
  ltm : ∀ q, q < px → Pm[q]? ≠ some Am
  pAx : Px[5]? = some Ax
  ltx : ∀ q, q < 5 → Px[q]? ≠ some Ax
  xaddr : (s.nodeAt x).a.addr = ax
  xid : (s.nodeAt x).nodeId ≠ 0
  xret : (s.nodeAt x).retSysMsg = true
  xcfg : pipeAddress (s.nodeAt x).cfg 0 px = .ok Am
  xl2p : logi2phys (s.nodeAt x).a 0 TX_NORMAL = (0, px, false)
  kind : (s.nodeAt m).kind = .meshMaster
  mid : (s.nodeAt m).nodeId = 0
  maddr : (s.nodeAt m).a.addr = 0
  mret : (s.nodeAt m).retSysMsg = true
  mdo : (s.nodeAt m).doDhcp = false
  small : Nrf.Proofs.MeshK.TableSmall (s.nodeAt m).dhcp
  ml2p : logi2phys (s.nodeAt m).a ax TX_NORMAL = (ax, 5, false)
  mcfg : pipeAddress (s.nodeAt m).cfg ax 5 = .ok Ax
  ax12 : ax < 4096
  axv : isValid ax = true
  ax0 : ax ≠ 0
  axd : ax ≠ NETWORK_DEFAULT_ADDR

theorem lookVal_range (n : Node) (fid ax ty : Nat) (body : Bytes) (h : Nrf.Proofs.MeshK.TableSmall n.dhcp) :
    -32768 ≤ lookVal n fid ax ty body ∧ lookVal n fid ax ty body < 32768 :=
  Nrf.Proofs.MeshK.lookupAnswer_range _ ty h

/-- the table's answer to `lookup_address(id)`, `id ≠ 0`, on a master that holds address 0 -/
theorem lookVal_addr (n : Node) (fid ax id : Nat) (h0 : n.a.addr = 0) (hid : id ≠ 0) :
    lookVal n fid ax MESH_ADDR_LOOKUP [id] = MeshProtocol.tableAddress n.dhcp id := by
  unfold lookVal Nrf.Proofs.MeshK.lookupAnswer
  have hd : ¬ ((0 : Nat) = NETWORK_DEFAULT_ADDR) := by decide
  simp only [if_true, lookFrame, List.headD_cons, hid, if_false, h0, hd]

/-- the table's answer to `lookup_node_id(a)`, `0 < a < 65536`, on a master that holds address 0 -/
theorem lookVal_id (n : Node) (fid ax a : Nat) (h0 : n.a.addr = 0) (ha0 : a ≠ 0) :
    lookVal n fid ax MESH_ID_LOOKUP [a % 256, a / 256] = MeshProtocol.tableNodeId n.dhcp a := by
  unfold lookVal Nrf.Proofs.MeshK.lookupAnswer
  have hd : ¬ ((0 : Nat) = NETWORK_DEFAULT_ADDR) := by decide
  have hne : ¬ (MESH_ID_LOOKUP = MESH_ADDR_LOOKUP) := by decide
  have hle : le16 (a % 256) (a / 256) = a := by unfold le16; omega
  simp only [if_neg hne, lookFrame, List.headD_cons, List.tail_cons, hle, ha0, if_false, h0, hd]

/-- **`_lookup_2_master(number, type)` of the connected node, end to end**: the result is the table's
    answer; the system invariant is re-established; the master's node object is unchanged apart from
    `frame_buf` (so the table, `_do_dhcp`, ID, address are). -/
theorem lookup2_closed (s : NetState) (L : LinkCfg) (Pm Px : List Bytes) (m x px ax : Nat) (Am Ax : Bytes)
    (number : Int) (ty : Nat) (body : Bytes)
    (C : Conn L Pm Px m x px ax Am Ax s)
    (hb : Nrf.Proofs.MeshK.lookupBody number ty = .ok body)
    (hty : ty = MESH_ADDR_LOOKUP ∨ ty = MESH_ID_LOOKUP)
    (hlong : Mesh.lookupLongEnough ty body = true) (hbody : body.length ≤ MAX_FRAG_SIZE)
    (hdupm : ∀ pid d, (s.radioAt m).lastRx = some { pid := pid, addr := Am, data := d } →
      (lookFrame s.nextId ax ty body).pack ≠ .ok d)
    (hdupx : ∀ pid d, (s.radioAt x).lastRx = some { pid := pid, addr := Ax, data := d } →
      (lookReply s.nextId ax ty (MeshProtocol.replyBytes (lookVal (s.nodeAt m) s.nextId ax ty body))).pack ≠ .ok d) :
    ∃ s2 : NetState,
      nexec (lookup2Master number ty) s = (.ok (lookVal (s.nodeAt m) s.nextId ax ty body), s2) ∧
      Conn L Pm Px m x px ax Am Ax s2 ∧
      (s2.nodeAt m).body = { (s.nodeAt m).body with
        frameBuf := lookReply s.nextId ax ty (MeshProtocol.replyBytes (lookVal (s.nodeAt m) s.nextId ax ty body)) } ∧
      (s2.nodeAt x).body = { (s.nodeAt x).body with
        frameBuf := lookReply s.nextId ax ty (MeshProtocol.replyBytes (lookVal (s.nodeAt m) s.nextId ax ty body)) } ∧
      s2.nextId = (s.nextId + 1) &&& 0xFFFF ∧
      (∃ pid1 pid2 pk pk', (lookFrame s.nextId ax ty body).pack = .ok pk ∧
        (lookReply s.nextId ax ty (MeshProtocol.replyBytes (lookVal (s.nodeAt m) s.nextId ax ty body))).pack = .ok pk' ∧
        (s2.radioAt m).lastRx = some { pid := pid1, addr := Am, data := pk } ∧
        (s2.radioAt x).lastRx = some { pid := pid2, addr := Ax, data := pk' }) := by
  have hcl : s.cur < s.nodes.length := by rw [C.cur, C.len]; exact C.hx
  have hnode : s.node = s.nodeAt x := by rw [node_eq_nodeAt, C.cur]
  obtain ⟨pk, hpk⟩ := pack_ok (lookFrame s.nextId ax ty body) ty rfl
  obtain ⟨pk', hpk'⟩ := pack_ok
    (lookReply s.nextId ax ty (MeshProtocol.replyBytes (lookVal (s.nodeAt m) s.nextId ax ty body))) ty rfl
  -- the state handed to `_write`
  generalize hs0 : ({ s with nextId := (s.nextId + 1) &&& 0xFFFF } : NetState) = s0
  have s0rad : ∀ k, s0.radioAt k = s.radioAt k := by intro k; rw [← hs0]; rfl
  have s0node : ∀ k, s0.nodeAt k = s.nodeAt k := by intro k; rw [← hs0]; rfl
  have s0cur : s0.cur = x := by rw [← hs0]; exact C.cur
  have s0c : s0.cur < s0.nodes.length := by rw [← hs0]; exact hcl
  generalize hsB : s0.withFrame (lookFrame s.nextId ax ty body) = sB
  have sBrad : ∀ k, sB.radioAt k = s.radioAt k := by intro k; rw [← hsB, radioAt_withFrame, s0rad]
  have sBrf : ∀ k, (sB.nodeAt k).rf = (s.nodeAt k).rf := by intro k; rw [← hsB, rf_withFrame, s0node]
  have sBrid : ∀ k, sB.ridAt k = s.ridAt k := by intro k; show (sB.nodeAt k).rf.rid = _; rw [sBrf]; rfl
  have sBm : sB.nodeAt m = s.nodeAt m := by
    rw [← hsB, nodeAt_withFrame_ne _ _ _ (by rw [s0cur]; exact C.hmx), s0node]
  have sBx : sB.nodeAt x = { s.nodeAt x with frameBuf := lookFrame s.nextId ax ty body } := by
    have : sB.nodeAt x = sB.node := by rw [node_eq_nodeAt, ← hsB]; show _ = (s0.withFrame _).nodeAt s0.cur; rw [s0cur]
    rw [this, ← hsB, withFrame_node _ _ s0c, node_eq_nodeAt, s0cur, s0node]
  have sBw : sB.w = s.w := by rw [← hsB, ← hs0]; rfl
  have hsent : Nrf.Proofs.MeshK.lookupSent s ty body = sB := by
    rw [← hsB, ← hs0]
    unfold Nrf.Proofs.MeshK.lookupSent NetState.withFrame lookFrame
    have : (Nrf.NetK.curNode s).a.addr = ax := by
      show s.node.a.addr = ax
      rw [hnode]; exact C.xaddr
    rw [this]
    rfl
  obtain ⟨s1, s2, eW, eN, c2, a2, n2, cl2, fl2, nx2, bx2, bm2, Nm2, Nx2, fm2, fx2, rm2, rx2, rl2, oth2, pid1, pid2,
    lm2, lx2⟩ := leg_lookup (200000 - 7 - m) (200000 - 2) sB L Pm Px m x px s.nextId ax ty body Am Ax pk pk'
      (by rw [← hsB]; simp only [withFrame_len]; rw [← hs0]; exact C.len) C.hm C.hx C.hmx
      (by rw [← hsB]; exact s0cur) (by rw [← hsB, ← hs0]; exact C.act) (by rw [← hsB, ← hs0]; exact C.closed)
      (by rw [sBw]; exact C.faults) (by have := C.hm; omega) (by omega)
      (by rw [sBrid, sBw]; exact C.ridm) (by rw [sBrid, sBw]; exact C.ridx) (by rw [sBrid, sBrid]; exact C.ridne)
      (by intro i; rw [sBrid, sBrid, sBw]; exact C.others i)
      (by rw [sBm, sBrad]; exact C.Nm) (by rw [sBrf, sBrad]; exact C.Nx)
      (by rw [sBrad]; exact C.fm) (by rw [sBrad]; exact C.fx)
      (by intro pid h; rw [sBrad] at h; exact hdupm pid pk h hpk)
      (by intro pid h; rw [sBrad] at h; exact hdupx pid pk' h hpk')
      (by rw [sBm]; exact C.arrm) (by rw [sBx]; exact C.arrx)
      C.pAm C.px1 C.px5 C.ltm C.pAx C.ltx
      (by rw [sBx]) (by rw [sBx]; exact C.xaddr) (by rw [sBx]; exact C.xret) (by rw [sBx]; exact C.xcfg)
      (by rw [sBx]; exact C.xl2p)
      (by rw [sBm]; exact C.kind) (by rw [sBm]; exact C.mid) (by rw [sBm]; exact C.maddr) (by rw [sBm]; exact C.mret)
      (by rw [sBm]; exact C.mdo) (by rw [sBm]; exact C.small) (by rw [sBm]; exact C.ml2p) (by rw [sBm]; exact C.mcfg)
      hty hlong hbody C.ax12 C.nextId C.axv C.ax0 hpk (by rw [sBm]; exact hpk')
  rw [sBm] at bx2 bm2
  have hF1 : F = 200000 - 2 + 2 := rfl
  have hF : F = 200000 - 7 - m + 7 + m := by
    have := C.hm
    show 200000 = _
    omega
  rw [← hF1] at eW
  rw [← hF] at eN
  have hc2 : s2.cur < s2.nodes.length := by rw [c2, n2]; exact C.hx
  have s2node : s2.node = s2.nodeAt x := by rw [node_eq_nodeAt, c2]
  have hmsg : s2.node.frameBuf.message =
      MeshProtocol.replyBytes (lookVal (s.nodeAt m) s.nextId ax ty body) := by
    have : s2.node.frameBuf = (s2.nodeAt x).body.frameBuf := by rw [s2node]; rfl
    rw [this, bx2]; rfl
  have sBxb : (sB.nodeAt x).body = { (s.nodeAt x).body with frameBuf := lookFrame s.nextId ax ty body } := by
    rw [sBx]; rfl
  refine ⟨s2, ?_, ?_, bm2, by rw [bx2, sBxb], ?_, pid1, pid2, pk, pk', hpk, hpk', by rw [lm2], by rw [lx2]⟩
  · -- the computation
    have h := Nrf.Proofs.MeshK.nexec_lookup2Master number ty s body hb
    have h' : nexec (lookup2Master number ty) s =
        match nexec (nodeWrite F 0 TX_NORMAL) (Nrf.Proofs.MeshK.lookupSent s ty body) with
        | (.error e, s1) => (.error e, s1)
        | (.ok false, s1) => (.ok MeshProtocol.NO_ANSWER, s1)
        | (.ok true, s1) =>
          match nexec (lookupWait (135 * 1000000 + s1.w.clock) F) s1 with
          | (.error e, s2) => (.error e, s2)
          | (.ok false, s2) => (.ok MeshProtocol.NO_ANSWER, s2)
          | (.ok true, s2) => (.ok (MeshProtocol.replyValue s2.node.frameBuf.message), s2) := h
    rw [h', hsent, eW]
    simp only []
    have hw : nexec (lookupWait (135 * 1000000 + s1.w.clock) F) s1 = (.ok true, s2) := by
      rw [show F = 199999 + 1 from rfl, lookupWait.eq_2, nexec_bind, eN]
      have : ty = MESH_ID_LOOKUP ∨ ty = MESH_ADDR_LOOKUP := hty.symm
      simp only [this, if_true]
      rfl
    rw [hw]
    simp only []
    rw [hmsg, Nrf.Proofs.MeshK.replyValue_replyBytes (lookVal_range _ _ _ _ _ C.small)]
  · -- the invariant
    have bx3 : (s2.nodeAt x).body = { (s.nodeAt x).body with
        frameBuf := lookReply s.nextId ax ty (MeshProtocol.replyBytes (lookVal (s.nodeAt m) s.nextId ax ty body)) } := by
      rw [bx2, sBxb]
    exact
      { len := n2, hm := C.hm, hx := C.hx, hmx := C.hmx, cur := c2, act := a2, closed := cl2, faults := fl2,
        nextId := by
          rw [nx2, ← hsB, ← hs0]
          show (s.nextId + 1) &&& 0xFFFF < 65536
          rw [and_ffff]; omega,
        ridm := by rw [rm2, rl2, sBrid, sBw]; exact C.ridm,
        ridx := by rw [rx2, rl2, sBrid, sBw]; exact C.ridx,
        ridne := by rw [rm2, rx2, sBrid, sBrid]; exact C.ridne,
        others := by
          intro i h1 h2
          rw [rm2, sBrid] at h1
          rw [rx2, sBrid] at h2
          rw [oth2 i (by rw [sBrid]; exact h1) (by rw [sBrid]; exact h2), sBw]
          exact C.others i h1 h2,
        Nm := Nm2, Nx := Nx2, fm := fm2, fx := fx2,
        arrm := by
          have : (s2.nodeAt m).arrivals = (s2.nodeAt m).body.arrivals := rfl
          rw [this, bm2]; exact C.arrm,
        arrx := by
          have : (s2.nodeAt x).arrivals = (s2.nodeAt x).body.arrivals := rfl
          rw [this, bx3]; exact C.arrx,
        pAm := C.pAm, px1 := C.px1, px5 := C.px5, ltm := C.ltm, pAx := C.pAx, ltx := C.ltx,
        xaddr := by
          have : (s2.nodeAt x).a = (s2.nodeAt x).body.a := rfl
          rw [this, bx3]; exact C.xaddr,
        xid := by
          have : (s2.nodeAt x).nodeId = (s2.nodeAt x).body.nodeId := rfl
          rw [this, bx3]; exact C.xid,
        xret := by
          have : (s2.nodeAt x).retSysMsg = (s2.nodeAt x).body.retSysMsg := rfl
          rw [this, bx3]; exact C.xret,
        xcfg := by
          have : (s2.nodeAt x).cfg = (s2.nodeAt x).body.cfg := rfl
          rw [this, bx3]; exact C.xcfg,
        xl2p := by
          have : (s2.nodeAt x).a = (s2.nodeAt x).body.a := rfl
          rw [this, bx3]; exact C.xl2p,
        kind := by
          have : (s2.nodeAt m).kind = (s2.nodeAt m).body.kind := rfl
          rw [this, bm2]; exact C.kind,
        mid := by
          have : (s2.nodeAt m).nodeId = (s2.nodeAt m).body.nodeId := rfl
          rw [this, bm2]; exact C.mid,
        maddr := by
          have : (s2.nodeAt m).a = (s2.nodeAt m).body.a := rfl
          rw [this, bm2]; exact C.maddr,
        mret := by
          have : (s2.nodeAt m).retSysMsg = (s2.nodeAt m).body.retSysMsg := rfl
          rw [this, bm2]; exact C.mret,
        mdo := by
          have : (s2.nodeAt m).doDhcp = (s2.nodeAt m).body.doDhcp := rfl
          rw [this, bm2]; exact C.mdo,
        small := by
          have : (s2.nodeAt m).dhcp = (s2.nodeAt m).body.dhcp := rfl
          rw [this, bm2]; exact C.small,
        ml2p := by
          have : (s2.nodeAt m).a = (s2.nodeAt m).body.a := rfl
          rw [this, bm2]; exact C.ml2p,
        mcfg := by
          have : (s2.nodeAt m).cfg = (s2.nodeAt m).body.cfg := rfl
          rw [this, bm2]; exact C.mcfg,
        ax12 := C.ax12, axv := C.axv, ax0 := C.ax0, axd := C.axd }
  · rw [nx2, ← hsB, ← hs0]; rfl

end Nrf.Net.Join
