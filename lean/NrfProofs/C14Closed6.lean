/-
C14, closed system, part 6: the receivers' `update()` calls after a multicast (parts 3 and 4) leave
the air log alone -- the only driver call on that path is `read()`.
-/
import NrfProofs.C14Closed4

namespace Nrf.Net
open Nrf Nrf.Spec Nrf.Proofs Nrf.Proofs.McastK Nrf.Props.C04

/-- `read()` of a radio whose TX FIFO is empty leaves the air log alone (proved in NrfProofs/C14Closed5.lean;
    taken as a hypothesis here so that the two files are independent) -/
def ReadKeepsAir : Prop :=
  ∀ s : DrvState, s.Wf → s.radio.txFifo = [] → (exec (Rf24.read none) s).2.w.air = s.w.air

theorem NodeRadio.txEmpty {L : LinkCfg} {P : List Bytes} {rx ce : Bool} {aa : Nat} {d : Rf24} {r : Radio}
    (hN : NodeRadio L P rx ce aa d r) : r.txFifo = [] := by
  obtain ⟨h1, h2, h3, h4, h5, h6, h7, h8, h9, h10, h11, h12, h13, h14, h15, h16, h17, h18, h19, h20, h21, h22,
    h23, h24, h25, h26, h27, h28, h29⟩ := hN
  exact h26

/-- the air log after a `read()` whose outcome is given -/
theorem ReadKeepsAir.of_exec (hread : ReadKeepsAir) {s D : DrvState} {a : Option Bytes}
    (hWf : s.Wf) (htx : s.radio.txFifo = []) (e : exec (Rf24.read none) s = (.ok a, D)) : D.w.air = s.w.air := by
  have h := hread s hWf htx
  rw [e] at h
  exact h

/-- `rfRead_head` with the air log -/
theorem rfRead_head_air (hread : ReadKeepsAir) (hc : L3Contracts) (f : Nat) (s : NetState) (L : LinkCfg) (P : List Bytes)
    (rx ce : Bool) (aa : Nat) (hcur : s.cur < s.nodes.length) (hclosed : s.closed = true)
    (hfuel : s.nodes.length < f) (hq : Quiet s) (hWf : s.drv.Wf)
    (hN : NodeRadio L P rx ce aa s.node.rf s.drv.radio) (harr : s.node.arrivals = [])
    (hfifo : ∀ e ∈ s.drv.radio.rxFifo, e.pipe ≤ 5 ∧ 1 ≤ e.data.length ∧ e.data.length ≤ 32) :
    ∃ D : DrvState, nexec (rfRead (f + 1)) s = (.ok (s.drv.radio.rxFifo.head?.map (·.data)), s.afterRf D) ∧
      DrvFrame s.drv D ∧ NodeRadio L P rx ce aa D.d D.radio ∧ D.radio.rxFifo = s.drv.radio.rxFifo.tail ∧
      D.w.air = s.w.air := by
  obtain ⟨D, e, F, N, x⟩ := hc.read s.drv L P rx ce aa hWf hN hfifo
  refine ⟨D, ?_, F, N, x, hread.of_exec hWf (NodeRadio.txEmpty hN) e⟩
  rw [rfRead.eq_2, nexec_bind, deliverDue_nil s harr]
  simp only []
  rw [nexec_bind, nexec_get]
  simp only [hclosed, if_true]
  rw [nexec_bind, runOthers_quiet0 s hq f hfuel]
  simp only []
  exact nexec_liftRf_ok _ s _ D e

/-- **A single multicast frame waiting at a receiver is delivered by one `_net_update()`**: quiet closed
    network, the running node listening with exactly the packed frame `pk` of `fr` (a user frame for
    `0o100`) in its RX FIFO, `allow_multicast` on, relay off, its queue accepting the frame.  The call
    returns the type; the queue has gained the wire copy of `fr`; the RX FIFO is empty; nothing was
    transmitted (only `read()` touched the radio). -/
theorem netUpdate_mc_deliver_air (hread : ReadKeepsAir) (hc : L3Contracts) (f : Nat) (s : NetState) (L : LinkCfg) (P : List Bytes)
    (p : Nat) (pk : Bytes) (fr : Frame) (t : Nat)
    (hcur : s.cur < s.nodes.length) (hclosed : s.closed = true) (hfuel : s.nodes.length + 2 ≤ f)
    (hq : Quiet s) (hWf : s.drv.Wf) (hN : NodeRadio L P true true 0x3E s.node.rf s.drv.radio)
    (harr : s.node.arrivals = []) (hfifo : s.drv.radio.rxFifo = [{ pipe := p, data := pk }]) (hp : p ≤ 5)
    (hfr : fr.header.msgType = .int t) (hpk : fr.pack = .ok pk) (hmsg : fr.message.length ≤ MAX_FRAG_SIZE)
    (hto : (wireCopy fr).header.toNode = NETWORK_MULTICAST_ADDR)
    (hself : s.node.a.addr ≠ NETWORK_MULTICAST_ADDR)
    (hvf : isValid (wireCopy fr).header.fromNode = true)
    (hty : t &&& 0xFF ≤ MAX_USR_DEF_MSG_TYPE)
    (ham : s.node.cfg.allowMulticast = true) (hrel : s.node.relayEnabled = false)
    (hroom : (s.node.queue.frames.length : Int) < s.node.queue.maxSize)
    (hnew : ∀ g ∈ s.node.queue.frames, ¬ (g.header.fromNode = (wireCopy fr).header.fromNode ∧
      g.header.frameId = (wireCopy fr).header.frameId ∧ g.header.ty = (wireCopy fr).header.ty)) :
    ∃ D1 D2 : DrvState, nexec (netUpdate (f + 3) 0) s =
        (.ok (t &&& 0xFF), ((((s.afterRf D1).withFrame (wireCopy fr)).enqueued (wireCopy fr)).afterRf D2)) ∧
      DrvFrame s.drv D1 ∧ DrvFrame D1 D2 ∧ NodeRadio L P true true 0x3E D2.d D2.radio ∧ D2.radio.rxFifo = [] ∧
      D1.w.air = s.w.air ∧ D2.w.air = s.w.air := by
  have hpkl : pk.length = 8 + fr.message.length := pack_length hpk
  obtain ⟨D1, e1, F1, N1, x1, a1⟩ := rfRead_head_air hread hc (f + 1) s L P true true 0x3E hcur hclosed (by omega) hq hWf hN harr
    (by
      intro e he
      rw [hfifo] at he
      simp only [List.mem_singleton] at he
      subst he
      unfold MAX_FRAG_SIZE at hmsg
      exact ⟨hp, by simp only []; omega, by simp only []; omega⟩)
  rw [hfifo] at e1 x1
  simp only [List.head?_cons, Option.map_some, List.tail_cons] at e1 x1
  have hn1 : (s.afterRf D1).node = { s.node with rf := D1.d } := afterRf_node s D1 hcur
  have hun : (s.afterRf D1).node.frameBuf.unpack pk = (wireCopy fr, true) := unpack_of_pack fr _ t hfr pk hpk
  have hwty : (wireCopy fr).header.ty = t &&& 0xFF := by simp [wireCopy, Header.ty, hfr]
  have hidem : wireCopy (wireCopy fr) = wireCopy fr := by
    unfold wireCopy
    simp only [Header.ty, Nat.and_assoc, Nat.and_self]
  have hvt : isValid (wireCopy fr).header.toNode = true := by rw [hto]; decide
  rw [show f + 3 = (f + 2) + 1 from rfl, netUpdate_step, e1]
  simp only [hun, hvt, hvf, Bool.not_true, Bool.or_self, Bool.false_eq_true, if_false]
  have hto' : ¬ (wireCopy fr).header.toNode = (s.afterRf D1).node.a.addr := by
    rw [hn1, hto]; exact fun h => hself h.symm
  simp only [if_neg hto']
  have hc1 : (s.afterRf D1).cur < (s.afterRf D1).nodes.length := by simpa using hcur
  have hc2 : ((s.afterRf D1).withFrame (wireCopy fr)).cur < ((s.afterRf D1).withFrame (wireCopy fr)).nodes.length := by
    simpa using hcur
  have hn2 : ((s.afterRf D1).withFrame (wireCopy fr)).node = { s.node with rf := D1.d, frameBuf := wireCopy fr } := by
    rw [withFrame_node _ _ hc1, hn1]
  rw [hwty, show f + 2 = (f + 1) + 1 from rfl,
    handleOther_mc_ok (f + 1) (t &&& 0xFF) _ (wireCopy fr) hc2 (by rw [hn2]) hidem hwty hty
      (by rw [hn2]; exact ham) hto (by rw [hn2]; exact hrel)
      (by rw [hn2]; exact hroom) (by rw [hn2]; exact hnew)]
  simp only [if_true]
  generalize hs3 : (((s.afterRf D1).withFrame (wireCopy fr)).enqueued (wireCopy fr)) = s3
  have hs3c : s3.cur = s.cur := by rw [← hs3]; rfl
  have hs3a : s3.active = s.active := by rw [← hs3]; rfl
  have hs3l : s3.nodes.length = s.nodes.length := by rw [← hs3]; simp
  have hs3w : s3.w = D1.w := by rw [← hs3]; rfl
  have hs3cl : s3.closed = true := by rw [← hs3]; exact hclosed
  have hs3n : s3.node = Node.pushFrame { s.node with rf := D1.d, frameBuf := wireCopy fr } (wireCopy fr) := by
    rw [← hs3, enqueued_node _ _ hc2, hn2]
  have hs3d : s3.drv = D1 := by
    unfold NetState.drv; rw [hs3n, hs3w]; rfl
  have hs3q : Quiet s3 := by
    apply hq.of_eq hs3l hs3c hs3a
    intro i hi hic hia
    unfold NetState.radioAt NetState.ridAt
    have : s3.nodeAt i = s.nodeAt i := by
      rw [← hs3, nodeAt_enqueued_ne _ _ i (by simpa using hic), nodeAt_withFrame_ne _ _ i (by simpa using hic),
        nodeAt_afterRf_ne s D1 i hic]
    rw [this, hs3w]
    by_cases h : (s.nodeAt i).rf.rid = s.drv.d.rid
    · have h0 := hq i hi hic hia
      unfold NetState.radioAt NetState.ridAt at h0
      rw [h0, h, ← F1.rid]
      exact x1
    · rw [F1.others _ h]; rfl
  obtain ⟨D2, e2, F2, N2, x2, a2⟩ := rfRead_head_air hread hc f s3 L P true true 0x3E (by rw [hs3c, hs3l]; exact hcur) hs3cl
    (by rw [hs3l]; omega) hs3q (by rw [hs3d]; exact F1.wf hWf) (by rw [hs3n, hs3d]; exact N1)
    (by rw [hs3n]; exact harr) (by rw [hs3d, x1]; simp)
  rw [hs3d, x1] at e2 x2
  simp only [List.head?_nil, Option.map_none, List.tail_nil] at e2 x2
  rw [netUpdate_step, e2]
  simp only []
  refine ⟨D1, D2, ?_, F1, hs3d ▸ F2, N2, x2, a1, by rw [a2, hs3w, a1]⟩
  rw [hs3]

/-- **One waiting receiver runs `update()`** (entered by the scheduler): the remaining receivers run at
    its first `read()` (induction hypothesis), then it takes its own packet. -/
theorem mc_update_step_air (hread : ReadKeepsAir) (hc : L3Contracts) (cfg : AddrCfg) (ham : cfg.allowMulticast = true) (L : LinkCfg)
    (tree : Nat → List Nat) (fr : Frame) (pk : Bytes) (t : Nat) (o : List Nat) (T : McFrame fr pk t o)
    (R : List Nat) (j : Nat) (hjR : j ∈ R)
    (IH : ∀ (s : NetState) (f : Nat), McWait cfg L tree fr pk (R.erase j) s →
      mcFuel s.nodes.length (R.erase j).length ≤ f →
      ∃ s', nexec (runOthers f 0) s = (.ok (), s') ∧ McDone cfg L tree fr (R.erase j) s s' ∧ s'.w.air = s.w.air)
    (s : NetState) (g : Nat) (H : McWait cfg L tree fr pk R s)
    (hg : mcFuel s.nodes.length (R.erase j).length + 4 ≤ g) :
    ∃ r s2, nexec (nodeUpdate g) (s.switchTo j) = (.ok r, s2) ∧
      McDone cfg L tree fr R s (s2.switchBack s.cur j) ∧ (s2.switchBack s.cur j).w.air = s.w.air := by
  obtain ⟨hok, hcur, hact, hnd, hfifo, hidle, hacc⟩ := H
  obtain ⟨hjl, hja⟩ := hidle j hjR
  have hjc : j ≠ s.cur := fun e => hja (e ▸ hact)
  obtain ⟨hm1, hm2⟩ := T.tyMask
  -- the state after the context switch
  generalize ht0 : s.switchTo j = t0
  have t0cur : t0.cur = j := by rw [← ht0]; rfl
  have t0act : t0.active = j :: s.active := by rw [← ht0]; rfl
  have t0len : t0.nodes.length = s.nodes.length := by rw [← ht0]; exact (Same.switchTo s j).len
  have same0 : Same s t0 := by rw [← ht0]; exact Same.switchTo s j
  have t0w : t0.w.faults = s.w.faults := by rw [← ht0]; rfl
  have t0air : t0.w.air = s.w.air := by rw [← ht0]; rfl
  have t0rad : ∀ i, t0.radioAt i = s.radioAt i := by intro i; rw [← ht0]; exact radioAt_switchTo s j i
  have t0rf : ∀ i, (t0.nodeAt i).rf = (s.nodeAt i).rf := by intro i; rw [← ht0]; exact rf_switchTo s j i
  have t0q : ∀ i, (t0.nodeAt i).queue = (s.nodeAt i).queue := by intro i; rw [← ht0]; exact queue_switchTo s j i
  have t0at : ∀ i, i ≠ s.cur → t0.nodeAt i = s.nodeAt i := by
    intro i hi; rw [← ht0]; exact Hops.nodeAt_switchTo_ne s j i hi
  have ok0 : NetOk cfg L tree t0 :=
    hok.of_same same0 (by rw [t0w]; exact hok.faults) (fun i _ P _ hN => by rw [t0rf, t0rad]; exact hN)
  have hmemE : ∀ k, k ≠ j → (k ∈ R.erase j ↔ k ∈ R) := fun k hk => List.mem_erase_of_ne hk
  have hjE : j ∉ R.erase j := fun h => (List.Nodup.mem_erase_iff hnd).mp h |>.1 rfl
  have W0 : McWait cfg L tree fr pk (R.erase j) t0 := by
    refine ⟨ok0, by rw [t0cur, t0len]; exact hjl, by rw [t0cur, t0act]; exact List.mem_cons_self,
      hnd.erase j, ?_, ?_, ?_⟩
    · intro k hk hka
      rw [t0len] at hk
      rw [t0act] at hka
      have hkj : k ≠ j := fun e => hka (e ▸ List.mem_cons_self)
      have hka' : k ∉ s.active := fun h => hka (List.mem_cons_of_mem _ h)
      rw [t0rad, hfifo k hk hka']
      by_cases hkR : k ∈ R
      · rw [if_pos hkR, if_pos ((hmemE k hkj).mpr hkR)]
      · rw [if_neg hkR, if_neg (fun h => hkR ((hmemE k hkj).mp h))]
    · intro k hk
      have hkR : k ∈ R := List.mem_of_mem_erase hk
      have hkj : k ≠ j := fun e => hjE (e ▸ hk)
      obtain ⟨h1, h2⟩ := hidle k hkR
      refine ⟨by rw [t0len]; exact h1, ?_⟩
      rw [t0act]
      intro h
      rcases List.mem_cons.mp h with h | h
      · exact hkj h
      · exact h2 h
    · intro k hk
      have hkR : k ∈ R := List.mem_of_mem_erase hk
      obtain ⟨_, h2⟩ := hidle k hkR
      have hkc : k ≠ s.cur := fun e => h2 (e ▸ hact)
      rw [t0at k hkc]
      exact hacc k hkR
  -- fuel
  obtain ⟨g4, rfl⟩ : ∃ x, g = x + 4 := ⟨g - 4, by omega⟩
  have hlenpos : s.nodes.length + 10 ≤ mcFuel s.nodes.length (R.erase j).length := by
    unfold mcFuel; omega
  -- the other receivers run at the first scheduling point
  obtain ⟨t1, hro, D01, air1⟩ := IH t0 (g4 + 1) W0 (by rw [t0len]; omega)
  obtain ⟨ok1, cur1, act1, same1, fifo1, stay1, queue1, attrs1⟩ := D01
  have t1len : t1.nodes.length = s.nodes.length := by rw [same1.len, t0len]
  have t1cur : t1.cur = j := by rw [cur1, t0cur]
  have hjl1 : t1.cur < t1.nodes.length := by rw [t1cur, t1len]; exact hjl
  have hq1 : Quiet t1 := by
    intro i hi hic hia
    rw [t1len] at hi
    rw [act1] at hia
    exact fifo1 i (by rw [t0len]; exact hi) hia
  have hqro : nexec (runOthers (g4 + 1) 0) t1 = (.ok (), t1) :=
    runOthers_quiet0 t1 hq1 (g4 + 1) (by rw [t1len]; omega)
  obtain ⟨n1, n2, n3, n4, n5, n6⟩ := ok1.node j (by rw [t1len]; exact hjl)
  obtain ⟨m1, m2, m3, m4, m5, m6⟩ := ok0.node j (by rw [t0len]; exact hjl)
  have t1node : t1.node = t1.nodeAt j := by rw [node_eq_nodeAt, t1cur]
  have t0node : t0.node = t0.nodeAt j := by rw [node_eq_nodeAt, t0cur]
  have hshift := netUpdate_shift (g4 + 1) 0 t0 t1 (by rw [t0node]; exact m4) (by rw [t1node]; exact n4)
    ok0.closed ok1.closed hro hqro
  -- the receiver's own packet
  obtain ⟨P, hP, hN⟩ := ok1.radio j (by rw [t1len]; exact hjl)
  have hj0act : j ∈ t0.active := by rw [t0act]; exact List.mem_cons_self
  obtain ⟨st1, st2⟩ := stay1 j (by rw [t0len]; exact hjl) hj0act
  have hdrvrad : t1.drv.radio = t1.radioAt j := by
    unfold DrvState.radio NetState.drv NetState.radioAt NetState.ridAt
    rw [t1node]
  have hfifo1 : t1.drv.radio.rxFifo = [{ pipe := 0, data := pk }] := by
    rw [hdrvrad, st1, t0rad, hfifo j hjl hja, if_pos hjR]
  have hq1j : (t1.nodeAt j).queue.frames = (s.nodeAt j).queue.frames := by
    rw [queue1 j (by rw [t0len]; exact hjl), if_neg hjE, List.append_nil, t0q]
  have hmax1j : (t1.nodeAt j).queue.maxSize = (s.nodeAt j).queue.maxSize := by
    rw [(attrs1 j).2, t0q]
  have hrel1j : (t1.nodeAt j).relayEnabled = false := by
    rw [(attrs1 j).1, t0at j hjc]; exact (hacc j hjR).2
  obtain ⟨hroom, hnew⟩ := (hacc j hjR).1
  obtain ⟨D1, D2, e, F1, F2, N2, x2, _, airD2⟩ := netUpdate_mc_deliver_air hread hc g4 t1 L P 0 pk fr t hjl1 ok1.closed
    (by rw [t1len]; omega) hq1
    (by
      show t1.node.rf.rid < t1.w.radios.length
      rw [t1node]; exact n6)
    (by rw [t1node, hdrvrad]; exact hN)
    (by rw [t1node]; exact n4) hfifo1 (by omega) T.ty T.pack T.len
    (by rw [T.wire]; exact T.dst)
    (by rw [t1node, n2]; exact val_ne_multicast n1)
    (by rw [T.wire, T.src]; exact isValid_val T.ho)
    (by rw [hm1]; exact T.usr)
    (by rw [t1node, n3]; exact ham)
    (by rw [t1node]; exact hrel1j)
    (by rw [t1node, hq1j, hmax1j]; exact hroom)
    (by rw [t1node, hq1j, T.wire]; exact hnew)
  rw [hm1, T.wire] at e
  generalize hs2 : ((((t1.afterRf D1).withFrame fr).enqueued fr).afterRf D2) = t2 at e
  -- facts about the state after the receiver's `update()`
  have hc1 : (t1.afterRf D1).cur < (t1.afterRf D1).nodes.length := by simpa using hjl1
  have hc2 : ((t1.afterRf D1).withFrame fr).cur < ((t1.afterRf D1).withFrame fr).nodes.length := by simpa using hjl1
  have hc3 : (((t1.afterRf D1).withFrame fr).enqueued fr).cur < (((t1.afterRf D1).withFrame fr).enqueued fr).nodes.length := by
    simpa using hjl1
  have hnode2 : t2.node = (Node.pushFrame { t1.node with rf := D1.d, frameBuf := fr } fr).withRf D2.d := by
    rw [← hs2, afterRf_node _ _ hc3, enqueued_node _ _ hc2, withFrame_node _ _ hc1, afterRf_node _ _ hjl1]
    rfl
  have hat2 : ∀ k, k ≠ j → t2.nodeAt k = t1.nodeAt k := by
    intro k hk
    have hk' : k ≠ t1.cur := by rw [t1cur]; exact hk
    rw [← hs2, nodeAt_afterRf_ne _ _ _ (by simpa using hk'), nodeAt_enqueued_ne _ _ _ (by simpa using hk'),
      nodeAt_withFrame_ne _ _ _ (by simpa using hk'), nodeAt_afterRf_ne _ _ _ hk']
  have cur2 : t2.cur = j := by rw [← hs2]; exact t1cur
  have act2 : t2.active = j :: s.active := by rw [← hs2]; show t1.active = _; rw [act1, t0act]
  have hw2 : t2.w = D2.w := by rw [← hs2]; rfl
  have F02 : DrvFrame t1.drv D2 := F1.trans F2
  have hnodej2 : t2.nodeAt j = t2.node := by rw [node_eq_nodeAt, cur2]
  have same12 : Same t1 t2 := by
    refine ⟨by rw [← hs2]; rfl, by rw [← hs2]; simp, ?_, by rw [hw2, F02.len]; rfl, ?_⟩
    · intro k
      by_cases hk : k = j
      · subst hk
        unfold NetState.ridAt
        rw [hnodej2, hnode2, ← t1node]
        refine ⟨rfl, rfl, rfl, rfl, ?_⟩
        show D2.d.rid = _
        rw [F02.rid]; rfl
      · unfold NetState.ridAt; rw [hat2 k hk]; exact ⟨rfl, rfl, rfl, rfl, rfl⟩
    · intro r hr
      rw [hw2, F02.others r (fun e => hr t1.cur hjl1 e.symm)]; rfl
  have hrad2_j : t2.radioAt j = D2.radio := by
    unfold NetState.radioAt
    rw [(same12.stat j).2.2.2.2, hw2]
    show D2.w.radio (t1.nodeAt j).rf.rid = _
    rw [← t1node]
    show D2.w.radio t1.drv.d.rid = _
    rw [← F02.rid]; rfl
  have hrad2_ne : ∀ k, k < s.nodes.length → k ≠ j → t2.radioAt k = t1.radioAt k := by
    intro k hk hkj
    unfold NetState.radioAt
    rw [(same12.stat k).2.2.2.2, hw2, F02.others _ (by
      have := (ok1.inj k j (by rw [t1len]; exact hk) (by rw [t1len]; exact hjl) hkj).2
      show t1.ridAt k ≠ t1.node.rf.rid
      rw [t1node]; exact this)]
    rfl
  have ok2 : NetOk cfg L tree t2 := by
    refine ok1.of_same same12 (by rw [hw2, F02.faults]; exact ok1.faults) ?_
    intro i hi P' hP' hN'
    by_cases hic : i = j
    · subst hic
      have : P' = P := Except.ok.inj (hP'.symm.trans hP)
      subst this
      rw [hnodej2, hnode2, hrad2_j]
      exact N2
    · rw [hat2 i hic, hrad2_ne i (by rw [← t1len]; exact hi) hic]; exact hN'
  -- back to the scheduler
  generalize hs' : t2.switchBack s.cur j = s'
  have same2' : Same t2 s' := by rw [← hs']; exact Same.switchBack t2 s.cur j
  have rad' : ∀ i, s'.radioAt i = t2.radioAt i := by intro i; rw [← hs']; exact radioAt_switchBack t2 s.cur j i
  have rfq' : ∀ i, (s'.nodeAt i).rf = (t2.nodeAt i).rf ∧ (s'.nodeAt i).queue = (t2.nodeAt i).queue := by
    intro i; rw [← hs']; exact nodeAt_switchBack t2 s.cur j i
  have rel' : ∀ i, (s'.nodeAt i).relayEnabled = (t2.nodeAt i).relayEnabled := by
    intro i
    rw [← hs']
    have : (t2.switchBack s.cur j).nodeAt i = (t2.nodes.modify j fun n => { n with clock := t2.w.clock }).getD i default := rfl
    rw [this]
    unfold NetState.nodeAt
    simp only [List.getD_eq_getElem?_getD, List.getElem?_modify]
    cases t2.nodes[i]? with
    | none => rfl
    | some n =>
      simp only [Option.getD_some]
      split <;> rfl
  have ok' : NetOk cfg L tree s' :=
    ok2.of_same same2' (by rw [← hs']; exact ok2.faults)
      (fun i _ P' _ hN' => by rw [(rfq' i).1, rad']; exact hN')
  have hkind2 : t2.node.kind ≠ .meshMaster := by
    rw [hnode2]
    show t1.node.kind ≠ _
    rw [t1node]; exact n5
  have hupd : nexec (nodeUpdate ((g4 + 3) + 1)) t0 = (.ok t, t2) := by
    refine nodeUpdate_plain (g4 + 3) t0 t2 t ?_ hkind2
    rw [show g4 + 3 = (g4 + 1) + 2 from rfl, hshift]
    exact e
  have air' : s'.w.air = s.w.air := by
    rw [← hs']
    show t2.w.air = _
    rw [hw2, airD2, air1, t0air]
  refine ⟨t, t2, hupd, ?_, hs' ▸ air'⟩
  rw [hs']
  have hrelq2 : ∀ k, k ≠ j → (t2.nodeAt k).relayEnabled = (s.nodeAt k).relayEnabled ∧
      (t2.nodeAt k).queue.maxSize = (s.nodeAt k).queue.maxSize := by
    intro k hk
    rw [hat2 k hk, (attrs1 k).1, (attrs1 k).2, t0q]
    refine ⟨?_, rfl⟩
    rw [← ht0]
    have : (s.switchTo j).nodeAt k = (s.setNode fun n => { n with clock := s.w.clock }).nodeAt k := rfl
    rw [this, nodeAt_setNode]
    split <;> rfl
  refine ⟨ok', by rw [← hs']; rfl, ?_, (same0.trans same1).trans (same12.trans same2'), ?_, ?_, ?_, ?_⟩
  · rw [← hs']
    show t2.active.erase j = _
    rw [act2]
    exact List.erase_cons_head ..
  · intro k hk hka
    rw [rad']
    by_cases hkj : k = j
    · subst hkj; rw [hrad2_j]; exact x2
    · rw [hrad2_ne k hk hkj]
      exact fifo1 k (by rw [t0len]; exact hk) (by
        rw [t0act]
        intro h
        rcases List.mem_cons.mp h with h | h
        · exact hkj h
        · exact hka h)
  · intro k hk hka
    have hkj : k ≠ j := fun e => hja (e ▸ hka)
    obtain ⟨a1, a2⟩ := stay1 k (by rw [t0len]; exact hk) (by rw [t0act]; exact List.mem_cons_of_mem _ hka)
    refine ⟨by rw [rad', hrad2_ne k hk hkj, a1, t0rad], ?_⟩
    rw [(rfq' k).1, hat2 k hkj, a2, t0rf]
  · intro k hk
    rw [(rfq' k).2]
    by_cases hkj : k = j
    · subst hkj
      rw [hnodej2, hnode2, if_pos hjR]
      show t1.node.queue.frames ++ [fr] = _
      rw [t1node, hq1j]
    · rw [hat2 k hkj, queue1 k (by rw [t0len]; exact hk), t0q]
      by_cases hkR : k ∈ R
      · rw [if_pos hkR, if_pos ((hmemE k hkj).mpr hkR)]
      · rw [if_neg hkR, if_neg (fun h => hkR ((hmemE k hkj).mp h))]
  · intro k
    rw [rel' k, (rfq' k).2]
    by_cases hkj : k = j
    · subst hkj
      rw [hnodej2, hnode2]
      show t1.node.relayEnabled = _ ∧ t1.node.queue.maxSize = _
      rw [t1node, hmax1j, (attrs1 k).1, t0at k hjc]
      exact ⟨rfl, rfl⟩
    · exact hrelq2 k hkj

/-- **All waiting receivers run at one scheduling point**, each `update()` to completion. -/
theorem mc_runOthers_air (hread : ReadKeepsAir) (hc : L3Contracts) (cfg : AddrCfg) (ham : cfg.allowMulticast = true) (L : LinkCfg)
    (tree : Nat → List Nat) (fr : Frame) (pk : Bytes) (t : Nat) (o : List Nat) (T : McFrame fr pk t o) :
    ∀ (n : Nat) (R : List Nat), R.length = n → ∀ (s : NetState) (f : Nat), McWait cfg L tree fr pk R s →
      mcFuel s.nodes.length n ≤ f →
      ∃ s', nexec (runOthers f 0) s = (.ok (), s') ∧ McDone cfg L tree fr R s s' ∧ s'.w.air = s.w.air := by
  intro n
  induction n with
  | zero =>
    intro R hR s f H hf
    have : R = [] := List.length_eq_zero_iff.mp hR
    subst this
    refine ⟨s, ?_, McDone.refl H, rfl⟩
    apply runOthers_quiet0
    · intro i hi hic hia
      have := H.fifo i hi hia
      simpa using this
    · unfold mcFuel at hf; omega
  | succ n ih =>
    intro R hR s f H hf
    have hne : R ≠ [] := by intro h; rw [h] at hR; cases hR
    obtain ⟨j, hjR, hmin⟩ := exists_least R hne
    obtain ⟨hjl, hja⟩ := H.idle j hjR
    have hjc : j ≠ s.cur := fun e => hja (e ▸ H.act)
    have hEl : (R.erase j).length = n := by rw [List.length_erase_of_mem hjR, hR]; rfl
    have hfu : mcFuel s.nodes.length (n + 1) = mcFuel s.nodes.length n + (s.nodes.length + 10) := by
      unfold mcFuel; rw [Nat.add_mul]; omega
    obtain ⟨g, rfl⟩ : ∃ g, f = g + 1 + j := ⟨f - 1 - j, by unfold mcFuel at hf; omega⟩
    obtain ⟨r, s2, hu, D, hair⟩ := mc_update_step_air hread hc cfg ham L tree fr pk t o T R j hjR
      (fun s0 f0 W0 h0 => ih (R.erase j) hEl s0 f0 W0 (by rw [← hEl]; exact h0)) s g H
      (by rw [hEl]; omega)
    refine ⟨s2.switchBack s.cur j, ?_, D, hair⟩
    have hrunnable : ∀ k, k < s.nodes.length → (s.runnable k ↔ k ∈ R) := by
      intro k hk
      constructor
      · rintro ⟨h1, h2, h3, _⟩
        have h2' : k ∉ s.active := by simpa using h2
        have := H.fifo k hk h2'
        by_cases hkR : k ∈ R
        · exact hkR
        · rw [if_neg hkR] at this
          unfold NetState.radioAt NetState.ridAt NetState.nodeAt at this
          rw [this] at h3
          simp at h3
      · intro hkR
        obtain ⟨_, hka⟩ := H.idle k hkR
        have hf := H.fifo k hk hka
        rw [if_pos hkR] at hf
        obtain ⟨P, _, hN⟩ := H.ok.radio k hk
        refine ⟨fun e => hka (e ▸ H.act), by simpa using hka, ?_, hN.rxMode⟩
        unfold NetState.radioAt NetState.ridAt NetState.nodeAt at hf
        rw [hf]; rfl
    have hlen2 : s2.nodes.length = s.nodes.length := by
      have := D.same.len
      rw [(Same.switchBack s2 s.cur j).len] at this
      exact this
    apply runOthers_one g s s2 j (.ok r) hjl ((hrunnable j hjl).mpr hjR)
      (fun k hk hr => by
        have := hmin k ((hrunnable k (by omega)).mp hr)
        omega)
      hu hlen2 (by rw [hfu] at hf; unfold mcFuel at hf; omega)
    intro k hjk hk
    rintro ⟨h1, h2, h3, _⟩
    have h2' : k ∉ (s2.switchBack s.cur j).active := by simpa using h2
    rw [D.active] at h2'
    have := D.fifo k hk h2'
    unfold NetState.radioAt NetState.ridAt NetState.nodeAt at this
    rw [this] at h3
    simp at h3

/-- **The next scheduling point**: `update()` entered (like the session driver's `runAs`) as the sender or
    as any node that is not a receiver.  Every receiver runs `update()` to completion inside it and
    queues the frame once; the call returns 0 (nothing for the caller); all RX FIFOs are empty, the
    network is the same tree network. -/
theorem multicast_polled_air (hread : ReadKeepsAir) (hc : L3Contracts) (cfg : AddrCfg) (ham : cfg.allowMulticast = true)
    (L : LinkCfg) (tree : Nat → List Nat) (fr : Frame) (pk : Bytes) (t : Nat) (o : List Nat)
    (T : McFrame fr pk t o) (s1 : NetState) (R : List Nat) (hR : R.Nodup) (y : Nat)
    (hok : NetOk cfg L tree s1) (hy : y < s1.nodes.length) (hyR : y ∉ R) (hsize : s1.nodes.length ≤ 400)
    (hRl : ∀ j, j ∈ R → j < s1.nodes.length) (hRlen : R.length ≤ s1.nodes.length)
    (hfifo : ∀ j, j < s1.nodes.length → (s1.radioAt j).rxFifo = if j ∈ R then [{ pipe := 0, data := pk }] else [])
    (hacc : ∀ j, j ∈ R → Accepts (s1.nodeAt j).queue fr ∧ (s1.nodeAt j).relayEnabled = false) :
    ∃ s2, nexec apiUpdate ((s1.ret).callAs y) = (.ok 0, s2) ∧ NetOk cfg L tree s2 ∧
      (∀ j, j < s1.nodes.length →
        (s2.nodeAt j).queue.frames = (s1.nodeAt j).queue.frames ++ (if j ∈ R then [fr] else [])) ∧
      (∀ j, j < s1.nodes.length → (s2.radioAt j).rxFifo = []) ∧ s2.w.air = s1.w.air := by
  generalize hu : (s1.ret).callAs y = u
  have ucur : u.cur = y := by rw [← hu]; rfl
  have uact : u.active = [y] := by rw [← hu]; rfl
  have sameu : Same s1 u := by rw [← hu]; exact (Same.ret s1).trans (Same.callAs _ y)
  have ulen : u.nodes.length = s1.nodes.length := sameu.len
  have urf : ∀ k, (u.nodeAt k).rf = (s1.nodeAt k).rf := by
    intro k; rw [← hu, nodeAt_callAs]; exact (ret_facts s1 k).1
  have uq : ∀ k, (u.nodeAt k).queue = (s1.nodeAt k).queue := by
    intro k; rw [← hu, nodeAt_callAs]; exact (ret_facts s1 k).2.1
  have urad : ∀ k, u.radioAt k = s1.radioAt k := by
    intro k
    unfold NetState.radioAt
    rw [(sameu.stat k).2.2.2.2]
    rw [← hu]; rfl
  have urel : ∀ k, (u.nodeAt k).relayEnabled = (s1.nodeAt k).relayEnabled := by
    intro k
    rw [← hu, nodeAt_callAs, nodeAt_ret]
    split <;> rfl
  have uw : u.w.faults = s1.w.faults := by rw [← hu]; rfl
  have uair : u.w.air = s1.w.air := by rw [← hu]; rfl
  have oku : NetOk cfg L tree u :=
    hok.of_same sameu (by rw [uw]; exact hok.faults) (fun i _ P _ hN => by rw [urf, urad]; exact hN)
  have W : McWait cfg L tree fr pk R u := by
    refine ⟨oku, by rw [ucur, ulen]; exact hy, by rw [ucur, uact]; exact List.mem_singleton.mpr rfl, hR, ?_, ?_, ?_⟩
    · intro j hj _
      rw [urad]; exact hfifo j (by rw [← ulen]; exact hj)
    · intro j hj
      refine ⟨by rw [ulen]; exact hRl j hj, ?_⟩
      rw [uact]
      intro h
      exact hyR (List.mem_singleton.mp h ▸ hj)
    · intro j hj
      rw [uq, urel]; exact hacc j hj
  have hF : F = ((199997 + 1) + 1) + 1 := rfl
  have hfu : mcFuel u.nodes.length R.length ≤ 199997 := by
    unfold mcFuel
    rw [ulen]
    have h1 : R.length * (s1.nodes.length + 10) ≤ 400 * 410 :=
      Nat.mul_le_mul (by omega) (by omega)
    omega
  obtain ⟨s2, hro, Dn, air2⟩ := mc_runOthers_air hread hc cfg ham L tree fr pk t o T R.length R rfl u 199997 W hfu
  obtain ⟨ok2, cur2, act2, same2, fifo2, stay2, queue2, attrs2⟩ := Dn
  -- the caller's own read: nothing
  have len2 : s2.nodes.length = s1.nodes.length := by rw [same2.len, ulen]
  have c2 : s2.cur = y := by rw [cur2, ucur]
  have hy2 : s2.cur < s2.nodes.length := by rw [c2, len2]; exact hy
  obtain ⟨P, hP, hN⟩ := ok2.radio y (by rw [len2]; exact hy)
  obtain ⟨n1, n2, n3, n4, n5, n6⟩ := ok2.node y (by rw [len2]; exact hy)
  have node2 : s2.node = s2.nodeAt y := by rw [node_eq_nodeAt, c2]
  have drvrad2 : s2.drv.radio = s2.radioAt y := by
    unfold DrvState.radio NetState.drv NetState.radioAt NetState.ridAt
    rw [node2]
  have hyact : y ∈ u.active := by rw [uact]; exact List.mem_singleton.mpr rfl
  have fifoy : s2.drv.radio.rxFifo = [] := by
    rw [drvrad2, (stay2 y (by rw [ulen]; exact hy) hyact).1, urad, hfifo y hy, if_neg hyR]
  have hN2 : NodeRadio L P true true 0x3E s2.node.rf s2.drv.radio := by rw [drvrad2, node2]; exact hN
  have hWf2 : s2.drv.Wf := by show s2.node.rf.rid < s2.w.radios.length; rw [node2]; exact n6
  obtain ⟨D, eD, FD, ND, xD⟩ := hc.read s2.drv L P true true 0x3E
    (by show s2.node.rf.rid < s2.w.radios.length; rw [node2]; exact n6)
    (by show NodeRadio L P true true 0x3E s2.node.rf s2.drv.radio; rw [drvrad2, node2]; exact hN)
    (by rw [fifoy]; intro e he; cases he)
  have airD : D.w.air = s2.w.air := hread.of_exec hWf2 (NodeRadio.txEmpty hN2) eD
  rw [fifoy] at eD xD
  simp only [List.head?_nil, Option.map_none, List.tail_nil] at eD xD
  have harr : u.node.arrivals = [] := by
    rw [node_eq_nodeAt, ucur]
    exact (oku.node y (by rw [ulen]; exact hy)).2.2.2.1
  have hrd : nexec (rfRead (199997 + 1)) u = (.ok none, s2.afterRf D) := by
    rw [rfRead.eq_2, nexec_bind, deliverDue_nil u harr]
    simp only []
    rw [nexec_bind, nexec_get]
    simp only [oku.closed, if_true]
    rw [nexec_bind, hro]
    simp only []
    exact nexec_liftRf_ok _ s2 _ D eD
  have hnu : nexec (netUpdate ((199997 + 1) + 1) 0) u = (.ok 0, s2.afterRf D) := by
    rw [netUpdate_step, hrd]
  have hkind : (s2.afterRf D).node.kind ≠ .meshMaster := by
    rw [afterRf_node _ _ hy2]
    show s2.node.kind ≠ _
    rw [node2]; exact n5
  have hup : nexec apiUpdate u = (.ok 0, s2.afterRf D) := by
    unfold apiUpdate
    rw [hF]
    exact nodeUpdate_plain _ u _ 0 hnu hkind
  have hridy : s2.drv.d.rid = s2.ridAt y := by
    show s2.node.rf.rid = _
    rw [node2]; rfl
  have hothers : ∀ j, j < s1.nodes.length → j ≠ y → D.w.radio (s2.ridAt j) = s2.radioAt j := by
    intro j hj hjy
    rw [FD.others _ (by rw [hridy]; exact (ok2.inj j y (by rw [len2]; exact hj) (by rw [len2]; exact hy) hjy).2)]
    rfl
  have same3 : Same s2 (s2.afterRf D) :=
    Same.afterRf s2 D hy2 FD.rid FD.len (fun r hr => FD.others r (by
      rw [hridy]; exact fun e => hr y (by rw [len2]; exact hy) e.symm))
  refine ⟨s2.afterRf D, hup, ?_, ?_, ?_, by rw [afterRf_w, airD, air2, uair]⟩
  · refine ok2.of_same same3 (by rw [afterRf_w, FD.faults]; exact ok2.faults) ?_
    intro i hi P' hP' hN'
    by_cases hiy : i = y
    · subst hiy
      have : P' = P := Except.ok.inj (hP'.symm.trans hP)
      subst this
      have h1 : (s2.afterRf D).nodeAt s2.cur = { s2.nodeAt s2.cur with rf := D.d } := by
        rw [nodeAt_afterRf, if_pos ⟨rfl, hy2⟩]
      rw [← c2, h1, radioAt_afterRf_cur s2 D hy2]
      exact ND
    · rw [nodeAt_afterRf_ne s2 D i (by rw [c2]; exact hiy), radioAt_afterRf_ne s2 D i (by rw [c2]; exact hiy),
        hothers i (by rw [← len2]; exact hi) hiy]
      exact hN'
  · intro j hj
    rw [queue_afterRf, queue2 j (by rw [ulen]; exact hj), uq]
  · intro j hj
    by_cases hjy : j = y
    · subst hjy
      rw [← c2, radioAt_afterRf_cur s2 D hy2]; exact xD
    · rw [radioAt_afterRf_ne s2 D j (by rw [c2]; exact hjy), hothers j hj hjy]
      exact fifo2 j (by rw [ulen]; exact hj) (by
        rw [uact]
        intro h
        exact hjy (List.mem_singleton.mp h))

end Nrf.Net
