/-
C14, closed system, part 8: one level, no relays, composed — **complete**: `multicast_level_closed`
(NrfProofs/C14Closed4.lean) with the two conjuncts it lacked:

* the air log: the sender's call appends exactly one record (`multicast_sent_air`, C14Closed5c.lean), the
  receivers' `update()`s append nothing (`multicast_polled_air`, C14Closed6.lean; `read()` keeps the log:
  `L3.read_keeps_air`, C14Closed5.lean);
* the next scheduling point may be the `update()` of **any** node, a receiver included
  (`multicast_polled_recv_air`, C14Closed7b.lean): the entered receiver lets the other receivers run at its
  first `read()`, then takes its own packet; `update()` then returns the frame's type instead of 0.
-/
import NrfProofs.C14Closed5c
import NrfProofs.C14Closed7b

namespace Nrf.Net
open Nrf Nrf.Spec Nrf.Proofs Nrf.Proofs.McastK Nrf.Props.C04

/-- `read()` keeps the air log: the hypothesis of NrfProofs/C14Closed6.lean / C14Closed7b.lean, proved -/
theorem readKeepsAir : ReadKeepsAir := fun s _ ht => L3.read_keeps_air s ht

/-- **One level, no relays, composed, with the air log and every entry point.** -/
theorem multicast_level_closed_full (hc : L3Contracts) (cfg : AddrCfg) (hcfg : CfgOk cfg) (ham : cfg.allowMulticast = true)
    (L : LinkCfg) (tree : Nat → List Nat) (s : NetState) (ty : Int) (msg : Bytes) (level : Option Int)
    (hok : NetOk cfg L tree s) (hcur : s.cur < s.nodes.length) (hsize : s.nodes.length ≤ 400)
    (hquiet : ∀ i, i < s.nodes.length → (s.radioAt i).rxFifo = [])
    (hty : 0 ≤ ty ∧ ty ≤ 127) (hlen : msg.length ≤ MAX_FRAG_SIZE) (hmax : msg.length ≤ s.node.maxMessageLength)
    (hdup : ∀ j, j < s.nodes.length → ∀ l, (s.radioAt j).lastRx = some l →
      (mcCaller s.node ty msg).pack ≠ .ok l.data)
    (hrelay : ∀ j, j < s.nodes.length → (s.nodeAt j).relayEnabled = false)
    (hacc : ∀ j, j < s.nodes.length → j ≠ s.cur →
      (tree j).length = Nrf.Spec.Multicast.targetLevel (tree s.cur).length level →
      Accepts (s.nodeAt j).queue (mcQueued s.node ty msg)) :
    ∃ (s1 : NetState) (pk : Bytes) (k : Packet),
      nexec (apiMulticast msg ty level) s = (.ok true, s1) ∧
      (mcQueued s.node ty msg).pack = .ok pk ∧
      levelAddrSpec cfg.pfx cfg.sfx (Nrf.Spec.Multicast.targetLevel (tree s.cur).length level) = some k.addr ∧
      k.data = pk ∧
      NetOk cfg L tree s1 ∧
      (∀ j, (s1.nodeAt j).queue = (s.nodeAt j).queue) ∧
      (∀ j, j < s.nodes.length → (s1.radioAt j).rxFifo =
        if j ≠ s.cur ∧ (tree j).length = Nrf.Spec.Multicast.targetLevel (tree s.cur).length level
        then [{ pipe := 0, data := pk }] else []) ∧
      (∀ r, r ≠ s.ridAt s.cur → s1.w.radio r = ((s.w.radio r).receive k).1 ∧ ((s.w.radio r).receive k).2 = none) ∧
      s1.w.air = s.w.air ++ [{ sender := s.ridAt s.cur, pkt := k, attempts := 1, ok := true }] ∧
      ∀ y, y < s.nodes.length →
        ∃ s2, nexec apiUpdate ((s1.ret).callAs y) =
            (.ok (if y ≠ s.cur ∧ (tree y).length = Nrf.Spec.Multicast.targetLevel (tree s.cur).length level
                  then ty.toNat else 0), s2) ∧
          NetOk cfg L tree s2 ∧
          (∀ j, j < s.nodes.length →
            (s2.nodeAt j).queue.frames = (s.nodeAt j).queue.frames ++
              (if j ≠ s.cur ∧ (tree j).length = Nrf.Spec.Multicast.targetLevel (tree s.cur).length level
               then [mcQueued s.node ty msg] else [])) ∧
          (∀ j, j < s.nodes.length → (s2.radioAt j).rxFifo = []) ∧
          s2.w.air = s1.w.air := by
  rw [← mcLevel_eq_target] at hacc ⊢
  generalize hLv : mcLevel (tree s.cur).length level = Lv at hacc
  obtain ⟨s1, pk, k, e, hpk, T, hA, hkd, ok1, c1, a1, len1, hq1, hf1, hr1, hair1, _, _, _⟩ :=
    multicast_sent_air hc cfg hcfg ham L tree s ty msg level hok hcur (by omega) hquiet hty hlen hmax hdup
  rw [hLv] at hA hf1
  refine ⟨s1, pk, k, e, hpk, hA, hkd, ok1, fun j => (hq1 j).1, hf1, hr1, hair1, ?_⟩
  intro y hy
  have hmem : ∀ j, j ∈ mcReceivers tree s.nodes.length s.cur Lv ↔ j < s.nodes.length ∧ j ≠ s.cur ∧ (tree j).length = Lv :=
    fun j => mem_mcReceivers
  have hif : ∀ {α : Type} (j : Nat) (a b : α), j < s.nodes.length →
      (if j ∈ mcReceivers tree s.nodes.length s.cur Lv then a else b) =
        (if j ≠ s.cur ∧ (tree j).length = Lv then a else b) := by
    intro α j a b hj
    by_cases h : j ≠ s.cur ∧ (tree j).length = Lv
    · rw [if_pos h, if_pos ((hmem j).mpr ⟨hj, h⟩)]
    · rw [if_neg h, if_neg (fun hh => h ((hmem j).mp hh).2)]
  have hRl : ∀ j, j ∈ mcReceivers tree s.nodes.length s.cur Lv → j < s1.nodes.length := by
    intro j hj; rw [len1]; exact ((hmem j).mp hj).1
  have hfifo1 : ∀ j, j < s1.nodes.length → (s1.radioAt j).rxFifo =
      if j ∈ mcReceivers tree s.nodes.length s.cur Lv then [{ pipe := 0, data := pk }] else [] := by
    intro j hj
    rw [len1] at hj
    rw [hf1 j hj, hif j _ _ hj]
  have hacc1 : ∀ j, j ∈ mcReceivers tree s.nodes.length s.cur Lv →
      Accepts (s1.nodeAt j).queue (mcQueued s.node ty msg) ∧ (s1.nodeAt j).relayEnabled = false := by
    intro j hj
    obtain ⟨h0, h1, h2⟩ := (hmem j).mp hj
    rw [(hq1 j).1, (hq1 j).2]
    exact ⟨hacc j h0 h1 h2, hrelay j h0⟩
  by_cases hyr : y ≠ s.cur ∧ (tree y).length = Lv
  · -- a receiver enters `update()` itself
    rw [if_pos hyr]
    obtain ⟨s2, e2, ok2, q2, f2, air2⟩ := multicast_polled_recv_air readKeepsAir hc cfg ham L tree
      (mcQueued s.node ty msg) pk ty.toNat (tree s.cur) T
      s1 (mcReceivers tree s.nodes.length s.cur Lv) (mcReceivers_nodup _ _ _ _) y ok1 (by rw [len1]; exact hy)
      ((hmem y).mpr ⟨hy, hyr⟩) (by rw [len1]; exact hsize) hRl
      (by rw [len1]; exact mcReceivers_length _ _ _ _) hfifo1 hacc1
    refine ⟨s2, e2, ok2, ?_, ?_, air2⟩
    · intro j hj
      rw [q2 j (by rw [len1]; exact hj), (hq1 j).1, hif j _ _ hj]
    · intro j hj
      exact f2 j (by rw [len1]; exact hj)
  · -- the sender or a node of another level
    rw [if_neg hyr]
    obtain ⟨s2, e2, ok2, q2, f2, air2⟩ := multicast_polled_air readKeepsAir hc cfg ham L tree
      (mcQueued s.node ty msg) pk ty.toNat (tree s.cur) T
      s1 (mcReceivers tree s.nodes.length s.cur Lv) (mcReceivers_nodup _ _ _ _) y ok1 (by rw [len1]; exact hy)
      (fun h => hyr ((hmem y).mp h).2) (by rw [len1]; exact hsize) hRl
      (by rw [len1]; exact mcReceivers_length _ _ _ _) hfifo1 hacc1
    refine ⟨s2, e2, ok2, ?_, ?_, air2⟩
    · intro j hj
      rw [q2 j (by rw [len1]; exact hj), (hq1 j).1, hif j _ _ hj]
    · intro j hj
      exact f2 j (by rw [len1]; exact hj)

end Nrf.Net
