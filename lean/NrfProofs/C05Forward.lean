/-
C05 helper lemmas, part 2: a router forwarding a frame over the tree never hands it to its own
application — `_write(to_node, TX_ROUTED)` at a tree node, for a frame of another origin and for
another destination, leaves the node's queue (and its static part, and the message) alone,
whatever the link and the other nodes do.
-/
import NrfProofs.C05Local
import NrfProofs.C13Ack

namespace Nrf.Net
open Nrf Nrf.Spec Nrf.Proofs Nrf.Props.C04

/-- static part, queue and message in `frame_buf` -/
def piQ (n : Node) : NodeStat × NetQueue × Bytes := (n.stat, n.queue, n.frameBuf.message)

theorem piQ_of_F (n n' : Node) (h : piF n' = piF n) : piQ n' = piQ n := by
  have : ∀ m : Node, piQ m = ((piF m).1, (piF m).2.1, (piF m).2.2.1) := fun _ => rfl
  rw [this n', this n, h]

theorem Rel.toQ {s s' : NetState} (h : Rel piF s s') : Rel piQ s s' := h.weaken piQ_of_F

theorem stat_addr' {s s' : NetState} (h : Rel Node.stat s s') : s'.node.a = s.node.a :=
  congrArg NodeStat.a h.proj

theorem Rel.setNode' {β : Type} {π : Node → β} (s : NetState) (f : Node → Node) (hf : ∀ n, π (f n) = π n) :
    Rel π s (s.setNode f) := Rel.of_modify f hf rfl rfl rfl rfl

theorem piF_a {s s' : NetState} (h : Rel piF s s') : s'.node.a = s.node.a :=
  congrArg (fun p => p.1.a) h.proj

theorem piF_from {s s' : NetState} (h : Rel piF s s') :
    s'.node.frameBuf.header.fromNode = s.node.frameBuf.header.fromNode :=
  congrArg (fun p => p.2.2.2.1) h.proj

theorem liftRf_F {α : Type} (m : DrvM α) : Frm (Rel piF) (liftRf m) := Frm.liftRf m fun _ _ => rfl
theorem liftRf_Q {α : Type} (m : DrvM α) : Frm (Rel piQ) (liftRf m) := Frm.liftRf m fun _ _ => rfl

theorem nodeWrite_routed_Q (f : Nat) (x d o : List Nat) (hx : IsNode x) (hd : IsNode d) (ho : IsNode o)
    (hxd : x ≠ d) (hox : o ≠ x) (s s' : NetState) (r : Except PyErr Bool) (hs : s.cur ∈ s.active)
    (ha : s.node.a = nodeSpec x) (hfrom : s.node.frameBuf.header.fromNode = val o)
    (h : nexec (nodeWrite (f + 1) (val d) TX_ROUTED) s = (r, s')) : Rel piQ s s' := by
  cases hty : s.node.frameBuf.header.msgType with
  | str cs =>
    rw [nodeWrite_str f _ _ s cs hty] at h
    simp only [Prod.mk.injEq] at h
    rw [← h.2]; exact Rel.refl s
  | int t =>
    rw [nodeWrite_step_raw f _ _ s t hty, ha, l2p_tree hx hd (Or.inr rfl)] at h
    simp only [] at h
    have hpre : Rel piF s (writePrelude s t (val d) TX_ROUTED) := by
      unfold writePrelude; split
      · exact Rel.of_nodes_eq rfl rfl rfl rfl
      · exact Rel.refl s
    have hpa : (writePrelude s t (val d) TX_ROUTED).node.a = nodeSpec x := by
      rw [piF_a hpre, ha]
    have hhop : val (nextHopSpec x d) ≠ (writePrelude s t (val d) TX_ROUTED).node.a.addr := by
      rw [hpa]
      exact fun e => nextHop_ne_self hxd (val_inj (isNode_nextHop hx hd).1 hx.1 e)
    rcases hw : nexec (nodeWriteToPipe f _ _ _) (writePrelude s t (val d) TX_ROUTED) with ⟨r1, s1⟩
    rw [hw] at h
    have r01 : Rel piF s s1 :=
      hpre.trans (nodeWriteToPipe_F f _ _ _ _ s1 r1 (hpre.ok hs) (Or.inl hhop) hw)
    have hs1 := r01.ok hs
    cases r1 with
    | error e =>
      simp only [Prod.mk.injEq] at h
      rw [← h.2]; exact r01.toQ
    | ok result =>
      simp only [] at h
      -- the three continuations
      have hnone : ∀ (res mc : Bool) (r : Except PyErr Bool) (s' : NetState),
          nexec (ackCont f .none res mc) s1 = (r, s') → Rel piQ s s' := by
        intro res mc r s' h
        refine r01.toQ.trans (Frm.out ?_ s1 r s' hs1 h)
        unfold ackCont
        simp only []
        apply Frm.bind (liftRf_Q _); intro _
        apply Frm.ite
        · exact Frm.bind (liftRf_Q _) fun _ => Frm.pure _
        · exact Frm.pure _
      have ha1 : s1.node.a = nodeSpec x := by
        rw [piF_a r01, ha]
      have hf1 : s1.node.frameBuf.header.fromNode = val o := by
        rw [piF_from r01, hfrom]
      have hemit : ∀ (res mc : Bool) (r : Except PyErr Bool) (s' : NetState),
          nexec (ackCont f .emit res mc) s1 = (r, s') → Rel piQ s s' := by
        intro res mc r s' h
        refine r01.toQ.trans ?_
        unfold ackCont at h
        simp only [] at h
        rw [nexec_bind, nexec_getNode] at h
        simp only [] at h
        rw [ha1, hf1, l2p_tree hx ho (Or.inr rfl)] at h
        simp only [] at h
        rcases nexec_bind_cases h with ⟨e, h1, _⟩ | ⟨_, s2, h1, h⟩
        · simp [nexec_setHdr] at h1
        · have hs2e : s2 = s1.setNode fun n => { n with frameBuf := { n.frameBuf with header :=
              { (n.frameBuf.header.setTy NETWORK_ACK) with toNode := n.frameBuf.header.fromNode } } } := by
            simp only [nexec_setHdr, Prod.mk.injEq] at h1; exact h1.2.symm
          have r12 : Rel piQ s1 s2 := by
            rw [hs2e]; exact Rel.setNode' _ _ (fun _ => rfl)
          have r12s : Rel Node.stat s1 s2 := by
            rw [hs2e]; exact Rel.setNode' _ _ (fun _ => rfl)
          have hs2 := r12.ok hs1
          have ha2 : s2.node.a = nodeSpec x := by rw [(stat_addr' r12s), ha1]
          refine r12.trans ?_
          have hhop2 : val (nextHopSpec x o) ≠ s2.node.a.addr := by
            rw [ha2]
            exact fun e => nextHop_ne_self (Ne.symm hox) (val_inj (isNode_nextHop hx ho).1 hx.1 e)
          rcases nexec_bind_cases h with ⟨e, h2, _⟩ | ⟨_, s3, h2, h⟩
          · exact (nodeWriteToPipe_F f _ _ _ s2 _ _ hs2 (Or.inl hhop2) h2).toQ
          · have r23 := (nodeWriteToPipe_F f _ _ _ s2 _ _ hs2 (Or.inl hhop2) h2).toQ
            refine r23.trans (Frm.out ?_ s3 r s' (r23.ok hs2) h)
            apply Frm.bind (liftRf_Q _); intro _
            apply Frm.ite
            · exact Frm.bind (liftRf_Q _) fun _ => Frm.pure _
            · exact Frm.pure _
      cases result with
      | false => exact hnone _ _ _ _ h
      | true =>
        simp only [if_true] at h
        split at h
        · split at h
          · exact hemit _ _ _ _ h
          · have hno : ¬ (val (nextHopSpec x d) ≠ val d ∧ (TX_ROUTED = TX_NORMAL ∨ TX_ROUTED = TX_LOGICAL)) := by
              rintro ⟨_, h1 | h1⟩ <;> exact absurd h1 (by decide)
            rw [if_neg hno] at h
            exact hnone _ _ _ _ h
        · exact hnone _ _ _ _ h

end Nrf.Net
