/-
C09 helper lemmas: the block contract DISCHARGED for bodies that are sequences of calls of the C03
configuration alphabet (`Cfg.Call`, 46 constructors; `runCalls`).

Bridge between the two invariants.  C03's `Inv s` (NrfProofs/C03/Base.lean) = the object's radio exists ∧
`Cached` (15 equations shadow = register, among them `isPlus` = the chip's variant) ∧ `CfgOk` (every
register in its documented range, address registers hold bytes, FEATURE/DYNPD accessible, violation
log clean) ∧ the ghost reading address of pipe 0 is 1..5 bytes.  C09's block contract is
`InRange d ∧ ShadowEq d r` (NrfModel/Spec/Restore.lean).  `Inv` implies both (`Inv.inRange9`,
`Inv.shadowEq9`); the converse fails: `InRange ∧ ShadowEq` says nothing about `_is_plus_variant`, the
violation log, the address bytes or the ghost address, all of which the per-call lemmas of C03 need.
So the history induction is redone here with the stronger invariant `GoodC` (what `__init__` and every
C03 call establish), instead of assuming `Body.Ok`.

The carrier-wave calls on a non-plus chip are outside `Call.dom` (and really break the contract: they
rewrite CONFIG / EN_AA / SETUP_RETR / TX_ADDR behind the shadows); they are the explicit exception.
-/
import NrfProofs.C09Construct
import NrfProofs.C03.Init

namespace Nrf
open Rf24 Spec Cfg

/-! ### C03's invariant implies C09's block contract -/

theorem regsOf_cfgOf (r : Radio) : regsOf r.cfgOf = regsOf r := rfl

theorem Inv.inRange9 {s : DrvState} (h : Inv s) : InRange s.d := by
  have hc := h.cached
  have ho := h.ok
  refine ⟨hc.config ▸ ho.config, ?_, hc.rfSetup ▸ ho.rfSetup.1, hc.openPipes ▸ ho.enRxAddr, hc.dynPl ▸ ho.dynpd,
    hc.aa ▸ ho.enAA, hc.features ▸ ho.feature, hc.retrySetup ▸ ho.setupRetr, hc.channel ▸ ho.rfCh, ?_,
    hc.pipes0 ▸ ho.a0.1, hc.pipes1 ▸ ho.a1.1, hc.txAddress ▸ ho.tx.1, ⟨hc.pipesN ▸ ho.aN.1, ?_⟩,
    ⟨hc.plLen ▸ ho.rxPwLen, ?_⟩⟩
  · rw [hc.rfSetup]; exact bits_bf _ ho.rfSetup.1 ho.rfSetup.2
  · rw [hc.addrLen]; have := ho.setupAw; omega
  · rw [hc.pipesN]; exact ho.aN.2
  · rw [hc.plLen]; exact ho.rxPw

theorem Inv.shadowEq9 {s : DrvState} (h : Inv s) : regsOf s.cfg = shadowRegs s.d := by
  have hc := h.cached
  unfold regsOf shadowRegs
  rw [hc.config, hc.aa, hc.openPipes, hc.addrLen, hc.retrySetup, hc.channel, hc.rfSetup, hc.pipes0, hc.pipes1,
    hc.pipesN, hc.txAddress, hc.plLen, hc.dynPl, hc.features]
  rfl

/-! ### worlds and objects the C03 lemmas apply to -/

/-- a chip whose FEATURE/DYNPD registers are accessible, whose address / width registers have the
    hardware shape and hold bytes, and in whose violation log nothing reserved / out of range was ever
    recorded (`LogOk`: the library's documented `SETUP_AW = 0` and `CE:` entries are exempt) -/
def ChipOk (r : Radio) : Prop :=
  r.featureVisible = true ∧ Spec.RadioShape r ∧ Bytes.wf r.rxAddr0 ∧ Bytes.wf r.rxAddr1 ∧ Bytes.wf r.rxAddrN ∧
  Bytes.wf r.txAddr ∧ LogOk r.violations

/-- the same without the accessibility of FEATURE/DYNPD: what a chip of ANY variant in ANY ACTIVATE
    state satisfies before a constructor ran -/
def ChipPre (r : Radio) : Prop :=
  Spec.RadioShape r ∧ Bytes.wf r.rxAddr0 ∧ Bytes.wf r.rxAddr1 ∧ Bytes.wf r.rxAddrN ∧ Bytes.wf r.txAddr ∧
  LogOk r.violations

theorem chipOk_cfgOf (r : Radio) : ChipOk r.cfgOf ↔ ChipOk r := Iff.rfl
theorem chipPre_cfgOf (r : Radio) : ChipPre r.cfgOf ↔ ChipPre r := Iff.rfl
theorem ChipOk.pre {r : Radio} (h : ChipOk r) : ChipPre r := h.2

theorem ChipOk.shape3 {r : Radio} (h : ChipOk r) : _root_.Nrf.RadioShape r :=
  ⟨h.2.1.1, h.2.1.2.1, h.2.1.2.2.2.1, h.2.1.2.2.1, h.2.1.2.2.2.2, h.2.2.1, h.2.2.2.1, h.2.2.2.2.1, h.2.2.2.2.2.1⟩

theorem chipOk_of_cfgOk {r : Radio} (h : CfgOk r) : ChipOk r :=
  ⟨h.vis, ⟨h.a0.1, h.a1.1, h.tx.1, h.aN.1, h.rxPwLen⟩, h.a0.2, h.a1.2, h.aN.2, h.tx.2, h.log⟩

/-- every radio of the world is there and is such a chip -/
def WorldOkC (n : Nat) (w : World) : Prop := w.radios.length = n ∧ ∀ j, j < n → ChipOk (w.radio j)

theorem WorldOkC.worldOk {n : Nat} {w : World} (h : WorldOkC n w) : WorldOk n w :=
  ⟨h.1, fun j hj => ⟨(h.2 j hj).1, (h.2 j hj).2.1⟩⟩

/-- a driver object between two blocks: shadows in range (`InRange`), address shadows hold bytes, the
    ghost reading address of pipe 0 is 1..5 bytes, and `_is_plus_variant` is the variant of its chip -/
def ObjOkC (n : Nat) (d : Rf24) (w : World) : Prop :=
  d.rid < n ∧ InRange d ∧ Bytes.wf d.pipes0 ∧ Bytes.wf d.pipes1 ∧ Bytes.wf d.txAddress ∧
  P0Ok d.pipe0ReadAddr ∧ d.isPlus = (w.radio d.rid).plus

theorem shadowOk_of {d : Rf24} (hr : InRange d) (h0 : Bytes.wf d.pipes0) (h1 : Bytes.wf d.pipes1)
    (ht : Bytes.wf d.txAddress) (hu : P0Ok d.pipe0ReadAddr) : _root_.Nrf.ShadowOk d := by
  obtain ⟨hcfg, hrf, hrf2, hop, hdyn, haa, hfeat, hretr, hch, hal, hp0, hp1, htx, ⟨hpnl, hpn⟩, ⟨hpll, _⟩⟩ := hr
  refine ⟨hcfg, ⟨hrf2, ?_⟩, hop, hdyn, haa, hfeat, hretr, ⟨hp0, h0⟩, ⟨hp1, h1⟩, ⟨hpnl, hpn⟩, ⟨htx, ht⟩, hpll, hch, hal, hu⟩
  exact (by decide +kernel : ∀ x : Fin 256, x.val &&& 0xBF = x.val → bitOf x.val 6 = false) ⟨d.rfSetup, hrf2⟩ hrf

theorem Inv.objOkC {s : DrvState} (h : Inv s) {n : Nat} (hn : s.d.rid < n) : ObjOkC n s.d s.w :=
  have so := h.shadowOk
  ⟨hn, h.inRange9, so.pipes0.2, so.pipes1.2, so.txAddress.2, so.user0, h.cached.isPlus⟩

theorem map_clamp_id (l : List Nat) (h : ∀ x ∈ l, 1 ≤ x ∧ x ≤ 32) :
    (l.map fun (x : Nat) => clampI 1 32 (x : Int)) = l := by
  induction l with
  | nil => rfl
  | cons a l ih =>
    have ha := h a (by simp)
    rw [List.map_cons, ih (fun x hx => h x (by simp [hx]))]
    congr 1
    unfold clampI; omega

/-- the register file `__enter__` programs, in C09's vocabulary -/
theorem regsOf_enterCfg (d : Rf24) (r : Radio) (hr : InRange d) :
    regsOf (enterCfg d r) = shadowRegs { d with config := d.config ||| 2 } := by
  unfold regsOf shadowRegs enterCfg
  simp only [map_clamp_id _ hr.2.2.2.2.2.2.2.2.2.2.2.2.2.2.2]

theorem bits_pwr_off2 : ∀ c, c < 128 → setBit c 1 false &&& 2 = 0 := by decide +kernel

/-- CONFIG with PWR_UP cleared is still a legal configuration -/
theorem cfgOk_exit {c : Radio} (h : CfgOk c) : CfgOk { c with ce := false, config := setBit c.config 1 false } where
  config := (bits_pwr_off _ h.config).2.1
  enAA := h.enAA
  enRxAddr := h.enRxAddr
  setupAw := h.setupAw
  setupRetr := h.setupRetr
  rfCh := h.rfCh
  rfSetup := h.rfSetup
  dynpd := h.dynpd
  feature := h.feature
  rxPwLen := h.rxPwLen
  rxPw := h.rxPw
  a0 := h.a0
  a1 := h.a1
  aN := h.aN
  tx := h.tx
  vis := h.vis
  log := h.log

/-! ### blocks whose bodies are call sequences -/

/-- the block body "make these calls, one after the other" (an exception does not end the block:
    like `C03_history`, the next call goes on from the state the failed one left) -/
def callsBody (cs : List Call) : Body := ⟨fun s => (runCalls cs s).2⟩

/-- the invariant between blocks, with what the C03 lemmas need -/
def GoodC (n : Nat) (σ : Sys) (est : Nat → Option CfgRegs) : Prop :=
  WorldOkC n σ.w ∧ ∀ i, i < σ.objs.length →
    ObjOkC n (σ.objs.getD i default) σ.w ∧
    ∀ R, est i = some R → shadowRegs (σ.objs.getD i default) = { R with config := R.config &&& 0x7D } ∧ R.config < 128

/-- everything about one block of calls, about opaque intermediate states -/
theorem block_calls_spec (n : Nat) (d : Rf24) (w : World) (cs : List Call)
    (hw : WorldOkC n w) (ho : ObjOkC n d w) (hdom : ∀ c ∈ cs, c.dom d.isPlus) :
    let s1 := (exec enter ⟨d, w⟩).2
    let s2 := (runCalls cs s1).2
    let s3 := (exec Rf24.exit s2).2
    regsOf (s1.w.radio d.rid) = shadowRegs { d with config := d.config ||| 2 } ∧
    PoweredDown (s3.w.radio d.rid) ∧
    WorldOkC n s3.w ∧ ObjOkC n s3.d s3.w ∧ s3.d.isPlus = d.isPlus ∧ s3.d.rid = d.rid ∧
    shadowRegs s3.d = { regsOf (s2.w.radio d.rid) with config := (regsOf (s2.w.radio d.rid)).config &&& 0x7D } ∧
    (regsOf (s2.w.radio d.rid)).config < 128 ∧
    (∀ j, (s3.w.radio j).plus = (w.radio j).plus) := by
  intro s1 s2 s3
  obtain ⟨hrid, hr, h0, h1, ht, hu, hplus⟩ := ho
  have hwf : (DrvState.mk d w).Wf := by show d.rid < w.radios.length; rw [hw.1]; exact hrid
  have hchip := hw.2 d.rid hrid
  have hso := shadowOk_of hr h0 h1 ht hu
  -- enter
  have P1 := enter_post ⟨d, w⟩ hwf hso ((chipOk_cfgOf _).2 hchip).shape3 hchip.1 hplus
  have I1 : Inv s1 := P1.inv (enterCfg_ok hso hchip.1 hchip.2.2.2.2.2.2) hso.user0
  have hrid1 : s1.d.rid = d.rid := P1.rid
  have hcfg1 : s1.cfg = enterCfg d (w.radio d.rid).cfgOf := P1.cfg
  have hc1 : s1.cfg = (s1.w.radio d.rid).cfgOf := by unfold DrvState.cfg; rw [hrid1]
  have hplus1 : s1.cfg.plus = d.isPlus := by rw [hcfg1, hplus]; rfl
  -- body
  have hdom1 : ∀ c ∈ cs, c.dom s1.cfg.plus := by intro c hc; rw [hplus1]; exact hdom c hc
  obtain ⟨I2, _, habs2, hfr2, hrid2⟩ := history cs s1 I1 hdom1
  have hlen2 := runCalls_length cs s1 I1 hdom1
  have hrid2' : s2.d.rid = d.rid := hrid2.trans hrid1
  have hc2 : s2.cfg = (s2.w.radio d.rid).cfgOf := by unfold DrvState.cfg; rw [hrid2']
  have hplus2 : s2.cfg.plus = d.isPlus := by
    have : s2.abs.r.plus = s1.abs.r.plus := by rw [habs2]; exact docRun_plus cs s1.abs
    exact this.trans hplus1
  -- exit
  have P3 := exit_post s2 I2
  have I3 : Inv s3 := P3.inv (cfgOk_exit I2.ok) I2.user0
  have hrid3 : s3.d.rid = d.rid := P3.rid.trans hrid2'
  have hcfg3 : s3.cfg = { s2.cfg with ce := false, config := setBit s2.cfg.config 1 false } := P3.cfg
  have hc3 : s3.cfg = (s3.w.radio d.rid).cfgOf := by unfold DrvState.cfg; rw [hrid3]
  have hlen3 : s3.w.radios.length = n := by
    rw [P3.len, hlen2, P1.len]; exact hw.1
  have hcfgN : s2.cfg.config < 128 := I2.ok.config
  have hframe : ∀ j, j ≠ d.rid → (s3.w.radio j).cfgOf = (w.radio j).cfgOf := by
    intro j hj
    have a := P3.frame j (by rw [hrid2']; exact hj)
    have b := hfr2 j (by rw [hrid1]; exact hj)
    have c := P1.frame j hj
    exact (a.trans b).trans c
  have hplus3 : s3.cfg.plus = d.isPlus := by rw [hcfg3]; exact hplus2
  refine ⟨?_, ⟨?_, ?_⟩, ⟨hlen3, fun j hj => ?_⟩, ?_, ?_, hrid3, ?_, ?_, fun j => ?_⟩
  · rw [← regsOf_cfgOf, ← hc1, hcfg1]; exact regsOf_enterCfg d _ hr
  · show (s3.w.radio d.rid).cfgOf.ce = false
    rw [← hc3, hcfg3]
  · show (s3.w.radio d.rid).cfgOf.config &&& 2 = 0
    rw [← hc3, hcfg3]; exact bits_pwr_off2 _ hcfgN
  · by_cases hji : j = d.rid
    · rw [hji, ← chipOk_cfgOf, ← hc3]; exact chipOk_of_cfgOk I3.ok
    · rw [← chipOk_cfgOf, hframe j hji, chipOk_cfgOf]; exact hw.2 j hj
  · exact I3.objOkC (by rw [hrid3]; exact hrid)
  · rw [I3.cached.isPlus]; exact hplus3
  · rw [← I3.shadowEq9, hcfg3, ← regsOf_cfgOf (s2.w.radio d.rid), ← hc2]
    show ({ regsOf s2.cfg with config := setBit s2.cfg.config 1 false } : CfgRegs) = _
    rw [← (bits_pwr_off _ hcfgN).1]
    rfl
  · rw [← regsOf_cfgOf, ← hc2]; exact hcfgN
  · by_cases hji : j = d.rid
    · have : (s3.w.radio j).cfgOf.plus = (w.radio j).plus := by
        rw [hji, ← hc3, hplus3, hplus]
      exact this
    · have := congrArg Radio.plus (hframe j hji)
      exact this

/-- one block of calls: what it shows, that the invariant survives, that no object's variant flag
    changes -/
theorem block_step_calls (n : Nat) (σ : Sys) (est : Nat → Option CfgRegs) (i : Nat) (cs : List Call)
    (hg : GoodC n σ est) (hi : i < σ.objs.length) (hdom : ∀ c ∈ cs, c.dom (σ.objs.getD i default).isPlus) :
    (∀ R, est i = some R → (σ.block i (callsBody cs)).1.entered = withPwr R) ∧
    PoweredDown (σ.block i (callsBody cs)).1.afterExit ∧
    GoodC n (σ.block i (callsBody cs)).2
      (fun k => if k = i then some (σ.block i (callsBody cs)).1.established else est k) ∧
    (∀ k, ((σ.block i (callsBody cs)).2.objs.getD k default).isPlus = (σ.objs.getD k default).isPlus) := by
  obtain ⟨hwo, hobj⟩ := hg
  obtain ⟨ho, hest⟩ := hobj i hi
  obtain ⟨b1, b2, b3, b4, b5, b6, b7, b8, b9⟩ := block_calls_spec n _ σ.w cs hwo ho hdom
  generalize hd : σ.objs.getD i default = d at *
  have hblock : σ.block i (callsBody cs) =
      (BlockObs.mk (regsOf ((exec enter ⟨d, σ.w⟩).2.w.radio d.rid))
        (regsOf ((runCalls cs (exec enter ⟨d, σ.w⟩).2).2.w.radio d.rid))
        ((exec Rf24.exit (runCalls cs (exec enter ⟨d, σ.w⟩).2).2).2.w.radio d.rid),
       Sys.mk (σ.objs.set i (exec Rf24.exit (runCalls cs (exec enter ⟨d, σ.w⟩).2).2).2.d)
         (exec Rf24.exit (runCalls cs (exec enter ⟨d, σ.w⟩).2).2).2.w) := by
    unfold Sys.block callsBody
    simp only [hd]
  rw [hblock]
  dsimp only at b1 b2 b3 b4 b5 b6 b7 b8 b9 ⊢
  generalize (exec Rf24.exit (runCalls cs (exec enter ⟨d, σ.w⟩).2).2).2 = s3 at *
  refine ⟨?_, b2, ⟨b3, ?_⟩, ?_⟩
  · intro R hR
    obtain ⟨h1, h2⟩ := hest R hR
    rw [b1]
    have : shadowRegs { d with config := d.config ||| 2 } = { shadowRegs d with config := d.config ||| 2 } := rfl
    rw [this, h1]
    have hdc : d.config = R.config &&& 0x7D := congrArg CfgRegs.config h1
    rw [hdc, cfg_pwr_cycle h2]
    rfl
  · intro k hk
    have hk' : k < σ.objs.length := by simpa using hk
    simp only [getD_set_list _ _ _ _ hi]
    by_cases hki : k = i
    · simp only [hki, ↓reduceIte]
      refine ⟨b4, ?_⟩
      intro R hR
      have hR' : R = regsOf ((runCalls cs (exec enter ⟨d, σ.w⟩).2).2.w.radio d.rid) := by cases hR; rfl
      rw [hR']
      exact ⟨b7, b8⟩
    · simp only [hki, ↓reduceIte]
      obtain ⟨⟨o1, o2, o3, o4, o5, o6, o7⟩, oe⟩ := hobj k hk'
      exact ⟨⟨o1, o2, o3, o4, o5, o6, o7.trans (b9 _).symm⟩, oe⟩
  · intro k
    simp only [getD_set_list _ _ _ _ hi]
    by_cases hki : k = i
    · simp only [hki, ↓reduceIte]; rw [b5, hd]
    · simp only [hki, ↓reduceIte]

/-- C09 along every history of blocks of calls -/
theorem holds_calls (n : Nat) (blocks : List (Nat × List Call)) :
    ∀ (σ : Sys) (est : Nat → Option CfgRegs), GoodC n σ est →
      (∀ ib ∈ blocks, ib.1 < σ.objs.length ∧ ∀ c ∈ ib.2, c.dom (σ.objs.getD ib.1 default).isPlus) →
      Holds (blocks.map fun ib => (ib.1, callsBody ib.2)) σ est := by
  induction blocks with
  | nil => intro _ _ _ _; trivial
  | cons ib rest ih =>
    intro σ est hg hbl
    obtain ⟨i, cs⟩ := ib
    obtain ⟨hi, hdom⟩ := hbl (i, cs) (List.mem_cons_self)
    obtain ⟨h1, h2, h3, h4⟩ := block_step_calls n σ est i cs hg hi hdom
    refine ⟨h1, h2, ih _ _ h3 ?_⟩
    intro ib' hib'
    have := hbl ib' (List.mem_cons_of_mem _ hib')
    have hlen : (σ.block i (callsBody cs)).2.objs.length = σ.objs.length := by
      unfold Sys.block; simp
    rw [hlen, h4]; exact this

/-! ### systems of constructed objects -/

/-- what the constructors need of a world: every radio is there, a chip of ANY variant with its
    feature registers locked or unlocked and any register contents of the hardware shape, clean log -/
def WorldPreC (n : Nat) (w : World) : Prop := w.radios.length = n ∧ ∀ j, j < n → ChipPre (w.radio j)

theorem ObjOkC.of_plus {n : Nat} {d : Rf24} {w w' : World} (h : ObjOkC n d w)
    (hp : (w'.radio d.rid).plus = (w.radio d.rid).plus) : ObjOkC n d w' := by
  obtain ⟨o1, o2, o3, o4, o5, o6, o7⟩ := h
  exact ⟨o1, o2, o3, o4, o5, o6, o7.trans hp.symm⟩

/-- `RF24.__init__` on radio `rid` of such a world (C03's `init_post`) -/
theorem init_worldPreC (n rid : Nat) (w : World) (hw : WorldPreC n w) (hrid : rid < n) :
    let out := exec init ⟨{ rid := rid }, w⟩
    WorldPreC n out.2.w ∧ ChipOk (out.2.w.radio rid) ∧ ObjOkC n out.2.d out.2.w ∧ out.2.d.rid = rid ∧
    (∀ j, j ≠ rid → (out.2.w.radio j).cfgOf = (w.radio j).cfgOf) ∧
    (∀ j, (out.2.w.radio j).plus = (w.radio j).plus) := by
  intro out
  have hwf : (DrvState.mk { rid := rid } w).Wf := by show rid < w.radios.length; rw [hw.1]; exact hrid
  have hpre := hw.2 rid hrid
  have hshape : _root_.Nrf.RadioShape (DrvState.mk { rid := rid } w).cfg :=
    ⟨hpre.1.1, hpre.1.2.1, hpre.1.2.2.2.1, hpre.1.2.2.1, hpre.1.2.2.2.2, hpre.2.1, hpre.2.2.1, hpre.2.2.2.1,
      hpre.2.2.2.2.1⟩
  obtain ⟨c, hpost, hplus, _, hok⟩ := init_post ⟨{ rid := rid }, w⟩ hwf hshape rfl
  have I : Inv out.2 := hpost.inv (hok hpre.2.2.2.2.2) (by intro ra hra; cases hra)
  have hrid' : out.2.d.rid = rid := hpost.rid
  have hc : out.2.cfg = (out.2.w.radio rid).cfgOf := by unfold DrvState.cfg; rw [hrid']
  have hchip : ChipOk (out.2.w.radio rid) := by
    rw [← chipOk_cfgOf, ← hc]; exact chipOk_of_cfgOk I.ok
  have hfr : ∀ j, j ≠ rid → (out.2.w.radio j).cfgOf = (w.radio j).cfgOf := fun j hj => hpost.frame j hj
  refine ⟨⟨hpost.len.trans hw.1, fun j hj => ?_⟩, hchip, I.objOkC (by rw [hrid']; exact hrid), hrid', hfr, fun j => ?_⟩
  · by_cases hji : j = rid
    · rw [hji]; exact hchip.pre
    · rw [← chipPre_cfgOf, hfr j hji, chipPre_cfgOf]; exact hw.2 j hj
  · by_cases hji : j = rid
    · have : (out.2.w.radio j).cfgOf.plus = (w.radio j).plus := by
        rw [hji, ← hc, hpost.cfg, hplus]; rfl
      exact this
    · have := congrArg Radio.plus (hfr j hji)
      exact this

/-- after constructing objects on the radios `rids` (`construct`, NrfProofs/C09Construct.lean): the
    world is still in shape; every object satisfies `ObjOkC` and drives its radio; every radio that
    got an object — or was accessible before — is accessible; no chip changed its variant -/
theorem construct_specC (n : Nat) (rids : List Nat) : ∀ (w : World), WorldPreC n w → (∀ r ∈ rids, r < n) →
    WorldPreC n (construct rids w).2 ∧ (construct rids w).1.length = rids.length ∧
    (∀ i, i < rids.length → ((construct rids w).1.getD i default).rid = rids.getD i 0 ∧
      ObjOkC n ((construct rids w).1.getD i default) (construct rids w).2) ∧
    (∀ j, j < n → (j ∈ rids ∨ (w.radio j).featureVisible = true) →
      ((construct rids w).2.radio j).featureVisible = true) ∧
    (∀ j, ((construct rids w).2.radio j).plus = (w.radio j).plus) := by
  induction rids with
  | nil =>
    intro w hw _
    refine ⟨hw, rfl, fun i hi => absurd hi (Nat.not_lt_zero _), fun j _ hj => ?_, fun _ => rfl⟩
    rcases hj with h | h
    · cases h
    · exact h
  | cons rid rest ih =>
    intro w hw hr
    obtain ⟨hw1, hchip1, hobj1, hrid1, hfr1, hpl1⟩ := init_worldPreC n rid w hw (hr rid (List.mem_cons_self))
    obtain ⟨k1, k2, k3, k4, k5⟩ := ih (exec init ⟨{ rid := rid }, w⟩).2.w hw1 (fun r h => hr r (List.mem_cons_of_mem _ h))
    refine ⟨k1, by simp only [construct, List.length_cons, k2], fun i hi => ?_, fun j hj hjv => ?_, fun j => ?_⟩
    · cases i with
      | zero => exact ⟨hrid1, hobj1.of_plus (k5 _)⟩
      | succ i =>
        have := k3 i (by simpa using hi)
        simpa only [construct, List.getD_cons_succ] using this
    · show ((construct rest (exec init ⟨{ rid := rid }, w⟩).2.w).2.radio j).featureVisible = true
      refine k4 j hj ?_
      by_cases hji : j = rid
      · right; rw [hji]; exact hchip1.1
      · rcases hjv with h | h
        · left
          rcases List.mem_cons.1 h with h | h
          · exact absurd h hji
          · exact h
        · right
          rw [← featureVisible_cfgOf, hfr1 j hji, featureVisible_cfgOf]; exact h
    · show ((construct rest (exec init ⟨{ rid := rid }, w⟩).2.w).2.radio j).plus = _
      rw [k5 j, hpl1 j]

end Nrf
