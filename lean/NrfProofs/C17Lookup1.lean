/-
C17, lookups end to end, part 1: the master's `update()` on a lookup frame, in the closed system.

`master_lookup` — `update()` of the master (RF24Mesh, ID 0, address 0, listening, `_do_dhcp` clear) with
a lookup frame (type 196 / 198, from the connected node at address `ax`, to address 0) as the only
payload in its RX FIFO, every other node on the call stack: the call returns the lookup type; the
master's `frame_buf` holds the answer (the frame turned around, body = the signed 16-bit encoding of the
table's answer); the answer has been transmitted — acknowledged at link level, one hop — to pipe 5 of
the asker, whose radio has stored it; **the master's table, `_do_dhcp`, identity are untouched**; the
master listens again, its RX FIFO empty.
-/
import NrfProofs.C17Join2Comp
import NrfProofs.C13HopsLink
import NrfProofs.MeshMasterK

namespace Nrf.Net.Join
open Nrf Nrf.Net Nrf.Spec Nrf.Proofs

/-- the lookup frame of the node at address `ax` as `_lookup_2_master` builds it -/
def lookFrame (fid ax ty : Nat) (body : Bytes) : Frame :=
  { header := { fromNode := ax, toNode := 0, frameId := fid, msgType := .int ty, reserved := 0 }, message := body }

/-- the master's answer: the frame turned around, the body replaced -/
def lookReply (fid ax ty : Nat) (ans : Bytes) : Frame :=
  { header := { fromNode := ax, toNode := ax, frameId := fid, msgType := .int ty, reserved := 0 }, message := ans }

/-- the table's answer to the lookup `body`, as the master (node object `n`) computes it -/
def lookVal (n : Node) (fid ax ty : Nat) (body : Bytes) : Int :=
  Nrf.Proofs.MeshK.lookupAnswer { n with frameBuf := lookFrame fid ax ty body } ty

/-- the master's node object after it has answered -/
def answered (n : Node) (d : Rf24) (fid ax ty : Nat) (body : Bytes) : Node :=
  { n with rf := d, frameBuf := lookReply fid ax ty (MeshProtocol.replyBytes (lookVal n fid ax ty body)) }

theorem lookFrame_wire (fid ax ty : Nat) (body : Bytes) (hax : ax < 4096) (hfid : fid < 65536) (hty : ty < 256) :
    wireCopy (lookFrame fid ax ty body) = lookFrame fid ax ty body := by
  unfold wireCopy lookFrame
  simp only [Header.ty]
  have e1 : ax &&& 0xFFF = ax := by rw [and_fff]; omega
  have e2 : fid &&& 0xFFFF = fid := by rw [and_ffff]; omega
  have e3 : ty &&& 0xFF = ty := by rw [and_ff]; omega
  rw [e1, e2, e3]
  rfl

theorem lookReply_wire (fid ax ty : Nat) (body : Bytes) (hax : ax < 4096) (hfid : fid < 65536) (hty : ty < 256) :
    wireCopy (lookReply fid ax ty body) = lookReply fid ax ty body := by
  unfold wireCopy lookReply
  simp only [Header.ty]
  have e1 : ax &&& 0xFFF = ax := by rw [and_fff]; omega
  have e2 : fid &&& 0xFFFF = fid := by rw [and_ffff]; omega
  have e3 : ty &&& 0xFF = ty := by rw [and_ff]; omega
  rw [e1, e2, e3]
  rfl

/-- **`update()` of the master with a lookup frame as the only payload in its RX FIFO** (closed
    loss-free network, every other node on the call stack, the asker `x` listening with room). -/
theorem master_lookup (f : Nat) (sm : NetState) (L : LinkCfg) (Pm Px : List Bytes) (x p fid ax ty : Nat)
    (body Ax pk pk' : Bytes)
    (hcur : sm.cur < sm.nodes.length) (hclosed : sm.closed = true)
    (hfuel : sm.nodes.length + 2 ≤ f) (hquiet : Quiet sm) (hWf : sm.drv.Wf)
    (hN : NodeRadio L Pm true true 0x3E sm.node.rf sm.drv.radio)
    (hrid : ∀ k, k < sm.nodes.length → k ≠ sm.cur → sm.ridAt k ≠ sm.ridAt sm.cur)
    (harr : sm.node.arrivals = []) (hfifo : sm.drv.radio.rxFifo = [{ pipe := p, data := pk }]) (hp : p ≤ 5)
    (hfaults : sm.w.faults = [])
    (hx : x < sm.nodes.length) (hxc : x ≠ sm.cur)
    (hNx : NodeRadio L Px true true 0x3E (sm.nodeAt x).rf (sm.radioAt x))
    (hroom : (sm.radioAt x).rxFifo.length < 3)
    (hdupx : ∀ pid, (sm.radioAt x).lastRx ≠ some { pid := pid, addr := Ax, data := pk' })
    (hothers : ∀ i, i ≠ sm.ridAt sm.cur → i ≠ sm.ridAt x → (sm.w.radio i).rxMode = false)
    (hpk : (lookFrame fid ax ty body).pack = .ok pk)
    (hty : ty = MESH_ADDR_LOOKUP ∨ ty = MESH_ID_LOOKUP)
    (hlong : Mesh.lookupLongEnough ty body = true) (hbody : body.length ≤ MAX_FRAG_SIZE)
    (hax : ax < 4096) (hfid : fid < 65536) (haxv : isValid ax = true) (hax0 : ax ≠ 0)
    (hkind : sm.node.kind = .meshMaster) (hid : sm.node.nodeId = 0) (haddr0 : sm.node.a.addr = 0)
    (hret : sm.node.retSysMsg = true) (hdo : sm.node.doDhcp = false)
    (hsmall : Nrf.Proofs.MeshK.TableSmall sm.node.dhcp)
    (hl2p : logi2phys sm.node.a ax TX_NORMAL = (ax, 5, false))
    (hA : pipeAddress sm.node.cfg ax 5 = .ok Ax) (hAx : Px[5]? = some Ax)
    (hlt : ∀ q, q < 5 → Px[q]? ≠ some Ax)
    (hpk' : (lookReply fid ax ty (MeshProtocol.replyBytes (lookVal sm.node fid ax ty body))).pack = .ok pk') :
    ∃ D1 D2 : DrvState,
      nexec (nodeUpdate (f + 4)) sm =
        (.ok ty, ((sm.afterRf D1).putNode (answered sm.node D1.d fid ax ty body)).afterRf D2) ∧
      DrvFrame sm.drv D1 ∧ D1.radio.rxFifo = [] ∧
      D2.d.rid = sm.node.rf.rid ∧ D2.w.radios.length = sm.w.radios.length ∧ D2.w.faults = [] ∧
      NodeRadio L Pm true true 0x3E D2.d D2.radio ∧ D2.radio.rxFifo = [] ∧
      D2.radio.lastRx = sm.drv.radio.lastRx ∧
      (∃ pid, D2.w.radio (sm.ridAt x) =
        { (sm.radioAt x) with rxFifo := (sm.radioAt x).rxFifo ++ [{ pipe := 5, data := pk' }],
                              flags := (sm.radioAt x).flags ||| 0x40, rpd := true,
                              lastRx := some { pid := pid, addr := Ax, data := pk' }, lastAck := none }) ∧
      (∀ i, i ≠ sm.ridAt sm.cur → i ≠ sm.ridAt x → D2.w.radio i = sm.w.radio i) := by
  have hpkl : pk.length = 8 + (lookFrame fid ax ty body).message.length := pack_length hpk
  have hty256 : ty < 256 := by rcases hty with rfl | rfl <;> decide
  have hmsgl : (lookFrame fid ax ty body).message.length ≤ 24 := hbody
  -- the read
  obtain ⟨D1, e1, F1, N1, x1⟩ := rfRead_head l3contracts (f + 1) sm L Pm true true 0x3E hcur hclosed (by omega)
    hquiet hWf hN harr
    (by
      intro e he
      rw [hfifo] at he
      simp only [List.mem_singleton] at he
      subst he
      exact ⟨hp, by simp only []; rw [hpkl]; omega, by simp only []; rw [hpkl]; omega⟩)
  rw [hfifo] at e1 x1
  simp only [List.head?_cons, Option.map_some, List.tail_cons] at e1 x1
  have hc1 : (sm.afterRf D1).cur < (sm.afterRf D1).nodes.length := by simpa using hcur
  have hn1 : (sm.afterRf D1).node = { sm.node with rf := D1.d } := afterRf_node sm D1 hcur
  have hwire := lookFrame_wire fid ax ty body hax hfid hty256
  -- `_net_update()`
  have hnu : nexec (netUpdate (f + 3) 0) sm =
      (.ok ty, (sm.afterRf D1).withFrame (lookFrame fid ax ty body)) := by
    refine netUpdate_sys (f + 1) sm _ pk (lookFrame fid ax ty body) ty hc1 e1 rfl hpk hwire
      (by rw [hn1]; exact haddr0.symm) valid0 haxv ?_ ?_ ?_ (by rw [hn1]; exact hret) ?_ ?_
    all_goals (rcases hty with rfl | rfl <;> first | decide | (intro h; exact absurd h.1 (by decide)))
  -- the state after `_net_update()`
  generalize hs2 : (sm.afterRf D1).withFrame (lookFrame fid ax ty body) = s2 at hnu
  have hc2 : s2.cur < s2.nodes.length := by rw [← hs2]; simpa using hcur
  have hn2 : s2.node = { sm.node with rf := D1.d, frameBuf := lookFrame fid ax ty body } := by
    rw [← hs2, withFrame_node _ _ hc1, hn1]
  -- the state handed to `_write`
  generalize hs5 : (sm.afterRf D1).putNode (answered sm.node D1.d fid ax ty body) = s5
  have hs5' : s5 = s2.putNode (answered sm.node D1.d fid ax ty body) := by
    rw [← hs5, ← hs2]
    unfold NetState.withFrame NetState.putNode
    rw [setNode_setNode]
    rfl
  have hc5 : s5.cur < s5.nodes.length := by rw [← hs5]; simpa [NetState.putNode, NetState.setNode] using hcur
  have hn5 : s5.node = answered sm.node D1.d fid ax ty body := by rw [← hs5]; exact node_putNode _ _ hc1
  have hd5 : s5.drv = D1 := by
    unfold NetState.drv
    rw [hn5, ← hs5]
    rfl
  have hne5 : ∀ k, k ≠ sm.cur → s5.nodeAt k = sm.nodeAt k := by
    intro k hkc
    rw [← hs5]
    unfold NetState.putNode
    rw [nodeAt_setNode, if_neg (fun h => hkc h.1), nodeAt_afterRf_ne sm D1 k hkc]
  have hq5 : Quiet s5 := by
    rw [← hs5]
    refine hquiet.of_eq (s' := (sm.afterRf D1).putNode (answered sm.node D1.d fid ax ty body))
      (by simp [NetState.putNode, NetState.setNode]) rfl rfl ?_
    intro k hk hkc hka
    unfold NetState.radioAt NetState.ridAt
    rw [hs5, hne5 k hkc, ← hs5]
    show (D1.w.radio (sm.nodeAt k).rf.rid).rxFifo = _
    have := F1.others (sm.nodeAt k).rf.rid (hrid k hk hkc)
    rw [this]
    rfl
  have hcu5 : s5.ridAt s5.cur = sm.ridAt sm.cur := by
    show s5.node.rf.rid = _
    rw [hn5]
    exact F1.rid
  have hrid5 : ∀ k, k < s5.nodes.length → k ≠ s5.cur → s5.ridAt k ≠ s5.ridAt s5.cur := by
    intro k hk hkc
    have hk' : k < sm.nodes.length := by
      rw [← hs5] at hk; simpa [NetState.putNode, NetState.setNode] using hk
    have hkc' : k ≠ sm.cur := by rw [← hs5] at hkc; exact hkc
    rw [hcu5]
    show (s5.nodeAt k).rf.rid ≠ _
    rw [hne5 k hkc']
    exact hrid k hk' hkc'
  have hridx5 : s5.ridAt x = sm.ridAt x := by
    show (s5.nodeAt x).rf.rid = _
    rw [hne5 x hxc]; rfl
  have hradx5 : s5.radioAt x = sm.radioAt x := by
    show s5.w.radio (s5.ridAt x) = _
    rw [hridx5, ← hs5]
    show D1.w.radio (sm.ridAt x) = _
    exact F1.others _ (hrid x hx hxc)
  have hw5 : ∀ i, i ≠ sm.ridAt sm.cur → s5.w.radio i = sm.w.radio i := by
    intro i hi
    rw [← hs5]
    show D1.w.radio i = _
    exact F1.others i hi
  obtain ⟨D2, e2, r2, l2, f2, N2, x2, lr2, hgot, hoth⟩ := Hops.nodeWrite_hop_plain l3contracts (f + 1) s5 L Pm Px x 5 ax ax 5
    TX_NORMAL ty Ax pk' hc5 (by rw [← hs5]; exact hclosed)
    (by rw [← hs5]; simp only [putNode_len, afterRf_len]; omega) hq5
    (by rw [hd5]; exact F1.wf hWf) (by rw [hn5, hd5]; exact N1)
    (by rw [← hs5]; simpa [NetState.putNode, NetState.setNode] using hx)
    (by rw [← hs5]; exact hxc) hrid5
    (by rw [hne5 x hxc, hradx5]; exact hNx)
    (by rw [hn5]; exact hA) hAx (by decide) (by decide) hlt
    (by rw [hradx5]; exact hroom) (by intro pid; rw [hradx5]; exact hdupx pid)
    (by
      intro i pid hi hix
      rw [hcu5] at hi
      rw [hridx5] at hix
      rw [hw5 i hi]
      exact Radio.listensTo_not_rx _ _ (by rw [hothers i hi hix]))
    (by rw [← hs5]; show D1.w.faults = []; rw [F1.faults]; exact hfaults)
    (by rw [hn5]; simp [answered, lookReply, MeshProtocol.replyBytes, MAX_FRAG_SIZE])
    (by rw [hn5]; exact hpk') (by rw [hn5]; show ax ≠ sm.node.a.addr; rw [haddr0]; exact hax0) (by rw [hn5]; rfl) (by rw [hn5]; exact hl2p)
    (Or.inl (by rcases hty with rfl | rfl <;> decide))
  refine ⟨D1, D2, ?_, F1, x1, ?_, ?_, f2, N2, by rw [x2, hd5, x1], ?_, ?_, ?_⟩
  · -- the computation
    rw [show f + 4 = (f + 3) + 1 from rfl, nodeUpdate.eq_2, nexec_bind, hnu]
    simp only []
    rw [nexec_bind, nexec_getNode]
    simp only [hn2, hkind, ne_eq, not_true_eq_false, if_false]
    have hnreq : ¬ (ty = MESH_ADDR_REQUEST ∧ (lookFrame fid ax ty body).header.reserved ≠ 0) := by
      rintro ⟨_, h⟩; exact h rfl
    have hlk : (ty = MESH_ADDR_LOOKUP ∨ ty = MESH_ID_LOOKUP) ∧
        Mesh.lookupLongEnough ty (lookFrame fid ax ty body).message = true := ⟨hty, hlong⟩
    simp only [if_neg hnreq, hid, if_true, if_pos hlk]
    rw [nexec_bind, nexec_setHdr]
    simp only []
    rw [nexec_bind, nexec_getNode]
    simp only []
    rw [node_setNode _ _ hc2, hn2]
    have hrep := Nrf.Proofs.MeshK.masterLookupReply_ok
      ({ sm.node with rf := D1.d, frameBuf := lookFrame fid ax ty body } : Node) ty hty hlong hsmall
    have hrep' : masterLookupReply
        { table := sm.node.dhcp, abandoned := decide (sm.node.a.addr = NETWORK_DEFAULT_ADDR) }
        ({ sm.node with rf := D1.d, frameBuf :=
            { (lookFrame fid ax ty body) with header :=
              { (lookFrame fid ax ty body).header with toNode := (lookFrame fid ax ty body).header.fromNode } } } : Node)
        ty = .ok (MeshProtocol.replyBytes (lookVal sm.node fid ax ty body)) := hrep
    simp only []
    rw [nexec_bind, hrep', nexec_liftPy_ok]
    simp only []
    rw [nexec_bind, nexec_modNode]
    simp only []
    have hst : (s2.setNode fun n => { n with frameBuf := { n.frameBuf with header :=
          { n.frameBuf.header with toNode := n.frameBuf.header.fromNode } } }).setNode
        (fun n => { n with frameBuf := { n.frameBuf with
          message := MeshProtocol.replyBytes (lookVal sm.node fid ax ty body) } }) = s5 := by
      rw [hs5', setNode_setNode]
      unfold NetState.putNode
      apply setNode_congr
      rw [hn2]
      rfl
    rw [hst, nexec_bind, nexec_getNode]
    simp only []
    have htn : s5.node.frameBuf.header.toNode = ax := by rw [hn5]; rfl
    rw [htn, nexec_bind, show f + 3 = (f + 1) + 2 from rfl, e2]
    simp only []
    have hn6 : (s5.afterRf D2).node = { s5.node with rf := D2.d } := afterRf_node s5 D2 hc5
    rw [nexec_bind, show f + 1 + 2 = (f + 2) + 1 from rfl, masterDhcp.eq_2, nexec_bind, nexec_getNode]
    simp only [hn6, hn5, answered, hdo, Bool.not_false, if_true, nexec_pure]
    rw [← hs5]
    simp only [answered, hdo]
  · rw [r2, hn5]; exact F1.rid
  · rw [l2, ← hs5]; show D1.w.radios.length = _; exact F1.len
  · rw [lr2, hd5]; exact F1.lastRx
  · obtain ⟨pid, hpid⟩ := hgot
    refine ⟨pid, ?_⟩
    rw [hridx5, hradx5] at hpid
    exact hpid
  · intro i hi hix
    rw [hoth i (by rw [hcu5]; exact hi) (by rw [hridx5]; exact hix), hw5 i hi]

end Nrf.Net.Join
