/-
The seven-node tree of C05ExampleSeven.lean is a `NetOk` network (every node a distinct tree node on its own radio,
listening on its six tree addresses of C04's specification, no other radio listening): all finite facts by kernel
evaluation of the constructed state.  (Builds in about a minute: each `decide +kernel` re-runs the seven constructors.)
-/
import NrfProofs.C05ExampleSeven
namespace Nrf.Net.Example
open Nrf Nrf.Net Nrf.Spec Nrf.Proofs Nrf.Props.C04

theorem seven_lt (i : Nat) (hi : i < (sevenAt 0).nodes.length) :
    i = 0 ∨ i = 1 ∨ i = 2 ∨ i = 3 ∨ i = 4 ∨ i = 5 ∨ i = 6 := by
  have h : (sevenAt 0).nodes.length = 7 := by decide +kernel
  rw [h] at hi
  omega

/-- the six listening addresses of node `i`, from the specification of C04 -/
def pipes7 (i : Nat) : List Bytes :=
  [0, 1, 2, 3, 4, 5].map (listenFn ({} : AddrCfg).pfx (sfxFn ({} : AddrCfg).sfx) ({} : AddrCfg).allowMulticast (tree7 i))

theorem seven_pipes (i : Nat) (hn : IsNode (tree7 i)) : beginPipes {} (val (tree7 i)) = .ok (pipes7 i) :=
  beginPipes_eq (cfg := {}) (sfxFn_spec rfl) hn

/-- the seven constructed nodes form a `NetOk` network (whoever is about to write) -/
theorem seven0_ok : NetOk {} L tree7 (sevenAt 0) := by
  refine ⟨by decide +kernel, by decide +kernel, ?_, ?_, ?_, ?_⟩
  · intro i hi
    rcases seven_lt i hi with rfl | rfl | rfl | rfl | rfl | rfl | rfl <;> decide +kernel
  · intro i j hi hj hij
    have h : ∀ i ∈ List.range 7, ∀ j ∈ List.range 7, i ≠ j →
        tree7 i ≠ tree7 j ∧ (sevenAt 0).ridAt i ≠ (sevenAt 0).ridAt j := by decide +kernel
    have h7 : (sevenAt 0).nodes.length = 7 := by decide +kernel
    rw [h7] at hi hj
    exact h i (List.mem_range.mpr hi) j (List.mem_range.mpr hj) hij
  · intro i hi
    rcases seven_lt i hi with rfl | rfl | rfl | rfl | rfl | rfl | rfl
    all_goals exact ⟨pipes7 _, seven_pipes _ (by decide), by decide +kernel⟩
  · intro r k hr
    have h7 : (sevenAt 0).nodes.length = 7 := by decide +kernel
    have hrid : ∀ i ∈ List.range 7, (sevenAt 0).ridAt i = i := by decide +kernel
    have hge : 7 ≤ r := by
      rcases Nat.lt_or_ge r 7 with h | h
      · exact absurd (hrid r (List.mem_range.mpr h)) (hr r (by rw [h7]; exact h))
      · exact h
    have : (sevenAt 0).w.radio r = default := by
      unfold World.radio
      have hl : (sevenAt 0).w.radios.length = 7 := by decide +kernel
      rw [List.getD_eq_getElem?_getD, List.getElem?_eq_none (by rw [hl]; exact hge)]
      rfl
    rw [this]
    exact Radio.listensTo_not_rx _ _ (by decide)

theorem seven_ok (a : Nat) : NetOk {} L tree7 (sevenAt a) :=
  ⟨seven0_ok.closed, seven0_ok.faults, seven0_ok.node, seven0_ok.inj, seven0_ok.radio, seven0_ok.spare⟩

end Nrf.Net.Example
