/-
C17, message by node ID, closed two-node system: `send(i, type, message)` called **at the master** for the ID
`i` of the node connected at `ax` (the table maps `i` to `ax`): the lookup is answered from the master's own
table without any transmission, the frame is written in one acknowledged hop to pipe 5 of that node and
waits in its RX FIFO — `True`.  (Queuing at the node's next `update()` is C05's `netUpdate_deliver`.)
-/
import NrfProofs.C17Release2

namespace Nrf.Net.Join
open Nrf Nrf.Net Nrf.Spec Nrf.Proofs

/-- the frame `write(ax, t, msg)` builds on the master -/
def sendFrame (fid ax t : Nat) (msg : Bytes) : Frame :=
  { header := { fromNode := 0, toNode := ax, frameId := fid, msgType := .int t, reserved := 0 }, message := msg }

theorem send_by_id_closed (s : NetState) (L : LinkCfg) (Pm Px : List Bytes) (m x ax i t : Nat) (Ax msg : Bytes)
    (hlen : s.nodes.length = 2) (hm : m < 2) (hx : x < 2) (hmx : m ≠ x)
    (hcur : s.cur = m) (hact : s.active = [m]) (hclosed : s.closed = true) (hfaults : s.w.faults = [])
    (hridm : s.ridAt m < s.w.radios.length) (hridne : s.ridAt m ≠ s.ridAt x)
    (hothers : ∀ j, j ≠ s.ridAt m → j ≠ s.ridAt x → (s.w.radio j).rxMode = false)
    (hNm : NodeRadio L Pm true true 0x3E (s.nodeAt m).rf (s.radioAt m))
    (hNx : NodeRadio L Px true true 0x3E (s.nodeAt x).rf (s.radioAt x))
    (hfx : (s.radioAt x).rxFifo = [])
    (hAx : Px[5]? = some Ax) (hltx : ∀ q, q < 5 → Px[q]? ≠ some Ax)
    (hkind : (s.nodeAt m).kind = .meshMaster) (hid : (s.nodeAt m).nodeId = 0) (hmaddr : (s.nodeAt m).a.addr = 0)
    (hmaxl : msg.length ≤ (s.nodeAt m).maxMessageLength) (hmsg : msg.length ≤ MAX_FRAG_SIZE)
    (hml2p : logi2phys (s.nodeAt m).a ax TX_NORMAL = (ax, 5, false))
    (hmcfg : pipeAddress (s.nodeAt m).cfg ax 5 = .ok Ax)
    (hax : ax < 4096) (haxv : isValid ax = true) (hax0 : ax ≠ 0)
    (hi0 : i ≠ 0) (hlease : MeshProtocol.tableAddress (s.nodeAt m).dhcp i = (ax : Int)) (ht : t ≤ 127)
    (hdupx : NotDupFrame (s.radioAt x) (sendFrame s.nextId ax t msg)) :
    ∃ s2 pk pid, nexec (meshSend i (t : Int) msg) s = (.ok true, s2) ∧
      (sendFrame s.nextId ax t msg).pack = .ok pk ∧
      s2.radioAt x = (s.radioAt x).withRx [{ pipe := 5, data := pk }] { pid := pid, addr := Ax, data := pk } ∧
      s2.nodeAt x = s.nodeAt x ∧ (s2.nodeAt m).dhcp = (s.nodeAt m).dhcp ∧ s2.cur = m ∧ s2.active = [m] ∧
      s2.nodes.length = 2 ∧ s2.closed = true ∧ s2.w.radios.length = s.w.radios.length ∧
      (s2.radioAt m).rxFifo = (s.radioAt m).rxFifo := by
  have hcl : s.cur < s.nodes.length := by rw [hcur, hlen]; exact hm
  have hnode : s.node = s.nodeAt m := by rw [node_eq_nodeAt, hcur]
  have two : ∀ k, k < 2 → k = m ∨ k = x := by omega
  obtain ⟨pk, hpk⟩ := pack_ok (sendFrame s.nextId ax t msg) t rfl
  generalize hs0 : ({ s with nextId := (s.nextId + 1) &&& 0xFFFF } : NetState) = s0
  have s0cur : s0.cur = m := by rw [← hs0]; exact hcur
  have s0c : s0.cur < s0.nodes.length := by rw [← hs0]; exact hcl
  generalize hsB : s0.withFrame (sendFrame s.nextId ax t msg) = sB
  have sBc : sB.cur < sB.nodes.length := by rw [← hsB]; simpa using s0c
  have sBcur : sB.cur = m := by rw [← hsB]; exact s0cur
  have sBlen : sB.nodes.length = 2 := by rw [← hsB]; simp only [withFrame_len]; rw [← hs0]; exact hlen
  have sBrad : ∀ k, sB.radioAt k = s.radioAt k := by intro k; rw [← hsB, radioAt_withFrame, ← hs0]; rfl
  have sBrf : ∀ k, (sB.nodeAt k).rf = (s.nodeAt k).rf := by intro k; rw [← hsB, rf_withFrame, ← hs0]; rfl
  have sBrid : ∀ k, sB.ridAt k = s.ridAt k := by intro k; show (sB.nodeAt k).rf.rid = _; rw [sBrf]; rfl
  have sBx : sB.nodeAt x = s.nodeAt x := by
    rw [← hsB, nodeAt_withFrame_ne _ _ _ (by rw [s0cur]; exact fun h => hmx h.symm), ← hs0]; rfl
  have sBnode : sB.node = { s.nodeAt m with frameBuf := sendFrame s.nextId ax t msg } := by
    rw [← hsB, withFrame_node _ _ s0c, node_eq_nodeAt, s0cur, ← hs0]; rfl
  have sBw : sB.w = s.w := by rw [← hsB, ← hs0]; rfl
  have sBdrvr : sB.drv.radio = s.radioAt m := by
    show sB.w.radio sB.node.rf.rid = _
    rw [sBnode, sBw]; rfl
  have hq : Quiet sB := by
    intro k hk hkc hka
    rcases two k (by rw [← sBlen]; exact hk) with rfl | rfl
    · exact absurd sBcur.symm hkc
    · rw [sBrad]; exact hfx
  have hrid : ∀ k, k < sB.nodes.length → k ≠ sB.cur → sB.ridAt k ≠ sB.ridAt sB.cur := by
    intro k hk hkc
    rcases two k (by rw [← sBlen]; exact hk) with rfl | rfl
    · exact absurd sBcur.symm hkc
    · rw [sBcur, sBrid, sBrid]; exact fun h => hridne h.symm
  obtain ⟨D1, e1, r1, l1, fl1, N1, x1, lr1, ⟨pid1, hgot1⟩, hoth1⟩ := nodeWrite_direct l3contracts (200000 - 2) sB L Pm Px
    x 5 ax 5 t Ax pk sBc (by rw [← hsB, ← hs0]; exact hclosed) (by rw [sBlen]; decide) hq
    (by show sB.node.rf.rid < sB.w.radios.length; rw [sBnode, sBw]; exact hridm)
    (by rw [sBnode, sBdrvr]; exact hNm) (by rw [sBlen]; exact hx) (by rw [sBcur]; exact fun h => hmx h.symm)
    (by rw [← hsB, ← hs0]; show x ∉ s.active; rw [hact]; simp; exact fun h => hmx h.symm) hrid
    (by rw [sBx, sBrad]; exact hNx)
    (by rw [sBnode]; exact hmcfg) hAx (by decide) (by decide) hltx
    (by
      intro l hl e
      rw [sBrad] at hl
      exact hdupx l hl (by rw [e]; exact hpk))
    (by
      intro j pid hj hjx
      rw [sBcur, sBrid] at hj
      rw [sBrid] at hjx
      rw [sBw]
      exact Radio.listensTo_not_rx _ _ (by rw [hothers j hj hjx]))
    (by rw [sBw]; exact hfaults) (by rw [sBnode]; exact hmsg) (by rw [sBnode]; exact hpk)
    (by rw [sBnode]; show ax ≠ (s.nodeAt m).a.addr; rw [hmaddr]; exact hax0)
    (by rw [sBnode]; rfl) (by rw [sBnode]; exact hml2p)
  have hne : x ≠ sB.cur := by rw [sBcur]; exact fun h => hmx h.symm
  refine ⟨sB.afterRf D1, pk, pid1, ?_, hpk, ?_, ?_, ?_, sBcur, by rw [← hsB, ← hs0]; exact hact,
    by simp only [afterRf_len]; exact sBlen, by rw [← hsB, ← hs0]; exact hclosed,
    by show D1.w.radios.length = _; rw [l1, sBw],
    by rw [← sBcur, radioAt_afterRf_cur sB D1 sBc, x1, sBdrvr, sBcur]⟩
  · -- the computation
    have h := Nrf.Proofs.MeshK.nexec_meshSend i (t : Int) msg s
    have hd : ¬ (s.node.a.addr = NETWORK_DEFAULT_ADDR) := by rw [hnode, hmaddr]; decide
    have h2 : i ≠ 0 ∧ i ≠ s.node.nodeId := ⟨hi0, by rw [hnode, hid]; exact hi0⟩
    have h' : nexec (meshSend i (t : Int) msg) s =
        match nexec (sendLookupLoop i (115 * 1000000 + s.w.clock) 1000 5) s with
        | (.error e, s1) => (.error e, s1)
        | (.ok none, s1) => (.ok false, s1)
        | (.ok (some a), s1) => nexec (meshWrite a.toNat (t : Int) msg) s1 := by
      have h3 : ¬ ((Nrf.NetK.curNode s).a.addr = NETWORK_DEFAULT_ADDR) := hd
      have h4 : i ≠ 0 ∧ i ≠ (Nrf.NetK.curNode s).nodeId := h2
      rw [if_neg h3, if_pos h4] at h
      exact h
    have hloop : nexec (sendLookupLoop i (115 * 1000000 + s.w.clock) 1000 5) s = (.ok (some (ax : Int)), s) := by
      rw [show (1000 : Nat) = 999 + 1 from rfl, sendLookupLoop.eq_2]
      unfold meshLookupAddress
      have hi' : ¬ ((i : Int) = 0) := by omega
      have hmst : s.node.kind = .meshMaster ∧ s.node.nodeId = 0 := by rw [hnode]; exact ⟨hkind, hid⟩
      have hdl : ¬ (s.w.clock ≥ 115 * 1000000 + s.w.clock) := by omega
      have hneg : ¬ ((ax : Int) < 0) := by omega
      simp only [nexec_bind, nexec_getNode, if_neg hi', if_neg hd, if_pos hmst, nexec_pure, nexec_nowNs, if_neg hdl,
        Int.toNat_natCast]
      rw [Nrf.Proofs.MeshK.getAddress_addr, hnode, hlease]
      simp only [if_neg hneg, nexec_pure]
    rw [h', hloop]
    simp only [Int.toNat_natCast]
    unfold meshWrite nodeValidateMsgLen
    have hlen' : ¬ (msg.length > s.node.maxMessageLength) := by rw [hnode]; omega
    have hfr : ¬ (msg.length > MAX_FRAG_SIZE ∧ (!s.node.fragEnabled) = true) := fun hh => by omega
    have hv : ¬ (s.node.a.addr = NETWORK_DEFAULT_ADDR ∨ (!isValid ax) = true) := by
      rw [haxv]; simp [hd]
    simp only [nexec_bind, nexec_getNode, if_neg hlen', if_neg hfr, nexec_pure, if_true, if_neg hv, nexec_takeId,
      nexec_modNode]
    have hmask : maskInt (t : Int) 255 = t := by
      have := (userType_mask (t : Int) ⟨Int.natCast_nonneg _, by omega⟩).1
      rw [Int.toNat_natCast] at this
      exact this
    have hz : ax &&& 4095 = ax := by rw [and_fff]; omega
    rw [hmask, hz]
    generalize hX : NetState.setNode _ _ = X
    have hst : X = sB := by
      rw [← hX, ← hsB, ← hs0]
      unfold NetState.withFrame sendFrame
      rw [hnode, hmaddr]
    rw [hst, show F = 200000 - 2 + 2 from rfl, e1]
  · rw [radioAt_afterRf_ne _ _ _ hne, hgot1, sBrad, hfx]; rfl
  · rw [nodeAt_afterRf_ne _ _ _ hne, sBx]
  · have : ((sB.afterRf D1).nodeAt m).dhcp = ((sB.afterRf D1).nodeAt m).body.dhcp := rfl
    rw [this, body_afterRf]
    have : sB.nodeAt m = sB.node := by rw [node_eq_nodeAt, sBcur]
    rw [this, sBnode]
    rfl

end Nrf.Net.Join

namespace Nrf.Net.Join
open Nrf Nrf.Net Nrf.Spec Nrf.Proofs

theorem sendFrame_wire (fid ax t : Nat) (msg : Bytes) (hax : ax < 4096) (hfid : fid < 65536) (ht : t ≤ 127) :
    wireCopy (sendFrame fid ax t msg) = sendFrame fid ax t msg := by
  unfold wireCopy sendFrame
  simp only [Header.ty]
  have e1 : ax &&& 0xFFF = ax := by rw [and_fff]; omega
  have e2 : fid &&& 0xFFFF = fid := by rw [and_ffff]; omega
  have e3 : t &&& 0xFF = t := by rw [and_ff]; omega
  rw [e1, e2, e3]
  rfl

/-- **the addressed node's next `update()` queues the frame** (a top-level call entered through
    `NetState.turn`, from a state as `send_by_id_closed` leaves it). -/
theorem send_queued_closed (s2 : NetState) (L : LinkCfg) (Px : List Bytes) (m x ax fid t pid : Nat) (Ax msg pk : Bytes)
    (Rx : Radio)
    (hlen : s2.nodes.length = 2) (hm : m < 2) (hx : x < 2) (hmx : m ≠ x)
    (hcur : s2.cur = m) (hclosed : s2.closed = true)
    (hridx : s2.ridAt x < s2.w.radios.length)
    (hNx : NodeRadio L Px true true 0x3E (s2.nodeAt x).rf Rx)
    (hradx : s2.radioAt x = Rx.withRx [{ pipe := 5, data := pk }] { pid := pid, addr := Ax, data := pk })
    (hfm : (s2.radioAt m).rxFifo = [])
    (hkind : (s2.nodeAt x).kind ≠ .meshMaster) (hxaddr : (s2.nodeAt x).a.addr = ax)
    (harrx : (s2.nodeAt x).arrivals = [])
    (hroom : ((s2.nodeAt x).queue.frames.length : Int) < (s2.nodeAt x).queue.maxSize)
    (hnew : ∀ g ∈ (s2.nodeAt x).queue.frames, ¬ (g.header.fromNode = 0 ∧ g.header.frameId = fid ∧ g.header.ty = t))
    (hax : ax < 4096) (haxv : isValid ax = true) (hfid : fid < 65536) (ht : t ≤ 127)
    (hmsg : msg.length ≤ MAX_FRAG_SIZE) (hpk : (sendFrame fid ax t msg).pack = .ok pk) :
    ∃ s3, nexec (nodeUpdate F) (s2.turn x) = (.ok t, s3) ∧
      (s3.nodeAt x).queue.frames = (s2.nodeAt x).queue.frames ++ [sendFrame fid ax t msg] ∧
      (s3.radioAt x).rxFifo = [] := by
  have hxc : x ≠ s2.cur := by rw [hcur]; exact fun h => hmx h.symm
  have two : ∀ k, k < 2 → k = m ∨ k = x := by omega
  have hwire := sendFrame_wire fid ax t msg hax hfid ht
  generalize hsx : s2.turn x = sx
  have sxcur : sx.cur = x := by rw [← hsx]; rfl
  have sxlen : sx.nodes.length = 2 := by
    rw [← hsx]; show (s2.setNode _).nodes.length = 2
    simpa [NetState.setNode] using hlen
  have sxc : sx.cur < sx.nodes.length := by rw [sxcur, sxlen]; exact hx
  have sxnode : sx.node = s2.nodeAt x := by
    rw [node_eq_nodeAt, sxcur, ← hsx]; exact turn_nodeAt_ne s2 x x hxc
  have sxrad : ∀ k, sx.radioAt k = s2.radioAt k := by intro k; rw [← hsx]; exact turn_radioAt s2 x k
  have sxdrvr : sx.drv.radio = s2.radioAt x := by
    show sx.w.radio sx.node.rf.rid = _
    rw [sxnode, ← hsx]; rfl
  have e3 : t &&& 0xFF = t := by rw [and_ff]; omega
  obtain ⟨D1, D2, e, F1, F2, N2, x2⟩ := netUpdate_deliver l3contracts (200000 - 4) sx L Px 5 pk (sendFrame fid ax t msg) t
    sxc (by rw [← hsx]; exact hclosed) (by rw [sxlen]; decide)
    (by
      intro k hk hkc hka
      rcases two k (by rw [← sxlen]; exact hk) with rfl | rfl
      · rw [sxrad]; exact hfm
      · exact absurd sxcur.symm hkc)
    (by show sx.node.rf.rid < sx.w.radios.length
        rw [sxnode, ← hsx]; exact hridx)
    (by rw [sxnode, sxdrvr, hradx]; exact hNx.withRx 5 pk _ (by decide))
    (by rw [sxnode]; exact harrx) (by rw [sxdrvr, hradx]; rfl) (by decide) rfl hpk hmsg
    (by rw [hwire, sxnode, hxaddr]; rfl) (by rw [hwire]; exact haxv) (by rw [hwire]; exact valid0)
    (by rw [e3]; exact ht) (by rw [sxnode]; exact hroom)
    (by rw [hwire, sxnode]; exact hnew)
  rw [hwire, e3] at e
  generalize hs3 : (((sx.afterRf D1).withFrame (sendFrame fid ax t msg)).enqueued (sendFrame fid ax t msg)).afterRf D2 = s3 at e
  have h3c : s3.cur = x := by rw [← hs3]; exact sxcur
  have hc1 : (sx.afterRf D1).cur < (sx.afterRf D1).nodes.length := by simpa using sxc
  have hcw : ((sx.afterRf D1).withFrame (sendFrame fid ax t msg)).cur <
      ((sx.afterRf D1).withFrame (sendFrame fid ax t msg)).nodes.length := by simpa using sxc
  have hce : (((sx.afterRf D1).withFrame (sendFrame fid ax t msg)).enqueued (sendFrame fid ax t msg)).cur <
      (((sx.afterRf D1).withFrame (sendFrame fid ax t msg)).enqueued (sendFrame fid ax t msg)).nodes.length := by
    show sx.cur < (NetState.setNode _ _).nodes.length
    simpa [NetState.setNode, NetState.withFrame] using sxc
  have h3node : s3.node = { (((sx.node).pushFrame (sendFrame fid ax t msg))) with rf := D2.d } := by
    rw [← hs3, afterRf_node _ _ hce, enqueued_node _ _ hcw, withFrame_node _ _ hc1, afterRf_node _ _ sxc]
    rfl
  refine ⟨s3, ?_, ?_, ?_⟩
  · rw [show F = (200000 - 4 + 3) + 1 from rfl, nodeUpdate.eq_2, nexec_bind, e]
    simp only []
    rw [nexec_bind, nexec_getNode]
    have hk3 : s3.node.kind ≠ .meshMaster := by rw [h3node]; show sx.node.kind ≠ _; rw [sxnode]; exact hkind
    simp only [hk3, ne_eq, not_false_eq_true, if_true, nexec_pure]
  · have : s3.nodeAt x = s3.node := by rw [node_eq_nodeAt, h3c]
    rw [this, h3node]
    show sx.node.queue.frames ++ _ = _
    rw [sxnode]
  · have : s3.radioAt x = s3.drv.radio := by
      show s3.w.radio (s3.nodeAt x).rf.rid = s3.w.radio s3.node.rf.rid
      rw [node_eq_nodeAt, h3c]
    rw [this, ← hs3]
    have := radioAt_afterRf_cur (((sx.afterRf D1).withFrame (sendFrame fid ax t msg)).enqueued (sendFrame fid ax t msg)) D2 hce
    show (NetState.drv (NetState.afterRf _ D2)).radio.rxFifo = []
    rw [afterRf_drv _ D2 hce]
    exact x2

end Nrf.Net.Join
