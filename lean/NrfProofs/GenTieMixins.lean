/-
Tie between the GENERATED translations of `network/mixins.py: _lvl_2_addr` and
`NetworkMixin._logi_2_phys` (`NrfGen/Mixins.lean`, rewritten from the current source by
`tools/py2lean.py` on every run; the method's reads of `self._addr`, `self._mask`, `self._mask_inv`,
`self._parent`, `self._parent_pipe` are parameters) and the model functions `Net.lvl2addr`,
`Net.logi2phys`.
-/
import NrfModel.Net.Addr
import NrfGen.Mixins

namespace Nrf.Proofs.GenTie
open Nrf Nrf.Net

/-- **GenTie, `_lvl_2_addr`**: for every non-negative `int`; in particular the subtraction `level - 1` is
    only evaluated for `level ≥ 1` (no `negative` outcome) -/
theorem GenTie_lvl_2_addr (level : Nat) : Gen._lvl_2_addr level = .ok (lvl2addr level) := by
  unfold Gen._lvl_2_addr lvl2addr Gen.subNat
  by_cases h : level = 0
  · subst h; rfl
  · have h1 : 1 ≤ level := Nat.one_le_iff_ne_zero.mpr h
    simp [h, h1, bind, Except.bind, pure, Except.pure]

example : Gen._lvl_2_addr 0 = .ok 0 ∧ Gen._lvl_2_addr 3 = .ok 0o100 := ⟨rfl, rfl⟩

/-- **GenTie, `_logi_2_phys`** (with the default `is_multicast=False`, the only way the library calls it):
    for every node object (`self._addr`, `_mask`, `_mask_inv`, `_parent`, `_parent_pipe` = the fields of the
    model's `NodeAddr`, ANY values — not only those `_begin` computes), every `to_node` and `send_type` -/
theorem GenTie_logi_2_phys (n : NodeAddr) (toNode sendType : Nat) :
    Gen._logi_2_phys n.addr n.mask n.maskInv n.parent n.parentPipe toNode sendType false
      = logi2phys n toNode sendType := by
  unfold Gen._logi_2_phys logi2phys
  simp only [TX_ROUTED]
  by_cases h1 : sendType > 1
  · simp [h1]
  · by_cases h2 : toNode &&& n.mask = n.addr
    · by_cases h3 : toNode &&& (n.maskInv <<< 3) = 0 <;> simp [h1, h2, h3]
    · simp [h1, h2]

/-- all four branches are taken on a concrete node (`0o12`: mask `0o77`, parent `0o2`, parent pipe 1):
    multicast, direct child, descendant of a child, towards the parent -/
example :
    Gen._logi_2_phys 0o12 0o77 0o177700 0o2 1 0o100 4 false = (0o100, 0, true)
    ∧ Gen._logi_2_phys 0o12 0o77 0o177700 0o2 1 0o312 0 false = (0o312, 5, false)
    ∧ Gen._logi_2_phys 0o12 0o77 0o177700 0o2 1 0o4312 0 false = (0o312, 5, false)
    ∧ Gen._logi_2_phys 0o12 0o77 0o177700 0o2 1 0o3 0 false = (0o2, 1, false) := ⟨rfl, rfl, rfl, rfl⟩

end Nrf.Proofs.GenTie
