/-
C02 helper lemmas, part 8: NEGATIVE `force_retry` in `send()`.

Python: `while force_retry and not result: result = self.resend(send_only); force_retry -= 1` — a
negative `force_retry` never reaches 0, so the loop ends only when a `resend()` succeeds.  The model
(`forceRetryLoop`) takes fuel and returns `.error .diverge` when it runs out.  Here: for EVERY fuel
`F`, from a pending failed transmission, the loop returns (a truthy result) iff one of the first
`F - 1` cycles succeeds, and `.error .diverge` otherwise — it never returns `False`; hence when no
cycle can succeed (nobody acknowledges audibly) it diverges for every fuel: non-termination.
-/
import NrfProofs.C02Hist

namespace Nrf
open Rf24 Spec.Link

/-- **the retry loop with a negative counter, for every fuel** -/
theorem retry_loop_neg (R : Radio) (e : TxEntry) (k : Packet) (sendOnly : Bool) (hp : R.Ptx) :
    ∀ (F : Nat) (n : Int), n < 0 → ∀ s : DrvState, FailedSt R e k s → s.d.status = s.rad.status → AckEnv R k s →
      (retryOk (R.awaitsAck e) (ackedR R s.w s.d.rid k) (World.arcOf R + 1) (F - 1) s.w.faults = true →
        ∃ s', exec (forceRetryLoop sendOnly F n (.bool false)) s =
            (.ok (okResult sendOnly (ackTaken (R.awaitsAck e) (s.w.deliver s.d.rid k).2 R.ackPayRx true)), s') ∧
          Settled R sendOnly (okResult sendOnly (ackTaken (R.awaitsAck e) (s.w.deliver s.d.rid k).2 R.ackPayRx true)) s') ∧
      (retryOk (R.awaitsAck e) (ackedR R s.w s.d.rid k) (World.arcOf R + 1) (F - 1) s.w.faults = false →
        (exec (forceRetryLoop sendOnly F n (.bool false)) s).1 = .error .diverge) := by
  intro F
  induction F with
  | zero =>
    intro n _ s _ _ _
    refine ⟨fun hc => by simp [retryOk] at hc, fun _ => rfl⟩
  | succ f ih =>
    intro n hn s h hfresh henv
    have hstep : ((n != 0) && falsy (.bool false)) = true := by
      simp [falsy]; omega
    rw [exec_forceRetryLoop_step _ _ _ _ _ hstep]
    obtain ⟨s1, h1, h2, h3, h4⟩ := resend_spec R e k s sendOnly hp h henv
    rw [exec_bind, h1]
    simp only [Nat.add_sub_cancel]
    cases hok : cycleOkSpec (R.awaitsAck e) (ackedR R s.w s.d.rid k) s.w.faults (World.arcOf R + 1) with
    | true =>
      simp only [↓reduceIte]
      have hs := h4 hok
      have hne : falsy (okResult sendOnly (ackTaken (R.awaitsAck e) (s.w.deliver s.d.rid k).2 R.ackPayRx true)) = false :=
        falsy_okResult _ _ (fun d hd => ackTaken_nonempty _ _ _ _ henv.nonempty d hd)
      cases f with
      | zero =>
        refine ⟨fun hc => by simp [retryOk] at hc, fun _ => rfl⟩
      | succ f' =>
        refine ⟨fun _ => ⟨s1, ?_, hs⟩, fun hc => ?_⟩
        · rw [exec_forceRetryLoop_stop _ _ _ _ _ (by rw [hne]; simp)]
        · simp [retryOk, hok] at hc
    | false =>
      simp only [Bool.false_eq_true, ↓reduceIte]
      obtain ⟨hf1, hfr1⟩ := h3 hok
      have henv1 := henv.run h2
      have hatt : cycleAttemptsSpec (R.awaitsAck e) (ackedR R s.w s.d.rid k) s.w.faults (World.arcOf R + 1)
          = World.arcOf R + 1 := cycleAttemptsSpec_failed _ _ _ _ hok
      have hfa : s1.w.faults = s.w.faults.drop (World.arcOf R + 1) := by rw [h2.sent.faults, hatt]
      have hak : ackedR R s1.w s1.d.rid k = ackedR R s.w s.d.rid k := by
        rw [h2.rid]; exact ackedR_ackMap _ _ _ _ _ h2.sent.ackMap
      have hdl : (s1.w.deliver s1.d.rid k).2 = (s.w.deliver s.d.rid k).2 := by
        rw [h2.rid]; exact deliver_snd_ackMap_eq _ _ _ _ h2.sent.ackMap
      obtain ⟨g1, g2⟩ := ih (n - 1) (by omega) s1 hf1 hfr1 henv1
      rw [hfa, hak] at g1 g2
      rw [hdl] at g1
      cases f with
      | zero =>
        refine ⟨fun hc => by simp [retryOk] at hc, fun _ => rfl⟩
      | succ f' =>
        simp only [Nat.add_sub_cancel] at g1 g2
        have hro : retryOk (R.awaitsAck e) (ackedR R s.w s.d.rid k) (World.arcOf R + 1) (f' + 1) s.w.faults =
            retryOk (R.awaitsAck e) (ackedR R s.w s.d.rid k) (World.arcOf R + 1) f' (s.w.faults.drop (World.arcOf R + 1)) := by
          conv => lhs; unfold retryOk
          rw [hok, Bool.false_or]
        rw [hro]
        exact ⟨g1, g2⟩

/-- nobody acknowledges audibly while an acknowledgement is awaited: no number of cycles succeeds -/
theorem retryOk_unacked (N n : Nat) (F : List Outcome) : retryOk true false N n F = false := by
  induction n generalizing F with
  | zero => rfl
  | succ n ih => unfold retryOk; rw [ih]; rfl

/-- after a failed first cycle `send()` with a negative `force_retry` runs the loop with fuel
    `|force_retry| + 1` -/
theorem sendRest_failed_neg (s : DrvState) (caller : Bytes) (k : Nat) (sendOnly : Bool)
    (h20 : ¬ (s.d.status &&& 0x20 ≠ 0)) :
    (∀ res s', exec (forceRetryLoop sendOnly (k + 2) (-((k + 1 : Nat) : Int)) (.bool false)) s = (.ok res, s') →
      (res = .bool true → ¬ (s'.d.status &&& 0x60 = 0x60 ∧ (!sendOnly) = true)) →
      exec (sendRest caller (-((k + 1 : Nat) : Int)) sendOnly) s = (.ok (res, caller), s')) ∧
    ((exec (forceRetryLoop sendOnly (k + 2) (-((k + 1 : Nat) : Int)) (.bool false)) s).1 = .error .diverge →
      (exec (sendRest caller (-((k + 1 : Nat) : Int)) sendOnly) s).1 = .error .diverge) := by
  have hna : ((-((k + 1 : Nat) : Int)).natAbs + 1) = k + 2 := by omega
  refine ⟨fun res s' hloop hno => ?_, fun hdiv => ?_⟩
  · unfold sendRest
    simp only [exec_bind, exec_getD, h20, decide_false, hna, hloop]
    by_cases hr : res = .bool true
    · have := hno hr
      simp only [hr, true_and, this, ↓reduceIte, exec_pure]
    · simp only [hr, false_and, ↓reduceIte, exec_pure]
  · unfold sendRest
    simp only [exec_bind, exec_getD, h20, decide_false, hna]
    rcases hx : exec (forceRetryLoop sendOnly (k + 2) (-((k + 1 : Nat) : Int)) (.bool false)) s with ⟨r, s'⟩
    rw [hx] at hdiv
    simp only at hdiv
    subst hdiv
    rfl

theorem send_neg_aux (s : DrvState) (buf : Bytes) (m askNoAck : Bool) (k : Nat) (sendOnly : Bool)
    (h : SendPre s buf sendOnly) (e : TxEntry) (pk : Packet) (he : txEntryOf askNoAck (writeBytes s.d buf) = e)
    (hk : s.rad.packetFor e = pk) (henv : AckEnv s.rad pk s) :
    (exec (send buf m askNoAck (-((k + 1 : Nat) : Int)) sendOnly) s).1 =
      if retryOk (s.rad.awaitsAck e) (ackedR s.rad s.w s.d.rid pk) (World.arcOf s.rad + 1) (k + 1 + 1) s.w.faults
      then .ok (okResult sendOnly (ackTaken (s.rad.awaitsAck e) (s.w.deliver s.d.rid pk).2 s.rad.ackPayRx true), buf)
      else .error .diverge := by
  obtain ⟨s5, harm, hrel, hrx, hst, hpid, hex⟩ := send_arm s buf m askNoAck (-((k + 1 : Nat) : Int)) sendOnly h
  rw [he] at harm hrel hpid
  rw [hk] at harm hrel
  have hrun5 : Run pk s.rad s s5 0 4 := Run.ofRel hrel
  have henv5 := henv.run hrun5
  have hfa : s5.w.faults = s.w.faults := hrel.kept.faults
  have hak : ackedR s.rad s5.w s5.d.rid pk = ackedR s.rad s.w s.d.rid pk := by
    rw [hrel.rid]; exact ackedR_ackMap _ _ _ _ _ hrel.kept.ackMap
  have hdl : (s5.w.deliver s5.d.rid pk).2 = (s.w.deliver s.d.rid pk).2 := by
    rw [hrel.rid]; exact deliver_snd_ackMap_eq _ _ _ _ hrel.kept.ackMap
  rw [hex, exec_sendFire s.rad e pk s5 buf _ sendOnly h.ptx harm hst]
  obtain ⟨s6, f1, f2, f3, f4⟩ := armed_finish s.rad e pk s5 sendOnly harm henv5 hrx
  rw [hfa, hak] at f1 f2 f3 f4
  rw [hdl] at f1 f4
  obtain ⟨_, hd6, _⟩ := fire_common s.rad e pk s5 harm
  have hfresh6 : (s5.fired e).d.status = (s5.fired e).rad.status := by rw [hd6]
  have hflag := fired_flag s.rad e pk s5 harm
  obtain ⟨hfail, hsucc⟩ := fired_cases s.rad e pk s5 harm
  rw [acked_eq_ackedR s.rad s5 pk harm.regs, hfa, hak] at hfail hsucc
  unfold retryOk
  cases hok : cycleOkSpec (s.rad.awaitsAck e) (ackedR s.rad s.w s.d.rid pk) s.w.faults (World.arcOf s.rad + 1) with
  | true =>
    simp only [Bool.true_or, ↓reduceIte]
    obtain ⟨_, hp6, hfl6, _, _⟩ := hsucc hok
    have h20 : (s5.fired e).d.status &&& 0x20 ≠ 0 := by
      rw [hfresh6, (Radio.status_decodeP _ hp6).2.2.2.2.1, hfl6]
      split <;> decide
    rw [sendRest_ok _ _ _ _ hflag h20, f1]
    simp only [liftRes, hok, ↓reduceIte]
  | false =>
    simp only [Bool.false_or]
    obtain ⟨hs6, hf6, hfr6⟩ := f3 hok
    subst hs6
    have h20 : ¬ ((s5.fired e).d.status &&& 0x20 ≠ 0) := by
      rw [hfresh6, (Radio.status_decodeP _ hf6.pipes).2.2.2.2.1, hf6.flags]; decide
    have henv6 := henv5.run f2
    rw [hpid] at hf6
    have hatt : cycleAttemptsSpec (s.rad.awaitsAck e) (ackedR s.rad s.w s.d.rid pk) s.w.faults (World.arcOf s.rad + 1)
        = World.arcOf s.rad + 1 := cycleAttemptsSpec_failed _ _ _ _ hok
    have hfa6 : (s5.fired e).w.faults = s.w.faults.drop (World.arcOf s.rad + 1) := by
      rw [f2.sent.faults, hfa, hatt]
    have hrid6 : (s5.fired e).d.rid = s.d.rid := by rw [f2.rid, hrel.rid]
    have hak6 : ackedR s.rad (s5.fired e).w (s5.fired e).d.rid pk = ackedR s.rad s.w s.d.rid pk := by
      rw [← hak, hrid6, ← hrel.rid]; exact ackedR_ackMap _ _ _ _ _ f2.sent.ackMap
    have hdl6 : ((s5.fired e).w.deliver (s5.fired e).d.rid pk).2 = (s.w.deliver s.d.rid pk).2 := by
      rw [← hdl, hrid6, ← hrel.rid]; exact deliver_snd_ackMap_eq _ _ _ _ f2.sent.ackMap
    have haw : s.rad.awaitsAck (e.withPid (s.rad.pidFor e)) = s.rad.awaitsAck e := rfl
    obtain ⟨g1, g2⟩ := retry_loop_neg s.rad _ pk sendOnly h.ptx (k + 2) (-((k + 1 : Nat) : Int)) (by omega)
      (s5.fired e) hf6 hfr6 henv6
    rw [hfa6, hak6, haw] at g1 g2
    rw [hdl6] at g1
    have e21 : k + 2 - 1 = k + 1 := rfl
    try rw [e21] at g1 g2
    obtain ⟨q1, q2⟩ := sendRest_failed_neg (s5.fired e) buf k sendOnly h20
    cases hro : retryOk (s.rad.awaitsAck e) (ackedR s.rad s.w s.d.rid pk) (World.arcOf s.rad + 1) (k + 1)
        (s.w.faults.drop (World.arcOf s.rad + 1)) with
    | true =>
      obtain ⟨s7, l1, l2⟩ := g1 hro
      rw [q1 _ s7 l1 (fun hr => l2.noRead hr)]
      simp only [↓reduceIte]
    | false =>
      rw [q2 (g2 hro)]
      simp only [Bool.false_eq_true, ↓reduceIte]

/-- **`send()` with a negative `force_retry = -(k+1)`**, for every fault pattern and world: it behaves
    like `force_retry = k + 1` wherever that returns a success, and where `force_retry = k + 1`
    returns `False` it is STILL LOOPING when the model's fuel (`|force_retry| + 1` iterations) runs out:
    `.error .diverge` — it never returns `False` -/
theorem send_neg (s : DrvState) (buf : Bytes) (m askNoAck : Bool) (k : Nat) (sendOnly : Bool)
    (h : SendPre s buf sendOnly) (henv : AckEnv s.rad (s.sendPacket askNoAck buf) s) :
    (exec (send buf m askNoAck (-((k + 1 : Nat) : Int)) sendOnly) s).1 =
      if sendSucceedsB (s.sendAwaits askNoAck buf) (s.sendAcked askNoAck buf) s.w.faults (World.arcOf s.rad) (k + 1)
      then .ok (okResult sendOnly (s.sendAckPayload askNoAck buf), buf) else .error .diverge := by
  rw [sendSucceedsB_eq]
  exact send_neg_aux s buf m askNoAck k sendOnly h _ _ rfl rfl henv

end Nrf
